import AdaptaVerif.Num.HexFloat
