import Driver.Proto
namespace Driver.C09

def run (_args : List String) : IO UInt32 := do
  IO.eprintln "driver mode c09: not implemented yet"
  return 2

end Driver.C09
