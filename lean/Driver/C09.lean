import Driver.Proto
import AdaptaVerif.Model.Scanline
import AdaptaVerif.Check.Rects
/-!
Driver mode `c09` (see harness/c09.cpp for the line format).

(a) constraint generation, three modes (cy = generateYConstraints, cx0/cx1 =
    generateXConstraints without / with neighbour lists):
    * the model is run with rank = variable id (CmpNodePos breaks ties between equal centres by
      variable id; the harness passes distinct ids) and the stable event order.  On order-free
      input (no two Close events at one position for cy/cx0, no two Open events at one position
      for cx1 - the only place where qsort's unspecified order of same-type events can change
      the multiset) the implementation's constraint multiset must equal the model's exactly →
      else DIVERGE; coincident centres are compared exactly too;
    * always (spec-determined, independent of heap addresses and of qsort's handling of equal
      events): the implementation's constraint set must be acyclic (ordering witness checked by
      `acyclicBy`); for cy/cx0 every pair whose scan extents meet must be joined by a chain of
      constraints whose gaps cover the half sizes (`sepCert`, sound by
      Props.C09.separation_certificate_sound) → else SPECFAIL if the unchained pair overlaps by a
      positive length in the sweep dimension, DIVERGE if it merely touches (such a pair cannot
      overlap with positive area, so the property text does not demand the chain).
(b) removeoverlaps output: SPECFAIL on an escaped exception, non-finite coordinates, border
    globals not restored, width/height changed, an overlap of more than 1e-6 in both axes, or a
    fixed rectangle moved by ≥ 1% of the average rectangle size.
-/
namespace Driver.C09
open Driver AdaptaVerif.Num AdaptaVerif.Model.Scanline AdaptaVerif.Check.Rects

def conLt (a b : Con) : Bool :=
  a.l < b.l || (a.l == b.l && (a.r < b.r || (a.r == b.r && a.gap < b.gap)))

def sortCons (cs : List Con) : Array Con := cs.toArray.qsort conLt

def showCon (c : Con) : String := s!"({c.l},{c.r},{ratToString c.gap})"

/-- first element of the sorted difference, for the message -/
def firstDiff (a b : Array Con) : String := Id.run do
  let m := min a.size b.size
  for i in [0:m] do
    if a[i]! != b[i]! then return s!"at {i}: impl {showCon a[i]!} model {showCon b[i]!}"
  return s!"sizes impl {a.size} model {b.size}"

def parseRects (ls : Array (Array String)) : Option (Array Rect) :=
  ls.mapM fun (l : Array String) => do
    let v ← nums? (l.extract 0 4)
    if v.size < 4 then none else some ⟨v[0]!, v[1]!, v[2]!, v[3]!⟩

def parseCons (ls : Array (Array String)) : Option (List Con) :=
  (ls.mapM fun (l : Array String) => do
    if l.size < 3 then none
    let g ← num? l[2]!
    some (Con.mk (nat! l[0]!) (nat! l[1]!) g)).map Array.toList

def pair? (c : Case) (key : String) : Option (Rat × Rat) := do
  let l ← c.get1 key
  let v ← nums? (l.extract 0 2)
  if v.size < 2 then none else some (v[0]!, v[1]!)

inductive Mode | cy | cx0 | cx1 deriving BEq
def Mode.key : Mode → String | .cy => "cy" | .cx0 => "cx0" | .cx1 => "cx1"

structure Acc where
  verdict : Verdict := .ok
  stats : List (String × Nat) := []

def Acc.bump (a : Acc) (k : String) (n : Nat := 1) : Acc := { a with stats := bumpStats a.stats k n }
/-- keep the most severe verdict: SPECFAIL > DIVERGE > OK; first message of a kind wins -/
def Acc.fail (a : Acc) (v : Verdict) : Acc :=
  match a.verdict, v with
  | .specfail _, _ => a
  | _, .specfail m => { a with verdict := .specfail m }
  | .diverge _, _ => a
  | _, v => { a with verdict := v }

def checkGen (acc : Acc) (c : Case) (rs : Array Rect) (vid : Array Nat) (gbx gby : Rat) (mode : Mode) : Acc := Id.run do
  let n := rs.size
  let key := mode.key
  let ax := if mode == .cy then yAxis rs gbx gby else xAxis rs gbx gby
  let nl := mode == .cx1
  let mut acc := acc
  let some implIds := parseCons (c.get key) | return acc.fail (.diverge s!"{key}: unparsable constraint line")
  -- constraints name variable ids; translate to rectangle indices
  let idx := fun (i : Nat) => (vid.findIdx? (· == i)).getD n
  let impl := implIds.map fun k => Con.mk (idx k.l) (idx k.r) k.gap
  match (c.get "gdone").find? (fun l => l[0]? == some key) with
  | none => return acc.fail (.diverge s!"{key}: generator did not finish")
  | some l => if nat! (l[1]?.getD "0") != impl.length then return acc.fail (.diverge s!"{key}: count mismatch")
  -- model: rank = variable id (the tie-break of CmpNodePos), stable event order
  let lt := keyLt ax (fun i => vid.getD i i)
  let evs := sortEvents ax n
  let model := if nl then scanNL ax lt evs [] SMap.empty SMap.empty
               else scanPtr ax lt evs [] PMap.empty PMap.empty
  let si := sortCons impl
  let sm := sortCons model
  let same := si == sm
  let tf := orderFree ax n nl
  if tieFree ax n nl then acc := acc.bump s!"{key}.oldTieFree"
  acc := acc.bump s!"{key}.constraints" impl.length
  if tf then
    acc := acc.bump s!"{key}.exact"
    if !same then acc := acc.fail (.diverge s!"{key}: order-free input, constraint multiset differs from model: {firstDiff si sm}")
  else
    acc := acc.bump (if same then s!"{key}.eventTies.sameAsStableOrder" else s!"{key}.eventTies.otherOrder")
  -- spec-determined facts, on the implementation's constraints
  match topoPos n impl with
  | none => acc := acc.fail (.specfail s!"{key}: generated constraint graph is cyclic (or names a variable ≥ n)")
  | some pos =>
    let posf := fun i => pos.getD i 0
    if !acyclicBy posf impl then
      acc := acc.fail (.specfail s!"{key}: ordering witness rejected (cyclic constraint graph)")
    else if nl then
      if !gapsExact ax impl then acc := acc.fail (.diverge s!"{key}: a gap differs from half the two widths")
    else
      let masks := reachMasks n impl pos
      if !sepCert ax n impl posf masks then
        if !gapsCover ax impl then
          acc := acc.fail (.specfail s!"{key}: a constraint's gap is smaller than half the two lengths")
        else match firstUnchainedStrict ax n masks, firstUnchained ax n masks with
          | some (u, v), _ => acc := acc.fail (.specfail s!"{key}: rectangles {u} and {v} overlap in the sweep dimension but no chain of generated constraints separates them")
          -- a pair that only touches cannot overlap with positive area: the model (Open before
          -- Close) separates it, the property text does not demand it
          | none, some (u, v) => acc := acc.fail (.diverge s!"{key}: rectangles {u} and {v} touch in the sweep dimension; the model chains them (Open before Close), the implementation does not")
          | none, none => acc := acc.fail (.specfail s!"{key}: separation certificate rejected")
      else if !gapsExact ax impl then
        acc := acc.fail (.diverge s!"{key}: a gap differs from half the two lengths")
  return acc

def grow (r : Rect) (bx b : Rat) : Rect := ⟨r.minX - bx, r.maxX + bx, r.minY - b, r.maxY + b⟩

def checkRemove (acc : Acc) (c : Case) (rs : Array Rect) : Acc := Id.run do
  let n := rs.size
  let mut acc := acc
  let some (rbx, rby) := pair? c "rb" | return acc.fail (.diverge "rb line missing")
  match c.get1 "ro" with
  | none => return acc.fail (.diverge "ro line missing")
  | some l =>
    if l[0]? != some "ok" then
      return acc.fail (.specfail s!"removeoverlaps: exception escaped ({" ".intercalate l.toList})")
  -- borders restored
  match c.get1 "ba" with
  | none => return acc.fail (.diverge "ba line missing")
  | some l =>
    match dbl? (l[0]?.getD ""), dbl? (l[1]?.getD "") with
    | some (.fin _ bx), some (.fin _ b) =>
      if bx != rbx || b != rby then
        return acc.fail (.specfail s!"removeoverlaps: borders not restored: ({ratToString bx},{ratToString b}) ≠ ({ratToString rbx},{ratToString rby})")
    | _, _ => return acc.fail (.specfail "removeoverlaps: border globals not finite afterwards")
  let outs := c.get "o"
  if outs.size != n then return acc.fail (.diverge "o lines missing")
  let some out := parseRects outs | return acc.fail (.specfail "removeoverlaps: non-finite coordinate in the output")
  -- sizes
  if !sizesKept rs out 0 then
    acc := acc.bump "ro.size.notBitIdentical"
    if !sizesKept rs out (1 / 1000000000) then
      return acc.fail (.specfail "removeoverlaps: a width or height changed (by more than 1e-9)")
  else acc := acc.bump "ro.size.bitIdentical"
  -- overlaps (bordered rectangles, as seen through the getters)
  let grown := out.map (grow · rbx rby)
  match findOverlap grown (1 / 1000000) with
  | some (i, j) => return acc.fail (.specfail s!"removeoverlaps: rectangles {i} and {j} still overlap (both axes > 1e-6)")
  | none => pure ()
  -- fixed rectangles
  let fixed := ((c.get1 "fixed").getD #[]).map nat!
  -- "average rectangle size": mean of (width()+height())/2 as the getters report them, i.e.
  -- including the user's borders (these bordered rectangles are what removeoverlaps separates)
  let total : Rat := rs.foldl (fun s r => s + ((r.maxX - r.minX + 2 * rbx) + (r.maxY - r.minY + 2 * rby)) / 2) 0
  let avg : Rat := if n == 0 then 0 else total / n
  for f in fixed do
    let a := rectAt rs f
    let b := rectAt out f
    let dx := absRat ((b.minX + b.maxX) / 2 - (a.minX + a.maxX) / 2)
    let dy := absRat ((b.minY + b.maxY) / 2 - (a.minY + a.maxY) / 2)
    if dx * 100 ≥ avg || dy * 100 ≥ avg then
      return acc.fail (.specfail s!"removeoverlaps: fixed rectangle {f} moved by ({(dx * 1000000).floor}e-6,{(dy * 1000000).floor}e-6), average size {(avg * 1000).floor}e-3")
  if fixed.size > 0 then acc := acc.bump "ro.withFixed"
  if (c.get1 "third").bind (·[0]?) == some "1" then acc := acc.bump "ro.thirdPass"
  if rbx != 0 || rby != 0 then acc := acc.bump "ro.userBorder"
  if (findOverlap (rs.map (grow · rbx rby)) 0).isSome then acc := acc.bump "ro.hadOverlap"
  return acc

def sizeBucket (n : Nat) : String :=
  if n ≤ 3 then "n.1-3" else if n ≤ 12 then "n.4-12" else if n ≤ 60 then "n.13-60"
  else if n ≤ 150 then "n.61-150" else "n.151-400"

def checkCase (c : Case) : CaseResult := Id.run do
  let some rs := parseRects (c.get "r") | return { verdict := .diverge "unparsable rectangle" }
  let n := nat! (((c.get1 "n").getD #["0"])[0]!)
  if rs.size != n then return { verdict := .diverge "rectangle count mismatch" }
  let some (gbx, gby) := pair? c "gb" | return { verdict := .diverge "gb line missing" }
  let vid := ((c.get1 "vid").getD #[]).map nat!
  if vid.size != n then return { verdict := .diverge "vid line missing" }
  if !pairwiseB (fun a b => a != b) vid.toList then return { verdict := .diverge "variable ids not distinct" }
  let mut acc : Acc := {}
  acc := acc.bump (sizeBucket n)
  acc := checkGen acc c rs vid gbx gby .cy
  acc := checkGen acc c rs vid gbx gby .cx0
  acc := checkGen acc c rs vid gbx gby .cx1
  acc := checkRemove acc c rs
  let nontrivial := (acc.stats.any fun (k, v) => k == "ro.hadOverlap" && v > 0)
  return { verdict := acc.verdict, nontrivial := nontrivial, stats := acc.stats }

def run (_args : List String) : IO UInt32 := runCases checkCase

end Driver.C09
