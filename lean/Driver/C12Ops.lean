/-
Driver for the op-level correspondence of C12 (harness/c12_ops.h, and the stage dumps of the guarded
hook in HyperedgeImprover::execute): every step of a case is `state before → operation → state after`
as produced by the real libavoid; the operation of `AdaptaVerif.Model.HyperTree` is replayed on the
state before and compared with the state after — exactly (object numbers included) for the primitives,
up to a renaming of objects for the rewrites (canonical numbering by a traversal from a surviving node
that follows the edge lists in order).  The structural invariant (`wfb` + the proven tree checker
`isTree`) is evaluated on every state the C++ produced.
-/
import Driver.Proto
import AdaptaVerif.Check.Tree
import AdaptaVerif.Model.HyperTree
namespace Driver.C12Ops
open Driver AdaptaVerif.Num AdaptaVerif.Check.Tree AdaptaVerif.Model.HyperTree
open AdaptaVerif.Model.Geometry (Pt)

def optNat (s : String) : Option Nat := if s == "-" then none else s.toNat?

/-- the `h*` lines of a case grouped by step index (built once per case) -/
abbrev Buckets := Array (Array (Array String))

def hKeys : List String := ["hst", "hn", "he", "himp", "hop", "hret", "hlist", "hdst", "hroute", "hwrite", "hends", "hends2", "hchg"]

def mkBuckets (c : Case) : Buckets := Id.run do
  let mut b : Buckets := #[]
  for l in c.lines do
    if l.size ≥ 2 && hKeys.contains l[0]! then
      let i := nat! l[1]!
      while b.size ≤ i do b := b.push #[]
      b := b.modify i (fun a => a.push l)
  return b

/-- lines of step `i` with keyword `key`, without the keyword (first token = step index) -/
def stepLines (b : Buckets) (key : String) (i : Nat) : List (Array String) :=
  (((b[i]?.getD #[]).filter (fun l => l[0]! == key)).map (fun l => l.extract 1 l.size)).toList

structure St where
  s : Imp
  mode : String
  anchor : Option Nat
  deriving Inhabited

def himp (c : Buckets) (i : Nat) (what : String) : List String :=
  match (stepLines c "himp" i).find? (fun l => l[1]?.getD "" == what) with
  | some l => (l.extract 2 l.size).toList
  | none => []

def parseState (c : Buckets) (i : Nat) : Option St := do
  let h ← (stepLines c "hst" i).head?
  let mut nodes : List HNode := []
  for l in stepLines c "hn" i do
    let x ← num? (l[2]?.getD "")
    let y ← num? (l[3]?.getD "")
    nodes := nodes ++ [{ id := nat! (l[1]?.getD "0"), point := ⟨x, y⟩, junction := optNat (l[4]?.getD "-"),
                         finalVertex := optNat (l[5]?.getD "-"), isConnectorSource := l[6]?.getD "0" == "1",
                         isPinDummyEndpoint := l[7]?.getD "0" == "1",
                         edges := ((l.extract 8 l.size).toList.map nat!) }]
  let mut edges : List HEdge := []
  for l in stepLines c "he" i do
    edges := edges ++ [{ id := nat! (l[1]?.getD "0"), e1 := optNat (l[2]?.getD "-"), e2 := optNat (l[3]?.getD "-"),
                         conn := optNat (l[4]?.getD "-"), hasFixedRoute := l[5]?.getD "0" == "1" }]
  let jmap : List (Nat × Nat) := (himp c i "jmap").filterMap (fun s =>
    match s.splitOn ":" with
    | [a, b] => some (nat! a, nat! b)
    | _ => none)
  let t : HTree := { nodes := nodes, edges := edges, next := nat! (h[3]?.getD "0"),
                     fixedConns := (himp c i "fixedc").map nat! }
  pure { s := { t := t, junctions := jmap, roots := (himp c i "roots").map nat!,
                newJ := (himp c i "newj").map nat!, delJ := (himp c i "delj").map nat!,
                newC := (himp c i "newc").map nat!, delC := (himp c i "delc").map nat!,
                canMajor := h[6]?.getD "0" == "1", fixedJ := (himp c i "fixedj").map nat!,
                nextJ := nat! (h[4]?.getD "0"), nextC := nat! (h[5]?.getD "0") },
         mode := h[1]?.getD "all", anchor := optNat (h[2]?.getD "-") }

/-- model result of one operation line: new state and, for `move`, (newSelf, mapChanged) -/
def applyOp (s : Imp) (op : Array String) : Option (Imp × Option (Option Nat × Bool)) :=
  let a (k : Nat) : Nat := nat! (op[k]?.getD "0")
  let t := s.t
  match op[1]?.getD "" with
  | "nop" => some (s, none)
  | "resync" => some (s, none)
  | "write" => some (s, none)
  | "upd" => some (s, none)
  | "split" => do
    let x ← num? (op[4]?.getD "")
    let y ← num? (op[5]?.getD "")
    let (t', _, _) ← splitFromNodeAtPoint t (a 2) (a 3) ⟨x, y⟩
    pure ({ s with t := t' }, none)
  | "replace" => some ({ s with t := replaceNode t (a 2) (a 3) (a 4) }, none)
  | "ndisc" => some ({ s with t := nodeDisconnect t (a 2) (a 3) }, none)
  | "edisc" => do
    let t' ← edgeDisconnect t (a 2)
    pure ({ s with t := t' }, none)
  | "dele" => some ({ s with t := t.deleteEdge (a 2) }, none)
  | "deln" => some ({ s with t := t.deleteNode (a 2) }, none)
  | "splice" => do
    let t' ← spliceEdgesFrom t (a 2) (a 3)
    pure ({ s with t := t' }, none)
  | "contract" => do
    let t' ← contract t (a 2) (a 3) (a 4)
    pure ({ s with t := t' }, none)
  | "setpt" => do
    let x ← num? (op[3]?.getD "")
    let y ← num? (op[4]?.getD "")
    pure ({ s with t := t.modNode (a 2) (fun n => { n with point := ⟨x, y⟩ }) }, none)
  | "rzle" => do
    let s' ← rzleNode (rzleFuel t) s (a 2) (optNat (op[3]?.getD "-"))
    pure (s', none)
  | "move" => do
    let r ← moveJunctionStep s (a 2)
    pure (r.s, some (r.newSelf, r.mapChanged))
  | _ => none

def ptStr (p : Pt) : String := s!"({ratToString p.x},{ratToString p.y})"
def onStr (o : Option Nat) : String :=
  match o with
  | some n => toString n
  | none => "-"

def nodeStr (n : HNode) (edges : List Nat) : String :=
  s!"{ptStr n.point} j={onStr n.junction} fv={n.finalVertex.isSome} src={n.isConnectorSource} dummy={n.isPinDummyEndpoint} edges={edges}"

/-- exact rendering, objects sorted by their numbers -/
def exactForm (t : HTree) : List String :=
  let ns := t.nodes.mergeSort (fun a b => a.id ≤ b.id)
  let es := t.edges.mergeSort (fun a b => a.id ≤ b.id)
  ns.map (fun n => s!"node {n.id} {nodeStr n n.edges}") ++
  es.map (fun e => s!"edge {e.id} {onStr e.e1} {onStr e.e2} conn={onStr e.conn} fixed={e.hasFixedRoute}")

def lookupNum (m : List (Nat × Nat)) (k : Nat) : Option Nat := (m.find? (fun p => p.1 == k)).map (·.2)

/-- canonical numbering: breadth-first from `anchor`, following each node's edge list in order; an
    object is numbered when first met. Returns (node numbering, edge numbering, node order, edge order). -/
def canonNum (t : HTree) (anchor : Nat) : List (Nat × Nat) × List (Nat × Nat) × List Nat × List Nat := Id.run do
  let mut nnum : List (Nat × Nat) := [(anchor, 0)]
  let mut enum : List (Nat × Nat) := []
  let mut queue : List Nat := [anchor]
  let mut order : List Nat := []
  let mut eorder : List Nat := []
  for _ in [0:t.nodes.length + 1] do
    match queue with
    | [] => break
    | n :: rest =>
      queue := rest
      order := order ++ [n]
      match t.node? n with
      | none => pure ()
      | some nd =>
        for e in nd.edges do
          if (lookupNum enum e).isNone then
            enum := enum ++ [(e, enum.length)]
            eorder := eorder ++ [e]
            match t.edge? e with
            | none => pure ()
            | some ed =>
              for o in [ed.e1, ed.e2] do
                match o with
                | some m =>
                  if (lookupNum nnum m).isNone then
                    nnum := nnum ++ [(m, nnum.length)]
                    queue := queue ++ [m]
                | none => pure ()
  return (nnum, enum, order, eorder)

/-- canonical rendering; objects not reachable from the anchor are counted as garbage -/
def canonForm (t : HTree) (anchor : Nat) : List String := Id.run do
  let (nnum, enum, order, eorder) := canonNum t anchor
  let cn (o : Option Nat) : String :=
    match o with
    | some m => (match lookupNum nnum m with
      | some k => s!"n{k}"
      | none => "?")
    | none => "-"
  let mut out : List String := []
  for n in order do
    match t.node? n with
    | none => out := out ++ [s!"node n{(lookupNum nnum n).getD 0} MISSING"]
    | some nd =>
      out := out ++ [s!"node n{(lookupNum nnum n).getD 0} {nodeStr nd (nd.edges.map (fun e => (lookupNum enum e).getD 999999))}"]
  for e in eorder do
    match t.edge? e with
    | none => out := out ++ [s!"edge e{(lookupNum enum e).getD 0} MISSING"]
    | some ed =>
      out := out ++ [s!"edge e{(lookupNum enum e).getD 0} {cn ed.e1} {cn ed.e2} conn={onStr ed.conn} fixed={ed.hasFixedRoute}"]
  let garbageN := t.nodes.filter (fun n => (lookupNum nnum n.id).isNone)
  let garbageE := t.edges.filter (fun e => (lookupNum enum e.id).isNone)
  if !garbageN.isEmpty || !garbageE.isEmpty then
    out := out ++ [s!"unreachable: {garbageN.length} nodes, {garbageE.length} edges"]
  return out

def sortedNat (l : List Nat) : List Nat := l.mergeSort (· ≤ ·)

/-- rendering of the improver's bookkeeping; node numbers in the junction map are canonicalised by the caller -/
def impForm (s : Imp) (nodeName : Nat → String) : List String :=
  [s!"roots {sortedNat s.roots}",
   s!"jmap {(s.junctions.mergeSort (fun a b => a.1 ≤ b.1)).map (fun p => s!"{p.1}:{nodeName p.2}")}",
   s!"newj {s.newJ}", s!"delj {s.delJ}", s!"newc {s.newC}", s!"delc {s.delC}"]

def firstDiff (a b : List String) : Option String :=
  match a, b with
  | [], [] => none
  | x :: xs, y :: ys => if x == y then firstDiff xs ys else some s!"model «{x}» vs libavoid «{y}»"
  | x :: _, [] => some s!"model has extra «{x}»"
  | [], y :: _ => some s!"libavoid has extra «{y}»"

/-- the invariant of the theorems, decided on a concrete state -/
def treeOk (t : HTree) : Bool := wfb t && isTree t.graphV t.graphE

def treePreserving (kind : String) : Bool :=
  ["nop", "split", "contract", "setpt", "rzle", "move"].contains kind

def checkOps (c0 : Case) : CaseResult := Id.run do
  let c := mkBuckets c0
  let nsteps := (c0.get "hst").size
  let mut stats : List (String × Nat) := []
  match parseState c 0 with
  | none => return { verdict := .diverge "ops: cannot parse the initial state", nontrivial := false }
  | some st0 =>
    let mut cur := st0
    let mut nontrivial := false
    let mut diverge : Option String := none
    let mut specfail : Option String := none
    if !treeOk cur.s.t then stats := bumpStats stats "ops.initial-not-tree" 1
    for i in [1:nsteps] do
      let ops := stepLines c "hop" i
      match parseState c i with
      | none => diverge := diverge <|> some s!"step {i}: cannot parse the state"
      | some after =>
        -- replay the model
        let mut ms : Option Imp := some cur.s
        let mut ret : Option (Option Nat × Bool) := none
        let mut kinds : List String := []
        for op in ops do
          kinds := kinds ++ [op[1]?.getD "?"]
          match ms with
          | none => pure ()
          | some s =>
            match applyOp s op with
            | none => ms := none
            | some (s', r) =>
              ms := some s'
              if r.isSome then ret := r
        let kind := kinds.head?.getD "?"
        stats := bumpStats stats s!"op.{kind}" 1
        if kind == "resync" then
          cur := after
          continue
        let beforeOk := treeOk cur.s.t
        let afterOk := treeOk after.s.t
        match ms with
        | none =>
          diverge := diverge <|> some s!"step {i} ({kinds}): the model refuses the operation (assertion / null pointer / no termination in the model) but libavoid returned"
        | some m =>
          -- compare
          let d : Option String :=
            if after.mode == "all" then
              firstDiff (exactForm m.t ++ impForm m toString) (exactForm after.s.t ++ impForm after.s toString)
            else
              let anchorC := after.anchor.getD 0
              -- the model's anchor: the node `move` returned, else the node the operation started from
              let anchorM : Nat :=
                match ret with
                | some (some n, _) => n
                | _ =>
                  if kind == "move" then
                    ((cur.s.junctions.find? (fun p => p.1 == nat! ((ops.head?.getD #[])[2]?.getD "0"))).map (·.2)).getD anchorC
                  else if kind == "rzle" then nat! ((ops.head?.getD #[])[2]?.getD "0")
                  else anchorC
              let cm := canonForm m.t anchorM
              let cc := canonForm after.s.t anchorC
              let nameIn (t : HTree) (anchor : Nat) : Nat → String := fun n =>
                match lookupNum (canonNum t anchor).1 n with
                | some k => s!"n{k}"
                | none => "?"
              firstDiff (cm ++ impForm m (nameIn m.t anchorM)) (cc ++ impForm after.s (nameIn after.s.t anchorC))
          match d with
          | some msg => diverge := diverge <|> some s!"step {i} ({kinds}): {msg}"
          | none => pure ()
          -- the return value of moveJunctionAlongCommonEdge
          match (stepLines c "hret" i).head?, ret with
          | some l, some (ns, ch) =>
            if (optNat (l[1]?.getD "-")).isSome != ns.isSome || (l[2]?.getD "0" != "x" && (l[2]?.getD "0" == "1") != ch) then
              diverge := diverge <|> some s!"step {i} ({kinds}): return value differs: model ({onStr ns},{ch}) libavoid ({l[1]?.getD "-"},{l[2]?.getD "0"})"
          | _, _ => pure ()
          if m.t.nodes.length != cur.s.t.nodes.length || m.t.edges.length != cur.s.t.edges.length then nontrivial := true
          if m.delJ.length != cur.s.delJ.length then stats := bumpStats stats "ops.junction-deleted" 1
          if m.newJ.length != cur.s.newJ.length then stats := bumpStats stats "ops.junction-split" 1
        -- `listJunctionsAndConnectors` of the real code vs. the model's `listNode`, on libavoid's state
        match (stepLines c "hlist" i).head?, after.anchor with
        | some l, some an =>
          let toks := (l.extract 1 l.size).toList
          let jsC := (toks.drop 1).takeWhile (· != "C")
          let csC := (toks.dropWhile (· != "C")).drop 1
          let fuel := 4 * (after.s.t.nodes.length + after.s.t.edges.length + 2)
          match listNode fuel after.s.t an none ([], []) with
          | some (js, cs) =>
            stats := bumpStats stats "ops.list-compared" 1
            if js.map toString != jsC || cs.map onStr != csC then
              diverge := diverge <|> some s!"step {i}: listJunctionsAndConnectors differs: model {js} {cs.map onStr} libavoid {jsC} {csC}"
          | none => diverge := diverge <|> some s!"step {i}: the model's listNode runs out of fuel / meets a dangling pointer"
        | _, _ => pure ()
        -- `updateConnEnds` of the real code vs. the model's, on libavoid's state and the real ends before
        if kind == "upd" then
          let root := nat! ((ops.head?.getD #[])[2]?.getD "0")
          let parseEnd (x : String) : CEnd :=
            if x.startsWith "J" then .junction (nat! (x.drop 1).toString) else if x == "E" then .empty else .other
          let parseEnds (key : String) : EndsMap :=
            ((stepLines c key i).head?.map (fun l => (l.extract 1 l.size).toList.filterMap (fun x =>
              match x.splitOn ":" with
              | [a, b, d] => some (nat! a, parseEnd b, parseEnd d)
              | _ => none))).getD []
          let before := parseEnds "hends"
          let afterC := parseEnds "hends2"
          let chgC : List Nat := ((stepLines c "hchg" i).head?.map (fun l => (l.extract 1 l.size).toList.map nat!)).getD []
          stats := bumpStats stats "ops.upd" 1
          match updateConnEnds after.s.t before root with
          | none => diverge := diverge <|> some s!"step {i} (upd): the model's updateConnEnds stops (null connector / dangling pointer) but libavoid returned"
          | some u =>
            if u.changed != chgC then
              diverge := diverge <|> some s!"step {i} (upd): changed connectors: model {u.changed} libavoid {chgC}"
            if !u.changed.isEmpty then stats := bumpStats stats "ops.upd.changed-some" 1
            let show' (m : EndsMap) : List String := (m.mergeSort (fun a b => a.1 ≤ b.1)).map (fun p => s!"{p.1}:{repr p.2.1}:{repr p.2.2}")
            match firstDiff (show' u.ends) (show' afterC) with
            | some d => diverge := diverge <|> some s!"step {i} (upd): connector ends: {d}"
            | none => pure ()
        -- the write-back of routes (`writeEdgesToConns`, both passes) vs. the model's `writeRoutes`
        if kind == "write" then
          let root := nat! ((ops.head?.getD #[])[2]?.getD "0")
          let dst : DstEnds := ((stepLines c "hdst" i).head?.map (fun l => (l.extract 1 l.size).toList.filterMap (fun s =>
            match s.splitOn ":" with
            | [a, b] => some (nat! a, optNat b)
            | _ => none))).getD []
          let modelR := writeRoutes after.s.t dst root
          let status := ((stepLines c "hwrite" i).head?.map (fun l => l[1]?.getD "?")).getD "missing"
          stats := bumpStats stats s!"ops.write.{status}" 1
          match modelR, status with
          | none, "abort" => pure ()
          | none, st => diverge := diverge <|> some s!"step {i} (write): the model's write-back stops (assertion conn->m_dst_connend / dangling pointer) but libavoid: {st}"
          | some _, "abort" => diverge := diverge <|> some s!"step {i} (write): libavoid aborted in writeEdgesToConns but the model writes all routes"
          | some rs, _ =>
            for l in stepLines c "hroute" i do
              let cid := nat! (l[1]?.getD "0")
              let ptsC : List String := (l.extract 2 l.size).toList
              let ptsM : List String := ((rs.get cid).map (fun p => [ratToString p.x, ratToString p.y])).flatten
              let ptsC' : List String := ptsC.map (fun s => match num? s with
                | some q => ratToString q
                | none => s)
              if ptsM != ptsC' then
                diverge := diverge <|> some s!"step {i} (write): route of connector {cid}: model {ptsM} libavoid {ptsC'}"
            if rs.length != (stepLines c "hroute" i).length then
              diverge := diverge <|> some s!"step {i} (write): the model wrote {rs.length} routes, libavoid {(stepLines c "hroute" i).length}"
        -- what the theorems promise, decided on libavoid's own output
        if kinds.all treePreserving && beforeOk && !afterOk then
          specfail := specfail <|> some s!"step {i} ({kinds}): libavoid's hyperedge tree is not a well-formed tree after the operation (wfb={wfb after.s.t} isTree={isTree after.s.t.graphV after.s.t.graphE}; {after.s.t.nodes.length} nodes, {after.s.t.edges.length} edges)"
        if (kind == "rzle" || kind == "move") && beforeOk && jinvb cur.s && !jinvb after.s then
          specfail := specfail <|> some s!"step {i} ({kinds}): junction bookkeeping inconsistent after the rewrite (junction map / deleted list / roots vs. the junctions carried by tree nodes)"
        -- Props/C12Ops.removeZeroLengthEdges_same_terminals on libavoid's own states: where the side
        -- condition holds before the call, the set of leaf objects must be the same after it
        if kind == "rzle" && beforeOk && afterOk && noLeafZerob cur.s.t then
          stats := bumpStats stats "ops.rzle-terminal-theorem-applies" 1
          if sortedNat after.s.t.leaves != sortedNat cur.s.t.leaves then
            specfail := specfail <|> some s!"step {i} ({kinds}): removeZeroLengthEdges changed the terminal set although no zero-length edge ended at a leaf: leaves {sortedNat cur.s.t.leaves} -> {sortedNat after.s.t.leaves}"
        if (kind == "rzle" || kind == "move") && beforeOk && afterOk then
          -- not failures: the as-coded rewrites merge leaves when the side conditions of
          -- Props/C12Ops (`*_same_terminals`) do not hold; counted to show that this happens
          if after.s.t.leaves.length != cur.s.t.leaves.length then
            stats := bumpStats stats s!"ops.leaf-count-changed.{kind}" 1
          -- leaves marked as the source end of their connector (`writeEdgesToConns` reverses the route there)
          let nsrc (t : HTree) : Nat := (t.nodes.filter (fun n => n.isConnectorSource && n.edges.length == 1)).length
          if nsrc after.s.t < nsrc cur.s.t then
            stats := bumpStats stats s!"ops.source-flag-dropped.{kind}" 1
        cur := after
    stats := bumpStats stats s!"ops.steps" (nsteps - 1)
    match specfail, diverge with
    | some m, _ => return { verdict := .specfail ("ops: " ++ m), nontrivial := nontrivial, stats := stats }
    | none, some m => return { verdict := .diverge ("ops: " ++ m), nontrivial := nontrivial, stats := stats }
    | none, none => return { verdict := .ok, nontrivial := nontrivial, stats := stats }

end Driver.C12Ops
