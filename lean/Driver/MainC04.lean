import Driver.C04

def main (args : List String) : IO UInt32 := Driver.C04.run args
