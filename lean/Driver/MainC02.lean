import Driver.C02

def main (args : List String) : IO UInt32 := Driver.C02.run args
