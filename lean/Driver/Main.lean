import Driver.C01
import Driver.C02
import Driver.C03
import Driver.C04
import Driver.C05
import Driver.C06
import Driver.C07
import Driver.C08
import Driver.C09
import Driver.C10
import Driver.C11
import Driver.C12
import Driver.C13
import Driver.C14
import Driver.C15
import Driver.C16
import Driver.C17
import Driver.C18
import Driver.C19
import Driver.C20

def main (args : List String) : IO UInt32 :=
  match args with
  | "c01" :: rest => Driver.C01.run rest
  | "c02" :: rest => Driver.C02.run rest
  | "c03" :: rest => Driver.C03.run rest
  | "c04" :: rest => Driver.C04.run rest
  | "c05" :: rest => Driver.C05.run rest
  | "c06" :: rest => Driver.C06.run rest
  | "c07" :: rest => Driver.C07.run rest
  | "c08" :: rest => Driver.C08.run rest
  | "c09" :: rest => Driver.C09.run rest
  | "c10" :: rest => Driver.C10.run rest
  | "c11" :: rest => Driver.C11.run rest
  | "c12" :: rest => Driver.C12.run rest
  | "c13" :: rest => Driver.C13.run rest
  | "c14" :: rest => Driver.C14.run rest
  | "c15" :: rest => Driver.C15.run rest
  | "c16" :: rest => Driver.C16.run rest
  | "c17" :: rest => Driver.C17.run rest
  | "c18" :: rest => Driver.C18.run rest
  | "c19" :: rest => Driver.C19.run rest
  | "c20" :: rest => Driver.C20.run rest
  | _ => do IO.eprintln "usage: driver cNN [args]"; return 2
