import Driver.Proto
import AdaptaVerif.Check.Drawing
import AdaptaVerif.Model.FinalSegLimits
/-!
Driver mode c14.  Reads the before/after drawings and the returned SepMatrix dumped by
`harness/c14.cpp`, decides property C14 with the proven checker `Check.Drawing.cleanDrawing`
(`Props/C14.lean: cleanDrawing_correct`), and on failure explains which clause failed on which ids.

Parameters fixed here (and stated in check/props/C14.py):
* overlap tolerance 0 (exact);
* route ends: end-node box enlarged per side by `padE = nodePaddingScalar * IEL / 2`, where
  `IEL = 2 * average(w, h over all nodes)` is computed exactly from the *input* sizes — this is the
  padded box HOLA itself uses (`Graph::padAllNodes(p,p)` adds `p = nodePaddingScalar*IEL` to w and h);
* other nodes are shrunk by 1e-6 per side for the pass-through test;
* separation constraints hold to 1e-4, BDRY gaps include `getExtraBdryGap()` of the returned matrix.

The explanation code below (labels, offending ids) is unproven and only used for messages; the
verdict OK / SPECFAIL is exactly `cleanDrawing = true / false`.

Tie of the final-segment limit rule (`Model/FinalSegLimits.lean`, theorems `Props/C14Limits.lean`): with the nudging
hook of /repo the harness dumps every shiftable first/last segment of the libavoid routings that doHOLA runs with
nudgeOrthogonalSegmentsConnectedToShapes on (`fseg` lines: ends before solving, minSpaceLimit, maxSpaceLimit).  The
shapes of that routing are the returned nodes grown by `routepad`.  For every such segment whose ends are not within
1e-6 of a shape boundary, the library's interval must lie inside the model's `finalLimits` interval (to 1e-6; the
library narrows it further by the channel scan, never widens it).  A violation is reported as DIVERGE
`finalSegLimits …` (naming the clauses that fail in the same case, if any), or - when the route-end clause, which the
rule protects, fails in the same case - as the extra label `tie~finalSegLimits` of that SPECFAIL.
-/
namespace Driver.C14
open Driver AdaptaVerif.Num AdaptaVerif.Check.RouteRect AdaptaVerif.Check.Drawing

def parseNode (l : Array String) : Option Node := do
  let v ← nums? (l.extract 1 5)
  pure ⟨nat! l[0]!, v[0]!, v[1]!, v[2]!, v[3]!⟩

def parsePts (ts : Array String) : Option (List P) := do
  let v ← nums? ts
  if v.size % 2 != 0 then none
  else pure ((List.range (v.size / 2)).map (fun i => (⟨v[2*i]!, v[2*i+1]!⟩ : P)))

def parseEdge0 (l : Array String) : Edge := ⟨nat! l[0]!, nat! l[1]!, nat! l[2]!, []⟩

def parseEdge1 (l : Array String) : Option Edge := do
  let n := nat! l[3]!
  if l.size != 4 + 2 * n then none
  let pts ← parsePts (l.extract 4 l.size)
  pure ⟨nat! l[0]!, nat! l[1]!, nat! l[2]!, pts⟩

def parseSepDim (gt st : String) (gap : String) : Option SepDim := do
  let g ← parseDbl gap
  if !g.isFinite then none
  let gt' := if gt == "1" then GapType.bdry else GapType.centre
  let st' := if st == "1" then SepType.eq else if st == "2" then SepType.ineq else SepType.none
  pure ⟨st', gt', g.signbit, g.val⟩

def parseSep (l : Array String) : Option SepPair := do
  if l.size != 8 then none
  let x ← parseSepDim l[2]! l[4]! l[6]!
  let y ← parseSepDim l[3]! l[5]! l[7]!
  pure ⟨nat! l[0]!, nat! l[1]!, x, y⟩

def r2s (r : Rat) : String :=
  -- short decimal rendering for messages only
  let neg := r < 0
  let a := if neg then -r else r
  let scaled : Nat := (a * 1000000).floor.toNat
  let ip := scaled / 1000000
  let fp := scaled % 1000000
  let fs := toString fp
  let fs := String.ofList (List.replicate (6 - fs.length) '0') ++ fs
  (if neg then "-" else "") ++ toString ip ++ "." ++ fs

def absR (r : Rat) : Rat := if r < 0 then -r else r
def minR (a b : Rat) : Rat := if a ≤ b then a else b

/-- label + detail of one failure -/
abbrev Fail := String × String

def legs (r : List P) : List (P × P) := r.zip r.tail

def maxR (a b : Rat) : Rat := if a ≤ b then b else a

/-- (messages only) how far `p` lies outside the rectangle grown by `e` per side (0 = inside) -/
def outsideBy (e : Rat) (r : Rect) (p : P) : Rat :=
  maxR 0 (maxR (maxR (r.x0 - e - p.x) (p.x - r.x1 - e)) (maxR (r.y0 - e - p.y) (p.y - r.y1 - e)))

/-- what the explanation code knows about a whole-graph-is-a-tree case (labels only): the growth axis
    (`defaultTreeGrowthDir` EAST/WEST ⇒ x) and the rank distance `treeLayoutScalar_rankSep·IEL = IEL`
    that `Tree::symmetricLayout` puts between the centres of adjacent ranks -/
structure TreeInfo where
  isTree : Bool
  axialX : Bool
  rankSep : Rat

def TreeInfo.axial (ti : TreeInfo) (n : Node) : Rat := if ti.axialX then n.cx else n.cy

/-- the two nodes sit in adjacent ranks of a pure tree: their centres are exactly one rank distance apart
    along the growth axis (to 1e-6) -/
def TreeInfo.adjacentRanks (ti : TreeInfo) (a b : Node) : Bool :=
  ti.isTree && absR (absR (ti.axial a - ti.axial b) - ti.rankSep) ≤ (1 : Rat) / 1000000

/-- ids of nodes of a pure tree whose *padded* box (the obstacle the whole-tree routing in doHOLA uses: the
    box grown by nodePaddingScalar·IEL/2 per side) overlaps the padded box of a node of an adjacent rank -/
def rankOverlapIds (pr : Params) (ti : TreeInfo) (d : Drawing) : List Nat :=
  if !ti.isTree then [] else
  d.nodes.filterMap (fun a =>
    if d.nodes.any (fun b => b.id != a.id && ti.adjacentRanks a b &&
        rectsOverlap pr.overlapTol (a.box.shrink (-pr.padE)) (b.box.shrink (-pr.padE)))
    then some a.id else none)

def explainEdge (pr : Params) (d : Drawing) (ro : List Nat) (e : Edge) : List Fail := Id.run do
  let mut out : List Fail := []
  let tag := s!"e{e.id}({e.src}-{e.tgt})"
  -- the padded box of an end node of this edge overlaps the padded box of a node of an adjacent tree rank
  let atOverlap := ro.contains e.src || ro.contains e.tgt
  if !routeOrthogonal e.route then
    if e.route.length < 2 then out := out ++ [("noRoute", s!"{tag} has {e.route.length} route points")]
    else
      for (p, q) in legs e.route do
        if !legOrth p q then
          let dev := minR (absR (p.x - q.x)) (absR (p.y - q.y))
          let lab := if dev ≤ (1 : Rat) / 1000000 then "routeOrthogonal~hairline"
            else if atOverlap then "routeOrthogonal~treeRankOverlap" else "routeOrthogonal"
          out := out ++ [(lab, s!"{tag} leg ({r2s p.x},{r2s p.y})->({r2s q.x},{r2s q.y}) off-axis by {r2s (dev * 1000000000)}e-9")]
  if !edgeEndsOk pr.padE d e then
    -- message only: how far the first / last route point lies outside the padded box of each end node
    let offs := match d.node? e.src, d.node? e.tgt, e.route.head?, e.route.getLast? with
      | some s, some t, some a, some z =>
        s!": first point ({r2s a.x},{r2s a.y}) is {r2s (outsideBy pr.padE s.box a)} outside padded src {e.src}, {r2s (outsideBy pr.padE t.box a)} outside padded tgt {e.tgt}; " ++
        s!"last point ({r2s z.x},{r2s z.y}) is {r2s (outsideBy pr.padE s.box z)} outside padded src, {r2s (outsideBy pr.padE t.box z)} outside padded tgt"
      | _, _, _, _ => ""
    out := out ++ [("routeEndsAtNodes", s!"{tag} ends not within {r2s pr.padE} of its end nodes{offs}")]
  if !routeAvoidsOthers pr.shrink d e then
    for n in d.nodes do
      if n.id != e.src && n.id != e.tgt && !legsOk [n.box.shrink pr.shrink] e.route then
        out := out ++ [("routeAvoidsOthers", s!"{tag} passes through node {n.id}")]
  return out

def adjacentEdge? (d : Drawing) (a b : Nat) : Option Edge :=
  d.edges.find? (fun e => (e.src == a && e.tgt == b) || (e.src == b && e.tgt == a))

def explainSep (pr : Params) (d : Drawing) (ti : TreeInfo) (sp : SepPair) : List Fail :=
  let isTree := ti.isTree
  match d.node? sp.src, d.node? sp.tgt with
  | some s, some t =>
    let one (nm : String) (c : SepDim) (ps pt ws wt : Rat) : List Fail :=
      if dimHolds pr.sepTol pr.extraBdry c ps pt ws wt then [] else
        let align := c.st == .eq && c.gt == .centre && c.gap == 0
        let adj := adjacentEdge? d sp.src sp.tgt
        let lab :=
          if align && isTree && adj.isSome then "sep~treeCentreAlign"
          -- inter-rank BDRY >= 0 constraint of Tree::addConstraints along the growth axis, between nodes that the
          -- layout placed exactly one rank distance apart: the nodes are longer than the rank distance
          else if c.st == .ineq && c.gt == .bdry && c.gap == 0 && ((nm == "x") == ti.axialX) && ti.adjacentRanks s t
            then "sep~treeRankSep"
          else if align && (match adj with | some e => e.route.length ≥ 3 | none => false) then "sep~staleAlignBentEdge"
          else if align && adj.isSome then "sep~staleAlignStraightEdge"
          else if c.st == .ineq && c.gt == .bdry && dimHolds pr.sepTol 0 c ps pt ws wt then "sep~bdryExtraGap"
          else "sepSatisfied"
        let kind := (if c.gt == .bdry then "BDRY" else "CENTRE") ++ (if c.st == .eq then " ==" else " >=")
        [(lab, s!"sep {sp.src}->{sp.tgt} {nm} {kind} gap={if c.neg then "-" else "+"}{r2s (absR c.gap)} but pos {r2s ps}->{r2s pt} ext {r2s ws},{r2s wt}")]
    one "x" sp.x s.cx t.cx s.w t.w ++ one "y" sp.y s.cy t.cy s.h t.h
  | _, _ => [("sepSatisfied", s!"sep {sp.src}->{sp.tgt} refers to a node that is not in the graph")]

def explain (pr : Params) (ti : TreeInfo) (before after : Drawing) (seps : List SepPair) : List Fail := Id.run do
  let mut out : List Fail := []
  let ro := rankOverlapIds pr ti after
  if !sameGraph before after then
    out := out ++ [("sameGraph", s!"ids before={before.ids} after={after.ids}; edges before={before.ekeys} after={after.ekeys}")]
  if !sizesKept before after then
    for n in after.nodes do
      match before.node? n.id with
      | some m =>
        if m.w != n.w || m.h != n.h then
          let dev := absR (m.w - n.w) + absR (m.h - n.h)
          let lab := if dev ≤ (1 : Rat) / 1000000000 then "sizesKept~ulp" else "sizesKept"
          out := out ++ [(lab, s!"node {n.id} dw={r2s ((n.w - m.w) * 1000000000000)}e-12 dh={r2s ((n.h - m.h) * 1000000000000)}e-12")]
      | none => out := out ++ [("sizesKept", s!"node {n.id} not in input")]
  if !noNodeOverlap pr.overlapTol after then
    let ns := after.nodes.toArray
    for i in [0:ns.size] do
      for j in [i+1:ns.size] do
        if rectsOverlap pr.overlapTol ns[i]!.box ns[j]!.box then
          let lab := if ti.adjacentRanks ns[i]! ns[j]! then "noNodeOverlap~treeRanks" else "noNodeOverlap"
          out := out ++ [(lab, s!"nodes {ns[i]!.id} and {ns[j]!.id} overlap")]
  for e in after.edges do
    if !edgeOk pr.padE pr.shrink after e then out := out ++ explainEdge pr after ro e
  for sp in seps do
    if !sepHolds pr.sepTol pr.extraBdry after sp then out := out ++ explainSep pr after ti sp
  return out

/-! ### tie of the final-segment limit rule -/
open AdaptaVerif.Model.FinalSegLimits in
/-- `none` = the ends are too close to a shape boundary to classify, `some none` = agrees, `some (some msg)` = differs -/
def checkFseg (tol : Rat) (shapes : List Rect) (l : Array String) : Option (Option String) :=
  match nums? (l.extract 2 7) with
  | none => some (some "unparsable fseg line")
  | some v =>
    if v.size != 5 then some (some "short fseg line") else
    let dimX := l[0]! == "0"
    let (low, high, pos, mn, mx) := (v[0]!, v[1]!, v[2]!, v[3]!, v[4]!)
    let a : P := if dimX then ⟨pos, low⟩ else ⟨low, pos⟩
    let z : P := if dimX then ⟨pos, high⟩ else ⟨high, pos⟩
    let amb := shapes.any (fun r =>
      insideBounds a (r.shrink (-tol)) != insideBounds a (r.shrink tol) ||
      insideBounds z (r.shrink (-tol)) != insideBounds z (r.shrink tol))
    if amb then none else
    let m := finalLimits dimX a z shapes
    if m.lo - tol ≤ mn && mx ≤ m.hi + tol then some none
    else some (some s!"conn {l[1]!} dim {l[0]!} segment ({r2s a.x},{r2s a.y})-({r2s z.x},{r2s z.y}): library limits [{r2s mn},{r2s mx}] not inside model limits [{r2s m.lo},{r2s m.hi}] (ends in shape: model {m.first || m.last}, library {l[7]!})")

def dedup (xs : List String) : List String := xs.foldl (fun acc x => if acc.contains x then acc else acc ++ [x]) []

def checkCase (c : Case) : CaseResult := Id.run do
  let some o := c.get1 "opts" | return { verdict := .diverge "no opts line" }
  if o.size < 7 then return { verdict := .diverge "short opts line" }
  match c.get1 "pre" with
  | some p => if p != #["1", "1"] then return { verdict := .diverge s!"generator precondition failed (connected simple) {p}" }
  | none => return { verdict := .diverge "no pre line" }
  match c.get1 "threw" with
  | some w => return { verdict := .specfail s!"exception | doHOLA threw on a connected simple graph: {" ".intercalate w.toList}" }
  | none => pure ()
  if (c.get1 "done").isNone then return { verdict := .diverge "no done line" }
  let some n0 := (c.get "n0").mapM parseNode | return { verdict := .diverge "unparsable n0" }
  let some n1 := (c.get "n1").mapM parseNode
    | return { verdict := .specfail "nonFinite | a returned node coordinate or size is not a finite number" }
  let e0 := (c.get "e0").map parseEdge0
  let some e1 := (c.get "e1").mapM parseEdge1
    | return { verdict := .specfail "nonFinite | a returned route coordinate is not a finite number" }
  let some seps := (c.get "sep").mapM parseSep
    | return { verdict := .specfail "nonFinite | a returned SepPair gap is not a finite number" }
  let some padScalar := num? o[6]! | return { verdict := .diverge "bad pad scalar" }
  let some extra := ((c.get1 "extrabdry").bind (·[0]?)).bind num? | return { verdict := .diverge "no extrabdry" }
  if n0.size == 0 then return { verdict := .diverge "empty graph" }
  let before : Drawing := ⟨n0.toList, e0.toList⟩
  let after : Drawing := ⟨n1.toList, e1.toList⟩
  let sumDims : Rat := n0.foldl (fun acc n => acc + n.w + n.h) 0
  let iel : Rat := sumDims / (n0.size : Rat)          -- 2 * (sum / (2n))
  let pr : Params := ⟨0, padScalar * iel / 2, (1 : Rat) / 1000000, (1 : Rat) / 10000, extra⟩
  let ok := cleanDrawing pr before after seps.toList
  -- distribution statistics
  let bends := e1.foldl (fun acc e => acc + (e.route.length - 2)) 0
  let moved := (n0.zip n1).any (fun (a, b) => a.cx != b.cx || a.cy != b.cy)
  let isTree := e0.size + 1 == n0.size
  let maxDeg := n0.foldl (fun acc n => Nat.max acc ((e0.filter (fun e => e.src == n.id || e.tgt == n.id)).size)) 0
  -- declaration direction of the edges at the busiest node: edges INTO it (it is their target end) / OUT of it
  let maxIn := n0.foldl (fun acc n => Nat.max acc ((e0.filter (fun e => e.tgt == n.id)).size)) 0
  let maxOut := n0.foldl (fun acc n => Nat.max acc ((e0.filter (fun e => e.src == n.id)).size)) 0
  let bucket (p : String) (v : Nat) : String :=
    p ++ (if v ≥ 12 then ".12+" else if v ≥ 8 then ".08-11" else if v ≥ 5 then ".05-07" else ".le4")
  let crowd : List (String × Nat) := match c.get1 "crowd" with
    | some l => [("crowd.topo." ++ (l[0]?.getD "?"), 1), ("crowd.orient." ++ (l[1]?.getD "?"), 1)]
    | none => []
  let nb := if n0.size ≤ 10 then "n.05-10" else if n0.size ≤ 25 then "n.11-25" else if n0.size ≤ 40 then "n.26-40" else "n.41+"
  let stats : List (String × Nat) :=
    [("nodes", n0.size), ("edges", e0.size), ("seppairs", seps.size), ("bends", bends), (nb, 1),
     ("opt.aca." ++ o[0]!, 1), ("opt.nearalign." ++ o[1]!, 1), ("opt.aspect." ++ o[5]!, 1), ("opt.growth." ++ (o[7]?.getD "1"), 1),
     (if isTree then "shape.tree" else "shape.cyclic", 1),
     (if maxDeg ≥ 5 then "maxdeg.5+" else "maxdeg.le4", 1), (bucket "degmax" maxDeg, 1),
     (bucket "maxindeg" maxIn, 1), (bucket "maxoutdeg" maxOut, 1),
     ("pos." ++ (((c.get1 "pos").bind (·[0]?)).getD "?"), 1), ("size." ++ (((c.get1 "size").bind (·[0]?)).getD "?"), 1)] ++ crowd
  -- tie of the final-segment limit rule
  let routePad : Rat := (((c.get1 "routepad").bind (·[0]?)).bind num?).getD 0
  let shapes : List Rect := n1.toList.map (fun n =>
    (⟨n.cx - (n.w + routePad) / 2, n.cy - (n.h + routePad) / 2, n.cx + (n.w + routePad) / 2, n.cy + (n.h + routePad) / 2⟩ : Rect))
  let fres := (c.get "fseg").map (checkFseg ((1 : Rat) / 1000000) shapes)
  let fbad := fres.toList.filterMap (fun r => match r with | some (some m) => some m | _ => none)
  let famb := (fres.filter (·.isNone)).size
  let stats := stats ++ [("fseg", fres.size), ("fseg.ambiguous", famb), ("fseg.bad", fbad.length)]
  if ok then
    match fbad with
    | m :: _ =>
      return { verdict := .diverge (((s!"finalSegLimits | {m}" ++ (if fbad.length > 1 then s!"; … ({fbad.length} segments)" else "")).take 900).toString),
               nontrivial := true, stats := stats ++ [("tie.finalSegLimits.bad", 1)] }
    | [] => pure ()
    return { verdict := .ok, nontrivial := moved && e1.size > 0, stats := stats ++ [("ok", 1)] }
  let growth := o[7]?.getD "1"
  let ti : TreeInfo := ⟨isTree, growth == "0" || growth == "2", iel⟩
  let fails := explain pr ti before after seps.toList
  let labels0 := dedup (fails.map (·.1))
  -- the tie is broken as well: if the clause this rule protects (route ends) fails, the case is a concrete failing
  -- input for it and carries the extra label; otherwise the case is reported as the broken tie (DIVERGE), with the
  -- labels of the clauses that fail in it, so that no known finding absorbs it
  match fbad with
  | m :: _ =>
    if !labels0.contains "routeEndsAtNodes" then
      return { verdict := .diverge (((s!"finalSegLimits | {m}" ++ (if fbad.length > 1 then s!"; … ({fbad.length} segments)" else "") ++
                 "; clauses failing in this case: " ++ "+".intercalate labels0).take 900).toString),
               nontrivial := true, stats := stats ++ [("tie.finalSegLimits.bad", 1)] ++ labels0.map (fun l => ("fail." ++ l, 1)) }
  | [] => pure ()
  let fails := fails ++ (fbad.take 1).map (fun m => ("tie~finalSegLimits", m))
  let labels := dedup (fails.map (·.1))
  -- at most two details per label, so that every failing clause is visible in the message
  let details := labels.flatMap (fun l => ((fails.filter (·.1 == l)).map (·.2)).take 2)
  let msg := "+".intercalate labels ++ " | " ++ "; ".intercalate details ++
    (if fails.length > details.length then s!"; … ({fails.length} failures)" else "")
  let msg := if labels.isEmpty then "cleanDrawing=false | (no explanation found)" else msg
  return { verdict := .specfail ((msg.take 900).toString), nontrivial := true,
           stats := stats ++ labels.map (fun l => ("fail." ++ l, 1)) }

def run (_args : List String) : IO UInt32 := runCases checkCase

end Driver.C14
