import Driver.Proto
namespace Driver.C14

def run (_args : List String) : IO UInt32 := do
  IO.eprintln "driver mode c14: not implemented yet"
  return 2

end Driver.C14
