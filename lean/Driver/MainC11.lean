import Driver.C11

def main (args : List String) : IO UInt32 := Driver.C11.run args
