import Driver.C15

def main (args : List String) : IO UInt32 := Driver.C15.run args
