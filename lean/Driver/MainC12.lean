import Driver.C12

def main (args : List String) : IO UInt32 := Driver.C12.run args
