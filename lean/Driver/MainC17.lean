import Driver.C17

def main (args : List String) : IO UInt32 := Driver.C17.run args
