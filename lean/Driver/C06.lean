/-
Driver mode c06 (DESIGN.md section 6, C06). Per history (one CASE):
 * tie: after every API call the router's scene (ShapeRef::polygon(), active flag,
   JunctionRef::position(), connector end vertices) must equal the scene of
   Model.ActionQueue exactly                                              → DIVERGE otherwise
 * after every processing point at which the model queue is empty:
   (a) displayRoute() and route() of every connector valid for the MODEL's scene (Check.RouteRect,
       shapes shrunk by 1e-6)                                              → SPECFAIL invalid-route
   (b) cost(route()) equals cost(route() of the fresh router) to 1e-6     → SPECFAIL stale-route / fresh-worse
   (c) a processTransaction() with nothing queued leaves displayRoute()/route() bit-identical
                                                                           → SPECFAIL noop-changed
   (d) staleness audit of dumped visibility / invisibility edges           → DIVERGE stale-graph
-/
import Driver.Proto
import AdaptaVerif.Model.ActionQueue
import AdaptaVerif.Check.RouteRect
namespace Driver.C06
open Driver AdaptaVerif.Num AdaptaVerif.Model.ActionQueue
open AdaptaVerif.Check.RouteRect (P Rect segHitsOpenRect routeValidRect)

abbrev Pts := Array Pt

def toP (p : Pt) : P := ⟨p.x, p.y⟩

/-- `n x1 y1 … xn yn` starting at token `i` -/
def parsePts (l : Array String) (i : Nat) : Option Pts := do
  let n := nat! (l[i]?.getD "0")
  let mut out : Pts := #[]
  for j in [0:n] do
    let x ← num? (l[i + 1 + 2 * j]?.getD "")
    let y ← num? (l[i + 2 + 2 * j]?.getD "")
    out := out.push ⟨x, y⟩
  return out

def parsePt (l : Array String) (i : Nat) : Option Pt := do
  let x ← num? (l[i]?.getD "")
  let y ← num? (l[i + 1]?.getD "")
  return ⟨x, y⟩

def parseOp (l : Array String) : Option Op := do
  let name := l[0]?.getD ""
  let id := nat! (l[1]?.getD "0")
  match name with
  | "addShape" => let p ← parsePts l 2; return .addObst false id p.toList
  | "addJunction" => let p ← parsePt l 2; return .addObst true id [p]
  | "moveShapeAbs" => let p ← parsePts l 3; return .moveAbs false id p.toList (l[2]?.getD "0" == "1")
  | "moveJunctionAbs" => let p ← parsePt l 2; return .moveAbs true id [p] false
  | "moveShapeRel" => let p ← parsePt l 2; return .moveRel false id p.x p.y
  | "moveJunctionRel" => let p ← parsePt l 2; return .moveRel true id p.x p.y
  | "deleteShape" => return .delete false id
  | "deleteJunction" => return .delete true id
  | "newConn" => return .newConn id
  | "setEndpoint" =>
    let p ← parsePt l 3
    let w := l[2]?.getD ""
    if w == "1" then return .setEndpoint id .src p
    else if w == "2" then return .setEndpoint id .tar p
    else none
  | "setTransactionUse" => return .setTransactionUse (l[1]?.getD "0" == "1")
  | "processTransaction" => return .processTransaction
  | _ => none

def opName : Op → String
  | .addObst j .. => if j then "addJunction" else "addShape"
  | .moveAbs j .. => if j then "moveJunctionAbs" else "moveShapeAbs"
  | .moveRel j .. => if j then "moveJunctionRel" else "moveShapeRel"
  | .delete j .. => if j then "deleteJunction" else "deleteShape"
  | .newConn .. => "newConn"
  | .setEndpoint .. => "setEndpoint"
  | .setTransactionUse .. => "setTransactionUse"
  | .processTransaction => "processTransaction"

/-- which de-duplication branch of the model an op takes (coverage statistics) -/
def branchOf (st : State) : Op → String
  | .moveAbs _ id _ _ | .moveRel _ id _ _ =>
    if hasAct st.queue .add id then "move.fold-into-add"
    else if hasAct st.queue .move id then "move.overwrite-queued"
    else "move.push"
  | .delete _ id => if hasAct st.queue .move id then "delete.erases-queued-move" else "delete.push"
  | .setEndpoint c e _ =>
    match findAct st.queue .connChange c with
    | some a => if a.conns.any (·.1 == e) then "endpoint.overwrite-same-end" else "endpoint.append-other-end"
    | none => "endpoint.push"
  | .processTransaction => if st.queue.isEmpty then "txn.empty" else "txn.flush"
  | _ => "other"

def insertSorted {α} (key : α → Nat) (a : α) : List α → List α
  | [] => [a]
  | b :: l => if key a ≤ key b then a :: b :: l else b :: insertSorted key a l

def sortBy {α} (key : α → Nat) (l : List α) : List α := l.foldr (insertSorted key) []

def rectOfPoly (g : Poly) : Option Rect :=
  match g with
  | [] => none
  | p :: rest =>
    let x0 := rest.foldl (fun m q => if q.x < m then q.x else m) p.x
    let x1 := rest.foldl (fun m q => if q.x > m then q.x else m) p.x
    let y0 := rest.foldl (fun m q => if q.y < m then q.y else m) p.y
    let y1 := rest.foldl (fun m q => if q.y > m then q.y else m) p.y
    some ⟨x0, y0, x1, y1⟩

def tol : Rat := 1 / 1000000

/-- junction obstacle box: `JunctionRef::makeRectangle`, nudgeDist = min(1, idealNudgingDistance = 4) -/
def junctionBox (g : Poly) : Option Rect :=
  match g with
  | [p] => some ⟨p.x - 1, p.y - 1, p.x + 1, p.y + 1⟩
  | _ => none

def shapeRects (sc : Scene) : List Rect :=
  sc.obsts.filterMap fun o => if o.isJ || !o.active then none else (rectOfPoly o.geom).map (·.shrink tol)

def junctionRects (sc : Scene) : List (Nat × Rect) :=
  sc.obsts.filterMap fun o => if o.isJ && o.active then (junctionBox o.geom).map (fun r => (o.id, r.shrink tol)) else none

/-! ### exact cost arithmetic -/

def scaleS : Nat := 1000000000

/-- certified enclosure `lo ≤ sqrt x ≤ hi` (hi − lo = 1e-9); the candidate from `Nat.sqrt` is
    CHECKED (`lo² ≤ x ≤ hi²`), so nothing about `Nat.sqrt` is trusted -/
def sqrtEncl (x : Rat) : Option (Rat × Rat) :=
  if x < 0 then none else
  let n : Nat := ((x * (scaleS * scaleS : Nat)).floor).toNat
  let r := Nat.sqrt n
  let lo : Rat := (r : Rat) / (scaleS : Rat)
  let hi : Rat := ((r + 1 : Nat) : Rat) / (scaleS : Rat)
  if lo * lo ≤ x && x ≤ hi * hi then some (lo, hi) else none

def cross (a b c : Pt) : Rat := (b.x - a.x) * (c.y - b.y) - (b.y - a.y) * (c.x - b.x)
def dot (a b c : Pt) : Rat := (b.x - a.x) * (c.x - b.x) + (b.y - a.y) * (c.y - b.y)

/-- number of `segmentPenalty` units of a path (makepath.cpp `cost`): 1 per non-collinear bend,
    2 for doubling back -/
def bendUnits (r : Pts) : Nat := Id.run do
  let mut n := 0
  for i in [2:r.size] do
    let a := r[i - 2]!; let b := r[i - 1]!; let c := r[i]!
    if a == b || b == c then continue
    if cross a b c != 0 then n := n + 1
    else if dot a b c < 0 then n := n + 2
  return n

def absR (x : Rat) : Rat := if x < 0 then -x else x

/-- cost enclosure (lo, hi): Euclidean (polyline) or Manhattan (orthogonal) length + penalty·bends -/
def costEncl (orth : Bool) (pen : Rat) (r : Pts) : Option (Rat × Rat) := Id.run do
  let mut lo : Rat := 0
  let mut hi : Rat := 0
  for i in [1:r.size] do
    let a := r[i - 1]!; let b := r[i]!
    if orth then
      let d := absR (b.x - a.x) + absR (b.y - a.y)
      lo := lo + d; hi := hi + d
    else
      match sqrtEncl ((b.x - a.x) * (b.x - a.x) + (b.y - a.y) * (b.y - a.y)) with
      | some (l, h) => lo := lo + l; hi := hi + h
      | none => return none
  let p := pen * (bendUnits r : Nat)
  return some (lo + p, hi + p)

def showR (x : Rat) : String :=
  let m := (x * 1000).floor
  s!"{m / 1000}.{(m % 1000).toNat / 100}{((m % 1000).toNat / 10) % 10}{(m % 1000).toNat % 10}"

def showPts (r : Pts) : String :=
  " ".intercalate (r.toList.map fun p => s!"({showR p.x},{showR p.y})")

/-! ### per-case state machine -/

structure Edge where
  o1 : Nat
  vn1 : Nat
  c1 : Bool
  p1 : Pt
  o2 : Nat
  vn2 : Nat
  c2 : Bool
  p2 : Pt
  blocker : Int := 0

def parseEdge (l : Array String) (withBlocker : Bool) : Option Edge := do
  let p1 ← parsePt l 3
  let p2 ← parsePt l 8
  return { o1 := nat! (l[0]?.getD "0"), vn1 := nat! (l[1]?.getD "0"), c1 := l[2]?.getD "0" == "1", p1 := p1,
           o2 := nat! (l[5]?.getD "0"), vn2 := nat! (l[6]?.getD "0"), c2 := l[7]?.getD "0" == "1", p2 := p2,
           blocker := if withBlocker then int! (l[10]?.getD "0") else 0 }

structure Txn where
  rt : List (Nat × Pts) := []
  rr : List (Nat × Pts) := []
  fr : List (Nat × Pts) := []
  fd : List (Nat × Pts) := []
  fresh : Bool := false
  ve : Array Edge := #[]
  ie : Array Edge := #[]
  dumped : Bool := false

structure St where
  model : State := init
  orth : Bool := false
  pen : Rat := 0
  buf : Rat := 0                           -- shapeBufferDistance
  obsO : List Obst := []
  obsC : List Conn := []
  txn : Txn := {}
  inTxn : Bool := false
  last : List (Nat × Pts × Pts) := []      -- conn ↦ (displayRoute, route) at the previous processing point
  noopExpected : Bool := false
  staleSeen : List (Nat × Pts × String) := []   -- (conn, route, class) of stale routes already reported
  dirty : List Nat := []                   -- obstacles added / moved since the last checked processing point
  lastOp : String := ""
  stats : List (String × Nat) := []
  checkedTxns : Nat := 0
  bentRoutes : Nat := 0
  rerouted : Nat := 0
  fail : Option Verdict := none

def St.bump (s : St) (k : String) (n : Nat := 1) : St := { s with stats := bumpStats s.stats k n }

/-- rank of a verdict within one history: a property failure outranks a broken tie, and the two
    classes that are consequences of documented design limitations (a route through two opposite
    corners, a gain through fewer bends only) rank below every other property failure, so that they
    cannot mask a different failure later in the same history -/
def rank : Verdict → Nat
  | .ok => 0
  | .diverge _ => 1
  | .specfail m =>
    if m.startsWith "invalid-route through-two-corners" || m.startsWith "stale-route not-rerouted-fewer-bends"
        || m.startsWith "invalid-route through-buffer-owner"
    then 2 else 3

def St.setFail (s : St) (v : Verdict) : St :=
  match s.fail with
  | none => { s with fail := some v }
  | some old => if rank v > rank old then { s with fail := some v } else s

def lookup {β} (l : List (Nat × β)) (k : Nat) : Option β := (l.find? (·.1 == k)).map (·.2)

/-- vertex of a dumped edge must belong to a live object of the model scene, at its current position -/
def near (a b : Rat) : Bool := absR (a - b) ≤ tol

/-- `Polygon::offsetPolygon(buf)` of a rectangle: every corner moves outwards by `buf` in x and in y -/
def offsetCorner (rc : Rect) (buf : Rat) (g : Pt) : Pt :=
  ⟨if g.x * 2 > rc.x0 + rc.x1 then g.x + buf else g.x - buf, if g.y * 2 > rc.y0 + rc.y1 then g.y + buf else g.y - buf⟩

/-- does the routing polygon (shape grown by the buffer distance) of the rectangle strictly contain p? -/
def inBufferZone (rc : Rect) (buf : Rat) (p : Pt) : Bool :=
  rc.x0 - buf < p.x && p.x < rc.x1 + buf && rc.y0 - buf < p.y && p.y < rc.y1 + buf

def vertexOk (sc : Scene) (orth : Bool) (buf : Rat) (o vn : Nat) (isConn : Bool) (p : Pt) : Bool :=
  if orth then true else
  if isConn then
    match findConn sc o with
    | some c => if vn == 1 then c.src == some p else if vn == 2 then c.dst == some p else true
    | none =>
      match findObst sc o with            -- connection-pin vertex of a junction (its centre)
      | some ob => ob.active && ob.isJ && ob.geom == [p]
      | none => false
  else
    match findObst sc o with
    | some ob =>
      ob.active &&
        (if ob.isJ then
          match ob.geom with
          | [c] => (near p.x (c.x + 1 + buf) || near p.x (c.x - 1 - buf)) && (near p.y (c.y + 1 + buf) || near p.y (c.y - 1 - buf))
          | _ => false
         else match ob.geom[vn]?, rectOfPoly ob.geom with
           | some g, some rc => let q := offsetCorner rc buf g; near q.x p.x && near q.y p.y
           | _, _ => false)
    | none => false

/-- Classification of an invalid route (fingerprint for findings). Every (leg, shape) pair in which
    the leg crosses the shape's interior is put in one of three classes, and the most serious class
    present is reported:
    * `through-interior`: nothing excuses it;
    * `through-two-corners`: the leg runs exactly through two corners of the shape (its diagonal);
    * `through-buffer-owner`: shapeBufferDistance > 0 and the shape's ROUTING polygon (shape grown by the
      buffer) contains an endpoint of this connector, although the shape itself does not: libavoid
      exempts such a shape as a blocker for that endpoint (Router::contains), so the route may cut
      through the shape itself. -/
def invalidKind (sc : Scene) (buf : Rat) (src dst : Pt) (r : Pts) : String := Id.run do
  let mut interior : Option Nat := none
  let mut corners2 : Option Nat := none
  let mut owner : Option Nat := none
  for i in [1:r.size] do
    let a := r[i - 1]!; let b := r[i]!
    for o in sc.obsts do
      if o.isJ || !o.active then continue
      match rectOfPoly o.geom with
      | none => continue
      | some rc =>
        if segHitsOpenRect (rc.shrink tol) (toP a) (toP b) then
          let corners : List Pt := [⟨rc.x0, rc.y0⟩, ⟨rc.x1, rc.y0⟩, ⟨rc.x1, rc.y1⟩, ⟨rc.x0, rc.y1⟩]
          let on := corners.filter fun c => cross a b c == 0 && dot a c b ≥ 0
          if buf > 0 && (inBufferZone rc buf src || inBufferZone rc buf dst) then owner := some o.id
          else if on.length ≥ 2 then corners2 := some o.id
          else interior := some o.id
  match interior, corners2, owner with
  | some id, _, _ => return s!"through-interior shape={id}"
  | _, some id, _ => return s!"through-two-corners shape={id}"
  | _, _, some id => return s!"through-buffer-owner shape={id}"
  | _, _, _ => return "endpoints"

/-- does the segment a–b run exactly through two corners of the rectangle (its diagonal)? -/
def throughTwoCorners (rc : Rect) (a b : Pt) : Bool :=
  let corners : List Pt := [⟨rc.x0, rc.y0⟩, ⟨rc.x1, rc.y0⟩, ⟨rc.x1, rc.y1⟩, ⟨rc.x0, rc.y1⟩]
  (corners.filter fun c => cross a b c == 0 && dot a c b ≥ 0).length ≥ 2

def checkTxn (s : St) : St := Id.run do
  let t := s.txn
  let mut s := { s with txn := {}, inTxn := false }
  if !s.model.queue.isEmpty then
    -- the router is in the middle of a transaction (move folded into a queued Add while transactions
    -- are off): the property promises nothing about routes here
    return s.bump "txn.skipped-queue-nonempty"
  let sc := s.model.scene
  let rects := shapeRects sc
  s := { s with checkedTxns := s.checkedTxns + 1 }
  s := s.bump "txn.checked"
  -- (a) validity
  let mut invalid : List Nat := []        -- an invalid route is not compared by cost (a short cut is cheaper)
  for (kind, routes) in [("displayRoute", t.rt), ("route", t.rr)] do
    for (cid, r) in routes do
      match findConn sc cid with
      | some { src := some a, dst := some b, .. } =>
        s := s.bump "routes.validated"
        if !routeValidRect rects (toP a) (toP b) (r.toList.map toP) then
          invalid := cid :: invalid
          s := s.setFail (.specfail s!"invalid-route {invalidKind sc s.buf a b r} {kind} conn={cid} txn-after-op={s.lastOp}: {showPts r} not a valid route from ({showR a.x},{showR a.y}) to ({showR b.x},{showR b.y}) for the model scene")
      | _ => s := s.setFail (.diverge s!"route printed for connector {cid} whose ends are not both set in the model")
      -- junction obstacle boxes: the property text speaks of shapes, so a route through a junction box is
      -- not judged (only counted) - except for the through-two-corners class (same defect as for shapes),
      -- which otherwise surfaces as a misleading "fresh-worse" cost gap
      -- (polyline only: orthogonal routes legitimately run through free-floating junction boxes)
      for (jid, jr) in (if s.orth then [] else junctionRects sc) do
        for i in [1:r.size] do
          let a := r[i - 1]!; let b := r[i]!
          if segHitsOpenRect jr (toP a) (toP b) then
            if throughTwoCorners (jr.shrink (-tol)) a b then
              invalid := cid :: invalid
              s := s.setFail (.specfail s!"invalid-route through-two-corners junction={jid} {kind} conn={cid} txn-after-op={s.lastOp}: {showPts r} runs through the diagonal of the junction's obstacle box")
            else
              s := s.bump "routes.through-junction-box-not-judged"
  -- (c) no-op transaction
  if s.noopExpected then
    s := s.bump "noop-txn.checked"
    for (cid, r) in t.rt do
      match lookup s.last cid with
      | some (d0, r0) =>
        if d0 != r || some r0 != lookup t.rr cid then
          s := s.setFail (.specfail s!"noop-changed conn={cid}: a processTransaction() with an empty queue changed the route")
      | none => pure ()
  -- (b) cost against the fresh router
  if t.fresh then
    for (cid, r) in t.rr do
      if invalid.contains cid then continue
      match lookup t.fr cid with
      | none => s := s.setFail (.diverge s!"no fresh route for connector {cid}")
      | some f =>
        s := s.bump "cost.compared"
        if r.size ≥ 3 then s := { s with bentRoutes := s.bentRoutes + 1 }
        let changed := match lookup s.last cid with
          | some (_, r0) => r0 != r
          | none => true
        if changed && (lookup s.last cid).isSome then s := { s with rerouted := s.rerouted + 1 }
        match costEncl s.orth s.pen r, costEncl s.orth s.pen f with
        | some (il, ih), some (fl, fh) =>
          if il > fh + tol then
            -- is the fresh route better only through fewer bends (its pure length is not shorter)?
            let penOnly := match costEncl s.orth 0 r, costEncl s.orth 0 f with
              | some (ll, _), some (_, fh') => s.pen > 0 && ll ≤ fh' + tol
              | _, _ => false
            -- with segmentPenalty > 0: does the cheaper fresh route have no more bends than the old one and
            -- turn at a corner of an obstacle that was added / moved in this transaction (a via-vertex the
            -- old route could not know)? Without a bend penalty a new vertex can never shorten a route; with
            -- one, the best route with at most k bends can improve, and nothing alerts the connector.
            let newCorners : List Pt := sc.obsts.foldl (fun acc o =>
              if s.dirty.contains o.id then
                match (if o.isJ then junctionBox o.geom else rectOfPoly o.geom) with
                | some rc => [⟨rc.x0, rc.y0⟩, ⟨rc.x1, rc.y0⟩, ⟨rc.x1, rc.y1⟩, ⟨rc.x0, rc.y1⟩] ++ acc
                | none => acc
              else acc) []
            let viaNew := decide (s.pen > (0 : Rat)) && decide (bendUnits f ≤ bendUnits r) &&
              (f.toList.drop 1).dropLast.any (fun p => newCorners.contains p)
            let kind := if changed then "rerouted-worse" else if penOnly then "not-rerouted-fewer-bends-only"
              else if viaNew then "not-rerouted-fewer-bends-via-new-vertex" else "not-rerouted"
            -- the same unchanged route found stale again at a later processing point keeps its class
            let kind := match s.staleSeen.find? (fun e => e.1 == cid && e.2.1 == r) with
              | some e => e.2.2
              | none => kind
            s := { s with staleSeen := (cid, r, kind) :: s.staleSeen }
            s := s.setFail (.specfail s!"stale-route {kind} conn={cid} after-op={s.lastOp} incremental-cost={showR il} fresh-cost={showR fh} incremental: {showPts r} fresh: {showPts f}")
          else if fl > ih + tol then
            s := s.setFail (.specfail s!"fresh-worse conn={cid} after-op={s.lastOp} incremental-cost={showR ih} fresh-cost={showR fl} incremental: {showPts r} fresh: {showPts f}")
          else if r == f then s := s.bump "cost.same-route" else s := s.bump "cost.equal-cost-different-route"
        | _, _ => s := s.setFail (.diverge "sqrt enclosure could not be certified")
  -- (d) staleness audit
  if t.dumped then
    s := s.bump "graph.dumps"
    let jrs := junctionRects sc
    for e in t.ve do
      s := s.bump "graph.vis-edges"
      if !(vertexOk sc s.orth s.buf e.o1 e.vn1 e.c1 e.p1 && vertexOk sc s.orth s.buf e.o2 e.vn2 e.c2 e.p2) then
        s := s.setFail (.diverge s!"stale-graph dangling-vertex: visibility edge ({e.o1},{e.vn1})-({e.o2},{e.vn2}) refers to a deleted object or an outdated position")
      else if decide (s.buf > (0 : Rat)) && rects.any (fun r => segHitsOpenRect r (toP e.p1) (toP e.p2) &&
          ((e.c1 && inBufferZone (r.shrink (-tol)) s.buf e.p1) || (e.c2 && inBufferZone (r.shrink (-tol)) s.buf e.p2))) &&
          !(rects.any fun r => segHitsOpenRect r (toP e.p1) (toP e.p2) &&
            !((e.c1 && inBufferZone (r.shrink (-tol)) s.buf e.p1) || (e.c2 && inBufferZone (r.shrink (-tol)) s.buf e.p2))) then
        -- the only shapes the edge crosses own a buffer zone around one of its connector ends: libavoid's
        -- `contains` exemption (see invalidKind); counted, judged only when a route uses it
        s := s.bump "graph.edge-through-buffer-owner"
      else if rects.any (fun r => segHitsOpenRect r (toP e.p1) (toP e.p2)) then
        let diag := rects.any fun r => segHitsOpenRect r (toP e.p1) (toP e.p2) && throughTwoCorners (r.shrink (-tol)) e.p1 e.p2
        let cls := if diag then "stale-graph through-two-corners" else "stale-graph blocked-edge"
        s := s.setFail (.diverge s!"{cls}: visibility edge ({e.o1},{e.vn1})-({e.o2},{e.vn2}) ({showR e.p1.x},{showR e.p1.y})-({showR e.p2.x},{showR e.p2.y}) passes through a shape of the current scene")
      else if !s.orth && jrs.any (fun (jid, r) => jid != e.o1 && jid != e.o2 && segHitsOpenRect r (toP e.p1) (toP e.p2)) then
        let diag := jrs.any fun (jid, r) => jid != e.o1 && jid != e.o2 && segHitsOpenRect r (toP e.p1) (toP e.p2) && throughTwoCorners (r.shrink (-tol)) e.p1 e.p2
        let cls := if diag then "stale-graph through-two-corners" else "stale-graph blocked-edge"
        s := s.setFail (.diverge s!"{cls}: visibility edge ({e.o1},{e.vn1})-({e.o2},{e.vn2}) ({showR e.p1.x},{showR e.p1.y})-({showR e.p2.x},{showR e.p2.y}) passes through a junction box of the current scene")
    for e in t.ie do
      s := s.bump "graph.invis-edges"
      if !(vertexOk sc s.orth s.buf e.o1 e.vn1 e.c1 e.p1 && vertexOk sc s.orth s.buf e.o2 e.vn2 e.c2 e.p2) then
        s := s.setFail (.diverge s!"stale-graph dangling-vertex: invisibility edge ({e.o1},{e.vn1})-({e.o2},{e.vn2}) refers to a deleted object or an outdated position")
      else if e.blocker > 0 then
        match findObst sc e.blocker.toNat with
        | some ob =>
          -- the recorded blocker must at least touch the segment (expanded by 1e-6)
          let box := if ob.isJ then junctionBox ob.geom else rectOfPoly ob.geom
          match box with
          | some r =>
            if !ob.active || !segHitsOpenRect (r.shrink (-(tol + s.buf))) (toP e.p1) (toP e.p2) then
              s := s.setFail (.diverge s!"stale-graph stale-blocker: invisibility edge ({e.o1},{e.vn1})-({e.o2},{e.vn2}) names blocker {e.blocker} which does not touch it in the current scene")
          | none => pure ()
        | none => s := s.setFail (.diverge s!"stale-graph stale-blocker: invisibility edge ({e.o1},{e.vn1})-({e.o2},{e.vn2}) names deleted blocker {e.blocker}")
  -- remember routes
  let last := t.rt.filterMap fun (cid, d) => (lookup t.rr cid).map fun r => (cid, d, r)
  return { s with last := last, noopExpected := false, dirty := [] }

def stepLine (s : St) (l : Array String) : St :=
  if (match s.fail with | some v => decide (rank v ≥ 3) | none => false) then s else
  let key := l[0]?.getD ""
  let rest := l.extract 1 l.size
  match key with
  | "cfg" =>
    { s with orth := rest[0]?.getD "" == "orth", pen := (num? (rest[1]?.getD "0")).getD 0, buf := (num? (rest[3]?.getD "0")).getD 0,
             model := { init with useTxn := true } }
  | "op" =>
    match parseOp rest with
    | none => s.setFail (.diverge s!"unparsable op line {rest}")
    | some op =>
      if !legal s.model op then s.setFail (.diverge s!"generator issued a call that is not legal in the model state: {rest}")
      else
        let s := (s.bump ("op." ++ opName op)).bump ("branch." ++ branchOf s.model op)
        let s := if !s.model.useTxn then s.bump "op.in-immediate-mode" else s
        let noop := match op with
          | .processTransaction => s.model.queue.isEmpty
          | _ => false
        let dirty := match op with
          | .addObst _ id _ | .moveAbs _ id _ _ | .moveRel _ id _ _ => id :: s.dirty
          | _ => s.dirty
        { s with model := step s.model op, noopExpected := noop, lastOp := opName op, dirty := dirty }
  | "os" =>
    match parsePts rest 3 with
    | some g => { s with obsO := { id := nat! (rest[0]?.getD "0"), isJ := rest[1]?.getD "0" == "1",
                                   active := rest[2]?.getD "0" == "1", geom := g.toList } :: s.obsO }
    | none => s.setFail (.diverge "unparsable os line")
  | "oc" =>
    match parsePt rest 2, parsePt rest 5 with
    | some a, some b =>
      { s with obsC := { id := nat! (rest[0]?.getD "0"), src := if rest[1]?.getD "0" == "1" then some a else none,
                         dst := if rest[4]?.getD "0" == "1" then some b else none } :: s.obsC }
    | _, _ => s.setFail (.diverge "unparsable oc line")
  | "oe" =>
    let implO := sortBy Obst.id s.obsO
    let implC := sortBy Conn.id s.obsC
    let modO := sortBy Obst.id s.model.scene.obsts
    let modC := sortBy Conn.id s.model.scene.conns
    let s := { s with obsO := [], obsC := [] }
    let s := s.bump "tie.scene-compared"
    if implO != modO then
      let bad := (implO.zip modO).find? fun (a, b) => a != b
      let what := match bad with
        | some (a, b) => s!"obstacle {a.id}: router active={a.active} geom={showPts a.geom.toArray} / model id={b.id} active={b.active} geom={showPts b.geom.toArray}"
        | none => s!"router has {implO.length} obstacle objects, model {modO.length}"
      s.setFail (.diverge s!"scene tie after {s.lastOp}: {what}")
    else if implC != modC then s.setFail (.diverge s!"scene tie after {s.lastOp}: connector endpoints differ")
    else s
  | "txn" => { s with inTxn := true, txn := { dumped := rest[1]?.getD "0" == "1" } }
  | "ff" => { s with txn := { s.txn with fresh := rest[0]?.getD "0" == "1" } }
  | "rt" | "rr" | "fr" | "fd" =>
    match parsePts rest 1 with
    | some r =>
      let e := (nat! (rest[0]?.getD "0"), r)
      let t := s.txn
      let t := if key == "rt" then { t with rt := t.rt ++ [e] } else if key == "rr" then { t with rr := t.rr ++ [e] }
               else if key == "fr" then { t with fr := t.fr ++ [e] } else { t with fd := t.fd ++ [e] }
      { s with txn := t }
    | none => s.setFail (.diverge s!"unparsable {key} line (non-finite coordinate?)")
  | "ve" =>
    match parseEdge rest false with
    | some e => { s with txn := { s.txn with ve := s.txn.ve.push e } }
    | none => s.setFail (.diverge "unparsable ve line")
  | "ie" =>
    match parseEdge rest true with
    | some e => { s with txn := { s.txn with ie := s.txn.ie.push e } }
    | none => s.setFail (.diverge "unparsable ie line")
  | "te" => checkTxn s
  | _ => s

def checkCase (c : Case) : CaseResult :=
  let s := c.lines.foldl stepLine {}
  let done := (c.get1 "done").isSome
  let verdict := match s.fail with
    | some v => v
    | none => if done then .ok else .diverge "case stream incomplete"
  { verdict := verdict,
    nontrivial := s.checkedTxns ≥ 2 && s.bentRoutes ≥ 1,
    stats := s.stats ++ [("routes.bent", s.bentRoutes), ("routes.rerouted", s.rerouted)] }

def run (_args : List String) : IO UInt32 := runCases checkCase

end Driver.C06
