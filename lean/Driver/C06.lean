/-
Driver mode c06 (DESIGN.md section 6, C06). Per history (one CASE):
 * tie: after every API call the router's scene (ShapeRef::polygon(), active flag,
   JunctionRef::position(), connector end vertices) must equal the scene of
   Model.ActionQueue exactly                                              → DIVERGE otherwise
 * after every processing point at which the model queue is empty:
   (a) displayRoute() and route() of every connector valid for the MODEL's scene (Check.RouteRect,
       shapes shrunk by 1e-6)                                              → SPECFAIL invalid-route
   (b) cost(route()) equals cost(route() of the fresh router) to 1e-6     → SPECFAIL stale-route / fresh-worse
   (c) a processTransaction() with nothing queued leaves displayRoute()/route() bit-identical
                                                                           → SPECFAIL noop-changed
   (d) staleness audit of dumped visibility / invisibility edges           → DIVERGE stale-graph
-/
import Driver.Proto
import AdaptaVerif.Model.ActionQueue
import AdaptaVerif.Check.RouteRect
import AdaptaVerif.Model.Reroute
namespace Driver.C06
open Driver AdaptaVerif.Num AdaptaVerif.Model.ActionQueue
open AdaptaVerif.Check.RouteRect (P Rect segHitsOpenRect routeValidRect)

abbrev Pts := Array Pt
abbrev GPt := AdaptaVerif.Model.Geometry.Pt
open AdaptaVerif.Model

def toG (p : Pt) : GPt := ⟨p.x, p.y⟩

def toP (p : Pt) : P := ⟨p.x, p.y⟩

/-- `n x1 y1 … xn yn` starting at token `i` -/
def parsePts (l : Array String) (i : Nat) : Option Pts := do
  let n := nat! (l[i]?.getD "0")
  let mut out : Pts := #[]
  for j in [0:n] do
    let x ← num? (l[i + 1 + 2 * j]?.getD "")
    let y ← num? (l[i + 2 + 2 * j]?.getD "")
    out := out.push ⟨x, y⟩
  return out

def parsePt (l : Array String) (i : Nat) : Option Pt := do
  let x ← num? (l[i]?.getD "")
  let y ← num? (l[i + 1]?.getD "")
  return ⟨x, y⟩

def parseOp (l : Array String) : Option Op := do
  let name := l[0]?.getD ""
  let id := nat! (l[1]?.getD "0")
  match name with
  | "addShape" => let p ← parsePts l 2; return .addObst false id p.toList
  | "addJunction" => let p ← parsePt l 2; return .addObst true id [p]
  | "moveShapeAbs" => let p ← parsePts l 3; return .moveAbs false id p.toList (l[2]?.getD "0" == "1")
  | "moveJunctionAbs" => let p ← parsePt l 2; return .moveAbs true id [p] false
  | "moveShapeRel" => let p ← parsePt l 2; return .moveRel false id p.x p.y
  | "moveJunctionRel" => let p ← parsePt l 2; return .moveRel true id p.x p.y
  | "deleteShape" => return .delete false id
  | "deleteJunction" => return .delete true id
  | "newConn" => return .newConn id
  | "setEndpoint" =>
    let p ← parsePt l 3
    let w := l[2]?.getD ""
    if w == "1" then return .setEndpoint id .src (.pt p)
    else if w == "2" then return .setEndpoint id .tar (.pt p)
    else none
  | "setEndpointPin" =>
    let w := l[2]?.getD ""
    let e := CEnd.pin (nat! (l[3]?.getD "0")) (nat! (l[4]?.getD "0"))
    if w == "1" then return .setEndpoint id .src e
    else if w == "2" then return .setEndpoint id .tar e
    else none
  | "newPin" =>
    let o ← parsePt l 3
    return .newPin id (nat! (l[2]?.getD "0")) o.x o.y
  | "setTransactionUse" => return .setTransactionUse (l[1]?.getD "0" == "1")
  | "processTransaction" => return .processTransaction
  | _ => none

def opName : Op → String
  | .addObst j .. => if j then "addJunction" else "addShape"
  | .moveAbs j .. => if j then "moveJunctionAbs" else "moveShapeAbs"
  | .moveRel j .. => if j then "moveJunctionRel" else "moveShapeRel"
  | .delete j .. => if j then "deleteJunction" else "deleteShape"
  | .newConn .. => "newConn"
  | .setEndpoint _ _ p => if p.isPin then "setEndpointPin" else "setEndpoint"
  | .newPin .. => "newPin"
  | .setTransactionUse .. => "setTransactionUse"
  | .processTransaction => "processTransaction"

/-- which de-duplication branch of the model an op takes (coverage statistics) -/
def branchOf (st : State) : Op → String
  | .moveAbs _ id _ _ | .moveRel _ id _ _ =>
    if hasAct st.queue .add id then "move.fold-into-add"
    else if hasAct st.queue .move id then "move.overwrite-queued"
    else "move.push"
  | .delete _ id => if hasAct st.queue .move id then "delete.erases-queued-move" else "delete.push"
  | .setEndpoint c e p =>
    let from_ := match (findConn st.scene c).bind (·.getEnd e) with
      | some q => if q.isPin then "pin" else "point"
      | none => "unset"
    let kind := s!"{from_}-to-{if p.isPin then "pin" else "point"}."
    match findAct st.queue .connChange c with
    | some a => "endpoint." ++ kind ++ (if a.conns.any (·.1 == e) then "overwrite-same-end" else "append-other-end")
    | none => "endpoint." ++ kind ++ "push"
  | .processTransaction => if st.queue.isEmpty then "txn.empty" else "txn.flush"
  | _ => "other"

def insertSorted {α} (key : α → Nat) (a : α) : List α → List α
  | [] => [a]
  | b :: l => if key a ≤ key b then a :: b :: l else b :: insertSorted key a l

def sortBy {α} (key : α → Nat) (l : List α) : List α := l.foldr (insertSorted key) []

def rectOfPoly (g : Poly) : Option Rect :=
  match g with
  | [] => none
  | p :: rest =>
    let x0 := rest.foldl (fun m q => if q.x < m then q.x else m) p.x
    let x1 := rest.foldl (fun m q => if q.x > m then q.x else m) p.x
    let y0 := rest.foldl (fun m q => if q.y < m then q.y else m) p.y
    let y1 := rest.foldl (fun m q => if q.y > m then q.y else m) p.y
    some ⟨x0, y0, x1, y1⟩

def tol : Rat := 1 / 1000000

/-- junction obstacle box: `JunctionRef::makeRectangle`, nudgeDist = min(1, idealNudgingDistance = 4) -/
def junctionBox (g : Poly) : Option Rect :=
  match g with
  | [p] => some ⟨p.x - 1, p.y - 1, p.x + 1, p.y + 1⟩
  | _ => none

/-- `ShapeConnectionPin::position()` for proportional offsets and insideOffset 0: a point of the bounding box -/
def pinPosition (g : Poly) (xo yo : Rat) : Option Pt :=
  (rectOfPoly g).map fun r => ⟨r.x0 + xo * (r.x1 - r.x0), r.y0 + yo * (r.y1 - r.y0)⟩

/-- the points at which a connector end may sit: the free point; the junction's position; the positions of
    the pins of that class on the shape (model polygon) -/
def endCands (sc : Scene) (pins : List (Nat × Nat × Rat × Rat)) (e : CEnd) : List Pt :=
  if !e.isPin then [⟨e.x, e.y⟩] else
  match findObst sc e.anchor with
  | none => []
  | some o =>
    if o.isJ then o.geom
    else (pins.filter fun p => p.1 == e.anchor && p.2.1 == e.cls).filterMap fun p => pinPosition o.geom p.2.2.1 p.2.2.2

def shapeRects (sc : Scene) : List Rect :=
  sc.obsts.filterMap fun o => if o.isJ || !o.active then none else (rectOfPoly o.geom).map (·.shrink tol)

def junctionRects (sc : Scene) : List (Nat × Rect) :=
  sc.obsts.filterMap fun o => if o.isJ && o.active then (junctionBox o.geom).map (fun r => (o.id, r.shrink tol)) else none

/-! ### exact cost arithmetic -/

def scaleS : Nat := 1000000000

/-- certified enclosure `lo ≤ sqrt x ≤ hi` (hi − lo = 1e-9); the candidate from `Nat.sqrt` is
    CHECKED (`lo² ≤ x ≤ hi²`), so nothing about `Nat.sqrt` is trusted -/
def sqrtEncl (x : Rat) : Option (Rat × Rat) :=
  if x < 0 then none else
  let n : Nat := ((x * (scaleS * scaleS : Nat)).floor).toNat
  let r := Nat.sqrt n
  let lo : Rat := (r : Rat) / (scaleS : Rat)
  let hi : Rat := ((r + 1 : Nat) : Rat) / (scaleS : Rat)
  if lo * lo ≤ x && x ≤ hi * hi then some (lo, hi) else none

def cross (a b c : Pt) : Rat := (b.x - a.x) * (c.y - b.y) - (b.y - a.y) * (c.x - b.x)
def dot (a b c : Pt) : Rat := (b.x - a.x) * (c.x - b.x) + (b.y - a.y) * (c.y - b.y)

/-- number of `segmentPenalty` units of a path (makepath.cpp `cost`): 1 per non-collinear bend,
    2 for doubling back -/
def bendUnits (r : Pts) : Nat := Id.run do
  let mut n := 0
  for i in [2:r.size] do
    let a := r[i - 2]!; let b := r[i - 1]!; let c := r[i]!
    if a == b || b == c then continue
    if cross a b c != 0 then n := n + 1
    else if dot a b c < 0 then n := n + 2
  return n

def absR (x : Rat) : Rat := if x < 0 then -x else x

/-- cost enclosure (lo, hi): Euclidean (polyline) or Manhattan (orthogonal) length + penalty·bends -/
def costEncl (orth : Bool) (pen : Rat) (r : Pts) : Option (Rat × Rat) := Id.run do
  let mut lo : Rat := 0
  let mut hi : Rat := 0
  for i in [1:r.size] do
    let a := r[i - 1]!; let b := r[i]!
    if orth then
      let d := absR (b.x - a.x) + absR (b.y - a.y)
      lo := lo + d; hi := hi + d
    else
      match sqrtEncl ((b.x - a.x) * (b.x - a.x) + (b.y - a.y) * (b.y - a.y)) with
      | some (l, h) => lo := lo + l; hi := hi + h
      | none => return none
  let p := pen * (bendUnits r : Nat)
  return some (lo + p, hi + p)

def showR (x : Rat) : String :=
  let m := (x * 1000).floor
  s!"{m / 1000}.{(m % 1000).toNat / 100}{((m % 1000).toNat / 10) % 10}{(m % 1000).toNat % 10}"

def showPts (r : Pts) : String :=
  " ".intercalate (r.toList.map fun p => s!"({showR p.x},{showR p.y})")

/-! ### per-case state machine -/

structure Edge where
  o1 : Nat
  vn1 : Nat
  c1 : Bool
  p1 : Pt
  o2 : Nat
  vn2 : Nat
  c2 : Bool
  p2 : Pt
  blocker : Int := 0

def parseEdge (l : Array String) (withBlocker : Bool) : Option Edge := do
  let p1 ← parsePt l 3
  let p2 ← parsePt l 8
  return { o1 := nat! (l[0]?.getD "0"), vn1 := nat! (l[1]?.getD "0"), c1 := l[2]?.getD "0" == "1", p1 := p1,
           o2 := nat! (l[5]?.getD "0"), vn2 := nat! (l[6]?.getD "0"), c2 := l[7]?.getD "0" == "1", p2 := p2,
           blocker := if withBlocker then int! (l[10]?.getD "0") else 0 }

structure Txn where
  rt : List (Nat × Pts) := []
  rr : List (Nat × Pts) := []
  fr : List (Nat × Pts) := []
  fd : List (Nat × Pts) := []
  fresh : Bool := false
  ve : Array Edge := #[]
  ie : Array Edge := #[]
  dumped : Bool := false
  rp : List (Nat × Bool) := []                       -- needsRepaint()
  rv : List (Nat × List (Nat × Nat)) := []           -- (Point::id, Point::vn) of route()
  hk : List (Nat × Bool × Bool × Rat × Bool) := []   -- hook: needsReroute, falsePath, routeDist, staticInvalidated
  pf : List (Nat × Bool × Bool × Rat) := []          -- hook: the same members after the transaction
  hook : Bool := false
  ran : Nat := 2
  ct : List (Nat × Nat × List Nat) := []             -- Router::contains of (connector, end)

structure St where
  model : State := init
  orth : Bool := false
  pen : Rat := 0
  buf : Rat := 0                           -- shapeBufferDistance
  obsO : List Obst := []
  obsC : List Conn := []
  txn : Txn := {}
  inTxn : Bool := false
  last : List (Nat × Pts × Pts) := []      -- conn ↦ (displayRoute, route) at the previous processing point
  noopExpected : Bool := false
  staleSeen : List (Nat × Pts × String) := []   -- (conn, route, class) of stale routes already reported
  dirty : List Nat := []                   -- obstacles added / moved since the last checked processing point
  lastOp : String := ""
  rst : Reroute.RState := {}                -- model of the reroute flags / edge registrations
  rpPrev : List (Nat × List GPt) := []      -- routing polygons at the previous observation
  rpCur : List (Nat × List GPt) := []       -- … being collected in the current observation
  pendingTxn : Option State := none         -- model: the current call processes this (pre-)state
  settingsDirty : Bool := true              -- Router::m_settings_changes (setRoutingParameter at construction)
  pendingSettings : Bool := false           -- processTransaction() with an empty queue but a settings change pending
  rerouteOff : Bool := false                -- the reroute model lost track (see `op` handling); no further comparison
  twoBatches : Bool := false                -- the current call runs two transactions (new JunctionRef, transactions off)
  lastActs : Option (List Action) := none   -- sorted action list of the transaction being checked
  estNo : List Nat := []                    -- connectors for which the model's could-be-shorter test (c) ran in this
                                            -- transaction and certainly said "no" (and nothing else flagged them)
  decided : Option Reroute.RState := none   -- model: flags with which routing starts
  pinHist : Bool := false                           -- the history uses connection pins
  pins : List (Nat × Nat × Rat × Rat) := []         -- (shape, class, xOffset, yOffset) of every `newPin`
  ppCur : List (Nat × Nat × Rat × Rat × Pt) := []   -- reported pin positions of the current observation
  stats : List (String × Nat) := []
  checkedTxns : Nat := 0
  bentRoutes : Nat := 0
  rerouted : Nat := 0
  fail : Option Verdict := none

def St.bump (s : St) (k : String) (n : Nat := 1) : St := { s with stats := bumpStats s.stats k n }

/-- rank of a verdict within one history: a property failure outranks a broken tie, and the two
    classes that are consequences of documented design limitations (a route through two opposite
    corners, a gain through fewer bends only) rank below every other property failure, so that they
    cannot mask a different failure later in the same history -/
def rank : Verdict → Nat
  | .ok => 0
  | .diverge _ => 1
  | .specfail m =>
    if m.startsWith "invalid-route through-two-corners" || m.startsWith "stale-route not-rerouted-fewer-bends"
        || m.startsWith "invalid-route through-buffer-owner"
    then 2 else 3

def St.setFail (s : St) (v : Verdict) : St :=
  match s.fail with
  | none => { s with fail := some v }
  | some old => if rank v > rank old then { s with fail := some v } else s

def lookup {β} (l : List (Nat × β)) (k : Nat) : Option β := (l.find? (·.1 == k)).map (·.2)

/-- vertex of a dumped edge must belong to a live object of the model scene, at its current position -/
def near (a b : Rat) : Bool := absR (a - b) ≤ tol

/-- `Polygon::offsetPolygon(buf)` of a rectangle: every corner moves outwards by `buf` in x and in y -/
def offsetCorner (rc : Rect) (buf : Rat) (g : Pt) : Pt :=
  ⟨if g.x * 2 > rc.x0 + rc.x1 then g.x + buf else g.x - buf, if g.y * 2 > rc.y0 + rc.y1 then g.y + buf else g.y - buf⟩

/-- does the routing polygon (shape grown by the buffer distance) of the rectangle strictly contain p? -/
def inBufferZone (rc : Rect) (buf : Rat) (p : Pt) : Bool :=
  rc.x0 - buf < p.x && p.x < rc.x1 + buf && rc.y0 - buf < p.y && p.y < rc.y1 + buf

def vertexOk (sc : Scene) (orth : Bool) (buf : Rat) (o vn : Nat) (isConn : Bool) (p : Pt) : Bool :=
  if orth then true else
  if isConn then
    match findConn sc o with
    | some c => if vn == 1 then c.src == some (.pt p) else if vn == 2 then c.dst == some (.pt p) else true
    | none =>
      match findObst sc o with            -- connection-pin vertex of a junction (its centre)
      | some ob => ob.active && ob.isJ && ob.geom == [p]
      | none => false
  else
    match findObst sc o with
    | some ob =>
      ob.active &&
        (if ob.isJ then
          match ob.geom with
          | [c] => (near p.x (c.x + 1 + buf) || near p.x (c.x - 1 - buf)) && (near p.y (c.y + 1 + buf) || near p.y (c.y - 1 - buf))
          | _ => false
         else match ob.geom[vn]?, rectOfPoly ob.geom with
           | some g, some rc => let q := offsetCorner rc buf g; near q.x p.x && near q.y p.y
           | _, _ => false)
    | none => false

/-- Classification of an invalid route (fingerprint for findings). Every (leg, shape) pair in which
    the leg crosses the shape's interior is put in one of three classes, and the most serious class
    present is reported:
    * `through-interior`: nothing excuses it;
    * `through-two-corners`: the leg runs exactly through two corners of the shape (its diagonal);
    * `through-buffer-owner`: shapeBufferDistance > 0 and the shape's ROUTING polygon (shape grown by the
      buffer) contains an endpoint of this connector, although the shape itself does not: libavoid
      exempts such a shape as a blocker for that endpoint (Router::contains), so the route may cut
      through the shape itself. -/
def invalidKind (sc : Scene) (buf : Rat) (src dst : Pt) (r : Pts) : String := Id.run do
  let mut interior : Option Nat := none
  let mut corners2 : Option Nat := none
  let mut owner : Option Nat := none
  for i in [1:r.size] do
    let a := r[i - 1]!; let b := r[i]!
    for o in sc.obsts do
      if o.isJ || !o.active then continue
      match rectOfPoly o.geom with
      | none => continue
      | some rc =>
        if segHitsOpenRect (rc.shrink tol) (toP a) (toP b) then
          let corners : List Pt := [⟨rc.x0, rc.y0⟩, ⟨rc.x1, rc.y0⟩, ⟨rc.x1, rc.y1⟩, ⟨rc.x0, rc.y1⟩]
          let on := corners.filter fun c => cross a b c == 0 && dot a c b ≥ 0
          if buf > 0 && (inBufferZone rc buf src || inBufferZone rc buf dst) then owner := some o.id
          else if on.length ≥ 2 then corners2 := some o.id
          else interior := some o.id
  match interior, corners2, owner with
  | some id, _, _ => return s!"through-interior shape={id}"
  | _, some id, _ => return s!"through-two-corners shape={id}"
  | _, _, some id => return s!"through-buffer-owner shape={id}"
  | _, _, _ => return "endpoints"

/-- does the segment a–b run exactly through two corners of the rectangle (its diagonal)? -/
def throughTwoCorners (rc : Rect) (a b : Pt) : Bool :=
  let corners : List Pt := [⟨rc.x0, rc.y0⟩, ⟨rc.x1, rc.y0⟩, ⟨rc.x1, rc.y1⟩, ⟨rc.x0, rc.y1⟩]
  (corners.filter fun c => cross a b c == 0 && dot a c b ≥ 0).length ≥ 2

/-! ### the reroute decision (Model/Reroute.lean) against `needsRepaint()` and the hook -/

def lt3 : Reroute.Lt3 := Reroute.estLess 64 (1 / 1000000000)

def polysOf (l : List (Nat × List GPt)) : Reroute.Polys := fun id => (lookup l id).getD []

def manhattanLen (r : List GPt) : Rat :=
  ((AdaptaVerif.Check.Route.legs r).map fun l => absR (l.1.x - l.2.x) + absR (l.1.y - l.2.y)).foldl (· + ·) 0

/-- is `d` (a double) the cached length of `route` up to 1e-9 -/
def distMatches (poly : Bool) (route : List GPt) (d : Rat) : Bool :=
  let e : Rat := 1 / 1000000000
  if poly then Reroute.routeLo 64 route - e ≤ d && d ≤ Reroute.routeHi 64 route + e
  else absR (d - manhattanLen route) ≤ e

/-- the routing polygon the model expects for an obstacle (exact for shapeBufferDistance 0) -/
def routingPolyOk (buf : Rat) (o : Obst) (rp : List GPt) : Bool :=
  if o.isJ then
    match o.geom with
    | [c] =>
      let q : List Pt := [⟨c.x + 1, c.y - 1⟩, ⟨c.x + 1, c.y + 1⟩, ⟨c.x - 1, c.y + 1⟩, ⟨c.x - 1, c.y - 1⟩]
      if buf == 0 then rp == q.map toG
      else rp.length == 4 && (q.zip rp).all fun (a, b) =>
        (near b.x (a.x + buf) || near b.x (a.x - buf)) && (near b.y (a.y + buf) || near b.y (a.y - buf))
    | _ => false
  else if buf == 0 then rp == o.geom.map toG
  else match rectOfPoly o.geom with
    | some rc => rp.length == o.geom.length && (o.geom.zip rp).all fun (g, b) =>
        let q := offsetCorner rc buf g; near q.x b.x && near q.y b.y
    | none => false

def pathOf (cid : Nat) (r : Pts) (ids : List (Nat × Nat)) : List (GPt × Reroute.VKey) :=
  let n := r.size
  (r.toList.zip ids).mapIdx fun i (p, (oid, vn)) =>
    let k : Reroute.VKey := if i == 0 then Reroute.VKey.ofEnd cid .src
      else if i + 1 == n then Reroute.VKey.ofEnd cid .tar else ⟨oid, vn, false⟩
    (toG p, k)

def checkReroute (s : St) (t : Txn) : St := Id.run do
  let mut s := s
  let sc := s.model.scene
  if s.rerouteOff then return s.bump "reroute.model-lost-track"
  -- two transactions in one call: the hook reported the connectors twice; the second batch is the one compared
  let t := if s.twoBatches && t.hook && t.hk.length == 2 * s.rst.conns.length
    then { t with hk := t.hk.take s.rst.conns.length } else t
  match s.decided with
  | none =>
    -- the model says: nothing was processed, so no connector is looked at
    if t.ran == 1 then
      s := s.setFail (.diverge s!"reroute tie after {s.lastOp}: processTransaction() returned true but the model's queue was empty")
    if !t.hk.isEmpty then
      s := s.setFail (.diverge s!"reroute tie after {s.lastOp}: rerouteAndCallbackConnectors ran although the model's queue was empty")
    return s.bump "reroute.no-transaction"
  | some d =>
    s := s.bump "reroute.transactions"
    if t.ran == 0 then
      s := s.setFail (.diverge s!"reroute tie after {s.lastOp}: processTransaction() returned false but the model processed a non-empty queue")
    let mut rst := d
    let removal := match s.lastActs with
      | some acts => acts.any (fun (a : Action) => a.kind == Kind.remove || a.kind == Kind.move)
      | none => false
    s := { s with estNo := if removal then (d.conns.filter (fun (c : Reroute.ConnSt) => c.poly && !c.route.isEmpty && !c.flagged && !c.unsure)).map (fun c => c.id) else [] }
    for c in d.conns do
      let both := Reroute.bothEnds sc c.id
      let implRp := (lookup t.rp c.id).getD false
      -- (1) which connectors were rerouted
      let expect : Option Bool := if !both then some false else c.flag3
      match expect with
      | none => s := s.bump "reroute.too-close-to-call"
      | some e =>
        s := s.bump (if e then "reroute.flagged" else "reroute.skipped")
        if e != implRp then
          let why := if c.falsePath then "falsePath" else if c.needsReroute then "needsReroute" else "nothing"
          s := s.setFail (.diverge s!"reroute-set conn={c.id} after-op={s.lastOp}: model says the connector is {if e then "rerouted" else "not looked at"} (model flags: {why}, both ends: {both}), needsRepaint()={implRp}")
      -- (2) the hook: flags before routing, cached route length, static-graph flag
      if t.hook then
        match t.hk.find? (·.1 == c.id) with
        | none => s := s.setFail (.diverge s!"reroute-hook conn={c.id} after-op={s.lastOp}: connector not reported by verifRerouteSink")
        | some (_, needs, fp, dist, stat) =>
          s := s.bump "reroute.hook-compared"
          if fp != c.falsePath then
            s := s.setFail (.diverge s!"reroute-hook conn={c.id} after-op={s.lastOp}: m_false_path={fp}, model {c.falsePath}")
          else if !(c.unsure && !c.needsReroute) && needs != c.needsReroute then
            s := s.setFail (.diverge s!"reroute-hook conn={c.id} after-op={s.lastOp}: m_needs_reroute_flag={needs}, model {c.needsReroute}")
          else if !stat then
            s := s.setFail (.diverge s!"reroute-hook after-op={s.lastOp}: m_static_orthogonal_graph_invalidated is false at the start of rerouting")
          else if !c.route.isEmpty && !distMatches c.poly c.route dist then
            s := s.setFail (.diverge s!"reroute-hook conn={c.id} after-op={s.lastOp}: m_route_dist={showR dist} is not the length of the current route ({showR (Reroute.routeLo 64 c.route)})")
      -- (3) the model follows the routing: new route, registrations on the edges of the path
      let rerouted := match expect with | some e => e | none => implRp
      if rerouted then
        match lookup t.rr c.id, lookup t.rv c.id with
        | some r, some ids =>
          if ids.length != r.size || r.size < 2 then
            s := s.setFail (.diverge s!"reroute tie: unusable rv line for connector {c.id}")
          else
            rst := Reroute.routedOne c.id (pathOf c.id r ids) rst
            if r.size ≥ 3 then s := s.bump "reroute.registered-bent-path"
        | _, _ => s := s.setFail (.diverge s!"reroute tie: no route printed for rerouted connector {c.id}")
    rst := Reroute.clearUnsure rst
    -- (4) hook: members after the transaction
    if t.hook then
      for c in rst.conns do
        match t.pf.find? (·.1 == c.id) with
        | none => pure ()
        | some (_, needs, fp, dist) =>
          if needs != c.needsReroute then
            if needs && Reroute.bothEnds sc c.id then
              -- generatePath found no path: the flag stays up; the model follows (counted)
              s := s.bump "reroute.path-not-found"
              rst := { rst with conns := Reroute.invalidate c.id rst.conns }
            else
              s := s.setFail (.diverge s!"reroute-hook conn={c.id} after-op={s.lastOp}: after routing m_needs_reroute_flag={needs}, model {c.needsReroute}")
          else if fp != c.falsePath then
            s := s.setFail (.diverge s!"reroute-hook conn={c.id} after-op={s.lastOp}: after routing m_false_path={fp}, model {c.falsePath}")
          else if !c.route.isEmpty && !distMatches c.poly c.route dist then
            s := s.setFail (.diverge s!"reroute-hook conn={c.id} after-op={s.lastOp}: after routing m_route_dist={showR dist} is not the length of the route ({showR (Reroute.routeLo 64 c.route)})")
    return { s with rst := rst }

def checkTxn (s : St) : St := Id.run do
  let t := s.txn
  let s := { s with estNo := [] }
  let s := checkReroute s t
  let s := { s with decided := none }
  -- Router::contains is maintained incrementally (adjustContainsWithDel / adjustContainsWithAdd per moved obstacle,
  -- generateContains per changed end point); from scratch it is: the active obstacles whose routing polygon
  -- strictly contains the point (`inPoly(poly, p, countBorder = false)`, Model/Geometry, regenerated from geometry.cpp)
  let s := Id.run do
    let mut s := s
    if !s.model.queue.isEmpty then return s
    -- (an orthogonal-only router never reads `contains` and does not regenerate it for a moved end point)
    if s.orth then return s
    for (cid, e, ids) in t.ct do
      match findConn s.model.scene cid with
      | none => pure ()
      | some c =>
        match (if e == 1 then c.src else c.dst) with
        | none => pure ()
        | some pe =>
          if pe.isPin then continue     -- a dummy pin-helper vertex: no containment is generated for it
          let p : Pt := ⟨pe.x, pe.y⟩
          let want := (s.model.scene.obsts.filter fun o =>
            o.active && AdaptaVerif.Model.Geometry.inPoly (polysOf s.rpPrev o.id) (toG p) false).map (·.id)
          s := s.bump "contains.compared"
          if !want.isEmpty then s := s.bump "contains.non-empty"
          if sortBy id want != sortBy id ids then
            s := s.setFail (.diverge s!"contains-stale conn={cid} end={e} after-op={s.lastOp}: Router::contains = {ids}, from scratch {want}")
    return s
  let mut s := { s with txn := {}, inTxn := false }
  if !s.model.queue.isEmpty then
    -- the router is in the middle of a transaction (move folded into a queued Add while transactions
    -- are off): the property promises nothing about routes here
    return s.bump "txn.skipped-queue-nonempty"
  let sc := s.model.scene
  let rects := shapeRects sc
  s := { s with checkedTxns := s.checkedTxns + 1 }
  s := s.bump "txn.checked"
  -- (a) validity
  let mut invalid : List Nat := []        -- an invalid route is not compared by cost (a short cut is cheaper)
  for (kind, routes) in [("displayRoute", t.rt), ("route", t.rr)] do
    for (cid, r) in routes do
      match findConn sc cid with
      | some { src := some ea, dst := some eb, .. } =>
        s := s.bump "routes.validated"
        if ea.isPin || eb.isPin then s := s.bump "routes.validated-pin-end"
        -- the attachment points the model allows for the two ends (a pin class may have several pins)
        let ca := endCands sc s.pins ea
        let cb := endCands sc s.pins eb
        let a := (ca.find? fun q => r[0]? == some q).getD (ca.headD ⟨0, 0⟩)
        let b := (cb.find? fun q => r.back? == some q).getD (cb.headD ⟨0, 0⟩)
        if s.pinHist && s.orth && r.size == 2 && r[0]!.x != r[1]!.x && r[0]!.y != r[1]!.y then
          -- orthogonal routing with pins: the A* search found no path and generatePath fell back to the straight
          -- line between the end vertices (a 2-point diagonal "orthogonal" route); on the unchanged library this
          -- happens for a fresh router too (whether a path existed is C03's business); counted, not judged
          invalid := cid :: invalid
          s := s.bump "routes.pin-orth-no-path-fallback-not-judged"
        else if ca.isEmpty || cb.isEmpty then
          s := s.setFail (.diverge s!"connector {cid} is attached to a pin class without pins in the model")
        else if !routeValidRect rects (toP a) (toP b) (r.toList.map toP) then
          invalid := cid :: invalid
          let att := fun (e : CEnd) (cs : List Pt) => if e.isPin then s!"pin class {e.cls} of obstacle {e.anchor} at {showPts cs.toArray}" else s!"({showR e.x},{showR e.y})"
          s := s.setFail (.specfail s!"invalid-route {invalidKind sc s.buf a b r} {kind} conn={cid} txn-after-op={s.lastOp}: {showPts r} not a valid route from {att ea ca} to {att eb cb} for the model scene")
      | _ => s := s.setFail (.diverge s!"route printed for connector {cid} whose ends are not both set in the model")
      -- junction obstacle boxes: the property text speaks of shapes, so a route through a junction box is
      -- not judged (only counted) - except for the through-two-corners class (same defect as for shapes),
      -- which otherwise surfaces as a misleading "fresh-worse" cost gap
      -- (polyline only: orthogonal routes legitimately run through free-floating junction boxes)
      for (jid, jr) in (if s.orth then [] else junctionRects sc) do
        for i in [1:r.size] do
          let a := r[i - 1]!; let b := r[i]!
          if segHitsOpenRect jr (toP a) (toP b) then
            if throughTwoCorners (jr.shrink (-tol)) a b then
              invalid := cid :: invalid
              s := s.setFail (.specfail s!"invalid-route through-two-corners junction={jid} {kind} conn={cid} txn-after-op={s.lastOp}: {showPts r} runs through the diagonal of the junction's obstacle box")
            else
              s := s.bump "routes.through-junction-box-not-judged"
  -- (c) no-op transaction
  if s.noopExpected then
    s := s.bump "noop-txn.checked"
    for (cid, r) in t.rt do
      match lookup s.last cid with
      | some (d0, r0) =>
        if d0 != r || some r0 != lookup t.rr cid then
          s := s.setFail (.specfail s!"noop-changed conn={cid}: a processTransaction() with an empty queue changed the route")
      | none => pure ()
  -- (b) cost against the fresh router
  if t.fresh then
    for (cid, r) in t.rr do
      if invalid.contains cid then continue
      match lookup t.fr cid with
      | none => s := s.setFail (.diverge s!"no fresh route for connector {cid}")
      | some f =>
        s := s.bump "cost.compared"
        if r.size ≥ 3 then s := { s with bentRoutes := s.bentRoutes + 1 }
        let changed := match lookup s.last cid with
          | some (_, r0) => r0 != r
          | none => true
        if changed && (lookup s.last cid).isSome then s := { s with rerouted := s.rerouted + 1 }
        match costEncl s.orth s.pen r, costEncl s.orth s.pen f with
        | some (il, ih), some (fl, fh) =>
          let multiPin := s.pins.any fun p => (s.pins.filter fun q => q.1 == p.1 && q.2.1 == p.2.1).length ≥ 2
          if s.pinHist && (s.orth || multiPin || fl > ih + tol) && (il > fh + tol || fl > ih + tol) then
            -- (not in the plan; C06_PIN_ORTH=1 / C06_PIN_MULTI=1) pin histories with orthogonal routing, or with two
            -- pins in one class of a shape: on the unchanged library the incremental router and a fresh one disagree
            -- in cost in both directions (orthogonal: border pins are reached along different channels; two pins in a
            -- class: a connector keeps the pin it used before its shape moved); counted, not judged
            s := s.bump (if il > fh + tol then "cost.pin-history-not-judged.fresh-cheaper" else "cost.pin-history-not-judged.incremental-cheaper")
          else if il > fh + tol then
            -- is the fresh route better only through fewer bends (its pure length is not shorter)?
            let penOnly := match costEncl s.orth 0 r, costEncl s.orth 0 f with
              | some (ll, _), some (_, fh') => s.pen > 0 && ll ≤ fh' + tol
              | _, _ => false
            -- with segmentPenalty > 0: does the cheaper fresh route have no more bends than the old one and
            -- turn at a corner of an obstacle that was added / moved in this transaction (a via-vertex the
            -- old route could not know)? Without a bend penalty a new vertex can never shorten a route; with
            -- one, the best route with at most k bends can improve, and nothing alerts the connector.
            let newCorners : List Pt := sc.obsts.foldl (fun acc o =>
              if s.dirty.contains o.id then
                match (if o.isJ then junctionBox o.geom else rectOfPoly o.geom) with
                | some rc => [⟨rc.x0, rc.y0⟩, ⟨rc.x1, rc.y0⟩, ⟨rc.x1, rc.y1⟩, ⟨rc.x0, rc.y1⟩] ++ acc
                | none => acc
              else acc) []
            let viaNew := decide (s.pen > (0 : Rat)) && decide (bendUnits f ≤ bendUnits r) &&
              (f.toList.drop 1).dropLast.any (fun p => newCorners.contains p)
            -- the model of the reroute decision explains the stale route: an obstacle was removed / moved away, the
            -- as-coded could-be-shorter estimate certainly did not flag the connector and nothing else did
            -- (Props/C06Reroute.removal_estimate_incomplete_witness: the estimate is only a heuristic)
            let estMiss := s.estNo.contains cid
            let kind := if changed then "rerouted-worse" else if penOnly then "not-rerouted-fewer-bends-only"
              else if viaNew then "not-rerouted-fewer-bends-via-new-vertex"
              else if estMiss then "not-rerouted-removal-estimate-said-no" else "not-rerouted"
            -- the same unchanged route found stale again at a later processing point keeps its class
            let kind := match s.staleSeen.find? (fun e => e.1 == cid && e.2.1 == r) with
              | some e => e.2.2
              | none => kind
            s := { s with staleSeen := (cid, r, kind) :: s.staleSeen }
            s := s.setFail (.specfail s!"stale-route {kind} conn={cid} after-op={s.lastOp} incremental-cost={showR il} fresh-cost={showR fh} incremental: {showPts r} fresh: {showPts f}")
          else if fl > ih + tol then
            s := s.setFail (.specfail s!"fresh-worse conn={cid} after-op={s.lastOp} incremental-cost={showR ih} fresh-cost={showR fl} incremental: {showPts r} fresh: {showPts f}")
          else if r == f then s := s.bump "cost.same-route" else s := s.bump "cost.equal-cost-different-route"
        | _, _ => s := s.setFail (.diverge "sqrt enclosure could not be certified")
  -- (d) staleness audit
  if t.dumped then
    s := s.bump "graph.dumps"
    let jrs := junctionRects sc
    for e in t.ve do
      s := s.bump "graph.vis-edges"
      if !(vertexOk sc s.orth s.buf e.o1 e.vn1 e.c1 e.p1 && vertexOk sc s.orth s.buf e.o2 e.vn2 e.c2 e.p2) then
        s := s.setFail (.diverge s!"stale-graph dangling-vertex: visibility edge ({e.o1},{e.vn1})-({e.o2},{e.vn2}) refers to a deleted object or an outdated position")
      else if decide (s.buf > (0 : Rat)) && rects.any (fun r => segHitsOpenRect r (toP e.p1) (toP e.p2) &&
          ((e.c1 && inBufferZone (r.shrink (-tol)) s.buf e.p1) || (e.c2 && inBufferZone (r.shrink (-tol)) s.buf e.p2))) &&
          !(rects.any fun r => segHitsOpenRect r (toP e.p1) (toP e.p2) &&
            !((e.c1 && inBufferZone (r.shrink (-tol)) s.buf e.p1) || (e.c2 && inBufferZone (r.shrink (-tol)) s.buf e.p2))) then
        -- the only shapes the edge crosses own a buffer zone around one of its connector ends: libavoid's
        -- `contains` exemption (see invalidKind); counted, judged only when a route uses it
        s := s.bump "graph.edge-through-buffer-owner"
      else if rects.any (fun r => segHitsOpenRect r (toP e.p1) (toP e.p2)) then
        let diag := rects.any fun r => segHitsOpenRect r (toP e.p1) (toP e.p2) && throughTwoCorners (r.shrink (-tol)) e.p1 e.p2
        let cls := if diag then "stale-graph through-two-corners" else "stale-graph blocked-edge"
        s := s.setFail (.diverge s!"{cls}: visibility edge ({e.o1},{e.vn1})-({e.o2},{e.vn2}) ({showR e.p1.x},{showR e.p1.y})-({showR e.p2.x},{showR e.p2.y}) passes through a shape of the current scene")
      else if !s.orth && jrs.any (fun (jid, r) => jid != e.o1 && jid != e.o2 && segHitsOpenRect r (toP e.p1) (toP e.p2)) then
        let diag := jrs.any fun (jid, r) => jid != e.o1 && jid != e.o2 && segHitsOpenRect r (toP e.p1) (toP e.p2) && throughTwoCorners (r.shrink (-tol)) e.p1 e.p2
        let cls := if diag then "stale-graph through-two-corners" else "stale-graph blocked-edge"
        s := s.setFail (.diverge s!"{cls}: visibility edge ({e.o1},{e.vn1})-({e.o2},{e.vn2}) ({showR e.p1.x},{showR e.p1.y})-({showR e.p2.x},{showR e.p2.y}) passes through a junction box of the current scene")
    for e in t.ie do
      s := s.bump "graph.invis-edges"
      if !(vertexOk sc s.orth s.buf e.o1 e.vn1 e.c1 e.p1 && vertexOk sc s.orth s.buf e.o2 e.vn2 e.c2 e.p2) then
        s := s.setFail (.diverge s!"stale-graph dangling-vertex: invisibility edge ({e.o1},{e.vn1})-({e.o2},{e.vn2}) refers to a deleted object or an outdated position")
      else if e.blocker > 0 then
        match findObst sc e.blocker.toNat with
        | some ob =>
          -- the recorded blocker must at least touch the segment (expanded by 1e-6)
          let box := if ob.isJ then junctionBox ob.geom else rectOfPoly ob.geom
          match box with
          | some r =>
            if !ob.active || !segHitsOpenRect (r.shrink (-(tol + s.buf))) (toP e.p1) (toP e.p2) then
              s := s.setFail (.diverge s!"stale-graph stale-blocker: invisibility edge ({e.o1},{e.vn1})-({e.o2},{e.vn2}) names blocker {e.blocker} which does not touch it in the current scene")
          | none => pure ()
        | none => s := s.setFail (.diverge s!"stale-graph stale-blocker: invisibility edge ({e.o1},{e.vn1})-({e.o2},{e.vn2}) names deleted blocker {e.blocker}")
  -- remember routes
  let last := t.rt.filterMap fun (cid, d) => (lookup t.rr cid).map fun r => (cid, d, r)
  return { s with last := last, noopExpected := false, dirty := [] }

def stepLine (s : St) (l : Array String) : St :=
  if (match s.fail with | some v => decide (rank v ≥ 3) | none => false) then s else
  let key := l[0]?.getD ""
  let rest := l.extract 1 l.size
  match key with
  | "cfg" =>
    { s with orth := rest[0]?.getD "" == "orth", pen := (num? (rest[1]?.getD "0")).getD 0, buf := (num? (rest[3]?.getD "0")).getD 0,
             model := { init with useTxn := true } }
  | "op" =>
    match parseOp rest with
    | none => s.setFail (.diverge s!"unparsable op line {rest}")
    | some op =>
      if !legal s.model op then s.setFail (.diverge s!"generator issued a call that is not legal in the model state: {rest}")
      else
        let s := (s.bump ("op." ++ opName op)).bump ("branch." ++ branchOf s.model op)
        let s := if !s.model.useTxn then s.bump "op.in-immediate-mode" else s
        let noop := match op with
          | .processTransaction => s.model.queue.isEmpty
          | _ => false
        let dirty := match op with
          | .addObst _ id _ | .moveAbs _ id _ _ | .moveRel _ id _ _ => id :: s.dirty
          | _ => s.dirty
        let rst := match op with
          | .newConn id => Reroute.addConn (!s.orth) id s.rst
          | _ => s.rst
        let pend := Reroute.txnOf s.model op
        let s := if pend.isSome && s.pendingTxn.isSome then
            s.setFail (.diverge "two processing calls within one observation") else s
        -- `new JunctionRef` with transactions off runs two transactions (pin registration, then the JunctionAdd);
        -- the first must have nothing to do, else its routes are not observable
        let (two, lost) := match op with
          | .addObst true _ _ => if !s.model.useTxn then
              (true, !s.model.queue.isEmpty || (s.rst.conns.any fun c => c.poly && c.flagged && Reroute.bothEnds s.model.scene c.id)) else (false, false)
          | _ => (false, false)
        let s := if lost then { s with rerouteOff := true } else s
        -- connection pins: the reroute-decision model (Model/Reroute) does not know pin vertices / dummy ends
        let s := match op with
          | .newPin o cl xo yo => { s with rerouteOff := true, pinHist := true, pins := s.pins ++ [(o, cl, xo, yo)] }
          | .setEndpoint _ _ p => if p.isPin then { s with rerouteOff := true, pinHist := true } else s
          | _ => s
        -- coverage of the pin-move refresh of this transaction: for every end attached to a moved obstacle, is
        -- there a user change of that end queued in the same transaction (it must win) or not (refresh appended)
        let s := match pend with
          | some pre => Id.run do
            let mut s := s
            let qs := sortActions pre.queue
            for a in qs do
              if a.kind == Kind.move then
                for t in attachedEnds pre.scene a.id do
                  let user := match findAct qs .connChange t.1 with
                    | some ca => ca.conns.any (·.1 == t.2.1)
                    | none => false
                  s := s.bump (if user then "pinmove.user-change-of-same-end-queued" else "pinmove.refresh-appended")
              if a.kind == Kind.remove && !(attachedEnds pre.scene a.id).isEmpty then s := s.bump "pinmove.anchor-deleted-ends-retargeted"
            if genPinMoves pre.scene qs != qs then s := s.bump "pinmove.transactions-with-refresh"
            return s
          | none => s
        let s := { s with twoBatches := two }
        let settingsOnly := pend.isNone && s.settingsDirty && (match op with | .processTransaction => true | _ => false)
        { s with model := step s.model op, noopExpected := noop && !settingsOnly, lastOp := opName op, dirty := dirty, rst := rst,
                 pendingTxn := if pend.isSome then pend else s.pendingTxn,
                 pendingSettings := s.pendingSettings || settingsOnly }
  | "os" =>
    match parsePts rest 3 with
    | some g => { s with obsO := { id := nat! (rest[0]?.getD "0"), isJ := rest[1]?.getD "0" == "1",
                                   active := rest[2]?.getD "0" == "1", geom := g.toList } :: s.obsO }
    | none => s.setFail (.diverge "unparsable os line")
  | "oc" =>
    match parsePt rest 4, parsePt rest 9 with
    | some a, some b =>
      let ea : CEnd := { x := a.x, y := a.y, anchor := nat! (rest[2]?.getD "0"), cls := nat! (rest[3]?.getD "0") }
      let eb : CEnd := { x := b.x, y := b.y, anchor := nat! (rest[7]?.getD "0"), cls := nat! (rest[8]?.getD "0") }
      { s with obsC := { id := nat! (rest[0]?.getD "0"), src := if rest[1]?.getD "0" == "1" then some ea else none,
                         dst := if rest[6]?.getD "0" == "1" then some eb else none } :: s.obsC }
    | _, _ => s.setFail (.diverge "unparsable oc line")
  | "pp" =>
    match parsePt rest 2, parsePt rest 4 with
    | some o, some q => { s with ppCur := (nat! (rest[0]?.getD "0"), nat! (rest[1]?.getD "0"), o.x, o.y, q) :: s.ppCur }
    | _, _ => s.setFail (.diverge "unparsable pp line")
  | "orp" =>
    match parsePts rest 1 with
    | some g => { s with rpCur := (nat! (rest[0]?.getD "0"), g.toList.map toG) :: s.rpCur }
    | none => s.setFail (.diverge "unparsable orp line")
  | "oe" =>
    -- routing polygons: tie to the model's geometry, then the reroute decision of this call
    let s := Id.run do
      let mut s := s
      for o in s.model.scene.obsts do
        match lookup s.rpCur o.id with
        | some rp =>
          if !routingPolyOk s.buf o rp then
            s := s.setFail (.diverge s!"routing-polygon tie after {s.lastOp}: obstacle {o.id} has routingPolygon() {showPts (rp.map fun p => (⟨p.x, p.y⟩ : Pt)).toArray}")
        | none => s := s.setFail (.diverge s!"routing-polygon tie after {s.lastOp}: obstacle {o.id} not reported")
      -- `processTransaction` also runs (with an empty action list) when a routing parameter was set since
      -- the last transaction (`m_settings_changes`; the ActionQueue model leaves settings out)
      -- coverage of the branches of the could-be-shorter estimate (connectors that are tested: polyline, routed,
      -- flag down when the transaction starts)
      match s.pendingTxn with
      | some pre =>
        for a in sortActions pre.queue do
          if a.kind == .remove || a.kind == .move then
            for c in s.rst.conns do
              if c.poly && !c.route.isEmpty && !c.needsReroute then
                match c.route.head?, c.route.getLast? with
                | some st, some en =>
                  for e in AdaptaVerif.Check.Route.polyEdges (polysOf s.rpPrev a.id) do
                    s := s.bump ("estimate." ++ Reroute.sideBranch st en e.1 e.2)
                | _, _ => pure ()
      | none => pure ()
      let decided := match s.pendingTxn with
        | some pre => some (Reroute.flagTxn lt3 (polysOf s.rpPrev) (polysOf s.rpCur) (sortActions pre.queue) s.rst)
        | none => if s.pendingSettings then some (Reroute.flagTxn lt3 (polysOf s.rpPrev) (polysOf s.rpCur) [] s.rst) else none
      return { s with decided := decided, lastActs := s.pendingTxn.map (fun (pre : State) => sortActions pre.queue),
                      pendingTxn := none, pendingSettings := false,
                      settingsDirty := s.settingsDirty && decided.isNone, rpPrev := s.rpCur, rpCur := [] }
    -- connection pins: every pin the harness created sits where the model polygon puts it
    let s := Id.run do
      let mut s := s
      for (o, cl, xo, yo, q) in s.ppCur do
        s := s.bump "tie.pin-positions-compared"
        match findObst s.model.scene o with
        | none => s := s.setFail (.diverge s!"pin tie after {s.lastOp}: pin of class {cl} reported on obstacle {o}, which the model does not have")
        | some ob =>
          if !s.pins.contains (o, cl, xo, yo) then
            s := s.setFail (.diverge s!"pin tie after {s.lastOp}: pin of class {cl} on obstacle {o} was never created")
          else if pinPosition ob.geom xo yo != some q then
            s := s.setFail (.diverge s!"pin tie after {s.lastOp}: pin of class {cl} on shape {o} is at ({showR q.x},{showR q.y}), the model polygon puts it at {showPts ((pinPosition ob.geom xo yo).toList.toArray)}")
      return { s with ppCur := [] }
    let implO := sortBy Obst.id s.obsO
    let implC := sortBy Conn.id s.obsC
    let modO := sortBy Obst.id s.model.scene.obsts
    let modC := sortBy Conn.id s.model.scene.conns
    let s := { s with obsO := [], obsC := [] }
    let s := s.bump "tie.scene-compared"
    if implO != modO then
      let bad := (implO.zip modO).find? fun (a, b) => a != b
      let what := match bad with
        | some (a, b) => s!"obstacle {a.id}: router active={a.active} geom={showPts a.geom.toArray} / model id={b.id} active={b.active} geom={showPts b.geom.toArray}"
        | none => s!"router has {implO.length} obstacle objects, model {modO.length}"
      s.setFail (.diverge s!"scene tie after {s.lastOp}: {what}")
    else if implC != modC then
      let showE := fun (e : Option CEnd) => match e with
        | none => "unset"
        | some e => if e.isPin then s!"pin class {e.cls} of obstacle {e.anchor}" else s!"({showR e.x},{showR e.y})"
      let what := match (implC.zip modC).find? fun (a, b) => a != b with
        | some (a, b) => s!"connector {a.id}: router src={showE a.src} dst={showE a.dst} / model (conn {b.id}) src={showE b.src} dst={showE b.dst}"
        | none => s!"router has {implC.length} connectors, model {modC.length}"
      s.setFail (.diverge s!"scene tie after {s.lastOp}: connector ends differ: {what}")
    else s
  | "txn" => { s with inTxn := true, txn := { dumped := rest[1]?.getD "0" == "1" } }
  | "ff" => { s with txn := { s.txn with fresh := rest[0]?.getD "0" == "1" } }
  | "rt" | "rr" | "fr" | "fd" =>
    match parsePts rest 1 with
    | some r =>
      let e := (nat! (rest[0]?.getD "0"), r)
      let t := s.txn
      let t := if key == "rt" then { t with rt := t.rt ++ [e] } else if key == "rr" then { t with rr := t.rr ++ [e] }
               else if key == "fr" then { t with fr := t.fr ++ [e] } else { t with fd := t.fd ++ [e] }
      { s with txn := t }
    | none => s.setFail (.diverge s!"unparsable {key} line (non-finite coordinate?)")
  | "rp" => { s with txn := { s.txn with rp := (nat! (rest[0]?.getD "0"), rest[1]?.getD "0" == "1") :: s.txn.rp } }
  | "rv" =>
    let n := nat! (rest[1]?.getD "0")
    let ids := (List.range n).map fun j => (nat! (rest[2 + 2 * j]?.getD "0"), nat! (rest[3 + 2 * j]?.getD "0"))
    { s with txn := { s.txn with rv := (nat! (rest[0]?.getD "0"), ids) :: s.txn.rv } }
  | "hk" =>
    match num? (rest[3]?.getD "") with
    | some d => { s with txn := { s.txn with hk := (nat! (rest[0]?.getD "0"), rest[1]?.getD "0" == "1", rest[2]?.getD "0" == "1", d, rest[4]?.getD "0" == "1") :: s.txn.hk } }
    | none => s.setFail (.diverge "unparsable hk line")
  | "pf" =>
    match num? (rest[3]?.getD "") with
    | some d => { s with txn := { s.txn with pf := (nat! (rest[0]?.getD "0"), rest[1]?.getD "0" == "1", rest[2]?.getD "0" == "1", d) :: s.txn.pf } }
    | none => s.setFail (.diverge "unparsable pf line")
  | "ct" =>
    let n := nat! (rest[2]?.getD "0")
    let ids := (List.range n).map fun j => nat! (rest[3 + j]?.getD "0")
    { s with txn := { s.txn with ct := (nat! (rest[0]?.getD "0"), nat! (rest[1]?.getD "0"), ids) :: s.txn.ct } }
  | "hook" => { s with txn := { s.txn with hook := rest[0]?.getD "0" == "1" } }
  | "ran" => { s with txn := { s.txn with ran := nat! (rest[0]?.getD "2") } }
  | "ve" =>
    match parseEdge rest false with
    | some e => { s with txn := { s.txn with ve := s.txn.ve.push e } }
    | none => s.setFail (.diverge "unparsable ve line")
  | "ie" =>
    match parseEdge rest true with
    | some e => { s with txn := { s.txn with ie := s.txn.ie.push e } }
    | none => s.setFail (.diverge "unparsable ie line")
  | "te" => checkTxn s
  | _ => s

def checkCase (c : Case) : CaseResult :=
  let s := c.lines.foldl stepLine {}
  let done := (c.get1 "done").isSome
  let verdict := match s.fail with
    | some v => v
    | none => if done then .ok else .diverge "case stream incomplete"
  { verdict := verdict,
    nontrivial := s.checkedTxns ≥ 2 && s.bentRoutes ≥ 1,
    stats := s.stats ++ [("routes.bent", s.bentRoutes), ("routes.rerouted", s.rerouted)] }

def run (_args : List String) : IO UInt32 := runCases checkCase

end Driver.C06
