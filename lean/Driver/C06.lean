import Driver.Proto
namespace Driver.C06

def run (_args : List String) : IO UInt32 := do
  IO.eprintln "driver mode c06: not implemented yet"
  return 2

end Driver.C06
