import Driver.C20

def main (args : List String) : IO UInt32 := Driver.C20.run args
