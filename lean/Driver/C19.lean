/-
Driver mode c19: libdialect graph decompositions (harness/c19.cpp).
  kind peel  : run the proven checker `peelOk` on the C++ output (SPECFAIL), compare canonical
               output with the models `peel` (degree based, theorems) and `peelB` (explicit
               buckets) (DIVERGE), then check the symmetric layout boxes (SPECFAIL).
  kind layout: Tree::symmetricLayout on a directly built tree: no two node boxes overlap (SPECFAIL).
  kind comps : `componentsOk` on the C++ output (SPECFAIL), exact comparison with `getConnComps`.
  kind plan  : planarised graph: original nodes present, no two edges cross (exact rational
               arithmetic on node centres), every original adjacency realised by a chain of
               new nodes (SPECFAIL). Validator only.
-/
import Driver.Proto
import AdaptaVerif.Model.Peel
import AdaptaVerif.Check.GraphParts
import AdaptaVerif.Model.TreeLayout
import Driver.C19Planarise
namespace Driver.C19
open Driver AdaptaVerif.Num AdaptaVerif.Model.Peel AdaptaVerif.Check.GraphParts
open AdaptaVerif.Model

def natsOf (ts : Array String) (start : Nat := 0) : List Nat :=
  ((ts.extract start ts.size).toList).map nat!

def edgeLe (a b : Nat × Nat) : Bool := a.1 < b.1 || (a.1 == b.1 && a.2 ≤ b.2)
def sortEdges (l : List (Nat × Nat)) : List (Nat × Nat) := l.mergeSort edgeLe

/-- lines `<key> <idx> …` grouped: the payload (after idx) of every line with that idx -/
def linesFor (c : Case) (key : String) (idx : Nat) : List (Array String) :=
  ((c.get key).toList.filter (fun l => l.size > 0 && nat! l[0]! == idx)).map (fun l => l.extract 1 l.size)

def inputGraph (c : Case) : List Nat × List (Nat × Nat) :=
  let ns := natsOf ((c.get1 "n").getD #[])
  let es := (c.get "e").toList.map (fun l => (nat! l[0]!, nat! l[1]!))
  (sortNat ns, es)

structure CTree where
  t : TreeOut
  size : Nat
  flagged : List Nat
  deriving Inhabited

def readTrees (c : Case) : List CTree :=
  (c.get "tree").toList.map (fun l =>
    let i := nat! l[0]!
    let ns := match linesFor c "tn" i with | [a] => natsOf a | _ => []
    let es := (linesFor c "te" i).map (fun a => (nat! a[0]!, nat! a[1]!))
    let fl := match linesFor c "troots" i with | [a] => natsOf a | _ => []
    { t := ⟨ns, es, nat! l[1]!⟩, size := nat! l[2]!, flagged := fl })

def canonTree (t : TreeOut) : List Nat × List (Nat × Nat) × Nat := (sortNat t.nodes, sortEdges t.edges, t.root)

def parseBoxes (c : Case) (i : Nat) : Option (List Box) :=
  (linesFor c "box" i).mapM (fun a => do
    let x ← num? a[1]!; let X ← num? a[2]!; let y ← num? a[3]!; let Y ← num? a[4]!
    pure { id := nat! a[0]!, x := x, X := X, y := y, Y := Y })

/-! ### exact tie of `Tree::symmetricLayout` with `Model/TreeLayout.lean` -/

def dirOf : String → TreeLayout.Dir
  | "E" => .east
  | "S" => .south
  | "W" => .west
  | _ => .north

/-- the rooted ordered tree as the library sees it (`kids` lines = `Node::getChildren()` order);
    `fuel` = number of nodes + 1 (every `cons` consumes one unit on every path) -/
def buildForest (kidsOf : Nat → List Nat) (szOf : Nat → Rat × Rat) : Nat → List Nat → TreeLayout.Forest
  | 0, _ => .nil
  | _, [] => .nil
  | fuel + 1, i :: is =>
    .cons i (szOf i).1 (szOf i).2 (buildForest kidsOf szOf fuel (kidsOf i)) (buildForest kidsOf szOf fuel is)

structure LayoutIn where
  cfg : TreeLayout.Cfg
  convex : Bool
  root : Nat
  w : Rat
  h : Rat
  kids : TreeLayout.Forest
  sizes : List (Nat × (Rat × Rat))

/-- `layout` = tokens `dir nodeSep rankSep convex`; `szL` = `id w h`; `kidsL` = `id child…` -/
def mkLayoutIn (layout : Array String) (root n : Nat) (szL kidsL : List (Array String)) : Option LayoutIn := do
  let nodeSep ← num? layout[1]!
  let rankSep ← num? layout[2]!
  let sizes ← szL.mapM (fun a => do
    let w ← num? a[1]!; let h ← num? a[2]!; pure (nat! a[0]!, (w, h)))
  let kidsA := kidsL.map (fun a => (nat! a[0]!, natsOf a 1))
  let szOf := fun i => (sizes.lookup i).getD (0, 0)
  let kidsOf := fun i => (kidsA.lookup i).getD []
  let (w, h) ← sizes.lookup root
  pure { cfg := ⟨dirOf layout[0]!, nodeSep, rankSep⟩, convex := layout[3]! == "1", root := root, w := w, h := h,
         kids := buildForest kidsOf szOf (n + 1) (kidsOf root), sizes := sizes }

def readLayoutIn (c : Case) (n : Nat) : Option LayoutIn := do
  let l ← c.get1 "layout"
  let root := nat! ((← c.get1 "root")[0]!)
  mkLayoutIn (l.extract 1 l.size) root n (c.get "sz").toList (c.get "kids").toList

/-- hypothesis of `symmetricLayout_no_overlap`: sizes ≥ 0, extent along the growth direction ≤ rankSep,
    nodeSep ≥ 0 -/
def layoutHyp (i : LayoutIn) : Bool :=
  decide (0 ≤ i.cfg.nodeSep) && i.sizes.all (fun (_, (w, h)) =>
    decide (0 ≤ w) && decide (0 ≤ h) && decide ((if i.cfg.dir.isVertical then h else w) ≤ i.cfg.rankSep))

/-- compare every centre (`ctr`: `id x y`), the per-rank bounds (`rb`: `r lo hi`), m_lb/m_ub and the symmetry
    flag with the model: `none` = equal -/
def tieWith (i : LayoutIn) (n : Nat) (ctrL rbL : List (Array String)) (lbub : Option (Array String))
    (symImpl : Bool) : Option String := Id.run do
  let lay := TreeLayout.symmetricLayout i.cfg i.convex i.root i.w i.h i.kids
  let mnodes := lay.nodes
  if mnodes.length != n then return some s!"model laid out {mnodes.length} nodes, tree has {n}"
  let ctr := ctrL.map (fun a => (nat! a[0]!, (num? a[1]!, num? a[2]!)))
  if ctr.length != n then return some s!"{ctr.length} ctr lines for {n} nodes"
  for m in mnodes do
    match ctr.lookup m.id with
    | some (some x, some y) =>
      if x != m.c.x || y != m.c.y then
        return some s!"centre of node {m.id}: impl ({x}, {y}) model ({m.c.x}, {m.c.y})"
    | _ => return some s!"node {m.id}: no finite centre printed"
  let rb := rbL.map (fun a => (num? a[1]!, num? a[2]!))
  if rb.length != lay.levels.length then
    return some s!"m_depth: impl {rb.length} model {lay.levels.length}"
  let mut r := 0
  for (b, lv) in rb.zip lay.levels do
    if b.1 != some lv.lo || b.2 != some lv.hi then
      return some s!"m_boundsByRank[{r}]: impl ({b.1}, {b.2}) model ({lv.lo}, {lv.hi})"
    r := r + 1
  match lbub with
  | some a =>
    if num? a[0]! != some lay.lb || num? a[1]! != some lay.ub then
      return some s!"m_lb/m_ub: impl ({num? a[0]!}, {num? a[1]!}) model ({lay.lb}, {lay.ub})"
  | none => return some "no lbub line"
  let symModel := TreeLayout.isSymmetrical i.kids
  if symImpl != symModel then return some s!"isSymmetrical: impl {symImpl} model {symModel}"
  return none

/-- `isomv id depth breadth s:<isom>` lines: m_depth, m_breadth, computeIsomString() of the subtree rooted at
    every node against the model's `Key` -/
def tieKeys (c : Case) (i : LayoutIn) : Option String := Id.run do
  let mk := (i.root, TreeLayout.mkKey (TreeLayout.keys i.kids)) :: TreeLayout.allKeys i.kids
  for a in c.get "isomv" do
    match mk.lookup (nat! a[0]!) with
    | none => return some s!"isomv: node {a[0]!} not in the model tree"
    | some k =>
      if k.depth != nat! a[1]! then return some s!"m_depth of subtree {a[0]!}: impl {a[1]!} model {k.depth}"
      if k.breadth != nat! a[2]! then return some s!"m_breadth of subtree {a[0]!}: impl {a[2]!} model {k.breadth}"
      if "s:" ++ k.isom != a[3]! then
        return some s!"computeIsomString of subtree {a[0]!}: impl {a[3]!} model s:{k.isom}"
  return none

def tieLayout (c : Case) (i : LayoutIn) (n : Nat) : Option String :=
  (tieKeys c i).orElse fun _ => tieWith i n (c.get "ctr").toList (c.get "rb").toList (c.get1 "lbub")
    (((c.get1 "laid").map (fun a => a[1]! == "1")).getD false)

/-- the same tie for tree number `k` of a peel case (lines `psz/pkids/pctr/prb/plbub k …`) -/
def tiePeelTree (c : Case) (k root n : Nat) : Option String :=
  match linesFor c "layout" k with
  | [l] =>
    match mkLayoutIn l root n (linesFor c "psz" k) (linesFor c "pkids" k) with
    | none => some "layout input lines (layout/psz/pkids) malformed"
    | some i =>
      tieWith i n (linesFor c "pctr" k) (linesFor c "prb" k) ((linesFor c "plbub" k).head?)
        (((linesFor c "laid" k).head?.map (fun a => a[0]! == "1")).getD false)
  | _ => some "no layout line"

def checkPeel (c : Case) : CaseResult := Id.run do
  let (ns, es) := inputGraph c
  if !simpleB ns es then return { verdict := .diverge "harness produced a non-simple input graph" }
  if !connectedB ns es then return { verdict := .diverge "harness produced a disconnected peel input" }
  let coreN := match linesFor c "core_n" 0 with | [a] => natsOf a | _ => []
  let coreE := (linesFor c "core_e" 0).map (fun a => (nat! a[0]!, nat! a[1]!))
  let coreRoots := natsOf ((c.get1 "core_roots").getD #[])
  let ctrees := readTrees c
  let trees := ctrees.map (·.t)
  let mut stats : List (String × Nat) := [("peel.nodes", ns.length), ("peel.trees", trees.length),
      ("peel.core." ++ (if coreN.isEmpty then "empty" else if coreN.length == 1 then "single" else "proper"), 1)]
  -- 1. the property itself, by the proven checker, on the C++ output
  if !peelOk ns es trees coreN coreE then
    -- name the failing clause
    let tparts := trees.map (·.nodes)
    let msg :=
      if !ns.all (fun v => partsWith tparts v ≤ 1 && (coreN.contains v || partsWith tparts v == 1)) then
        s!"node partition fails (node {ns.find? (fun v => !(partsWith tparts v ≤ 1 && (coreN.contains v || partsWith tparts v == 1)))})"
      else if !trees.all (fun t => isTree t.nodes t.edges) then
        s!"a peeled tree is not a tree (root {(trees.find? (fun t => !isTree t.nodes t.edges)).map (·.root)})"
      else if !coreNoDegreeOne coreN coreE then
        s!"core has a node of degree one ({coreN.find? (fun v => degree coreE v == 1)})"
      else if !es.all (fun e => edgeCount (coreE :: trees.map (·.edges)) e == 1) then
        s!"edge partition fails (edge {es.find? (fun e => edgeCount (coreE :: trees.map (·.edges)) e != 1)})"
      else if !trees.all (fun t => t.nodes.contains t.root && (coreN.isEmpty || t.nodes.all (fun v => coreN.contains v == (v == t.root)))) then
        "tree root is not exactly the node shared with the core"
      else "part contains foreign/duplicate nodes or edges"
    return { verdict := .specfail s!"peel: {msg}", stats := stats }
  -- 2. correspondence with the model(s)
  match peel ns es, peelB ns es with
  | some m, some mb =>
    let cm := m.trees.map canonTree
    let cb := mb.trees.map canonTree
    let cc := trees.map canonTree
    if cm != cb || sortNat m.coreNodes != sortNat mb.coreNodes || sortEdges m.coreEdges != sortEdges mb.coreEdges then
      return { verdict := .diverge "bucket model peelB differs from degree model peel", stats := stats }
    if sortNat m.coreNodes != sortNat coreN then
      return { verdict := .diverge s!"core nodes: impl {sortNat coreN} model {sortNat m.coreNodes}", stats := stats }
    if sortEdges m.coreEdges != sortEdges coreE then
      return { verdict := .diverge s!"core edges: impl {sortEdges coreE} model {sortEdges m.coreEdges}", stats := stats }
    if cm != cc then
      return { verdict := .diverge s!"trees: impl {cc} model {cm}", stats := stats }
    -- Tree::size() (directed reachability from the root) and the isRoot flags
    for (ct, mt) in ctrees.zip m.trees do
      if ct.size != treeSize mt then
        return { verdict := .diverge s!"Tree::size {ct.size} vs model {treeSize mt} (root {mt.root})", stats := stats }
      if ct.flagged != [mt.root] then
        return { verdict := .diverge s!"isRoot flags in tree {ct.flagged} vs root {mt.root}", stats := stats }
    let expectRoots := if coreN.isEmpty then [] else sortNat (m.trees.map (·.root))
    if sortNat coreRoots != expectRoots then
      return { verdict := .diverge s!"isRoot flags in core {coreRoots} vs tree roots {expectRoots}", stats := stats }
    stats := ("peel.stems", m.stems.length) :: stats
    if m.coreNodes.isEmpty then stats := ("peel.branch.doubleCentre", 1) :: stats
    if m.coreNodes.length == 1 && !m.stems.isEmpty then stats := ("peel.branch.singleCentre", 1) :: stats
    -- 3. symmetric layout: no two node boxes of a tree overlap
    let mut nboxes := 0
    for i in [0:trees.length] do
      match parseBoxes c i with
      | none => return { verdict := .specfail s!"layout of tree {i}: non-finite coordinate", stats := stats }
      | some bs =>
        nboxes := nboxes + bs.length
        if bs.length != (trees.getD i default).nodes.length then
          return { verdict := .diverge s!"layout of tree {i}: {bs.length} boxes for {(trees.getD i default).nodes.length} nodes", stats := stats }
        if bs.any (fun b => !(b.x < b.X && b.y < b.Y)) then
          return { verdict := .specfail s!"layout of tree {i}: degenerate box", stats := stats }
        match firstOverlap bs with
        | some (a, b) => return { verdict := .specfail s!"symmetricLayout: boxes of nodes {a} and {b} overlap (tree {i})", stats := stats }
        | none => pure ()
        if (linesFor c "exactp" i).length == 1 then
          let mt := trees.getD i default
          match tiePeelTree c i mt.root mt.nodes.length with
          | some msg => return { verdict := .diverge s!"symmetricLayout exact tie (peeled tree {i}): {msg}", stats := stats }
          | none => stats := ("layoutExact.peeledTrees", 1) :: stats
    stats := ("layout.boxes", nboxes) :: stats
    return { verdict := .ok, nontrivial := !m.stems.isEmpty, stats := stats }
  | _, _ => return { verdict := .diverge "model ran out of fuel", stats := stats }

/-- directly built tree + Tree::symmetricLayout: input must be a tree, one box per node; no two boxes
    overlap whenever the hypothesis of `symmetricLayout_no_overlap` holds (SPECFAIL); with an `exact` line
    every centre / rank bound / flag equals the model's (DIVERGE) -/
def checkLayout (c : Case) : CaseResult := Id.run do
  let (ns, es) := inputGraph c
  let mut stats : List (String × Nat) := [("layoutDirect.nodes", ns.length)]
  if !simpleB ns es || !isTree ns es then
    if !(ns.length == 1 && es.isEmpty) then
      return { verdict := .diverge "harness produced a layout input that is not a tree", stats := stats }
  let tsize := nat! (((c.get1 "tsize").getD #["0"])[0]!)
  if tsize != ns.length then
    return { verdict := .diverge s!"Tree::size {tsize} for a tree of {ns.length} nodes", stats := stats }
  let exact := (c.get1 "exact").isSome
  let inp := if exact then readLayoutIn c ns.length else none
  if exact && inp.isNone then
    return { verdict := .diverge "layout input lines (layout/root/sz/kids) malformed", stats := stats }
  let hyp := match inp with | some i => layoutHyp i | none => true
  match parseBoxes c 0 with
  | none => return { verdict := .specfail "symmetricLayout: non-finite coordinate", stats := stats }
  | some bs =>
    if sortNat (bs.map (·.id)) != ns then
      return { verdict := .diverge s!"layout: {bs.length} boxes for {ns.length} nodes", stats := stats }
    if bs.any (fun b => !(b.x < b.X && b.y < b.Y)) then
      return { verdict := .specfail "symmetricLayout: degenerate box", stats := stats }
    if hyp then
      match firstOverlap bs with
      | some (a, b) => return { verdict := .specfail s!"symmetricLayout: boxes of nodes {a} and {b} overlap (direct tree, {ns.length} nodes)", stats := stats }
      | none => pure ()
    else
      stats := ("layoutExact.hypothesisOff", 1) :: stats
      if (firstOverlap bs).isSome then stats := ("layoutExact.hypothesisOff.overlap", 1) :: stats
    match inp with
    | none => return { verdict := .ok, nontrivial := ns.length ≥ 5, stats := ("layoutDirect.boxes", bs.length) :: stats }
    | some i =>
      match tieLayout c i ns.length with
      | some msg => return { verdict := .diverge s!"symmetricLayout exact tie: {msg}", stats := stats }
      | none =>
        let (perm, central) := TreeLayout.placementOf i.convex i.kids
        let ks := TreeLayout.keys i.kids
        -- negative side = odd positions among the non-central placements
        let side := if central then perm.drop 1 else perm
        let negAsym := (side.zipIdx.any (fun (ci, pos) => pos % 2 == 1 && !((ks[ci]?.map (·.sym)).getD true)))
        stats := ("layoutExact.cases", 1) :: ("layoutExact.nodes", ns.length) :: stats
        if central then stats := ("layoutExact.root.centralTree", 1) :: stats
        if negAsym then stats := ("layoutExact.root.flippedAsymmetric", 1) :: stats
        -- all nodes of one size, isSymmetrical() = true, yet some node has no mirror partner (computeIsomString quirk)
        let mn := (TreeLayout.symmetricLayout i.cfg i.convex i.root i.w i.h i.kids).nodes
        let mirrorless := mn.any (fun a => !mn.any (fun b =>
          if i.cfg.dir.isVertical then b.c.x == -a.c.x && b.c.y == a.c.y else b.c.y == -a.c.y && b.c.x == a.c.x))
        let uniform := i.sizes.all (fun (_, sz) => sz == (i.w, i.h))
        if uniform && TreeLayout.isSymmetrical i.kids && mirrorless then
          stats := ("layoutExact.symFlagTrueButNotMirrorSymmetric", 1) :: stats
        if !i.convex then stats := ("layoutExact.nonConvexOrdering", 1) :: stats
        if i.cfg.nodeSep == 0 then stats := ("layoutExact.nodeSep0", 1) :: stats
        if i.cfg.rankSep == 0 then stats := ("layoutExact.rankSep0", 1) :: stats
        stats := ("layoutExact.dir." ++ (match i.cfg.dir with | .east => "E" | .south => "S" | .west => "W" | .north => "N"), 1) :: stats
        return { verdict := .ok, nontrivial := ns.length ≥ 2, stats := ("layoutDirect.boxes", bs.length) :: stats }

def readComps (c : Case) : List Comp :=
  let k := nat! (((c.get1 "ncomps").getD #["0"])[0]!)
  (List.range k).map (fun i =>
    let ns := match linesFor c "cn" i with | [a] => natsOf a | _ => []
    let es := (linesFor c "ce" i).map (fun a => (nat! a[0]!, nat! a[1]!))
    ⟨ns, es⟩)

def checkComps (c : Case) : CaseResult := Id.run do
  let (ns, es) := inputGraph c
  if !simpleB ns es then return { verdict := .diverge "harness produced a non-simple input graph" }
  let cs := readComps c
  let stats : List (String × Nat) := [("comps.nodes", ns.length), ("comps.parts", cs.length)]
  if !componentsOk ns es cs then
    return { verdict := .specfail s!"getConnComps: output is not the partition into connected components ({cs.length} parts)", stats := stats }
  match getConnComps ns es with
  | none => return { verdict := .diverge "model ran out of fuel", stats := stats }
  | some ms =>
    let cm := ms.map (fun c => (sortNat c.nodes, sortEdges c.edges))
    let cc := cs.map (fun c => (sortNat c.nodes, sortEdges c.edges))
    if cm != cc then return { verdict := .diverge s!"components: impl {cc} model {cm}", stats := stats }
    return { verdict := .ok, nontrivial := cs.length > 1, stats := stats }

def rpt? (a b : String) : Option (Rat × Rat) := do
  let x ← num? a; let y ← num? b; pure (x, y)

def lcmNat (a b : Nat) : Nat := if a == 0 || b == 0 then 1 else a / Nat.gcd a b * b

/-- scale a rational by the common denominator `L` (exact: `L` is a multiple of `r.den`) -/
def scaleR (L : Nat) (r : Rat) : Int := r.num * ((L / r.den : Nat) : Int)

def checkPlan (strictAll : Bool) (c : Case) : CaseResult := Id.run do
  let orig := (c.get "pn").toList.map (fun l => nat! l[0]!)
  let origE := (c.get "pe").toList.map (fun l => (nat! l[0]!, nat! l[1]!))
  -- planarised graph, exact rational positions
  let mut qnR : List (Nat × (Rat × Rat)) := []
  for l in c.get "qn" do
    match rpt? l[1]! l[2]! with
    | some p => qnR := (nat! l[0]!, p) :: qnR
    | none => return { verdict := .specfail "planarise: non-finite node position" }
  -- routed input, exact rational route points
  let mut routes : List (List (Rat × Rat)) := []
  for l in c.get "pe" do
    let coords := (l.extract 2 l.size).toList
    let rec pts : List String → List (Rat × Rat)
      | a :: b :: rest => (match rpt? a b with | some p => [p] | none => []) ++ pts rest
      | _ => []
    routes := pts coords :: routes
  -- common denominator of every coordinate of the case; scaling by it keeps all predicates
  let L := (qnR.map (·.2) ++ routes.flatten).foldl (fun acc p => lcmNat (lcmNat acc p.1.den) p.2.den) 1
  let toP (p : Rat × Rat) : P2 := ⟨scaleR L p.1, scaleR L p.2⟩
  let qn := qnR.map (fun (v, p) => (v, toP p))
  let qE := (c.get "qe").toList.map (fun l => (nat! l[0]!, nat! l[1]!))
  let pos (v : Nat) : Option P2 := qn.lookup v
  let mut stats : List (String × Nat) := [("plan.nodes", orig.length), ("plan.edges", origE.length),
      ("plan.qnodes", qn.length), ("plan.qedges", qE.length)]
  -- crossings between route segments of the input (for the non-triviality rule)
  let mut rsegs : List Seg := []
  let mut eid := 0
  for ps in routes do
    let ps := ps.map toP
    for (a, b) in ps.zip (ps.drop 1) do
      rsegs := { u := eid, v := eid, a := a, b := b } :: rsegs
    eid := eid + 1
  let inCross := countCrossings rsegs
  stats := ("plan.inputCrossings", inCross) :: stats
  -- 1. every original node still present
  match orig.find? (fun v => (pos v).isNone) with
  | some v => return { verdict := .specfail s!"planarise: original node {v} missing", stats := stats }
  | none => pure ()
  -- 2. no two edges cross
  let mut segs : List Seg := []
  for e in qE do
    match pos e.1, pos e.2 with
    | some a, some b => segs := { u := e.1, v := e.2, a := a, b := b } :: segs
    | _, _ => return { verdict := .specfail s!"planarise: edge {e} has an end that is not a node", stats := stats }
  match firstConflict false segs with
  | some (s, t) => return { verdict := .specfail s!"planarise: edges {s.u}-{s.v} and {t.u}-{t.v} cross", stats := stats }
  | none => pure ()
  -- ... nor touch / overlap anywhere but at a shared end node (planar straight-line drawing).
  -- Enforced for hand-routed integer-grid inputs (`strict 1`, coordinates far above the
  -- planariser's own tolerances) and, with driver argument --strict-routed, for router-made
  -- inputs too; otherwise only counted (see report: short-segment finding).
  match firstConflict true segs with
  | some (s, t) =>
    if strictAll || (c.get1 "strict").isSome then
      return { verdict := .specfail s!"planarise: edges {s.u}-{s.v} and {t.u}-{t.v} overlap or touch away from a shared end node", stats := stats }
    else stats := ("plan.touchOrOverlap", 1) :: stats
  | none => pure ()
  -- 3. every original adjacency realised by a chain of new nodes
  match adjacencyKept orig origE qE with
  | some e => return { verdict := .specfail s!"planarise: adjacency {e.1}-{e.2} not realised by a chain of new nodes", stats := stats }
  | none => pure ()
  return { verdict := .ok, nontrivial := inCross > 0, stats := stats }

def run (args : List String) : IO UInt32 :=
  let strictAll := args.contains "--strict-routed"
  runCases (fun c =>
    match (c.get1 "kind").map (fun a => a[0]!) with
    | some "peel" => checkPeel c
    | some "comps" => checkComps c
    | some "layout" => checkLayout c
    | some "plan" =>
      let r := checkPlan strictAll c
      match r.verdict with
      | .ok => Driver.C19Planarise.tieFinal r c      -- exact tie of the planar graph with Model/Planarise.lean
      | _ => r
    | some "planx" => Driver.C19Planarise.checkPlanX c
    | some "skip" => { verdict := .ok, nontrivial := false, stats := [("plan.routerDied", 1)] }
    | _ => { verdict := .diverge "unknown case kind" })

end Driver.C19
