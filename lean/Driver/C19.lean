import Driver.Proto
namespace Driver.C19

def run (_args : List String) : IO UInt32 := do
  IO.eprintln "driver mode c19: not implemented yet"
  return 2

end Driver.C19
