import Driver.C05

def main (args : List String) : IO UInt32 := Driver.C05.run args
