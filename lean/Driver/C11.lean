import Driver.Proto
import AdaptaVerif.Model.Pins
import AdaptaVerif.Check.Attach
import AdaptaVerif.Model.CheckpointLegs
import AdaptaVerif.Model.AStarPins
/-!
Driver mode `c11`: pins / junctions / checkpoints (see harness/c11.cpp for the line format).
Per step (= one `Router::processTransaction`) the implementation's observables are checked:
* SPECFAIL (property clause violated, decided by the checkers of `Check/Attach.lean` and the
  state machine of `Model/Pins.lean`): pin-attached end not at a pin of its class although a free
  pin exists; first/last leg of an orthogonal route not in a permitted direction; exclusive pin
  used twice; pin did not follow a translation / left its box / lost its proportional place;
  checkpoint not on the route or out of order; junction end not at the junction.
* DIVERGE: `ShapeConnectionPin::position()/directions()/isExclusive()` differ from the model
  without any of the clauses above failing; the `m_disabled` flags of the visibility edges of the
  checkpoint vertices (and of the whole router, after the transaction and at every progress callback
  inside it) differ from what the model of `ConnRef::generateCheckpointsPath` /
  `VertInf::setVisibleDirections` / `directionFrom` (Model/CheckpointLegs.lean) computes for the
  same edges and masks — by `Props/C11Legs.generateCheckpointsPath_restores` /
  `history_never_restricted`: none disabled.
* The orthogonal A* search (harness/c11_search.h: the graph every search was given, read through the library's
  DebugHandler): the model of the search for pin-attached ends and checkpoint legs (Model/AStarPins.lean on top of
  Model/AStar.lean) is run on the dumped graph with the END-POINT LIST OF THE TURN PRUNING COMPUTED FROM THE MODEL'S PIN
  STATE (`possiblePinPoints`; the state is advanced by the `srouted` events in the order the library routed).  A search
  that failed in the library although the model finds a route is never the known class no-path: SPECFAIL
  `[no-path-but-model-routes]` when the connector ends up with the no-path fallback (the end clause of the property fails
  and the model exhibits a route of libavoid's own graph to a free pin), DIVERGE otherwise.  Where both find a route the
  routes are compared vertex for vertex.
* A connector that skips a checkpoint / stops at one while edges of its checkpoint vertices are
  (or were, at the end of the previous transaction) still disabled is a SPECFAIL of the checkpoint /
  end clause outside every finding class: the search ran on a graph the protocol had not restored.
-/
namespace Driver.C11
open Driver AdaptaVerif.Num AdaptaVerif.Model.Pins AdaptaVerif.Check.Attach

inductive EndK where
  | pin (shape cls : Nat)
  | junc (j : Nat)
  | free (p : P2)
  deriving Inhabited, Repr

structure PinRec where
  id : Nat
  shape : Nat
  spec : PinSpec
  exclSet : Int            -- -1 default, 0/1 explicit
  deriving Inhabited

structure ConnRec where
  id : Nat
  orth : Bool
  src : EndK
  dst : EndK
  cps : List P2 := []
  cpd : List (Nat × Nat) := []      -- (arrival, departure) masks; [] = all ConnDirAll
  deriving Inhabited

/-- one visibility edge of a checkpoint vertex as reported by the harness -/
structure CpEdge where
  orth : Bool
  objId : Nat
  vn : Nat
  pos : P2
  dir : Nat          -- other->directionFrom(checkpoint vertex), from the real code
  disabled : Bool
  deriving Inhabited

structure PinObs where
  id : Nat
  pos : P2
  dirs : Nat
  excl : Bool
  deriving Inhabited

structure JuncObs where
  id : Nat
  pos : P2
  recPos : P2
  fixed : Bool
  deriving Inhabited

/-- everything observed in one step -/
structure Obs where
  boxes : List (Nat × Box) := []
  pins : List PinObs := []
  juncs : List JuncObs := []
  routes : List (Nat × List P2) := []
  disps : List (Nat × List P2) := []
  ends : List (Nat × EndK × EndK) := []      -- ConnRef::endpointConnEnds() as reported by the library
  cpv : List (Nat × Nat × Option (List CpEdge)) := []   -- (connector, checkpoint index, edges of its vertex)
  probes : List (Nat × Nat × Nat × List Bool) := []     -- (connector, checkpoint index, mask, flags after setVisibleDirections)
  visall : Option (Nat × Nat) := none                   -- (edges, disabled) of the whole router
  viscb : List (Nat × Nat) := []                        -- (phase, disabled) at the progress callbacks
  skips : Option (List Nat) := none                     -- connectors with a "skipping checkpoint" diagnostic in this transaction
  deriving Inhabited

/-- header of an `ssearch` line -/
structure SearchHdr where
  conn : Nat
  n : Nat
  src : Nat
  tar : Nat
  prevOfStart : Option Nat
  lineSrc : Nat
  lineDst : Nat
  found : Bool
  path : List Nat
  /-- `sisolated`: (the source is `lineRef->src()` and has no enabled edge, the target is `lineRef->dst()` and has no edge) -/
  iso : Option (Bool × Bool) := none
  deriving Inhabited

/-- events of a transaction in the order they happened (harness/c11_search.h) -/
inductive SEv where
  | search (h : SearchHdr) (g : Option AdaptaVerif.Model.AStarPins.PGraph)
  | routed (conn : Nat) (route : List P2)
  | cross
  deriving Inhabited

/-- verdict of the model on one search of the library -/
structure SearchRes where
  conn : Nat
  libFound : Bool
  modelRoute : Option (List P2)     -- `none`: the model finds no path either
  /-- the search failed at once because a dummy end vertex had no pin edge, but the model's pin state offers pins of the class -/
  modelOffers : Option String := none
  deriving Inhabited

structure St where
  pins : List PinRec := []
  segPen : Rat := 10              -- routingParameter(segmentPenalty): library default unless a `pens` line says otherwise
  sev : Array SEv := #[]          -- events of the current transaction
  sres : List SearchRes := []     -- searches of the current transaction that were dumped and judged
  lastFailed : List SearchRes := []  -- per connector: the judged failed searches of the last transaction that searched it
  sgx : Array Rat := #[]          -- graph lines of the search being read
  sgy : Array Rat := #[]
  sgf : Array Nat := #[]
  sgp : Array Nat := #[]
  conns : List ConnRec := []
  prev : Obs := {}
  cur : Obs := {}
  stepNo : Nat := 0
  moved : Bool := false           -- some move/resize op happened before the current step
  fails : List String := []       -- SPECFAIL messages
  divs : List String := []        -- DIVERGE messages
  stats : List (String × Nat) := []
  nontrivial : Bool := false
  retargets : List (Nat × Bool × EndK) := []  -- (connector, isDst, previous attachment) of this step
  jmoves : List (Nat × P2) := []  -- junction moves requested since the last step (id, delta)
  hyperOn : Bool := true          -- cfg: routing option improveHyperedgeRoutesMovingJunctions
  strict : List String := []      -- driver args: finding classes to report as SPECFAIL (else counted)
  taint : List (Nat × Nat) := []      -- (connector, disabled edges at its checkpoint vertices) after this transaction
  taintPrev : List (Nat × Nat) := []  -- the same after the previous transaction
  crossStage : Bool := false          -- crossing / shared-path penalty set: connectors can be searched twice in a transaction
  skipped : List Nat := []            -- connectors whose current route() may stem from a search that skipped a checkpoint
  deriving Inhabited

def rat! (s : String) : Rat := (num? s).getD 0
def pt! (l : Array String) (i : Nat) : P2 := ⟨rat! l[i]!, rat! l[i+1]!⟩

def ptsFrom (l : Array String) (start n : Nat) : List P2 :=
  (List.range n).map (fun i => pt! l (start + 2 * i))

def lookup {α} (xs : List (Nat × α)) (k : Nat) : Option α := (xs.find? (·.1 == k)).map (·.2)

def showP (p : P2) : String := s!"({ratToString p.x},{ratToString p.y})"

def parseEnd (l : Array String) (i : Nat) : EndK × Nat :=
  match l[i]! with
  | "P" => (.pin (nat! l[i+1]!) (nat! l[i+2]!), i + 3)
  | "J" => (.junc (nat! l[i+1]!), i + 2)
  | _ => (.free (pt! l (i + 1)), i + 3)

def bump (s : St) (k : String) (n : Nat := 1) : St := { s with stats := bumpStats s.stats k n }

/-- A failure belonging to a *suspected-genuine-defect class* (see the report / LEVEL_NOTE of
    check/props/C11.py). It is always counted (`finding.<class>`); it becomes a SPECFAIL when the
    class is named on the driver command line (C11.py does that as soon as known_findings.json
    carries an entry for the class, so that the hit is printed as KNOWN-FINDING). -/
def gated (s : St) (cls msg : String) : St :=
  let s := bump s ("finding." ++ cls)
  if s.strict.contains cls || s.strict.contains "all" then { s with fails := s!"[{cls}] {msg}" :: s.fails } else s

/-- hypotheses of `pin_in_box` (Props/C11.lean) on one axis -/
def axisInRange (prop : Bool) (off inside lo hi : Rat) : Bool :=
  decide (lo ≤ hi) && decide (0 ≤ inside) && decide (inside ≤ hi - lo) &&
    (if prop then decide (0 ≤ off) && decide (off ≤ 1)
     else decide (off = -1) || (decide (0 ≤ off) && decide (off ≤ hi - lo)))

def axisKind (prop : Bool) (off lo hi : Rat) : String :=
  if prop then (if off = 0 then "prop.min" else if off = 1 then "prop.max" else "prop.generic")
  else (if off = 0 then "abs.min" else if off = -1 then "abs.max" else if off = hi - lo then "abs.width" else "abs.generic")

/-- checks on the pins of one step -/
def checkPins (s : St) : St := Id.run do
  let mut s := s
  for po in s.cur.pins do
    match s.pins.find? (·.id == po.id) with
    | none => s := { s with divs := s!"step {s.stepNo}: unknown pin {po.id}" :: s.divs }
    | some pr =>
      match lookup s.cur.boxes pr.shape with
      | none => s := { s with divs := s!"step {s.stepNo}: pin {po.id} without shape box" :: s.divs }
      | some b =>
        let sp := pr.spec
        let m := pinPosition sp b
        s := bump s ("pinpos.x." ++ axisKind sp.proportional sp.xOff b.minX b.maxX)
        s := bump s ("pinpos.y." ++ axisKind sp.proportional sp.yOff b.minY b.maxY)
        let mut clause := false
        -- clause: pin follows a translation of its shape
        match lookup s.prev.boxes pr.shape, s.prev.pins.find? (·.id == po.id) with
        | some pb, some pp =>
          let t : P2 := ⟨b.minX - pb.minX, b.minY - pb.minY⟩
          if pb.translate t == b then
            if t != ⟨0, 0⟩ then s := bump s "pin.translated"
            if pp.pos.translate t != po.pos then
              clause := true
              s := { s with fails := s!"step {s.stepNo}: pin {po.id} did not follow the translation of shape {pr.shape}: was {showP pp.pos}, shift {showP t}, now {showP po.pos}" :: s.fails }
          else s := bump s "pin.resized"
        | _, _ => pure ()
        -- clause: offsets in range ⇒ inside / on the bounding box
        if axisInRange sp.proportional sp.xOff sp.inside b.minX b.maxX && !(decide (b.minX ≤ po.pos.x) && decide (po.pos.x ≤ b.maxX)) then
          clause := true
          s := { s with fails := s!"step {s.stepNo}: pin {po.id} x={ratToString po.pos.x} outside its box [{ratToString b.minX},{ratToString b.maxX}]" :: s.fails }
        if axisInRange sp.proportional sp.yOff sp.inside b.minY b.maxY && !(decide (b.minY ≤ po.pos.y) && decide (po.pos.y ≤ b.maxY)) then
          clause := true
          s := { s with fails := s!"step {s.stepNo}: pin {po.id} y={ratToString po.pos.y} outside its box [{ratToString b.minY},{ratToString b.maxY}]" :: s.fails }
        -- clause: proportional pin keeps its relative place
        if sp.proportional && sp.xOff != 0 && sp.xOff != 1 && po.pos.x - b.minX != sp.xOff * b.width then
          clause := true
          s := { s with fails := s!"step {s.stepNo}: proportional pin {po.id} x-offset {ratToString (po.pos.x - b.minX)} ≠ {ratToString sp.xOff}·width" :: s.fails }
        if sp.proportional && sp.yOff != 0 && sp.yOff != 1 && po.pos.y - b.minY != sp.yOff * b.height then
          clause := true
          s := { s with fails := s!"step {s.stepNo}: proportional pin {po.id} y-offset {ratToString (po.pos.y - b.minY)} ≠ {ratToString sp.yOff}·height" :: s.fails }
        if m != po.pos && !clause then
          s := { s with divs := s!"step {s.stepNo}: pin {po.id} position() = {showP po.pos}, model {showP m}" :: s.divs }
        if pinDirections sp != po.dirs then
          s := { s with divs := s!"step {s.stepNo}: pin {po.id} directions() = {po.dirs}, model {pinDirections sp}" :: s.divs }
        if pr.exclSet == -1 && defaultExclusive sp != po.excl then
          s := { s with divs := s!"step {s.stepNo}: pin {po.id} default isExclusive() = {po.excl}, model {defaultExclusive sp}" :: s.divs }
  return s

/-! ### the visibility-direction protocol (Model/CheckpointLegs.lean) against the real graph -/

open AdaptaVerif.Model.CheckpointLegs in
/-- vertex identity for the model: (objID, vn, x, y) — orthogonal-graph vertices share one dummy id -/
abbrev VKey := Nat × Nat × Rat × Rat

def restrictedConn (c : ConnRec) : Bool := c.cpd.any (fun (a, d) => a != 15 || d != 15)

def taintOf (t : List (Nat × Nat)) (c : Nat) : Nat := (lookup t c).getD 0

/-- could the last search of connector `c` have run on a graph with edges of its checkpoint vertices
    still disabled by an earlier search? Polyline visibility edges persist between transactions, so
    edges seen disabled after the previous transaction count; the orthogonal graph is rebuilt for every
    transaction, there (and for polyline too) edges seen disabled after this transaction count when the
    crossing stage can have searched the connector a second time within it. -/
def leftover (s : St) (c : ConnRec) : Bool :=
  (!c.orth && taintOf s.taintPrev c.id > 0) || (s.crossStage && taintOf s.taint c.id > 0)

/-- Per transaction and connector with checkpoints: the model graph is built from the edges the
    harness read at the checkpoint vertices (directions recomputed with the model of `directionFrom`
    and compared with the real one), all flags cleared — the state the history theorem
    `history_never_restricted` gives for the entry of every search —, the model of
    `generateCheckpointsPath` is run on it with the connector's masks (for two different search
    behaviours: every leg found / every leg failed), and the resulting flags are compared edge by
    edge with the flags the real router has after the transaction. The probes tie
    `setVisibleDirections` itself; `visall` / `viscb` tie the whole-router count. -/
def checkVisibility (s : St) : St := Id.run do
  let mut s := s
  let mut taint : List (Nat × Nat) := []
  for c in s.conns do
    if c.cps.isEmpty then continue
    let mine := s.cur.cpv.filter (·.1 == c.id)
    if mine.isEmpty then continue
    let key (k : Nat) : VKey := (1000 + c.id, 2 + k, ((c.cps[k]?).getD ⟨0, 0⟩).x, ((c.cps[k]?).getD ⟨0, 0⟩).y)
    let mut g0 : AdaptaVerif.Model.CheckpointLegs.Graph VKey := []
    let mut obs : List Bool := []
    for (_, k, oes) in mine do
      match oes, c.cps[k]? with
      | some es, some cp =>
        for e in es do
          let dAB := AdaptaVerif.Model.CheckpointLegs.directionOf AdaptaVerif.Model.CheckpointLegs.dirEps cp.x cp.y e.pos.x e.pos.y
          let dBA := AdaptaVerif.Model.CheckpointLegs.directionOf AdaptaVerif.Model.CheckpointLegs.dirEps e.pos.x e.pos.y cp.x cp.y
          s := bump s "vis.edges"
          if e.orth then s := bump s "vis.edges.orth"
          if dAB != e.dir then
            s := { s with divs := s!"step {s.stepNo}: connector {c.id} checkpoint {k}: directionFrom of {showP e.pos} seen from {showP cp} is {e.dir}, model {dAB}" :: s.divs }
          g0 := g0 ++ [⟨key k, (e.objId, e.vn, e.pos.x, e.pos.y), dAB, dBA, false⟩]
          obs := obs ++ [e.disabled]
      | _, _ => s := { s with divs := s!"step {s.stepNo}: connector {c.id}: checkpoint vertex {k} not found in Router::vertices" :: s.divs }
    let cps : List (AdaptaVerif.Model.CheckpointLegs.Cp VKey) :=
      (List.range c.cps.length).map (fun k => let m := (c.cpd[k]?).getD (15, 15); ⟨key k, m.1, m.2⟩)
    let srcK : VKey := (1000 + c.id, 1, 0, 0)
    let dstK : VKey := (1000 + c.id, 0, 0, 0)
    let r1 := AdaptaVerif.Model.CheckpointLegs.generateCheckpointsPath (fun _ _ _ => true) srcK dstK cps g0
    let r2 := AdaptaVerif.Model.CheckpointLegs.generateCheckpointsPath (fun _ _ _ => false) srcK dstK cps g0
    s := bump s "vis.conns"
    s := bump s "vis.legs" r1.legs.length
    s := bump s "vis.legs.restricted" (r1.legs.filter (fun l => !AdaptaVerif.Model.CheckpointLegs.allEnabled l.seen)).length
    let m1 := r1.g.map (·.disabled)
    let m2 := r2.g.map (·.disabled)
    let nDis := (obs.filter id).length
    if nDis > 0 then taint := (c.id, nDis) :: taint
    if m1 != obs || m2 != obs then
      let which := (mine.filterMap (fun (_, k, oes) => match oes with
        | some es => if es.any (·.disabled) then some s!"checkpoint {k} (masks {(c.cpd[k]?).getD (15, 15)}): {(es.filter (·.disabled)).length} of {es.length}" else none
        | none => none))
      s := { s with divs := s!"step {s.stepNo}: connector {c.id}: visibility edges left disabled after the transaction at {which}; the model of generateCheckpointsPath restores every vertex it restricts (generateCheckpointsPath_restores): none" :: s.divs }
    -- probes of setVisibleDirections
    for (_, k, mask, flags) in s.cur.probes.filter (·.1 == c.id) do
      s := bump s "vis.probes"
      let gp := AdaptaVerif.Model.CheckpointLegs.setVisibleDirections (key k) mask g0
      let mflags := (gp.filter (fun e => e.a == key k)).map (·.disabled)
      -- edges of this vertex in the order of its cpv line; a second checkpoint vertex of the connector
      -- at the other end has its own record of a shared edge
      if mflags != flags then
        s := { s with divs := s!"step {s.stepNo}: connector {c.id} checkpoint {k}: setVisibleDirections({mask}) gives disabled flags {flags}, model {mflags}" :: s.divs }
      else if flags.any id then s := bump s "vis.probes.restricting"
  match s.cur.visall with
  | some (n, d) =>
    s := bump s "vis.router.edges" n
    if d > 0 then
      s := { s with divs := s!"step {s.stepNo}: {d} of {n} visibility edges of the router are disabled after the transaction (model: none, history_never_restricted)" :: s.divs }
  | none => pure ()
  s := bump s "vis.callbacks" s.cur.viscb.length
  match s.cur.viscb.find? (fun (_, d) => d > 0) with
  | some (ph, d) =>
    s := { s with divs := s!"step {s.stepNo}: {d} visibility edges disabled at a progress callback of phase {ph}, i.e. between two path searches (model: none, history_never_restricted)" :: s.divs }
  | none => pure ()
  return { s with taintPrev := s.taint, taint := taint }

/-- all ways to choose ascending positions in `r` at which the checkpoints (in order) are reached: a
    checkpoint's point can occur several times in `route()` (the orthogonal graph can hold a second
    vertex at the position of a checkpoint vertex, and a later leg can pass the place again), and only
    one occurrence is the end of the leg. Each result: 0 :: positions ++ [last index]. At most 64. -/
def legBoundaries (r : Array P2) (cps : List P2) : List (List Nat) :=
  let rec go (fuel : Nat) (pos : Nat) (cps : List P2) : List (List Nat) :=
    match fuel, cps with
    | _, [] => [[r.size - 1]]
    | 0, _ => []
    | fuel + 1, c :: rest =>
      let occ := (List.range r.size).filter (fun j => j > pos && r[j]! == c)
      (occ.flatMap (fun j => (go fuel j rest).map (fun t => j :: t))).take 64
  (go (cps.length + 1) 0 cps).map (fun t => 0 :: t)

/-- **Tie of the search-time restrictions** (`Props/C11Legs.search_sees_arrival / _departure`): when no
    checkpoint was skipped, `route()` is the concatenation of the legs' paths, all of whose edges the
    search saw enabled (`AStarPath` ignores disabled edges). For a decomposition of the route into legs
    the first and the last edge of every leg are given to the model of `generateCheckpointsPath`
    (directions by the model of `directionFrom`) and must be enabled in the graph the model says that
    leg's search saw. DIVERGE when no decomposition passes. -/
def checkLegDirections (s : St) : St := Id.run do
  let mut s := s
  for c in s.conns do
    if c.cps.isEmpty || !restrictedConn c || s.skipped.contains c.id then continue
    match lookup s.cur.routes c.id with
    | none => pure ()
    | some rl =>
      let r := rl.toArray
      if r.size < 2 then continue
      let n := c.cps.length
      let srcK : VKey := (1000 + c.id, 1, 0, 0)
      let dstK : VKey := (1000 + c.id, 0, 0, 0)
      let cpKey (k : Nat) : VKey := let p := (c.cps[k]?).getD ⟨0, 0⟩; (1000 + c.id, 2 + k, p.x, p.y)
      -- vertex of route point j inside leg number i (0-based) spanning positions lb..le: the leg's two ends are
      -- the vertices of the protocol; a point in between is some other vertex even if it lies at the position
      -- of a checkpoint (second vertex at the same place): the model then leaves its edges enabled
      let vkey (i lb le j : Nat) : VKey :=
        if j == lb then (if i == 0 then srcK else cpKey (i - 1))
        else if j == le then (if i == n then dstK else cpKey i)
        else (0, 0, r[j]!.x, r[j]!.y)
      let mkEdge (i lb le x y : Nat) : AdaptaVerif.Model.CheckpointLegs.Edge VKey :=
        let a := r[x]!
        let b := r[y]!
        ⟨vkey i lb le x, vkey i lb le y, AdaptaVerif.Model.CheckpointLegs.directionOf AdaptaVerif.Model.CheckpointLegs.dirEps a.x a.y b.x b.y,
         AdaptaVerif.Model.CheckpointLegs.directionOf AdaptaVerif.Model.CheckpointLegs.dirEps b.x b.y a.x a.y, false⟩
      let cps : List (AdaptaVerif.Model.CheckpointLegs.Cp VKey) :=
        (List.range n).map (fun k => let m := (c.cpd[k]?).getD (15, 15); ⟨cpKey k, m.1, m.2⟩)
      -- the used edges that the model says were disabled, for one decomposition
      let bad (bs : List Nat) : List String := Id.run do
        -- legs: (bs[i], bs[i+1]); the first edge (b, b+1) and the last edge (e-1, e) of each
        let legsIdx := (List.range (n + 1)).map (fun i => ((bs[i]?).getD 0, (bs[i+1]?).getD 0))
        -- the last leg as a single segment may be the "no valid path" jump to dst: not an edge
        let usable := legsIdx.zipIdx.filter (fun ((b, e), i) => b < e && !(i == n && e == b + 1))
        -- reading A: the points of the leg are its path vertices; reading B (only for a straight leg): the leg
        -- is ONE edge and the points in between were inserted into route() afterwards (crossing detection splits
        -- segments at points shared with other connectors) - same directions, but the edge then joins the two
        -- protocol vertices directly (see departure_mask_overridden_on_shared_edge)
        let straight (b e : Nat) : Bool := (List.range (e - b)).all (fun t => pointOnSegment r[b]! r[e]! r[b + t]!)
        let g0 := usable.flatMap (fun ((b, e), i) =>
          [mkEdge i b e b (b + 1), mkEdge i b e (e - 1) e] ++
          (if e > b + 1 && straight b e then [mkEdge i b e b e, mkEdge i b e b e] else [mkEdge i b e b (b + 1), mkEdge i b e (e - 1) e]))
        let res := AdaptaVerif.Model.CheckpointLegs.generateCheckpointsPath (fun _ _ _ => true) srcK dstK cps g0
        let mut out : List String := []
        let mut pos := 0
        for ((b, e), i) in usable do
          match res.legs[i]? with
          | some lr =>
            let dis (k : Nat) : Bool := match lr.seen[pos + k]? with | some ed => ed.disabled | none => false
            if (dis 0 || dis 1) && (dis 2 || dis 3) then
              for (off, what, x, y) in [(0, "leaves", b, b + 1), (1, "arrives", e - 1, e)] do
                if dis off then out := out ++ [s!"leg {i + 1} {what} by the edge {showP r[x]!} -> {showP r[y]!}"]
          | none => pure ()
          pos := pos + 4
        return out
      let decs := legBoundaries r c.cps
      if decs.isEmpty then continue
      s := bump s "legdir.conns"
      s := bump s "legdir.legs" (n + 1)
      if decs.length > 1 then s := bump s "legdir.ambiguous"
      if !(decs.any (fun bs => (bad bs).isEmpty)) then
        s := { s with divs := s!"step {s.stepNo}: connector {c.id} (masks {c.cpd}): in every decomposition of route() into legs some leg uses an edge that the model of generateCheckpointsPath says is disabled during that leg's search (search_sees_arrival/_departure), e.g. {bad (decs.headD [])}; route() {rl.map showP}" :: s.divs }
  return s

/-! ### the A* search of pin-attached / checkpoint connectors (Model/AStarPins.lean) against the real one -/

def showEnd : EndK → String
  | .pin sh cls => s!"(shape {sh}, class {cls})"
  | .junc j => s!"junction {j}"
  | .free p => s!"point {showP p}"

def toPt (p : P2) : AdaptaVerif.Model.Geometry.Pt := ⟨p.x, p.y⟩
def ofPt (p : AdaptaVerif.Model.Geometry.Pt) : P2 := ⟨p.x, p.y⟩

/-- the model's pin state at the start of `Router::rerouteAndCallbackConnectors`: the live pins with the
    exclusivity the library reports, no users ("every connector frees its pins", router.cpp) -/
def pinState0 (s : St) : State :=
  s.cur.pins.filterMap (fun po => (s.pins.find? (·.id == po.id)).map (fun pr => ⟨po.id, pr.shape, pr.spec.classId, po.excl, []⟩))

/-- the pin a routed end took (`usePinVertex`): a candidate pin of its class at the route's end point -/
def takenPin (s : St) (ms : State) (e : EndK) (p : Option P2) : Option Nat :=
  match e, p with
  | .pin sh cls, some p0 =>
    let here := (freePins ms sh cls).filter (fun q => (s.cur.pins.find? (·.id == q.id)).any (·.pos == p0))
    ((here.filter (fun q => !q.exclusive)) ++ (here.filter (·.exclusive))).head?.map (·.id)
  | _, _ => none

/-- Runs through the events of the transaction: `srouted` advances the model's pin state (the connector takes the
    pins its route ends at), `scross` releases the connectors the crossing stage is about to search again, every
    dumped `ssearch` is given to the model with the end-point list `possiblePinPoints` of the CURRENT model state. -/
def checkSearches (s : St) : St := Id.run do
  let mut s := s
  let mut ms : State := pinState0 s
  let mut inCross := false
  let mut lastHdr : List (Nat × SearchHdr) := []
  let posOf (id : Nat) : Option AdaptaVerif.Model.Geometry.Pt := (s.cur.pins.find? (·.id == id)).map (fun po => toPt po.pos)
  for i in [0:s.sev.size] do
    match s.sev[i]! with
    | .cross =>
      inCross := true
      for j in [i+1:s.sev.size] do
        match s.sev[j]! with
        | .search h _ => ms := step ms (.release h.conn)
        | .routed c _ => ms := step ms (.release c)      -- polyline connectors are re-routed too (no search event)
        | .cross => pure ()
    | .routed c r =>
      match s.conns.find? (·.id == c) with
      | none => pure ()
      | some cr =>
        -- `path.size() > 2` in generatePath: a standard search that failed leaves the 2-vertex dummy line and takes no pin
        let took := match lookup lastHdr c with
          | some h => !cr.cps.isEmpty || (h.found && h.path.length > 2)
          | none => true
        if took then
          let ms1 := step ms (.release c)
          ms := step ms1 (.route c (takenPin s ms1 cr.src r.head?) (takenPin s ms1 cr.dst r.getLast?))
        if !invB ms then
          s := { s with divs := s!"step {s.stepNo}: model pin state: exclusive pin with two users after connector {c} was routed" :: s.divs }
    | .search h og =>
      lastHdr := (h.conn, h) :: lastHdr.filter (·.1 != h.conn)
      s := bump s "search.total"
      if !h.found then s := bump s "search.failed"
      -- the pins `assignPinVisibilityTo` offers the two dummy end vertices, by the model's pin state
      let offered (e : EndK) : Option (List P2) := match e with
        | .pin sh cls => some ((AdaptaVerif.Model.AStarPins.offeredPins ms sh cls).filterMap (fun p => (s.cur.pins.find? (·.id == p.id)).map (·.pos)))
        | _ => none
      -- sorted, without repetitions: two pins of a class at one position are one place (the library then shows one
      -- pin edge at that place: quick seed 5 case 561)
      let sortPts (l : List P2) : List P2 := ((l.toArray.qsort (fun a b => a.x < b.x || (a.x == b.x && a.y < b.y))).toList).eraseDups
      match h.iso, s.conns.find? (·.id == h.conn) with
      | some (isoSrc, isoDst), some cr =>
        -- the search failed before it started; the model agrees unless its pin state offers a pin to the end without edges
        let why : Option String :=
          if inCross then none else     -- crossing stage: the model's pin state is not exact (see below)
          match (if isoSrc then offered cr.src else none), (if isoDst then offered cr.dst else none) with
          | some (p :: ps), _ => some s!"the source end {showEnd cr.src} was given no edge to a pin, the model's pin state offers the pins at {(p :: ps).map showP}"
          | _, some (p :: ps) => some s!"the destination end {showEnd cr.dst} was given no edge to a pin, the model's pin state offers the pins at {(p :: ps).map showP}"
          | _, _ => none
        if let some w := why then
          s := bump s "search.isolated-end.model-offers-pins"
          s := { s with divs := s!"step {s.stepNo}: connector {h.conn}: {w}" :: s.divs }
        s := { s with sres := s.sres ++ [⟨h.conn, false, none, why⟩] }
      | _, _ => pure ()
      match og, s.conns.find? (·.id == h.conn) with
      | some g0, some cr =>
        for (e, v, what) in [(cr.src, h.lineSrc, "source"), (cr.dst, h.lineDst, "destination")] do
          match (if inCross then none else offered e) with
          | some ps =>
            let lib := sortPts (((g0.edges v).filter (fun ed => g0.isPin ed.to)).map (fun ed => ofPt (g0.pt ed.to)))
            s := bump s "search.offered-pins.compared"
            if lib != sortPts ps then
              s := { s with divs := s!"step {s.stepNo}: connector {h.conn}: the dummy {what} vertex has edges to the pins at {lib.map showP}, the model's pin state offers {(sortPts ps).map showP} (assignPinVisibilityTo: class matches and (not exclusive or no user))" :: s.divs }
          | none => pure ()
        -- Crossing stage: the router frees and re-routes the connectors group by group (improveCrossings), and the groups
        -- are not observable, so the model's pin state is not exact there.  The end-point list is then taken from the
        -- pins the library offered the dummy destination vertex in this very graph — by
        -- Props.C11Search.offered_pin_is_end_point / end_point_is_offered_pin the two lists coincide.
        let endPts : List AdaptaVerif.Model.Geometry.Pt := match cr.dst with
          | .pin sh cls =>
            if inCross then ((g0.edges h.lineDst).filter (fun ed => g0.isPin ed.to)).map (fun ed => g0.pt ed.to)
            else AdaptaVerif.Model.AStarPins.possiblePinPoints ms posOf sh cls
          | .junc j => ((s.cur.juncs.find? (·.id == j)).map (fun jo => [toPt jo.pos])).getD []
          | .free _ => []
        let g := { g0 with endPts := endPts }
        s := bump s "search.modelled"
        if !endPts.isEmpty then s := bump s "search.modelled.with-pin-endpoints"
        if (match cr.dst with | .pin sh cls => (freePins ms sh cls).any (fun p => !p.exclusive && !p.users.isEmpty) | _ => false) then
          s := bump s "search.dst-shared-pin-in-use"
        if h.prevOfStart.isSome then s := bump s "search.modelled.later-leg"
        let mr := g.route
        let showR (r : List Nat) : String := toString ((r.map g.pt).map (fun p => showP (ofPt p)))
        s := { s with sres := s.sres ++ [⟨h.conn, h.found, mr.map (fun r => r.map (fun v => ofPt (g.pt v))), none⟩] }
        match h.found, mr with
        | false, none =>
          s := bump s "search.nopath-both"
          -- why the search as coded fails: with the turn pruning switched off the same loop finds a route (the
          -- "optimisation" loses the path, cf. Props.C05AStar.pruning_loses_optimum_*), or the graph itself has none
          s := bump s (if ({ g with prune := false }).route.isSome then "search.nopath-both.route-exists-without-pruning" else "search.nopath-both.no-route-in-graph")
        | false, some r =>
          s := bump s "search.nopath-but-model-routes"
          s := { s with divs := s!"step {s.stepNo}: connector {h.conn}: the library's A* search from {showP (ofPt (g.pt h.src))} to {showP (ofPt (g.pt h.tar))} found no path, the model of the search (clean makepath.cpp; end-point list {endPts.map (fun p => showP (ofPt p))} from the model's pin state) returns {showR r} on the same graph" :: s.divs }
        | true, none =>
          s := { s with divs := s!"step {s.stepNo}: connector {h.conn}: the library's A* search returned {showR h.path}, the model of the search finds no path on the same graph (end-point list {endPts.map (fun p => showP (ofPt p))})" :: s.divs }
        | true, some r =>
          if inCross then s := bump s "search.found-both.crossing-stage"
          else if r == h.path then s := bump s "search.route-equal"
          else
            let b := g.base
            let cm := AdaptaVerif.Model.AStar.fullCost b none r
            let ci := AdaptaVerif.Model.AStar.fullCost b none h.path
            s := bump s "search.route-differs"
            s := { s with divs := s!"step {s.stepNo}: connector {h.conn}: A* search: library route {showR h.path} (cost {ratToString ci}) ≠ model route {showR r} (cost {ratToString cm}); end-point list {endPts.map (fun p => showP (ofPt p))}" :: s.divs }
      | _, _ => pure ()
  -- a connector that is not searched in a transaction (no action queued: processTransaction returns at once) keeps
  -- its route, and the judgement of its last search
  let searchedNow := s.sev.toList.filterMap (fun e => match e with | .search h _ => some h.conn | _ => none)
  return { s with lastFailed := s.lastFailed.filter (fun r => !searchedNow.contains r.conn) ++ s.sres.filter (!·.libFound) }

structure EndObs where
  hyper : Bool         -- the connector has a junction end (member of a hyperedge)
  conn : Nat
  isDst : Bool
  orth : Bool
  route : List P2      -- oriented so that the attached end is the head
  disp : List P2
  deriving Inhabited

def hasJunctionEnd (c : ConnRec) : Bool :=
  (match c.src with | .junc _ => true | _ => false) || (match c.dst with | .junc _ => true | _ => false)

/-- do the junction-attached ends of `rt` sit at their junctions? -/
def junctionEndsOk (s : St) (c : ConnRec) (rt : List P2) : Bool :=
  (match c.src with
    | .junc j => (match s.cur.juncs.find? (·.id == j), rt.head? with | some jo, some p => jo.pos == p || jo.recPos == p | _, _ => false)
    | _ => true) &&
  (match c.dst with
    | .junc j => (match s.cur.juncs.find? (·.id == j), rt.getLast? with | some jo, some p => jo.pos == p || jo.recPos == p | _, _ => false)
    | _ => true)

/-- `displayRoute()` of a connector that is part of a hyperedge (has a junction end) may come back
    from `HyperedgeImprover` with source and target swapped; the property speaks of "an end", so
    the orientation in which the junction ends fit is used (counted in `disp.reversed`). -/
def orientDisp (s : St) (c : ConnRec) (d : List P2) : List P2 × Bool :=
  if hasJunctionEnd c && !junctionEndsOk s c d && junctionEndsOk s c d.reverse then (d.reverse, true) else (d, false)

/-- pin-attached ends of live connectors on live shapes, grouped by (shape, class) -/
def pinEnds (s : St) : List ((Nat × Nat) × List EndObs) := Id.run do
  let mut groups : List ((Nat × Nat) × List EndObs) := []
  for c in s.conns do
    match lookup s.cur.routes c.id, lookup s.cur.disps c.id with
    | some r, some d0 =>
      let d := (orientDisp s c d0).1
      for (e, isDst) in [(c.src, false), (c.dst, true)] do
        match e with
        | .pin sh cls =>
          if (lookup s.cur.boxes sh).isSome then
            let eo : EndObs := ⟨hasJunctionEnd c && s.hyperOn, c.id, isDst, c.orth, if isDst then r.reverse else r, if isDst then d.reverse else d⟩
            groups := match groups.find? (·.1 == (sh, cls)) with
              | some _ => groups.map (fun g => if g.1 == (sh, cls) then (g.1, g.2 ++ [eo]) else g)
              | none => groups ++ [((sh, cls), [eo])]
        | _ => pure ()
    | _, _ => pure ()
  return groups

def groupPins (s : St) (sh cls : Nat) : List PinObs :=
  s.cur.pins.filter (fun po => match s.pins.find? (·.id == po.id) with
    | some pr => pr.shape == sh && pr.spec.classId == cls
    | none => false)

def groupCap (pins : List PinObs) (nEnds : Nat) : Nat :=
  if pins.any (fun p => !p.excl) then nEnds else (pins.filter (·.excl)).length

/-- (shape, class) groups with more attached ends than pin capacity, and the connectors in them:
    for some of these connectors no free pin exists ("provided a free pin exists" fails); such a
    connector has no route at all (libavoid leaves the straight dummy line), so nothing is
    required of it. Order-independent over-approximation of "no free pin was available". -/
def overGroups (s : St) (groups : List ((Nat × Nat) × List EndObs)) : List ((Nat × Nat) × List EndObs) :=
  groups.filter (fun g => g.2.length > groupCap (groupPins s g.1.1 g.1.2) g.2.length)

def overOf (og : List ((Nat × Nat) × List EndObs)) (conn : Nat) : List (Nat × Nat) :=
  (og.filter (fun g => g.2.any (·.conn == conn))).map (·.1)

/-- libavoid's fallback when the search finds no path: the straight line between the two dummy end
    vertices. Recognised for orthogonal connectors as a 2-point route that is not axis-parallel. -/
def isNoPathFallback (orth : Bool) (r : List P2) : Bool :=
  match r with
  | [a, b] => orth && a.x != b.x && a.y != b.y
  | _ => false

/-- with checkpoints the search runs leg by leg; when the last leg (checkpoint → target) finds no
    path libavoid appends the dummy target and clips it again, so route() stops at a checkpoint
    while the target end is attached to a pin / junction -/
def stopsAtCheckpoint (c : ConnRec) (r : List P2) : Bool :=
  match c.dst, r.getLast? with
  | .free _, _ => false
  | _, some q => c.cps.any (· == q)
  | _, none => false

/-- the same for a target that is a free point: the route ends at a checkpoint that is not the target.
    Only used for connectors with direction-restricted checkpoints (class cp-dirs / cp-restricted);
    otherwise this is the plain free-end clause. -/
def stopsAtCheckpointFree (c : ConnRec) (r : List P2) : Bool :=
  match c.dst, r.getLast? with
  | .free p, some q => restrictedConn c && q != p && c.cps.any (· == q)
  | _, _ => false

/-- the same fallback for a polyline connector: a 2-point route one of whose pin-attached ends sits
    at the centre of its shape's bounding box (the dummy end vertex), where no pin of the class is -/
def isPolyNoPathFallback (s : St) (c : ConnRec) (r : List P2) : Bool :=
  match r with
  | [a, b] =>
    !c.orth && [(c.src, a), (c.dst, b)].any (fun (e, p) => match e with
      | .pin sh cls => (match lookup s.cur.boxes sh with
          | some bx => p == ⟨(bx.minX + bx.maxX) / 2, (bx.minY + bx.maxY) / 2⟩ && !(groupPins s sh cls).any (·.pos == p)
          | none => false)
      | _ => false)
  | _ => false

/-- connectors of this step whose orthogonal route() is the no-path fallback although every
    attached pin class has capacity (class no-path: a routing failure, C03/C05 territory) -/
def noPathConns (s : St) (og : List ((Nat × Nat) × List EndObs)) : List Nat :=
  (s.conns.filter (fun c => match lookup s.cur.routes c.id with
    | some r => (isNoPathFallback c.orth r || isPolyNoPathFallback s c r || stopsAtCheckpoint c r || stopsAtCheckpointFree c r) && (overOf og c.id).isEmpty
    | none => false)).map (·.id)

def checkEnds (s : St) : St := Id.run do
  let mut s := s
  let groups0 := pinEnds s
  let og := overGroups s groups0
  let np := noPathConns s og
  for c in np do
    let cr := (s.conns.find? (·.id == c)).getD default
    let judged := s.lastFailed.filter (·.conn == c)
    if judged.isEmpty then s := bump s "nopath.search-not-modelled"
    else if judged.all (·.modelRoute.isNone) then s := bump s "nopath.model-agrees"
    if let some why := judged.findSome? (·.modelOffers) then
      s := { s with fails := s!"[no-path-but-model-offers-pin] step {s.stepNo}: connector {c}: route() is the no-path fallback {((lookup s.cur.routes c).getD []).map showP} although free pins exist: {why} (a pin is offered iff it has the class and is non-exclusive or has no user)" :: s.fails }
    else if let some r := judged.findSome? (·.modelRoute) then
      -- never the known class no-path: the search as coded in the unchanged library finds a route on the very graph
      -- the library searched (end-point list from the model's pin state)
      s := { s with fails := s!"[no-path-but-model-routes] step {s.stepNo}: connector {c}: route() is the no-path fallback {((lookup s.cur.routes c).getD []).map showP} although free pins exist, and the model of libavoid's A* search (clean makepath.cpp, end-point list of the turn pruning computed from the model's pin state: a pin is a candidate iff it is non-exclusive or has no user) finds the route {r.map showP} on the graph the library searched" :: s.fails }
    else if leftover s cr then
      -- not the known class: the search ran on a graph on which an earlier search of this connector had
      -- left edges of its checkpoint vertices disabled
      s := { s with fails := s!"cp-restricted: step {s.stepNo}: connector {c}: route() is the no-path fallback (straight dummy line / stops at a checkpoint) {((lookup s.cur.routes c).getD []).map showP}; visibility edges of its checkpoint vertices were left disabled by an earlier search ({taintOf s.taintPrev c} after the previous transaction, {taintOf s.taint c} after this one)" :: s.fails }
    else if restrictedConn cr then
      s := gated s "cp-dirs" s!"step {s.stepNo}: connector {c} with direction-restricted checkpoints {cr.cpd}: route() stops at a checkpoint / is the no-path fallback {((lookup s.cur.routes c).getD []).map showP}"
    else
      s := gated s "no-path" s!"step {s.stepNo}: connector {c}: route() is the no-path fallback (straight dummy line / stops at a checkpoint) although free pins exist"
  let groups := groups0.map (fun g => (g.1, g.2.filter (fun e => !np.contains e.conn)))
  for ((sh, cls), allEnds) in groups do
    let pins := groupPins s sh cls
    let cap := groupCap pins allEnds.length
    if pins.length > 1 then s := bump s "group.multipin"
    if allEnds.length > cap then
      -- over capacity: the first `cap` routed connectors take the pins
      s := bump s "group.overcapacity"
      if !(allEnds.any (fun e => (overOf og e.conn).any (· != (sh, cls)))) then
        for (which, pick) in [("route()", fun (e : EndObs) => e.route), ("displayRoute()", fun (e : EndObs) => e.disp)] do
          let onPin := (allEnds.filter (fun e => match (pick e).head? with
            | some p0 => pins.any (fun p => p.pos == p0)
            | none => false)).length
          if onPin < cap then
            let msg := s!"step {s.stepNo}: (shape {sh}, class {cls}) has {cap} exclusive pins and {allEnds.length} attached ends but only {onPin} ends sit on pins in {which}"
            -- a member with direction-restricted checkpoints may have failed to route for that reason
            -- (class cp-dirs) and then holds no pin; with leftover disabled edges it is a plain failure
            let restr := allEnds.filter (fun e => restrictedConn ((s.conns.find? (·.id == e.conn)).getD default))
            let tainted := restr.any (fun e => leftover s ((s.conns.find? (·.id == e.conn)).getD default))
            if which == "displayRoute()" && allEnds.any (·.hyper) then s := gated s "hyper-disp" msg
            else if !restr.isEmpty && !tainted then s := gated s "cp-dirs" msg
            else s := { s with fails := msg :: s.fails }
    else
      let ends := allEnds.filter (fun e => (overOf og e.conn).isEmpty)
      -- model state machine for this (shape, class): all pins free at the start of the transaction
      let mut ms : State := pins.map (fun p => ⟨p.id, sh, cls, p.excl, []⟩)
      for (which, pick) in [("route()", fun (e : EndObs) => e.route), ("displayRoute()", fun (e : EndObs) => e.disp)] do
        ms := step ms .freeAll
        for e in ends do
          let r := pick e
          match r.head? with
          | none => s := { s with fails := s!"step {s.stepNo}: connector {e.conn} has an empty {which}" :: s.fails }
          | some p0 =>
            let here := pins.filter (fun p => p.pos == p0)
            if here.isEmpty then
              let msg := s!"step {s.stepNo}: connector {e.conn} {if e.isDst then "dst" else "src"} attached to (shape {sh}, class {cls}) ends at {showP p0} in {which}, not at any of the {pins.length} pin(s) of that class although a free pin exists"
              -- class hyper-disp: HyperedgeImprover rewrote displayRoute() of a hyperedge member
              let routeOk := match e.route.head? with | some q => pins.any (fun p => p.pos == q) | none => false
              if e.hyper && which == "displayRoute()" && routeOk then s := gated s "hyper-disp" msg
              else s := { s with fails := msg :: s.fails }
            else
              s := bump s "end.onpin"
              if here.length > 1 then s := bump s "end.colocated-pins"
              -- exclusivity: assign through the model state machine (non-exclusive pins first)
              let cands := (here.filter (fun p => !p.excl)) ++ (here.filter (fun p => p.excl))
              match cands.find? (fun p => (freePins ms sh cls).any (·.id == p.id)) with
              | some p => ms := step ms (.route e.conn (some p.id) none)
              | none =>
                s := { s with fails := s!"step {s.stepNo}: connector {e.conn} ends at exclusive pin position {showP p0} of (shape {sh}, class {cls}) already used by another connector ({which})" :: s.fails }
              if !invB ms then
                s := { s with divs := s!"step {s.stepNo}: model invariant broken (cannot happen: exclusive_inv)" :: s.divs }
              -- direction of the first / last leg (orthogonal connectors)
              if e.orth then
                s := bump s "end.dircheck"
                if !(here.any (fun p => leavesAllowed r p.dirs)) then
                  let leg := match firstLegEnd r with | some b => showP b | none => "-"
                  let msg := s!"step {s.stepNo}: orthogonal connector {e.conn} {if e.isDst then "enters" else "leaves"} pin at {showP p0} via {leg} in {which}; permitted masks {here.map (·.dirs)}"
                  -- displayRoute()-only failures: class hyper-disp (HyperedgeImprover rewrites the
                  -- displayRoute() of hyperedge members and may drop the short final leg that
                  -- honoured the pin direction), class nudge-dir (nudging shifts the second segment
                  -- past the end point so that the first leg flips)
                  if which == "displayRoute()" && here.any (fun p => leavesAllowed e.route p.dirs) then
                    s := gated s (if e.hyper then "hyper-disp" else "nudge-dir") msg
                  else s := { s with fails := msg :: s.fails }
      if s.moved && !ends.isEmpty then s := { s with nontrivial := true }
  return s

def checkOthers (s : St) : St := Id.run do
  let mut s := s
  let og := overGroups s (pinEnds s)
  for c in s.conns do
    match lookup s.cur.routes c.id, lookup s.cur.disps c.id with
    | some r, some d0 =>
      if !(overOf og c.id).isEmpty then
        s := bump s "conn.no-free-pin"
        continue
      if (noPathConns s og).contains c.id then continue
      let (d, rev) := orientDisp s c d0
      if rev then s := bump s "disp.reversed"
      for (which, rt) in [("route()", r), ("displayRoute()", d)] do
        -- junction ends: route() ends at JunctionRef::position(); displayRoute() of a junction
        -- that is not fixed may end at recommendedPosition() (documented in junction.h: hyperedge
        -- improvement moves free junctions and reports the new place there)
        for (e, isDst) in [(c.src, false), (c.dst, true)] do
          match e with
          | .junc j =>
            match s.cur.juncs.find? (·.id == j), (if isDst then rt.getLast? else rt.head?) with
            | some jo, some p =>
              s := bump s "end.junction"
              let ok := jo.pos == p || (which == "displayRoute()" && !jo.fixed && jo.recPos == p)
              if jo.pos != p && ok then s := bump s "end.junction.recommended"
              if !ok then
                s := { s with fails := s!"step {s.stepNo}: connector {c.id} {if isDst then "dst" else "src"} attached to junction {j} (fixed={jo.fixed}) ends at {showP p} in {which}, junction position() is {showP jo.pos}, recommendedPosition() {showP jo.recPos}" :: s.fails }
            | _, _ => s := { s with fails := s!"step {s.stepNo}: connector {c.id}: no {which} / junction position" :: s.fails }
          | _ => pure ()
        -- free-point ends: the route ends exactly at the point the user gave
        for (e, isDst) in [(c.src, false), (c.dst, true)] do
          match e, (if isDst then rt.getLast? else rt.head?) with
          | .free q, some p =>
            s := bump s "end.free"
            if q != p then
              let msg := s!"step {s.stepNo}: connector {c.id} {if isDst then "dst" else "src"} is the free point {showP q} but {which} ends at {showP p}"
              if which == "displayRoute()" && hasJunctionEnd c && s.hyperOn && (if isDst then r.getLast? else r.head?) == some q then
                s := gated s "hyper-disp" msg
              else s := { s with fails := msg :: s.fails }
          | _, _ => pure ()
        -- checkpoints
        if !c.cps.isEmpty then
          s := bump s "checkpoints.checked" c.cps.length
          if !checkpointsInOrder rt c.cps then
            -- class cp-disp: route() visits the checkpoints but displayRoute() lost one: a
            -- there-and-back spur is cut by Polygon::simplify() (vecDir == 0 also at a 180 degree
            -- turn), or nudging collapsed the detour that led to the checkpoint
            if which == "displayRoute()" && checkpointsInOrder r c.cps then
              let sub := if !checkpointsInOrder (simplify r) c.cps then "cut by simplify()" else "simplify(route()) still visits them: lost in nudging / post-processing"
              s := gated s "cp-disp" s!"step {s.stepNo}: connector {c.id}: checkpoints {c.cps.map showP} visited by route() but not by displayRoute() {rt.map showP} ({sub})"
            else
              let msg := s!"step {s.stepNo}: connector {c.id}: checkpoints {c.cps.map showP} not visited in order by {which} {rt.map showP}"
              if leftover s c then
                s := { s with fails := s!"cp-restricted: {msg}; visibility edges of its checkpoint vertices were left disabled by an earlier search ({taintOf s.taintPrev c.id} after the previous transaction, {taintOf s.taint c.id} after this one)" :: s.fails }
              else if restrictedConn c then
                -- class cp-dirs: the leg-by-leg search honours a checkpoint's arrival / departure masks only
                -- greedily (a leg does not know the departure mask of the checkpoint it goes to), so a
                -- checkpoint with restricted masks can be reached the wrong way round and the next leg fails
                s := gated s "cp-dirs" s!"{msg} (masks {c.cpd})"
              else
                s := { s with fails := msg :: s.fails }
    | _, _ => pure ()
  return s

def sameEnd : EndK → EndK → Bool
  | .pin a b, .pin c d => a == c && b == d
  | .junc a, .junc b => a == b
  | .free p, .free q => p == q
  | _, _ => false

/-- `ConnRef::endpointConnEnds()` must name the attachment the user asked for last (the ends given
    at construction or by the latest setSourceEndpoint / setDestEndpoint), also when the object the
    end was attached to before moved in the same transaction. Class retarget-jmove: the end was
    detached from a JUNCTION that is moved in the same transaction (JunctionRef::moveAttachedConns
    re-queues the old ConnEnd without the connPinMoveUpdate flag, so the user's change is lost). -/
def checkEndsNamed (s : St) : St := Id.run do
  let mut s := s
  for (id, o1, o2) in s.cur.ends do
    match s.conns.find? (·.id == id) with
    | none => pure ()
    | some c =>
      for (decl, obs, isDst) in [(c.src, o1, false), (c.dst, o2, true)] do
        let deadShape := match decl with | .pin sh _ => (lookup s.cur.boxes sh).isNone | _ => false
        if deadShape then continue
        s := bump s "ends.named"
        if !sameEnd decl obs then
          let msg := s!"step {s.stepNo}: connector {id} {if isDst then "dst" else "src"}: endpointConnEnds() names {showEnd obs}, the user attached it to {showEnd decl}"
          let fromMovedJunction := s.retargets.any (fun (rid, rdst, old) => rid == id && rdst == isDst &&
            (match old with | .junc j => s.jmoves.any (·.1 == j) | _ => false))
          if fromMovedJunction then
            s := gated s "retarget-jmove" msg
            -- continue with the library's view of this end so that later steps stay consistent
            s := { s with conns := s.conns.map (fun c => if c.id == id then (if isDst then { c with dst := obs } else { c with src := obs }) else c) }
          else s := { s with fails := msg :: s.fails }
  if !s.retargets.isEmpty then s := bump s "op.retarget.steps"
  return { s with retargets := [] }

/-- tie (not a property clause): after `moveJunction(j, dx, dy)` + processTransaction,
    `JunctionRef::position()` is the old position plus the requested shift -/
def checkJunctionMoves (s : St) : St := Id.run do
  let mut s := s
  for jo in s.cur.juncs do
    match s.prev.juncs.find? (·.id == jo.id) with
    | some pj =>
      let delta := (s.jmoves.filter (·.1 == jo.id)).foldl (fun (acc : P2) m => acc.translate m.2) ⟨0, 0⟩
      if pj.pos.translate delta != jo.pos then
        s := { s with divs := s!"step {s.stepNo}: junction {jo.id} position() = {showP jo.pos}, expected {showP (pj.pos.translate delta)} after the requested moves" :: s.divs }
    | none => pure ()
  return { s with jmoves := [] }

def endStep (s : St) : St :=
  let s := checkEndsNamed s
  let s := checkJunctionMoves s
  let s := checkPins s
  let s := checkVisibility s
  -- which routes may stem from a search that skipped a checkpoint: a diagnostic in this transaction sets
  -- the mark, a changed route() without a diagnostic clears it
  let s := match s.cur.skips with
    | some sk =>
      let cleared := s.skipped.filter (fun c => lookup s.cur.routes c == lookup s.prev.routes c)
      { s with skipped := sk ++ cleared.filter (fun c => !sk.contains c) }
    | none => { s with skipped := s.conns.map (·.id) }
  let s := checkLegDirections s
  let s := checkSearches s
  let s := checkEnds s
  let s := checkOthers s
  { s with prev := s.cur, cur := {}, stats := bumpStats s.stats "steps" 1 }

def feed (s : St) (l : Array String) : St :=
  match l[0]! with
  | "cfg" => { s with hyperOn := l[5]! == "1" }
  | "pin" =>
    let spec : PinSpec := ⟨nat! l[3]!, rat! l[4]!, rat! l[5]!, l[6]! == "1", rat! l[7]!, nat! l[8]!⟩
    { s with pins := s.pins ++ [⟨nat! l[1]!, nat! l[2]!, spec, int! l[10]!⟩] }
  | "conn" =>
    let (e1, i) := parseEnd l 3
    let (e2, _) := parseEnd l i
    { s with conns := s.conns ++ [⟨nat! l[1]!, l[2]! == "1", e1, e2, [], []⟩] }
  | "cps" =>
    let id := nat! l[1]!
    let ps := ptsFrom l 3 (nat! l[2]!)
    { s with conns := s.conns.map (fun c => if c.id == id then { c with cps := ps } else c) }
  | "cpdirs" =>
    let id := nat! l[1]!
    let ds := (List.range (nat! l[2]!)).map (fun i => (nat! l[3 + 2 * i]!, nat! l[4 + 2 * i]!))
    let s := ds.foldl (fun s (a, d) => bump s ("cpdirs." ++ (if a == 15 then "A" else "r") ++ (if d == 15 then "A" else "r"))) s
    { s with conns := s.conns.map (fun c => if c.id == id then { c with cpd := ds } else c) }
  | "pens" =>
    let s := { s with segPen := rat! l[1]! }
    if rat! l[2]! > 0 || rat! l[3]! > 0 then { (bump s "cfg.crossing-stage") with crossStage := true } else s
  | "sbegin" => { s with sev := #[], sres := [] }
  | "ssearch" =>
    let plen := nat! l[9]!
    let pv := int! l[5]!
    let h : SearchHdr := ⟨nat! l[1]!, nat! l[2]!, nat! l[3]!, nat! l[4]!, if pv < 0 then none else some pv.toNat, nat! l[6]!, nat! l[7]!,
      l[8]! == "1", (List.range plen).map (fun i => nat! l[10 + i]!), none⟩
    { s with sev := s.sev.push (.search h none) }
  | "sisolated" =>
    -- a failed search from a source without enabled edges / to a target without edges: the model's loop ends at once
    let h : SearchHdr := ⟨nat! l[1]!, 0, 0, 0, none, 0, 0, false, [], some (nat! l[2]! == 0 && l.getD 4 "0" == "1", nat! l[3]! == 0 && l.getD 5 "0" == "1")⟩
    if nat! l[2]! == 0 || nat! l[3]! == 0 then { (bump s "search.isolated-end") with sev := s.sev.push (.search h none) } else s
  | "sgx" => { s with sgx := (l.extract 1 l.size).map rat! }
  | "sgy" => { s with sgy := (l.extract 1 l.size).map rat! }
  | "sgf" => { s with sgf := (l.extract 1 l.size).map nat! }
  | "sgp" => { s with sgp := (l.extract 1 l.size).map nat! }
  | "sga" =>
    match s.sev.back? with
    | some (.search h none) =>
      let n := s.sgx.size
      let adj : Array (List AdaptaVerif.Model.AStarPins.PEdge) := Id.run do
        let mut out : Array (List AdaptaVerif.Model.AStarPins.PEdge) := Array.mkEmpty n
        let mut i := 1
        for _ in [0:n] do
          let deg := nat! (l.getD i "0")
          i := i + 1
          let mut es : Array AdaptaVerif.Model.AStarPins.PEdge := Array.mkEmpty deg
          for _ in [0:deg] do
            es := es.push ⟨nat! (l.getD i "0"), rat! (l.getD (i + 1) "0"), l.getD (i + 2) "0" == "1", l.getD (i + 3) "0" == "1"⟩
            i := i + 4
          out := out.push es.toList
        return out
      let g : AdaptaVerif.Model.AStarPins.PGraph :=
        { pts := (Array.range n).map (fun i => ⟨s.sgx[i]!, s.sgy.getD i 0⟩), adj := adj, vflags := s.sgf, props := s.sgp,
          src := h.src, tar := h.tar, prevOfStart := h.prevOfStart, lineSrc := h.lineSrc, lineDst := h.lineDst, segPen := s.segPen }
      { s with sev := s.sev.pop.push (.search h (some g)), sgx := #[], sgy := #[], sgf := #[], sgp := #[] }
    | _ => s
  | "srouted" => { s with sev := s.sev.push (.routed (nat! l[1]!) (ptsFrom l 3 (nat! l[2]!))) }
  | "scross" => { s with sev := s.sev.push .cross }
  | "cpv" =>
    let n := int! l[3]!
    let es : Option (List CpEdge) := if n < 0 then none else
      some ((List.range n.toNat).map (fun i => let b := 4 + 7 * i
        ⟨l[b]! == "1", nat! l[b+1]!, nat! l[b+2]!, pt! l (b+3), nat! l[b+5]!, l[b+6]! == "1"⟩))
    { s with cur := { s.cur with cpv := s.cur.cpv ++ [(nat! l[1]!, nat! l[2]!, es)] } }
  | "probe" =>
    let n := nat! l[4]!
    { s with cur := { s.cur with probes := s.cur.probes ++ [(nat! l[1]!, nat! l[2]!, nat! l[3]!, (List.range n).map (fun i => l[5 + i]! == "1"))] } }
  | "skips" => { s with cur := { s.cur with skips := some ((List.range (nat! l[1]!)).map (fun i => nat! l[2 + i]!)) } }
  | "visall" => { s with cur := { s.cur with visall := some (nat! l[1]!, nat! l[2]!) } }
  | "viscb" => { s with cur := { s.cur with viscb := (List.range (nat! l[1]!)).map (fun i => (nat! l[2 + 2 * i]!, nat! l[3 + 2 * i]!)) } }
  | "op" =>
    let s := bump s ("op." ++ l[1]!)
    match l[1]! with
    | "move" | "resize" => { s with moved := true }
    | "jmove" => { s with jmoves := s.jmoves ++ [(nat! l[2]!, pt! l 3)] }
    | "retarget" =>
      let id := nat! l[2]!
      let isDst := l[3]! == "1"
      let (e, _) := parseEnd l 4
      match s.conns.find? (·.id == id) with
      | some c =>
        { s with retargets := s.retargets ++ [(id, isDst, if isDst then c.dst else c.src)],
                 conns := s.conns.map (fun c => if c.id == id then (if isDst then { c with dst := e } else { c with src := e }) else c) }
      | none => s
    | "setexcl" =>
      let id := nat! l[2]!
      { s with pins := s.pins.map (fun p => if p.id == id then { p with exclSet := int! l[3]! } else p) }
    | _ => s
  | "step" => { s with stepNo := nat! l[1]! }
  | "box" => { s with cur := { s.cur with boxes := s.cur.boxes ++ [(nat! l[1]!, ⟨rat! l[2]!, rat! l[3]!, rat! l[4]!, rat! l[5]!⟩)] } }
  | "pinpos" => { s with cur := { s.cur with pins := s.cur.pins ++ [⟨nat! l[1]!, pt! l 2, nat! l[4]!, l[5]! == "1"⟩] } }
  | "jpos" => { s with cur := { s.cur with juncs := s.cur.juncs ++ [⟨nat! l[1]!, pt! l 2, pt! l 4, l[6]! == "1"⟩] } }
  | "ends" =>
    let (e1, i) := parseEnd l 2
    let (e2, _) := parseEnd l i
    { s with cur := { s.cur with ends := s.cur.ends ++ [(nat! l[1]!, e1, e2)] } }
  | "route" => { s with cur := { s.cur with routes := s.cur.routes ++ [(nat! l[1]!, ptsFrom l 3 (nat! l[2]!))] } }
  | "disp" => { s with cur := { s.cur with disps := s.cur.disps ++ [(nat! l[1]!, ptsFrom l 3 (nat! l[2]!))] } }
  | "endstep" => endStep s
  | "assert" =>
    -- a COLA_ASSERT of the library failed during this case (thrown as vpsc::CriticalFailure)
    -- (C15 territory, not a clause of C11: class lib-assert. Seen on the unchanged tree:
    --  `vs[it->second]->id != freeSegmentID` orthogonal.cpp:3041 (nudging, debug-only check) and
    --  `orthogonalDirectionsCount(thisDirs) > 0` makepath.cpp:938.)
    gated (bump s (if (l[1]!.splitOn "freeSegmentID").length > 1 then "assert.freeSegmentID"
                   else if (l[1]!.splitOn "orthogonalDirectionsCount").length > 1 then "assert.orthogonalDirectionsCount"
                   else "assert.other"))
      "lib-assert" s!"step {s.stepNo + 1}: library assertion failed: {l[1]!}"
  | _ => s

def numericKeys : List String := ["box", "pinpos", "jpos", "route", "disp", "pin", "shape", "junction", "cps", "cpv"]

def checkCase (strict : List String) (c : Case) : CaseResult := Id.run do
  -- non-finite coordinates from the implementation are a failure of every clause
  for l in c.lines do
    if numericKeys.contains l[0]! && l.any (fun t => t == "nan" || t == "-nan" || t == "inf" || t == "-inf") then
      return { verdict := .specfail s!"non-finite coordinate in: {" ".intercalate l.toList}" }
  let s := c.lines.foldl feed ({ strict := strict } : St)
  let stats := s.stats ++ [("pins", s.pins.length), ("connectors", s.conns.length)]
  -- failures outside every finding class rank above the gated "[class] …" ones, so that a known
  -- defect met earlier in the case cannot mask them
  let fs := s.fails.reverse
  let gatedMsg (m : String) : Bool := m.startsWith "[" && !m.startsWith "[no-path-but-model-"
  match (fs.filter (fun m => !gatedMsg m)) ++ (fs.filter gatedMsg), s.divs.reverse with
  | f :: _, _ => return { verdict := .specfail f, nontrivial := s.nontrivial, stats := stats }
  | [], d :: _ => return { verdict := .diverge d, nontrivial := s.nontrivial, stats := stats }
  | [], [] => return { verdict := .ok, nontrivial := s.nontrivial, stats := stats }

def run (args : List String) : IO UInt32 := runCases (checkCase args)

end Driver.C11
