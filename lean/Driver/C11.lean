import Driver.Proto
namespace Driver.C11

def run (_args : List String) : IO UInt32 := do
  IO.eprintln "driver mode c11: not implemented yet"
  return 2

end Driver.C11
