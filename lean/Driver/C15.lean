import Driver.Proto
import AdaptaVerif.Model.Lifecycle
/-!
Driver mode c15.

`router-hist` / `kf-*` cases: every `op` line of the harness is translated to a `Model.Lifecycle.Op`,
checked against the model's decidable `Legal` (the generator must only emit strictly legal histories —
the hypothesis of the theorems in Props/C15.lean) and applied with `step`.  After every operation the
harness prints the router's public live sets; they are compared with the model:

* `os` / `oj` / `oc`  ids in `Router::m_obstacles` (shapes / junctions) and `Router::connRefs`
                      = the model's *active* shapes / junctions / connectors            (DIVERGE)
* `oe c a b`          anchors of connector c's ends = the model's attached ends          (DIVERGE)
* `oa o n`            `Obstacle::attachedConnectors().size()` = ends attached in the model (DIVERGE)
* `ock c n`           `ConnRef::routingCheckpoints().size()` = checkpoint vertices connector c owns in the model (DIVERGE)
* `ocl`               ids in `Router::clusterRefs` = the model's linked clusters (DIVERGE; an id twice = SPECFAIL)

Composite API calls are expanded into the model operations the C++ performs, using the model state for
what the call copies from the object: `transformPins s` (`ShapeRef::transformConnectionPinPositions`) =
`touchPin p` for every pin of s; `splitAtSegment c j pin c2` (`ConnRef::splitAtSegment`) = new junction j,
new connector c2 from j to a copy of c's destination end, c's destination := j; `mergeJunction j c1 d c2`
(`JunctionRef::removeJunctionAndMergeConnectors`) = c1's end d := copy of c2's other end, delete c2,
deleteJunction j.  `api router|conn|obst …` lines are calls without lifetime effect (identity in the model,
legality still checked).
* the observed state itself must satisfy the spec: no id twice in a list, every anchor reported by
  `oe` is a member of `m_obstacles` (a connector end naming an obstacle the router no longer holds is
  a dangling reference)                                                                  (SPECFAIL)
* a completed history (the harness aborts on a LeakSanitizer report, so completion means "no leak")
  for which the model predicts unreleased objects, or a model fault on a strictly legal history,
  is a DIVERGE.

Other tags (vpsc-hist, cola-hist, topology-hist, dialect-hist): the runtime half only; the driver
checks the harness' own ownership book-keeping (`own <what> <allocated> <freed>` must balance) and
collects statistics.  CRASH verdicts (sanitizer report, assertion, leak) come from check.py.
-/
namespace Driver.C15
open Driver AdaptaVerif.Model.Lifecycle

/-- parse a ConnEnd description starting at token i: `P x y` or `A obj cls`; returns (spec, next index) -/
def parseEnd (ts : Array String) (i : Nat) : Option (EndSpec × Nat) :=
  match ts[i]? with
  | some "P" => some (none, i + 3)
  | some "A" => some (some ⟨nat! (ts[i+1]?.getD "0"), nat! (ts[i+2]?.getD "0")⟩, i + 3)
  | _ => none

/-- the user-level copy of a connector end (`ConnEnd` copy constructor) -/
def specOfEnd (e : End) : EndSpec := e.map (fun x => ⟨x.anchor, x.cls⟩)

/-- the obstacle ids carried by the boundary points of a cluster polygon: the tokens after `:` are quadruples
    `x y id vn`; id 0 = a plain point -/
def refsOf (ts : Array String) : List Id :=
  match ts.toList.dropWhile (· != ":") with
  | [] => []
  | _ :: rest =>
    let rec go : List String → List Id → List Id
      | _ :: _ :: i :: _ :: tl, acc =>
        let r := nat! i
        go tl (if r == 0 || acc.contains r then acc else acc ++ [r])
      | _, acc => acc
    go rest []

/-- `op` line (without the leading keyword) ↦ the model operations the call performs, in order (the model
    state is consulted for composite calls); `[]` = no lifetime effect -/
def parseOp (s : St) (ts : Array String) : Except String (List Op) :=
  let n (i : Nat) : Nat := nat! (ts[i]?.getD "0")
  match ts[0]? with
  | some "newShape" => .ok [.newShape (n 1)]
  | some "newJunction" => .ok [.newJunction (n 1) (n 2)]
  | some "newPin" => .ok [.newPin (n 1) (n 2) (n 3)]
  | some "newConn" =>
    match parseEnd ts 3 with
    | some (a, j) =>
      match parseEnd ts j with
      | some (b, _) => .ok [.newConn (n 1) a b (n 2 == 1)]
      | none => .error "bad newConn dst"
    | none => .error "bad newConn src"
  | some "setEndpoint" =>
    match parseEnd ts 3 with
    | some (e, _) => .ok [.setEndpoint (n 1) (n 2 == 1) e]
    | none => .error "bad setEndpoint"
  | some "setRoutingCheckpoints" =>
    .ok [.setRoutingCheckpoints (n 1) ((List.range (n 2)).map (fun i => n (3 + i)))]
  | some "deleteShape" => .ok [.deleteShape (n 1)]
  | some "deleteJunction" => .ok [.deleteJunction (n 1)]
  | some "deleteConn" => .ok [.deleteConn (n 1)]
  | some "deletePin" => .ok [.deletePin (n 1)]
  | some "moveShape" => .ok [.moveShape (n 1)]
  | some "moveJunction" => .ok [.moveJunction (n 1)]
  | some "processTransaction" => .ok [.processTransaction]
  | some "setTransactionUse" => .ok [.setTransactionUse (n 1 == 1)]
  | some "deleteRouter" => .ok [.deleteRouter]
  | some "registerHyperedge" => .ok []
  | some "newCluster" => .ok [.newCluster (n 1) (refsOf ts)]
  | some "deleteCluster" => .ok [.deleteCluster (n 1)]
  | some "setClusterPoly" => .ok [.setClusterPoly (n 1) (refsOf ts)]
  | some "touchConn" => .ok [.touchConn (n 1)]
  | some "api" =>
    match ts[1]? with
    | some "router" => .ok [.apiRouter]
    | some "conn" => .ok [.apiConn (n 2)]
    | some "obst" => .ok [.apiObst (n 2)]
    | _ => .error "bad api line"
  | some "transformPins" =>
    -- ShapeRef::transformConnectionPinPositions: Router::modifyConnectionPin for every pin of the shape
    .ok (.apiObst (n 1) :: (s.pinsOf (n 1)).map (fun p => Op.touchPin p.id))
  | some "splitAtSegment" =>
    -- ConnRef::splitAtSegment: `op splitAtSegment c j pin c2`
    match s.conns.find? (·.id == n 1) with
    | none => .error "splitAtSegment: connector unknown to the model"
    | some c =>
      .ok [.newJunction (n 2) (n 3), .newConn (n 4) (some ⟨n 2, centreCls⟩) (specOfEnd c.dst) true,
           .setEndpoint (n 1) true (some ⟨n 2, centreCls⟩)]
  | some "mergeJunction" =>
    -- JunctionRef::removeJunctionAndMergeConnectors: `op mergeJunction j c1 d c2` (c1 kept, its end d sits on j)
    match s.conns.find? (·.id == n 4) with
    | none => .error "mergeJunction: connector unknown to the model"
    | some c2 =>
      let other := if endOn c2.src (n 1) then c2.dst else c2.src
      .ok [.setEndpoint (n 2) (n 3 == 1) (specOfEnd other), .deleteConn (n 4), .deleteJunction (n 1)]
  | some x => .error s!"unknown op {x}"
  | none => .error "empty op"

def parseHyper (ts : Array String) : Except String Op :=
  let n (i : Nat) : Nat := nat! (ts[i]?.getD "0")
  match ts[0]? with
  | some "dc" => .ok (.rDelConn (n 1))
  | some "dj" => .ok (.rDelJunction (n 1))
  | some "nj" => .ok (.rNewJunction (n 1) (n 2))
  | some "nc" => .ok (.rNewConn (n 1))
  | _ => .error "bad hyper line"

def sortNat (l : List Nat) : List Nat := (l.toArray.qsort (· < ·)).toList

def hasDup : List Nat → Bool
  | [] => false
  | x :: xs => xs.contains x || hasDup xs

def anchorOf (e : End) : Int := match e with | some x => (x.anchor : Int) | none => -1
def endsOn (s : St) (o : Id) : Nat :=
  s.conns.foldl (fun k c => k + (if endOn c.src o then 1 else 0) + (if endOn c.dst o then 1 else 0)) 0

def opName : Op → String
  | .newShape _ => "newShape" | .newJunction .. => "newJunction" | .newConn .. => "newConn"
  | .newPin .. => "newPin" | .deleteShape _ => "deleteShape" | .deleteJunction _ => "deleteJunction"
  | .deleteConn _ => "deleteConn" | .deletePin _ => "deletePin" | .moveShape _ => "moveShape"
  | .moveJunction _ => "moveJunction" | .setEndpoint .. => "setEndpoint"
  | .setRoutingCheckpoints .. => "setRoutingCheckpoints"
  | .processTransaction => "processTransaction" | .setTransactionUse _ => "setTransactionUse"
  | .deleteRouter => "deleteRouter" | .rDelConn _ => "rDelConn" | .rDelJunction _ => "rDelJunction"
  | .rNewJunction .. => "rNewJunction" | .rNewConn _ => "rNewConn"
  | .newCluster .. => "newCluster" | .deleteCluster _ => "deleteCluster" | .setClusterPoly .. => "setClusterPoly"
  | .touchConn _ => "touchConn" | .touchPin _ => "touchPin" | .apiRouter => "apiRouter"
  | .apiConn _ => "apiConn" | .apiObst _ => "apiObst"

structure Acc where
  s : St := init
  err : Option Verdict := none
  nops : Nat := 0
  illegal : Nat := 0              -- ops outside `Legal` (allowed for kf-* tags only)
  routerMade : List Nat := []     -- connectors created by the router (ends unknown to the model)
  obsS : List Nat := []           -- last observed m_obstacles ids (shapes ++ junctions) of the current block
  stats : List (String × Nat) := []
  deletes : Nat := 0
  queuedAtDestroy : Bool := false
  offOps : Nat := 0

def Acc.fail (a : Acc) (v : Verdict) : Acc := if a.err.isSome then a else { a with err := some v }

def natsOf (ts : Array String) : List Nat := (ts.toList.map nat!)

def applyOp (kf : Bool) (a : Acc) (op : Op) (txt : String) : Acc :=
  let legal := Legal a.s op
  let a := if legal then a else
    if kf then { a with illegal := a.illegal + 1 }
    else a.fail (.diverge s!"generator emitted an operation that is not strictly legal in the model (op #{a.nops + 1}: {txt})")
  let s' := step a.s op
  let a := { a with s := s', nops := a.nops + 1, stats := bumpStats a.stats ("op." ++ opName op) 1 }
  let a := if !a.s.consolidate then { a with offOps := a.offOps + 1, stats := bumpStats a.stats ("off." ++ opName op) 1 } else a
  let a := match op with
    | .deleteShape _ | .deleteJunction _ | .deleteConn _ | .deletePin _ | .deleteCluster _ =>
      { a with deletes := a.deletes + 1 }
    | .rNewConn c => { a with routerMade := c :: a.routerMade }
    | _ => a
  let a := match op with
    | .newCluster _ (_ :: _) | .setClusterPoly _ (_ :: _) => { a with stats := bumpStats a.stats "cluster_boundaries_referencing_shapes" 1 }
    | _ => a
  if !kf && (s'.faults != [] || s'.refFaults != []) && legal then
    a.fail (.diverge s!"model reports a fault on a strictly legal history after op #{a.nops}: {txt}")
  else a

def checkCaseRouter (c : Case) : CaseResult :=
  let kf := c.tag.startsWith "kf-"
  let a := c.lines.foldl (init := ({} : Acc)) fun a l =>
    if a.err.isSome then a else
    let key := l[0]!
    let rest := l.extract 1 l.size
    if key == "op" then
      match parseOp a.s rest with
      | .error e => a.fail (.diverge s!"unparsable op line: {e}")
      | .ok [] => { a with nops := a.nops + 1 }
      | .ok ops =>
        let a := { a with stats := bumpStats a.stats ("call." ++ (if rest[0]! == "api" then "api." ++ (if rest[1]? == some "router" then rest[2]?.getD "?" else rest[3]?.getD "?") else rest[0]!)) 1 }
        let a := if ops == [.deleteRouter] then
            { a with queuedAtDestroy := !a.s.actions.isEmpty,
                     stats := bumpStats a.stats "clusters_alive_at_destroy" (a.s.clusters.length) } else a
        -- a composite call counts as one harness operation
        let n0 := a.nops
        let a := ops.foldl (fun a op => applyOp kf a op (" ".intercalate rest.toList)) a
        { a with nops := n0 + 1 }
    else if key == "hyper" then
      match parseHyper rest with
      | .error e => a.fail (.diverge e)
      | .ok op => applyOp kf a op ("hyper " ++ " ".intercalate rest.toList)
    else if kf && (a.s.faults != [] || a.s.refFaults != []) then a     -- after the model's fault point nothing is compared
    else if key == "os" || key == "oj" then
      let impl := natsOf rest
      let model := sortNat ((a.s.obst.filter (fun o => o.active && (o.junction == (key == "oj")))).map (·.id))
      let a := if key == "os" then { a with obsS := impl } else { a with obsS := a.obsS ++ impl }
      if hasDup impl then a.fail (.specfail s!"after op #{a.nops}: id listed twice in Router::m_obstacles: {impl}")
      else if impl != model then
        a.fail (.diverge s!"after op #{a.nops}: m_obstacles {key} = {impl}, model active set = {model}")
      else a
    else if key == "oc" then
      let impl := natsOf rest
      let model := sortNat ((a.s.conns.filter (·.active)).map (·.id))
      if hasDup impl then a.fail (.specfail s!"after op #{a.nops}: id listed twice in Router::connRefs: {impl}")
      else if impl != model then
        a.fail (.diverge s!"after op #{a.nops}: connRefs = {impl}, model active connectors = {model}")
      else a
    else if key == "oe" then
      let cid := nat! (rest[0]?.getD "0")
      let ia := int! (rest[1]?.getD "-1")
      let ib := int! (rest[2]?.getD "-1")
      -- spec on the implementation's own state: an anchored end names a member of m_obstacles
      let dangling (x : Int) : Bool := x ≥ 0 && !(a.obsS.contains x.toNat)
      if dangling ia || dangling ib then
        a.fail (.specfail s!"after op #{a.nops}: connector {cid} has an end anchored at an obstacle that is not in m_obstacles ({ia}, {ib})")
      else if a.routerMade.contains cid || ia == -2 then a
      else match a.s.conns.find? (·.id == cid) with
        | none => a.fail (.diverge s!"after op #{a.nops}: connector {cid} unknown to the model")
        | some mc =>
          if anchorOf mc.src != ia || anchorOf mc.dst != ib then
            a.fail (.diverge s!"after op #{a.nops}: connector {cid} anchors ({ia},{ib}), model ({anchorOf mc.src},{anchorOf mc.dst})")
          else a
    else if key == "ocl" then
      let impl := natsOf rest
      let model := sortNat ((a.s.clusters.filter (·.active)).map (·.id))
      if hasDup impl then a.fail (.specfail s!"after op #{a.nops}: id listed twice in Router::clusterRefs: {impl}")
      else if impl != model then
        a.fail (.diverge s!"after op #{a.nops}: clusterRefs = {impl}, model linked clusters = {model}")
      else a
    else if key == "ock" then
      let cid := nat! (rest[0]?.getD "0")
      let n := nat! (rest[1]?.getD "0")
      let m := (a.s.cpsOf cid).length
      if m != n then
        a.fail (.diverge s!"after op #{a.nops}: connector {cid} reports {n} routing checkpoints, model owns {m} checkpoint vertices")
      else a
    else if key == "oa" then
      if !a.routerMade.isEmpty then a else
      let o := nat! (rest[0]?.getD "0")
      let n := nat! (rest[1]?.getD "0")
      if endsOn a.s o != n then
        a.fail (.diverge s!"after op #{a.nops}: obstacle {o} has {n} attached connector ends, model {endsOn a.s o}")
      else a
    else a
  let a :=
    if a.err.isSome then a
    else if a.s.alive then a.fail (.diverge "history did not end with deleteRouter")
    else if !kf && a.s.leaked != [] then
      a.fail (.diverge s!"history completed without a leak report but the model predicts unreleased objects {a.s.leaked}")
    else a
  let stats := a.stats
  let stats := bumpStats stats "ops" a.nops
  let stats := if a.queuedAtDestroy then bumpStats stats "destroyed_with_queued_actions" 1 else stats
  let stats := if a.offOps > 0 then bumpStats stats "cases_with_transactions_off" 1 else stats
  let stats := if a.s.faults != [] || a.s.refFaults != [] then bumpStats stats "model_faults" 1 else stats
  let stats := bumpStats stats "model_freed_objects" a.s.freed.length
  { verdict := a.err.getD .ok, nontrivial := a.nops ≥ 5 && a.deletes ≥ 1, stats := stats }

def checkCaseLib (c : Case) : CaseResult :=
  let ops := (c.get "op").size
  let bad := (c.get "own").filter (fun l => l.size < 3 || l[1]! != l[2]!)
  let stats := [("ops", ops), ("lib_exceptions_caught", (c.get "exc").size)]
  if bad.size > 0 then
    { verdict := .diverge s!"harness ownership book-keeping does not balance: {bad[0]!}", stats := stats }
  else if ops == 0 then { verdict := .diverge "case without operations", stats := stats }
  else { verdict := .ok, nontrivial := ops ≥ 3, stats := stats }

def checkCase (c : Case) : CaseResult :=
  -- kf-* cases of the other libraries carry a `lib` line and no Router history
  if c.tag == "router-hist" || c.tag == "router-hist-cp" || (c.tag.startsWith "kf-" && (c.get "lib").size == 0) then checkCaseRouter c
  else checkCaseLib c

def run (_args : List String) : IO UInt32 := runCases checkCase

end Driver.C15
