import Driver.Proto
import AdaptaVerif.Model.Lifecycle
/-!
Driver mode c15.

`router-hist` / `kf-*` cases: every `op` line of the harness is translated to a `Model.Lifecycle.Op`,
checked against the model's decidable `Legal` (the generator must only emit strictly legal histories —
the hypothesis of the theorems in Props/C15.lean) and applied with `step`.  After every operation the
harness prints the router's public live sets; they are compared with the model:

* `os` / `oj` / `oc`  ids in `Router::m_obstacles` (shapes / junctions) and `Router::connRefs`
                      = the model's *active* shapes / junctions / connectors            (DIVERGE)
* `oe c a b`          anchors of connector c's ends = the model's attached ends          (DIVERGE)
* `oa o n`            `Obstacle::attachedConnectors().size()` = ends attached in the model (DIVERGE)
* `ock c n`           `ConnRef::routingCheckpoints().size()` = checkpoint vertices connector c owns in the model (DIVERGE)
* the observed state itself must satisfy the spec: no id twice in a list, every anchor reported by
  `oe` is a member of `m_obstacles` (a connector end naming an obstacle the router no longer holds is
  a dangling reference)                                                                  (SPECFAIL)
* a completed history (the harness aborts on a LeakSanitizer report, so completion means "no leak")
  for which the model predicts unreleased objects, or a model fault on a strictly legal history,
  is a DIVERGE.

Other tags (vpsc-hist, cola-hist, topology-hist, dialect-hist): the runtime half only; the driver
checks the harness' own ownership book-keeping (`own <what> <allocated> <freed>` must balance) and
collects statistics.  CRASH verdicts (sanitizer report, assertion, leak) come from check.py.
-/
namespace Driver.C15
open Driver AdaptaVerif.Model.Lifecycle

/-- parse a ConnEnd description starting at token i: `P x y` or `A obj cls`; returns (spec, next index) -/
def parseEnd (ts : Array String) (i : Nat) : Option (EndSpec × Nat) :=
  match ts[i]? with
  | some "P" => some (none, i + 3)
  | some "A" => some (some ⟨nat! (ts[i+1]?.getD "0"), nat! (ts[i+2]?.getD "0")⟩, i + 3)
  | _ => none

/-- `op` line (without the leading keyword) ↦ model operation; `none` = no lifetime effect -/
def parseOp (ts : Array String) : Except String (Option Op) :=
  let n (i : Nat) : Nat := nat! (ts[i]?.getD "0")
  match ts[0]? with
  | some "newShape" => .ok (some (.newShape (n 1)))
  | some "newJunction" => .ok (some (.newJunction (n 1) (n 2)))
  | some "newPin" => .ok (some (.newPin (n 1) (n 2) (n 3)))
  | some "newConn" =>
    match parseEnd ts 3 with
    | some (a, j) =>
      match parseEnd ts j with
      | some (b, _) => .ok (some (.newConn (n 1) a b (n 2 == 1)))
      | none => .error "bad newConn dst"
    | none => .error "bad newConn src"
  | some "setEndpoint" =>
    match parseEnd ts 3 with
    | some (e, _) => .ok (some (.setEndpoint (n 1) (n 2 == 1) e))
    | none => .error "bad setEndpoint"
  | some "setRoutingCheckpoints" =>
    .ok (some (.setRoutingCheckpoints (n 1) ((List.range (n 2)).map (fun i => n (3 + i)))))
  | some "deleteShape" => .ok (some (.deleteShape (n 1)))
  | some "deleteJunction" => .ok (some (.deleteJunction (n 1)))
  | some "deleteConn" => .ok (some (.deleteConn (n 1)))
  | some "deletePin" => .ok (some (.deletePin (n 1)))
  | some "moveShape" => .ok (some (.moveShape (n 1)))
  | some "moveJunction" => .ok (some (.moveJunction (n 1)))
  | some "processTransaction" => .ok (some .processTransaction)
  | some "setTransactionUse" => .ok (some (.setTransactionUse (n 1 == 1)))
  | some "deleteRouter" => .ok (some .deleteRouter)
  | some "registerHyperedge" => .ok none
  | some x => .error s!"unknown op {x}"
  | none => .error "empty op"

def parseHyper (ts : Array String) : Except String Op :=
  let n (i : Nat) : Nat := nat! (ts[i]?.getD "0")
  match ts[0]? with
  | some "dc" => .ok (.rDelConn (n 1))
  | some "dj" => .ok (.rDelJunction (n 1))
  | some "nj" => .ok (.rNewJunction (n 1) (n 2))
  | some "nc" => .ok (.rNewConn (n 1))
  | _ => .error "bad hyper line"

def sortNat (l : List Nat) : List Nat := (l.toArray.qsort (· < ·)).toList

def hasDup : List Nat → Bool
  | [] => false
  | x :: xs => xs.contains x || hasDup xs

def anchorOf (e : End) : Int := match e with | some x => (x.anchor : Int) | none => -1
def endsOn (s : St) (o : Id) : Nat :=
  s.conns.foldl (fun k c => k + (if endOn c.src o then 1 else 0) + (if endOn c.dst o then 1 else 0)) 0

def opName : Op → String
  | .newShape _ => "newShape" | .newJunction .. => "newJunction" | .newConn .. => "newConn"
  | .newPin .. => "newPin" | .deleteShape _ => "deleteShape" | .deleteJunction _ => "deleteJunction"
  | .deleteConn _ => "deleteConn" | .deletePin _ => "deletePin" | .moveShape _ => "moveShape"
  | .moveJunction _ => "moveJunction" | .setEndpoint .. => "setEndpoint"
  | .setRoutingCheckpoints .. => "setRoutingCheckpoints"
  | .processTransaction => "processTransaction" | .setTransactionUse _ => "setTransactionUse"
  | .deleteRouter => "deleteRouter" | .rDelConn _ => "rDelConn" | .rDelJunction _ => "rDelJunction"
  | .rNewJunction .. => "rNewJunction" | .rNewConn _ => "rNewConn"

structure Acc where
  s : St := init
  err : Option Verdict := none
  nops : Nat := 0
  illegal : Nat := 0              -- ops outside `Legal` (allowed for kf-* tags only)
  routerMade : List Nat := []     -- connectors created by the router (ends unknown to the model)
  obsS : List Nat := []           -- last observed m_obstacles ids (shapes ++ junctions) of the current block
  stats : List (String × Nat) := []
  deletes : Nat := 0
  queuedAtDestroy : Bool := false
  offOps : Nat := 0

def Acc.fail (a : Acc) (v : Verdict) : Acc := if a.err.isSome then a else { a with err := some v }

def natsOf (ts : Array String) : List Nat := (ts.toList.map nat!)

def applyOp (kf : Bool) (a : Acc) (op : Op) (txt : String) : Acc :=
  let legal := Legal a.s op
  let a := if legal then a else
    if kf then { a with illegal := a.illegal + 1 }
    else a.fail (.diverge s!"generator emitted an operation that is not strictly legal in the model (op #{a.nops + 1}: {txt})")
  let s' := step a.s op
  let a := { a with s := s', nops := a.nops + 1, stats := bumpStats a.stats ("op." ++ opName op) 1 }
  let a := if !a.s.consolidate then { a with offOps := a.offOps + 1, stats := bumpStats a.stats ("off." ++ opName op) 1 } else a
  let a := match op with
    | .deleteShape _ | .deleteJunction _ | .deleteConn _ | .deletePin _ => { a with deletes := a.deletes + 1 }
    | .rNewConn c => { a with routerMade := c :: a.routerMade }
    | _ => a
  if !kf && s'.faults != [] && legal then
    a.fail (.diverge s!"model reports a fault on a strictly legal history after op #{a.nops}: {txt}")
  else a

def checkCaseRouter (c : Case) : CaseResult :=
  let kf := c.tag.startsWith "kf-"
  let a := c.lines.foldl (init := ({} : Acc)) fun a l =>
    if a.err.isSome then a else
    let key := l[0]!
    let rest := l.extract 1 l.size
    if key == "op" then
      match parseOp rest with
      | .error e => a.fail (.diverge s!"unparsable op line: {e}")
      | .ok none => { a with nops := a.nops + 1 }
      | .ok (some op) =>
        let a := if op == .deleteRouter then { a with queuedAtDestroy := !a.s.actions.isEmpty } else a
        applyOp kf a op (" ".intercalate rest.toList)
    else if key == "hyper" then
      match parseHyper rest with
      | .error e => a.fail (.diverge e)
      | .ok op => applyOp kf a op ("hyper " ++ " ".intercalate rest.toList)
    else if kf && a.s.faults != [] then a     -- after the model's fault point nothing is compared
    else if key == "os" || key == "oj" then
      let impl := natsOf rest
      let model := sortNat ((a.s.obst.filter (fun o => o.active && (o.junction == (key == "oj")))).map (·.id))
      let a := if key == "os" then { a with obsS := impl } else { a with obsS := a.obsS ++ impl }
      if hasDup impl then a.fail (.specfail s!"after op #{a.nops}: id listed twice in Router::m_obstacles: {impl}")
      else if impl != model then
        a.fail (.diverge s!"after op #{a.nops}: m_obstacles {key} = {impl}, model active set = {model}")
      else a
    else if key == "oc" then
      let impl := natsOf rest
      let model := sortNat ((a.s.conns.filter (·.active)).map (·.id))
      if hasDup impl then a.fail (.specfail s!"after op #{a.nops}: id listed twice in Router::connRefs: {impl}")
      else if impl != model then
        a.fail (.diverge s!"after op #{a.nops}: connRefs = {impl}, model active connectors = {model}")
      else a
    else if key == "oe" then
      let cid := nat! (rest[0]?.getD "0")
      let ia := int! (rest[1]?.getD "-1")
      let ib := int! (rest[2]?.getD "-1")
      -- spec on the implementation's own state: an anchored end names a member of m_obstacles
      let dangling (x : Int) : Bool := x ≥ 0 && !(a.obsS.contains x.toNat)
      if dangling ia || dangling ib then
        a.fail (.specfail s!"after op #{a.nops}: connector {cid} has an end anchored at an obstacle that is not in m_obstacles ({ia}, {ib})")
      else if a.routerMade.contains cid || ia == -2 then a
      else match a.s.conns.find? (·.id == cid) with
        | none => a.fail (.diverge s!"after op #{a.nops}: connector {cid} unknown to the model")
        | some mc =>
          if anchorOf mc.src != ia || anchorOf mc.dst != ib then
            a.fail (.diverge s!"after op #{a.nops}: connector {cid} anchors ({ia},{ib}), model ({anchorOf mc.src},{anchorOf mc.dst})")
          else a
    else if key == "ock" then
      let cid := nat! (rest[0]?.getD "0")
      let n := nat! (rest[1]?.getD "0")
      let m := (a.s.cpsOf cid).length
      if m != n then
        a.fail (.diverge s!"after op #{a.nops}: connector {cid} reports {n} routing checkpoints, model owns {m} checkpoint vertices")
      else a
    else if key == "oa" then
      if !a.routerMade.isEmpty then a else
      let o := nat! (rest[0]?.getD "0")
      let n := nat! (rest[1]?.getD "0")
      if endsOn a.s o != n then
        a.fail (.diverge s!"after op #{a.nops}: obstacle {o} has {n} attached connector ends, model {endsOn a.s o}")
      else a
    else a
  let a :=
    if a.err.isSome then a
    else if a.s.alive then a.fail (.diverge "history did not end with deleteRouter")
    else if !kf && a.s.leaked != [] then
      a.fail (.diverge s!"history completed without a leak report but the model predicts unreleased objects {a.s.leaked}")
    else a
  let stats := a.stats
  let stats := bumpStats stats "ops" a.nops
  let stats := if a.queuedAtDestroy then bumpStats stats "destroyed_with_queued_actions" 1 else stats
  let stats := if a.offOps > 0 then bumpStats stats "cases_with_transactions_off" 1 else stats
  let stats := if a.s.faults != [] then bumpStats stats "model_faults" 1 else stats
  let stats := bumpStats stats "model_freed_objects" a.s.freed.length
  { verdict := a.err.getD .ok, nontrivial := a.nops ≥ 5 && a.deletes ≥ 1, stats := stats }

def checkCaseLib (c : Case) : CaseResult :=
  let ops := (c.get "op").size
  let bad := (c.get "own").filter (fun l => l.size < 3 || l[1]! != l[2]!)
  let stats := [("ops", ops), ("lib_exceptions_caught", (c.get "exc").size)]
  if bad.size > 0 then
    { verdict := .diverge s!"harness ownership book-keeping does not balance: {bad[0]!}", stats := stats }
  else if ops == 0 then { verdict := .diverge "case without operations", stats := stats }
  else { verdict := .ok, nontrivial := ops ≥ 3, stats := stats }

def checkCase (c : Case) : CaseResult :=
  -- kf-* cases of the other libraries carry a `lib` line and no Router history
  if c.tag == "router-hist" || (c.tag.startsWith "kf-" && (c.get "lib").size == 0) then checkCaseRouter c
  else checkCaseLib c

def run (_args : List String) : IO UInt32 := runCases checkCase

end Driver.C15
