import Driver.Proto
namespace Driver.C15

def run (_args : List String) : IO UInt32 := do
  IO.eprintln "driver mode c15: not implemented yet"
  return 2

end Driver.C15
