import Driver.C03

def main (args : List String) : IO UInt32 := Driver.C03.run args
