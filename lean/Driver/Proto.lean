/-
Line protocol shared by all driver modes (DESIGN.md 2.3).
Harness stream:   CASE <k> <tag> / property-specific lines / END
Driver output:    V <k> OK|DIVERGE|SPECFAIL <msg>   STAT <key> <int>   SAMPLE <text>
-/
import AdaptaVerif.Num.HexFloat
namespace Driver
open AdaptaVerif.Num

inductive Verdict where
  | ok
  | diverge (msg : String)
  | specfail (msg : String)
  deriving Repr, Inhabited

structure CaseResult where
  verdict : Verdict
  nontrivial : Bool := true
  /-- counters to add to the run statistics (branch / distribution histogram) -/
  stats : List (String × Nat) := []
  deriving Inhabited

structure Case where
  idx : Nat
  tag : String
  lines : Array (Array String)   -- tokenised lines between CASE and END
  deriving Inhabited

def tokens (line : String) : Array String :=
  ((line.trimAscii.toString.splitOn " ").filter (· ≠ "")).toArray

/-- all lines of the case whose first token is `key`, without that token -/
def Case.get (c : Case) (key : String) : Array (Array String) :=
  (c.lines.filter (fun l => l.size > 0 && l[0]! == key)).map (fun l => l.extract 1 l.size)

def Case.get1 (c : Case) (key : String) : Option (Array String) :=
  (c.get key)[0]?

def nat! (s : String) : Nat := s.toNat?.getD 0
def int! (s : String) : Int := s.toInt?.getD 0

def num? (s : String) : Option Rat := parseNum s
def dbl? (s : String) : Option Dbl := parseDbl s

/-- parse every token as an exact number; `none` if any is non-finite / malformed -/
def nums? (ts : Array String) : Option (Array Rat) := ts.mapM num?

def bumpStats (m : List (String × Nat)) (k : String) (n : Nat) : List (String × Nat) :=
  match m with
  | [] => [(k, n)]
  | (k', v) :: rest => if k' == k then (k', v + n) :: rest else (k', v) :: bumpStats rest k n

/-- Read the whole stream, call `f` per complete case, print verdict lines and statistics.
    `sampleEvery`: emit a SAMPLE line (raw text of the case) for the first few cases. -/
partial def runCases (f : Case → CaseResult) (maxSamples : Nat := 4) : IO UInt32 := do
  let stdin ← IO.getStdin
  let stdout ← IO.getStdout
  let mut cur : Option (Nat × String × Array (Array String) × Array String) := none
  let mut stats : List (String × Nat) := []
  let mut nsamples := 0
  let mut ncases := 0
  repeat
    let line ← stdin.getLine
    if line.isEmpty then break
    let ts := tokens line
    if ts.size == 0 then continue
    if ts[0]! == "CASE" then
      cur := some (nat! (ts[1]?.getD "0"), ts[2]?.getD "", #[], #[line.trimAscii.toString])
    else if ts[0]! == "END" then
      match cur with
      | some (k, tag, ls, raw) =>
        let c : Case := { idx := k, tag := tag, lines := ls }
        let r := f c
        ncases := ncases + 1
        match r.verdict with
        | .ok => stdout.putStrLn s!"V {k} OK"
        | .diverge m => stdout.putStrLn s!"V {k} DIVERGE {m}"
        | .specfail m => stdout.putStrLn s!"V {k} SPECFAIL {m}"
        stats := bumpStats stats ("tag." ++ tag) 1
        if r.nontrivial then stats := bumpStats stats "nontrivial" 1
        for (k', v) in r.stats do stats := bumpStats stats k' v
        if nsamples < maxSamples && r.nontrivial then
          nsamples := nsamples + 1
          let txt := " | ".intercalate (raw.toList.take 12)
          stdout.putStrLn s!"SAMPLE {txt.take 600}"
        cur := none
      | none => pure ()
    else
      match cur with
      | some (k, tag, ls, raw) => cur := some (k, tag, ls.push ts, raw.push line.trimAscii.toString)
      | none => pure ()
  stdout.putStrLn s!"STAT cases {ncases}"
  for (k, v) in stats do stdout.putStrLn s!"STAT {k} {v}"
  return 0

end Driver
