import Driver.Proto
import AdaptaVerif.Model.Pins
import AdaptaVerif.Model.Nudge
import AdaptaVerif.Check.Attach
import AdaptaVerif.Check.Nudge
import AdaptaVerif.Model.NudgeRegionRun
import AdaptaVerif.Model.NudgeSegs
/-!
Driver `driver_c10`: orthogonal nudging (see harness/c10.cpp for the line format).
SPECFAIL (property clause violated, decided by the checkers of Check/Nudge.lean / Check/Attach.lean
on the exact values the library returned):
* displayRoute()'s first / last point differs from route()'s;
* displayRoute() has more segments than route();
* a checkpoint is no longer on displayRoute();
* wide-enough corridor (W ≥ (m+1)·d, recorded by the generator): two connectors without a common
  end point share a collinear stretch of positive length in displayRoute();
* two connectors that shared a stretch before nudging (in simplify(route())) and do not share one
  afterwards have parallel overlapping segments closer than `d/10 − 3/10000`
  (`sepAfter_bounds`: ≥ d/10 after at most 9 reductions; `applied_separation`: minus 2·tol with
  tol = 1e-4; 1e-4 more for the floating-point evaluation of `sepDist -= d/10`).
Failures that are the documented effect of routing option nudgeOrthogonalSegmentsConnectedToShapes
(final segments and checkpoint segments are nudged as well) form the class `opt-final-nudge`;
like the other finding classes it is counted and only reported as SPECFAIL when named on the
command line.
-/
namespace Driver.C10
open Driver AdaptaVerif.Num AdaptaVerif.Model.Pins AdaptaVerif.Check.Attach AdaptaVerif.Check.Nudge

def rat! (s : String) : Rat := (num? s).getD 0
def pt! (l : Array String) (i : Nat) : P2 := ⟨rat! l[i]!, rat! l[i+1]!⟩
def ptsFrom (l : Array String) (start n : Nat) : List P2 := (List.range n).map (fun i => pt! l (start + 2 * i))
def showP (p : P2) : String := s!"({ratToString p.x},{ratToString p.y})"
def lookup {α} (xs : List (Nat × α)) (k : Nat) : Option α := (xs.find? (·.1 == k)).map (·.2)

structure St where
  fails : List String := []
  /-- failures of the gated (known-finding) classes: ranked below a broken tie, so that a known defect
      in the same case cannot mask a divergence of the region model -/
  soft : List String := []
  stats : List (String × Nat) := []
  strict : List String := []

def bump (s : St) (k : String) (n : Nat := 1) : St := { s with stats := bumpStats s.stats k n }

def gated (s : St) (cls msg : String) : St :=
  let s := bump s ("finding." ++ cls)
  if s.strict.contains cls || s.strict.contains "all" then { s with soft := s!"[{cls}] {msg}" :: s.soft } else s

def fail (s : St) (msg : String) : St := { s with fails := msg :: s.fails }

/-- `p` lies on some segment of the polyline -/
def onRoute (r : List P2) (p : P2) : Bool := (segments r).any (fun (a, b) => pointOnSegment a b p)

/-- where a checkpoint sits on route(): on a there-and-back spur that Polygon::simplify() cuts
    ("spur"), at a bend of the simplified route ("corner"), or strictly inside a straight segment
    ("mid") -/
def cpPlace (sr : List P2) (cp : P2) : String :=
  if !onRoute sr cp then "spur" else if sr.any (· == cp) then "corner" else "mid"

/-- insertion sort by key -/
def insertBy (k : α → Rat) (a : α) : List α → List α
  | [] => [a]
  | b :: rest => if k a ≤ k b then a :: b :: rest else b :: insertBy k a rest
def sortBy (k : α → Rat) (l : List α) : List α := l.foldl (fun acc a => insertBy k a acc) []

open AdaptaVerif.Model.Nudge in
/-- The corridor as ONE region of the model (Model/Nudge.lean): the displayRoute() segments that run
    along the corridor, sorted by their final position, each with limits = the corridor walls. The
    final positions must satisfy every constraint `genCons` generates with `sepDist := bound`
    (hypothesis `AllHold` of `region_separation` / `region_limits`, decided by `Cons.holdsB`).
    Returns the violated constraints. -/
def corridorViolations (bound lo hi a0 a1 o0 o1 : Rat) (transpose : Bool) (disps : List (Nat × List P2)) : List String :=
  let raw : List (Nat × Rat × Rat × Rat) := disps.flatMap (fun (id, r) =>
    (segments r).filterMap (fun (p, q) =>
      let (pv, pa, qv, qa) := if transpose then (p.x, p.y, q.x, q.y) else (p.y, p.x, q.y, q.x)
      -- runs along the corridor axis, overlaps the block span [a0,a1] with positive length and
      -- lies between the outer faces o0 < v < o1 of the two blocks (so not a detour around them)
      if pv == qv && pa != qa && min (max pa qa) a1 - max (min pa qa) a0 > 0 && decide (o0 < pv) && decide (pv < o1)
      then some (id, pv, min pa qa, max pa qa) else none))
  let sorted := sortBy (fun (t : Nat × Rat × Rat × Rat) => t.2.1) raw
  let segs : List Seg := sorted.map (fun (id, v, alo, ahi) => ⟨v, some lo, some hi, false, id, max alo a0, min ahi a1⟩)
  let p : Params := ⟨bound, true, fun _ _ => false, fun _ _ => false, 0⟩
  let xs := sorted.map (fun t => t.2.1)
  let sol : Sol := ⟨fun i => xs.getD i 0, fun _ => lo, fun _ => hi⟩
  (genCons p segs).filterMap (fun c => if c.holdsB sol then none else
    some (match c with
      | .sep j i g _ => s!"segments of connectors {(sorted.getD j default).1} and {(sorted.getD i default).1} at {ratToString (xs.getD j 0)} and {ratToString (xs.getD i 0)} are closer than {ratToString g}"
      | .lower i l => s!"segment of connector {(sorted.getD i default).1} at {ratToString (xs.getD i 0)} is below the corridor limit {ratToString l}"
      | .upper i u => s!"segment of connector {(sorted.getD i default).1} at {ratToString (xs.getD i 0)} is above the corridor limit {ratToString u}"))


/-! ### hook H1: regions of nudgeOrthogonalRoutes (harness/c10_regions.h) -/
open AdaptaVerif.Model.NudgeRegion in
/-- one pass over the lines of the case; lines of a region follow its `nreg` line -/
def parseRegions (c : Case) : List DRegion := Id.run do
  let b (s : String) : Bool := s == "1"
  let mut out : Array DRegion := #[]
  let mut cur : Option DRegion := none
  for l in c.lines do
    if l.size == 0 then continue
    let key := l[0]!
    let t := l.extract 1 l.size
    if key == "nreg" then
      if let some r := cur then out := out.push r
      cur := some { idx := nat! t[0]!, dim := nat! t[1]!, ju := b t[2]!, skipped := b t[3]!, nudgeFinal := b t[4]!, nudgeCommonEnd := b t[5]!,
                    nudgeColinear := b t[6]!, fsp := rat! t[7]!, base := rat! t[8]!, satisfied := b t[9]!,
                    segs := [], wrLow := [], wrHigh := [], vars := [], atts := [], cep := [] }
    else if let some r := cur then
      if key == "nseg" then
        let ncp := nat! t[17]!
        let cps := (List.range ncp).map (fun k => (rat! t[18 + 2 * k]!, rat! t[19 + 2 * k]!))
        let sg : RSeg := { conn := nat! t[2]!, lo := rat! t[3]!, hi := rat! t[4]!, pos := rat! t[5]!, minLim := rat! t[6]!, maxLim := rat! t[7]!, fixed := b t[8]!, finalSeg := b t[9]!, endsInShape := b t[10]!, single := b t[11]!, sBend := b t[12]!, zBend := b t[13]!, cps := cps }
        cur := some { r with segs := r.segs ++ [sg], wrLow := r.wrLow ++ [rat! t[15]!], wrHigh := r.wrHigh ++ [rat! t[16]!] }
      else if key == "nvar" then
        cur := some { r with vars := (List.range (nat! t[1]!)).map (fun k => ⟨nat! t[2 + 3 * k]!, rat! t[3 + 3 * k]!, rat! t[4 + 3 * k]!⟩) }
      else if key == "ncep" then
        cur := some { r with cep := (List.range (nat! t[1]!)).map (fun k => (nat! t[2 + 2 * k]!, nat! t[3 + 2 * k]!)) }
      else if key == "natt" then
        let n := nat! t[5]!
        let cons : List FCon := (List.range n).map (fun k => ⟨nat! t[6 + 5 * k]!, nat! t[7 + 5 * k]!, rat! t[8 + 5 * k]!, b t[9 + 5 * k]!⟩)
        let unsat := (List.range n).map (fun k => b t[10 + 5 * k]!)
        cur := some { r with atts := r.atts ++ [{ sepDist := rat! t[2]!, satisfied := b t[3]!, retry := b t[4]!, cons := cons, unsat := unsat, fps := [] }] }
      else if key == "npos" then
        -- positions of the attempt dumped last
        let fps := (List.range (nat! t[2]!)).map (fun k => rat! t[3 + k]!)
        match r.atts.getLast? with
        | some a => cur := some { r with atts := r.atts.dropLast ++ [{ a with fps := fps }] }
        | none => pure ()
  if let some r := cur then out := out.push r
  return out.toList

open AdaptaVerif.Model.NudgeRegion in
/-- consecutive regions of the same stage and dimension = one call of nudgeOrthogonalRoutes -/
def passes : List DRegion → List (List DRegion)
  | [] => []
  | r :: rest =>
    match passes rest with
    | (r' :: g) :: gs => if r'.dim == r.dim && r'.ju == r.ju then (r :: r' :: g) :: gs else [r] :: (r' :: g) :: gs
    | gs => [r] :: gs

open AdaptaVerif.Model.NudgeRegion in
/-- all findings of the region tie for one case -/
def regionFindings (c : Case) (exempt : Nat → Nat → Bool) : List Finding × List String := Id.run do
  let rs := parseRegions c
  let mut fs : List Finding := []
  let mut st : List String := []
  for r in rs do
    let o := checkRegion r exempt
    fs := fs ++ o.findings
    st := st ++ o.stats
  for g in passes rs do
    let o := checkPass g
    fs := fs ++ o.findings
    st := st ++ o.stats
  return (fs, st)


/-! ### segment tie (builder N1): `buildOrthogonalNudgingSegments` + `buildOrthogonalChannelInfo` against Model/NudgeSegs.lean
(harness/c10_segs.h: the state at the start of every pass; the dumped regions of the pass = what the two builders produced) -/
open AdaptaVerif.Model.NudgeRegion AdaptaVerif.Model.NudgeSegs in
structure DPass where
  idx : Nat
  dim : Nat
  firstRegion : Nat
  nf : Bool
  pz : Bool
  conns : List Conn
  obs : List Obs
  deriving Inhabited

open AdaptaVerif.Model.NudgeRegion AdaptaVerif.Model.NudgeSegs in
def parsePasses (c : Case) : List DPass := Id.run do
  let b (s : String) : Bool := s == "1"
  let mut out : Array DPass := #[]
  for l in c.get "pass" do
    out := out.push { idx := nat! l[0]!, dim := nat! l[1]!, firstRegion := nat! l[2]!, nf := b l[3]!, pz := b l[4]!, conns := [], obs := [] }
  for l in c.get "pconn" do
    let p := nat! l[0]!
    let n := nat! l[3]!
    let ps := (List.range n).map (fun i => (⟨rat! l[4 + 2 * i]!, rat! l[5 + 2 * i]!⟩ : Pt))
    out := out.modify p (fun d => { d with conns := d.conns ++ [{ id := nat! l[1]!, fixedRoute := b l[2]!, ps := ps, cache := [] }] })
  for l in c.get "pcps" do
    let p := nat! l[0]!
    let id := nat! l[1]!
    let n := nat! l[2]!
    let cache := (List.range n).map (fun i => (nat! l[3 + 3 * i]!, (⟨rat! l[4 + 3 * i]!, rat! l[5 + 3 * i]!⟩ : Pt)))
    out := out.modify p (fun d => { d with conns := d.conns.map (fun cn => if cn.id == id then { cn with cache := cache } else cn) })
  for l in c.get "pobs" do
    let p := nat! l[0]!
    let kind := match l[2]! with | "0" => ObsKind.shape | "1" => ObsKind.junction | _ => ObsKind.other
    let o : Obs := { kind := kind, inScan := b l[3]!,
                     box := ⟨rat! l[4]!, rat! l[5]!, rat! l[6]!, rat! l[7]!⟩, rbox := ⟨rat! l[8]!, rat! l[9]!, rat! l[10]!, rat! l[11]!⟩ }
    out := out.modify p (fun d => { d with obs := d.obs ++ [o] })
  return out.toList

/-- all sublists with exactly `k` elements -/
def subsetsOfSize : Nat → List Nat → List (List Nat)
  | 0, _ => [[]]
  | _ + 1, [] => []
  | k + 1, x :: xs => (subsetsOfSize k xs).map (x :: ·) ++ subsetsOfSize (k + 1) xs

/-- model segment during the comparison: both resolutions of the scan line's address ties, the route indexes it writes -/
structure MState where
  lo : AdaptaVerif.Model.NudgeSegs.MSeg
  hi : AdaptaVerif.Model.NudgeSegs.MSeg
  used : Bool := false
  deriving Inhabited

open AdaptaVerif.Model.NudgeRegion AdaptaVerif.Model.NudgeSegs in
/-- One pass.  The model's segment list is compared with the union of the dumped regions, in dump order, on a copy of the
    routes that receives every dumped write-back (positions and extents of a segment are read from the routes at the time its
    region is dumped, as `verifDescribe` does).  A dumped segment with two indexes must BE a model segment: same connector,
    extent, position, every flag, checkpoints, and limits (exactly; where two scan-line nodes have equal positions the C++
    orders them by address: the dumped limit must lie between the model's two resolutions).  A dumped segment with more than two
    indexes was merged by `linesort` (`mergeWith`): it must be the merge of that many model segments of its connector (limits =
    intersection).  At the end of a completed pass no model segment may be left over. -/
def checkPassSegs (p : DPass) (stage : String) (regs : List (DRegion × List Nat)) (complete : Bool) : Option String × List String := Id.run do
  let dim := p.dim
  let ad := alt dim
  let so := scanObs dim p.obs
  let base := buildSegs p.pz p.nf p.obs dim p.conns
  let mut ms : Array MState := (base.map (fun s => ({ lo := withChannel false so s, hi := withChannel true so s } : MState))).toArray
  let mut routes : List (Nat × Array Pt) := p.conns.map (fun c => (c.id, c.ps.toArray))
  let mut stats : List String := []
  -- position (within the pass) of the dumped region every model segment was found in
  let mut assign : Array (Option Nat) := Array.replicate base.length none
  let mut rpos := 0
  let here := s!"segment tie, pass {p.idx} (dim {dim}, {stage}, option nudgeFinal={p.nf})"
  -- cache entries pointing beyond the route (set_route drops the cache update of simplify()): Props/C10Segs.stale_cache_entries_protect_nothing
  if p.conns.any (fun c => c.cache.any (fun e => decide (e.1 > 2 * (c.ps.length - 1)))) then stats := "segtie.cache-stale" :: stats
  let cur (routes : List (Nat × Array Pt)) (m : MSeg) : Rat × Rat × Rat :=
    match lookup routes m.seg.conn with
    | some r => ((r.getD m.idxLow default).c ad, (r.getD m.idxHigh default).c ad, (r.getD m.idxLow default).c dim)
    | none => (0, 0, 0)
  let showS (s : RSeg) : String :=
    s!"connector {s.conn} extent [{ratToString s.lo},{ratToString s.hi}] at {ratToString s.pos} limits [{ratToString s.minLim},{ratToString s.maxLim}] fixed={s.fixed} final={s.finalSeg} endsInShape={s.endsInShape} single={s.single} sBend={s.sBend} zBend={s.zBend} checkpoints={s.cps.map (fun c => (ratToString c.1, ratToString c.2))}"
  for (r, nidxs) in regs do
    let mut writes : List (Nat × List Nat × Rat) := []
    for (ds, k) in r.segs.zipIdx do
      let nidx := nidxs.getD k 2
      let wr := r.wrLow.getD k ds.pos
      -- candidates: unused model segments of that connector at that place
      -- (two segments of one connector can share extent and position: a route folding back onto itself; prefer the one
      -- that agrees in the flags)
      let mut found : Option Nat := none
      let mut exact := false
      for j in [0:ms.size] do
        let m := ms[j]!
        if !exact && !m.used && m.lo.seg.conn == ds.conn then
          let (l, h, ps) := cur routes m.lo
          if l == ds.lo && h == ds.hi && ps == ds.pos then
            let a := m.lo.seg
            let same := a.fixed == ds.fixed && a.finalSeg == ds.finalSeg && a.endsInShape == ds.endsInShape && a.single == ds.single &&
              a.sBend == ds.sBend && a.zBend == ds.zBend && a.cps == ds.cps
            if same then found := some j; exact := true
            else if found.isNone then found := some j
      if nidx == 2 then
        match found with
        | none => return (some s!"{here}: region {r.idx} holds a segment the model does not build: {showS ds}", stats)
        | some j =>
          let m := ms[j]!
          let a := m.lo.seg
          let flagsOk := a.fixed == ds.fixed && a.finalSeg == ds.finalSeg && a.endsInShape == ds.endsInShape && a.single == ds.single &&
            a.sBend == ds.sBend && a.zBend == ds.zBend && a.cps == ds.cps
          let minOk := decide (a.minLim ≤ ds.minLim) && decide (ds.minLim ≤ m.hi.seg.minLim)
          let maxOk := decide (a.maxLim ≤ ds.maxLim) && decide (ds.maxLim ≤ m.hi.seg.maxLim)
          if !(flagsOk && minOk && maxOk) then
            let what := if !flagsOk then "flags / checkpoints" else if !minOk then "minSpaceLimit" else "maxSpaceLimit"
            return (some s!"{here}: region {r.idx}, {what} differ: code has {showS ds}; model (route indexes {m.lo.idxLow},{m.lo.idxHigh}) has {showS { a with lo := ds.lo, hi := ds.hi, pos := ds.pos }}{if a.minLim != m.hi.seg.minLim || a.maxLim != m.hi.seg.maxLim then s!" .. [{ratToString m.hi.seg.minLim},{ratToString m.hi.seg.maxLim}] (address tie in the scan line)" else ""}", stats)
          if a.minLim != m.hi.seg.minLim || a.maxLim != m.hi.seg.maxLim then stats := "segtie.address-tie" :: stats
          stats := (if ds.fixed then "segtie.seg.fixed" else if ds.finalSeg then "segtie.seg.final" else if ds.sBend || ds.zBend then "segtie.seg.zigzag" else "segtie.seg.cbend") :: stats
          if !ds.cps.isEmpty then stats := "segtie.seg.with-checkpoints" :: stats
          if ds.endsInShape then stats := "segtie.seg.endsInShape" :: stats
          ms := ms.set! j { m with used := true }
          assign := assign.set! j (some rpos)
          if !ds.fixed then writes := (ds.conn, [m.lo.idxLow, m.lo.idxHigh], wr) :: writes
      else
        -- merged by linesort (`mergeWith`): nidx/2 unused model segments of the connector that together span the merged extent,
        -- whose limits intersect to the dumped limits and one of which (the surviving `currSeg`) carries the dumped flags
        let mut cands : List Nat := []
        for j in [0:ms.size] do
          let m := ms[j]!
          if !m.used && m.lo.seg.conn == ds.conn then
            let (l, h, _) := cur routes m.lo
            if ds.lo ≤ l && h ≤ ds.hi then cands := cands ++ [j]
        let msNow := ms
        let routesNow := routes
        let o := r.opts
        -- the record of a model segment as the region code sees it now (extent and position from the current routes)
        let now (j : Nat) (hiVar : Bool) : RSeg :=
          let m := msNow[j]!
          let (l, h, ps) := cur routesNow m.lo
          { (if hiVar then m.hi.seg else m.lo.seg) with lo := l, hi := h, pos := ps }
        -- the surviving segment `a` (it carries the dumped flags) absorbs the others one by one, each time `shouldAlignWith` holds
        let good (parts : List Nat) : Bool :=
          parts.any (fun ja =>
            let a := now ja false
            let flagsOk := a.fixed == ds.fixed && a.finalSeg == ds.finalSeg && a.endsInShape == ds.endsInShape && a.single == ds.single && a.sBend == ds.sBend && a.zBend == ds.zBend && a.cps == ds.cps
            let rest := parts.filter (· != ja)
            let step (hiVar : Bool) : Option RSeg := mergeChain o (now ja hiVar) (rest.map (fun jb => now jb hiVar))
            match step false, step true with
            | some lo, some hi =>
              flagsOk && lo.lo == ds.lo && lo.hi == ds.hi && decide (lo.minLim ≤ ds.minLim) && decide (ds.minLim ≤ hi.minLim) &&
                decide (lo.maxLim ≤ ds.maxLim) && decide (ds.maxLim ≤ hi.maxLim) && (lo.pos == ds.pos || lo.minLim != hi.minLim || lo.maxLim != hi.maxLim)
            | _, _ => false)
        let parts := ((subsetsOfSize (nidx / 2) cands).find? good).getD []
        if parts.isEmpty || nidx % 2 != 0 then
          return (some s!"{here}: region {r.idx}: merged segment ({nidx} indexes) {showS ds} is not the merge of {nidx / 2} of the model's {cands.length} unmerged segments of that connector inside its extent", stats)
        stats := "segtie.seg.merged" :: stats
        let mut idxs : List Nat := []
        for j in parts do
          idxs := idxs ++ [ms[j]!.lo.idxLow, ms[j]!.lo.idxHigh]
          ms := ms.set! j { ms[j]! with used := true }
          assign := assign.set! j (some rpos)
        writes := (ds.conn, idxs, wr) :: writes
    -- write-back of this region (and of linesort's merge) onto the copy of the routes
    for (cid, idxs, v) in writes do
      routes := routes.map (fun (id, arr) => if id == cid then
        (id, idxs.foldl (fun (a : Array Pt) i => a.modify i (fun q => if dim == 0 then { q with x := v } else { q with y := v })) arr) else (id, arr))
    rpos := rpos + 1
  if complete then
    for m in ms do
      if !m.used then
        return (some s!"{here}: the model builds a segment that is in no dumped region: {showS m.lo.seg} (route indexes {m.lo.idxLow},{m.lo.idxHigh})", stats)
  -- region formation: the region-growing loop of nudgeOrthogonalRoutes (Model/NudgeRegion.formAll, proved closed in
  -- Props/C10Region) run on the MODEL's segment list in construction order must produce the dumped regions, in the dumped order
  if complete then
    match regs.head? with
    | none => pure ()
    | some (r0, _) =>
      let o := r0.opts
      if ms.any (fun m => m.lo.seg.minLim != m.hi.seg.minLim || m.lo.seg.maxLim != m.hi.seg.maxLim) then stats := "segtie.formation.skipped-address-tie" :: stats
      else
        let tagged : List (Nat × RSeg) := (ms.toList.map (·.lo.seg)).zipIdx.map (fun (sg, j) => (j, sg))
        let formed := formAll (fun (a b : Nat × RSeg) => overlapsWith o a.2 b.2) tagged.length tagged
        for (reg, k) in formed.zipIdx do
          let want := reg.map (·.1)
          let got := (List.range ms.size).filter (fun j => assign[j]! == some k)
          if want.any (fun j => !got.contains j) || got.any (fun j => !want.contains j) then
            let rid := (regs.getD k default).1.idx
            return (some s!"{here}: region formation: the region-growing loop run on the model's segment list puts segments #{want} (in construction order) into region number {k} of the pass, the code's region {rid} holds #{got}", stats)
        if formed.length != regs.length then
          return (some s!"{here}: region formation: model forms {formed.length} regions, code {regs.length}", stats)
        stats := "segtie.formation.checked" :: stats
  stats := "segtie.passes" :: stats
  return (none, stats)

open AdaptaVerif.Model.NudgeRegion in
/-- the segment tie for one case: regions are attributed to passes by `firstRegion` -/
def segFindings (c : Case) (complete : Bool) : Option String × List String := Id.run do
  let ps := parsePasses c
  if ps.isEmpty then return (none, [])
  let rs := parseRegions c
  let nidxs : List (Nat × Nat × Nat) := (c.get "nseg").toList.map (fun l => (nat! l[0]!, nat! l[1]!, nat! l[14]!))
  let mut stats : List String := []
  let bounds := ps.map (·.firstRegion)
  for (p, k) in ps.zipIdx do
    let stop := (bounds.drop (k + 1)).headD rs.length
    let mine := rs.filter (fun r => p.firstRegion ≤ r.idx && r.idx < stop)
    let regs := mine.map (fun r => (r, (nidxs.filter (fun t => t.1 == r.idx)).map (·.2.2)))
    if mine.any (fun r => r.dim != p.dim) then
      return (some s!"segment tie: pass {p.idx} (dim {p.dim}) is followed by a region of dimension {1 - p.dim}", stats)
    let stage := match mine with | r :: _ => (if r.ju then "unifying" else "nudging") | [] => "empty"
    -- only the last pass can be cut short by a library assertion
    let (f, st) := checkPassSegs p stage regs (complete || k + 1 < ps.length)
    stats := stats ++ st
    if f.isSome then return (f, stats)
  -- regions before the first recorded pass would be segments built without a pass start
  match rs.head?, ps.head? with
  | some r, some p => if r.idx < p.firstRegion then return (some "segment tie: a region precedes the first pass record", stats)
  | _, _ => pure ()
  return (none, stats)

def checkCase (strict : List String) (c : Case) : CaseResult := Id.run do
  for l in c.lines do
    if (l[0]! == "route" || l[0]! == "disp") && l.any (fun t => t == "nan" || t == "-nan" || t == "inf" || t == "-inf") then
      return { verdict := .specfail s!"non-finite coordinate in: {" ".intercalate l.toList}" }
  let cfg := (c.get1 "cfg").getD #[]
  let d := rat! (cfg[0]?.getD "1")
  let w := rat! (cfg[1]?.getD "0")
  let m := nat! (cfg[2]?.getD "0")
  let wide := cfg[3]?.getD "0" == "1"
  let opts := nat! (cfg[5]?.getD "0")
  let finalNudge := opts % 2 == 1
  -- family `twin`: the wide-enough promise is for the connectors lo ≤ index < hi only (the others run in the narrow corridor)
  let twin := cfg[8]?.getD "" == "twin"
  let twLo := nat! (cfg[9]?.getD "0")
  let twHi := nat! (cfg[10]?.getD "0")
  let pairWide : Nat → Nat → Bool := fun i j => wide && (!twin || (twLo ≤ i && i < twHi && twLo ≤ j && j < twHi))
  let mut s : St := { strict := strict }
  s := bump s s!"d.{ratToString d}"
  s := bump s s!"m.{m}"
  for b in [0, 1, 2, 3, 4] do
    if (opts / 2 ^ b) % 2 == 1 then s := bump s s!"opt.bit{b}"
  -- hook H1: the regions handed to the solver against Model/NudgeRegion.lean
  let hook := (c.get1 "hook").map (fun l => l[0]! == "1") |>.getD false
  let mut diverged : Option String := none
  if hook then
    s := bump s "hook.cases"
    -- connector ids are 100 + index of the `conn` line in every generator family
    let rts := (c.get "route").toList.map (fun l => (nat! l[0]!, ptsFrom l 2 (nat! l[1]!)))
    let exempt : Nat → Nat → Bool := fun a b =>
      match lookup rts (a - 100), lookup rts (b - 100) with
      | some ra, some rb => commonEndpoint ra rb
      | _, _ => false
    let (fs, sts) := regionFindings c exempt
    for k in sts do s := bump s k
    -- segment tie (builder N1)
    let (sf, sst) := segFindings c (c.get "assert").isEmpty
    for k in sst do s := bump s k
    -- clause (b) on the code's own segments, against the TRUE checkpoints (not the cache): with option nudgeFinal off a dumped
    -- segment that has a checkpoint of its connector strictly inside it must be fixed (Props/C10Segs.checkpoint_segment_is_fixed
    -- says so for a cache that is right; a stale cache - reports/bN1.md finding 4 - arms exactly this).  Counted only.
    if !finalNudge then
      let cpsOf := (c.get "cps").toList.map (fun l => (100 + nat! l[0]!, ptsFrom l 2 (nat! l[1]!)))
      for r in parseRegions c do
        for sg in r.segs do
          if !sg.fixed then
            match lookup cpsOf sg.conn with
            | some cps =>
              if cps.any (fun q => let (pd, pa) := if r.dim == 0 then (q.x, q.y) else (q.y, q.x)
                                   pd == sg.pos && decide (sg.lo < pa) && decide (pa < sg.hi)) then
                s := bump s "finding.cp-segment-shiftable"
            | none => pure ()
    match sf with
    | some m => s := bump s "segtie.diverge"; if diverged.isNone then diverged := some m
    | none => pure ()
    -- a route that folds back onto itself has two parallel segments sharing a route point; when both are shifted (option
    -- nudgeFinal) the later write-back overwrites the shared point and the earlier segment ends up NOT straight
    -- (writtenLow ≠ writtenHigh in the dump: a diagonal piece in displayRoute()).  The region model assumes disjoint index
    -- sets; the property text promises nothing about it: counted, reported as a suspected defect (reports/bN1.md)
    let crooked := (c.get "nseg").any (fun l => l[15]! != l[16]!)
    if crooked then s := bump s "finding.diagonal-after-shared-point"
    for f in fs do
      match f with
      | .diverge m =>
        if crooked && ((m.splitOn "written position").length > 1 || (m.splitOn "a skipped region was written to").length > 1) then s := bump s "regiontie.exempt.shared-point"
        else if diverged.isNone then diverged := some m
      | .spec cls m =>
        if cls == "narrow-sep" then s := gated s "narrow-sep" m
        else if finalNudge then s := gated s "opt-final-nudge" ("[" ++ cls ++ "] " ++ m)
        else s := fail s ("[" ++ cls ++ "] " ++ m)
  -- a failed library assertion (thrown as vpsc::CriticalFailure): C15 territory, class lib-assert
  for l in c.get "assert" do
    s := gated (bump s (if (l[0]!.splitOn "freeSegmentID").length > 1 then "assert.freeSegmentID" else "assert.other"))
      "lib-assert" s!"library assertion failed: {l[0]!}"
  if !(c.get "assert").isEmpty then
    return { verdict := match s.fails.reverse with
        | f :: _ => .specfail f
        | [] => (match diverged with
          | some m => .diverge m
          | none => (match s.soft.reverse with | f :: _ => .specfail f | [] => .ok)), nontrivial := false, stats := s.stats }
  let routes := (c.get "route").toList.map (fun l => (nat! l[0]!, ptsFrom l 2 (nat! l[1]!)))
  let disps := (c.get "disp").toList.map (fun l => (nat! l[0]!, ptsFrom l 2 (nat! l[1]!)))
  let cpss := (c.get "cps").toList.map (fun l => (nat! l[0]!, ptsFrom l 2 (nat! l[1]!)))
  if routes.length != m || disps.length != m then
    return { verdict := .diverge s!"expected {m} routes, got {routes.length}/{disps.length}" }
  -- the checkable wide-enough promise of the generator
  if wide && w < ((m : Rat) + 1) * d then
    return { verdict := .diverge "generator: case marked wide although W < (m+1)·d" }
  let bound : Rat := d / 10 - 3 / 10000
  -- per connector clauses
  for (id, r) in routes do
    let dr := (lookup disps id).getD []
    match r.head?, r.getLast?, dr.head?, dr.getLast? with
    | some a, some b, some a', some b' =>
      if a != a' || b != b' then
        let msg := s!"connector {id}: displayRoute() runs {showP a'} … {showP b'} but route() runs {showP a} … {showP b}: an end point was moved"
        if finalNudge then s := gated s "opt-final-nudge" msg else s := fail s msg
    | _, _, _, _ => s := fail s s!"connector {id}: empty route() or displayRoute()"
    if segCount dr > segCount r then
      s := fail s s!"connector {id}: displayRoute() has {segCount dr} segments, route() only {segCount r}"
    s := bump s "segments.route.simplified" (segCount (simplify r))
    s := bump s "segments.display" (segCount dr)
    match lookup cpss id with
    | some cps =>
      s := bump s "checkpoints"
      if !checkpointsInOrder r cps then
        -- family `segs` (random checkpoints): a checkpoint the router could not reach ("skipping checkpoint") is C11's clause;
        -- C10's "never moves a checkpoint off its route" starts from a checkpoint that is on route()
        if cfg[8]?.getD "" == "segs" then s := bump s "checkpoints.not-on-route"
        else s := fail s s!"connector {id}: checkpoint {cps.map showP} not on route() {r.map showP}"
      else if !checkpointsInOrder dr cps then
        let msg := s!"connector {id}: checkpoint {cps.map showP} on route() but no longer on displayRoute() {dr.map showP}"
        if finalNudge then s := gated s "opt-final-nudge" msg
        else
          -- fingerprint by where the lost checkpoint sits on route():
          --  [cp-disp]     known: on a there-and-back spur cut by Polygon::simplify(), or at a bend
          --                (nudging shifts a segment that starts at the checkpoint corner);
          --  [cp-disp-mid] strictly inside a straight segment of route(): nudging moved a neighbouring
          --                segment past the checkpoint (buildOrthogonalNudgingSegments limits exist to
          --                prevent exactly this) -- strict;
          let sr := simplify r
          let lost := cps.filter (fun cp => !onRoute dr cp)
          let places := lost.map (cpPlace sr)
          let msg' := msg ++ s!" (lost: {lost.map showP} sitting {places})"
          if places.any (· == "mid") then
            -- [cp-disp-unify]: seen on the unchanged tree (replay c10 --seed 1 --tier thorough --only
            -- 21924, a narrow corridor): the unifying pre-pass is on and another connector of the
            -- scene has no checkpoint; the free segment after the checkpoint is pulled past it
            let someWithout := routes.any (fun (j, _) => j != id && (lookup cpss j).isNone)
            let unifying := (opts / 4) % 2 == 1
            -- the same mechanism seen directly (builder N1, pass snapshots): at the start of some pass a checkpoint that the
            -- cache records INSIDE segment s (odd index 2s+1) coincides with an end vertex of that segment - an earlier pass
            -- moved the adjoining segment onto the checkpoint's coordinate, the strict tests then give no limit.  This does not
            -- need a connector without checkpoints (replay c10 --seed 7 --tier quick --scale 8 --only 90510: all three
            -- connectors carry checkpoints)
            let cornerByUnify := (parsePasses c).any (fun p => p.conns.any (fun cn => cn.id == 100 + id &&
              cn.cache.any (fun (k, q) => k % 2 == 1 && (cn.ps[(k - 1) / 2]? == some q || cn.ps[(k + 1) / 2]? == some q))))
            if unifying && !wide && (someWithout || cornerByUnify) then s := gated s "cp-disp-unify" msg'
            else s := fail s ("[cp-disp-mid] " ++ msg')
          else s := gated s "cp-disp" msg'
    | none => pure ()
  -- pairs
  let mut sharedBefore := 0
  for (i, ri) in routes do
    for (j, rj) in routes do
      if i < j then
        let di := (lookup disps i).getD []
        let dj := (lookup disps j).getD []
        let before := sharedCollinearStretch (simplify ri) (simplify rj)
        let after := sharedCollinearStretch di dj
        if before then sharedBefore := sharedBefore + 1
        if after then
          s := bump s "pairs.shared.after"
          if pairWide i j && !commonEndpoint ri rj then
            let fam := if c.tag == "endseg-tie" then "[endseg-tie] end segment on the line obstacle edge + buffer, free side" else if c.tag == "endseg-off" then "[endseg-off] free side" else "wide corridor"
            let msg := s!"{fam} (W={ratToString w} ≥ (m+1)·d={ratToString (((m : Rat) + 1) * d)}): connectors {i} and {j} share a collinear stretch in displayRoute(): {di.map showP} / {dj.map showP}"
            if finalNudge then s := gated s "opt-final-nudge" msg else s := fail s msg
        if before && !after then
          s := bump s "pairs.separated"
          match minParallelDist di dj with
          | some dist =>
            if dist < d - 1 / 1000 then s := bump s "pairs.separated.reduced"
            if dist < bound then
              let msg := s!"connectors {i} and {j} were separated but run only {ratToString dist} apart (< d/10 − 3e-4 with d={ratToString d}): {di.map showP} / {dj.map showP}"
              -- class narrow-sep (corridor narrower than (m+1)·d only): the region is infeasible,
              -- VPSC drops constraints as unsatisfiable, nudgeOrthogonalRoutes' `satisfied` test
              -- looks at the fixed variables only and the "solution" is applied (1e-10 apart)
              if pairWide i j then s := fail s msg else s := gated s "narrow-sep" msg
          | none => s := bump s "pairs.separated.no-longer-parallel"
  s := bump s "pairs.shared.before" sharedBefore
  -- the corridor as one region of the model: limits (clause b) and separation via `genCons`
  if wide then
    let buf := rat! (cfg[4]?.getD "0")
    let transpose := cfg[7]?.getD "0" == "1"
    let bl := (c.get "block").toList.map (fun l => (rat! l[1]!, rat! l[2]!, rat! l[3]!, rat! l[4]!))
    match bl with
    | [(x0, y0, x1, y1), (x0', y0', x1', y1')] =>
      let (lo, hi, a0, a1, o0, o1) := if transpose then (x1 + buf, x0' - buf, y0, y1, x0, x1') else (y1 + buf, y0' - buf, x0, x1, y0, y1')
      let viol := corridorViolations bound lo hi a0 a1 o0 o1 transpose disps
      s := bump s "corridor.regions"
      for v in viol do
        let msg := s!"wide corridor [{ratToString lo},{ratToString hi}]: {v}"
        if finalNudge then s := gated s "opt-final-nudge" msg else s := fail s msg
    | _ => pure ()
  -- Router::existsOrthogonalSegmentOverlap() as a cross-check (statistics only)
  let anyAfter := routes.any (fun (i, _) => routes.any (fun (j, _) => i < j &&
    sharedCollinearStretch ((lookup disps i).getD []) ((lookup disps j).getD [])))
  match c.get1 "overlap" with
  | some l => s := bump s (if (l[0]! == "1") == anyAfter then "overlapflag.agree" else "overlapflag.differ")
  | none => pure ()
  -- rank: property failures outside the known classes, then a broken region tie, then the known classes
  match s.fails.reverse with
  | f :: _ => return { verdict := .specfail f, nontrivial := sharedBefore > 0, stats := s.stats }
  | [] =>
    match diverged with
    | some m => return { verdict := .diverge m, nontrivial := sharedBefore > 0, stats := s.stats }
    | none =>
      match s.soft.reverse with
      | f :: _ => return { verdict := .specfail f, nontrivial := sharedBefore > 0, stats := s.stats }
      | [] => return { verdict := .ok, nontrivial := sharedBefore > 0, stats := s.stats }

def run (args : List String) : IO UInt32 := runCases (checkCase args)

end Driver.C10
