import Driver.Proto
namespace Driver.C10

def run (_args : List String) : IO UInt32 := do
  IO.eprintln "driver mode c10: not implemented yet"
  return 2

end Driver.C10
