import Driver.Proto
namespace Driver.C12

def run (_args : List String) : IO UInt32 := do
  IO.eprintln "driver mode c12: not implemented yet"
  return 2

end Driver.C12
