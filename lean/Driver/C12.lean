/-
Driver mode `c12`: decide, for every transaction of a harness case, whether the connector/junction
structure the real libavoid produced satisfies C12.  All structural verdicts come from the proven
checkers of `AdaptaVerif.Check.Tree` (`isTreeWithLeaves`, `liveConsistent`, `disjoint`); the code
here only parses, numbers the vertices, slices the global graph per hyperedge and words the
diagnostics.  Line formats: see the header of `harness/c12.cpp`.
-/
import Driver.Proto
import AdaptaVerif.Check.Tree
import Driver.C12Ops
namespace Driver.C12
open Driver AdaptaVerif.Num AdaptaVerif.Check.Tree

structure Conn where
  id : String
  e1 : String
  e2 : String
  n : Nat := 0
  first : Option (Rat × Rat) := none
  last : Option (Rat × Rat) := none
  deriving Inhabited

structure Junc where
  id : String
  pos : Rat × Rat
  rcm : Rat × Rat
  nattached : Nat
  deriving Inhabited

/-- failure kinds, most specific / least expected first: the verdict message starts with the first
    kind present, so that a case is only ever attributed to a known defect class when nothing
    else is wrong with it -/
def kindOrder : List String :=
  ["parse", "crash", "lists-inconsistent", "deleted-junction-not-freed", "cycle", "hyperedges-merged",
   "terminal-dropped", "orphan-object", "route-end-mismatch", "dangling-junction",
   -- kinds that the unmodified library produces on generated scenes (finding candidates, see report):
   "attached-to-deleted-junction", "crash-after-attached-to-deleted-junction", "unattached-end", "disconnected",
   "dangling-junction[new-split-junction]", "route-end-mismatch[nudged-off-junction]",
   "route-end-mismatch[along-terminal-shape-edge]", "route-end-mismatch[terminal-end-shifted-with-junction]",
   "route-end-mismatch[rerouted-junction-link-misses-final-piece]",
   "rerouted-route-misses-terminal", "empty-route", "leak"]

def kindRank (k : String) : Nat := (kindOrder.findIdx? (· == k)).getD 0

/-- intern a name -/
def intern (tbl : Array String) (s : String) : Array String × Nat :=
  match tbl.findIdx? (· == s) with
  | some i => (tbl, i)
  | none => (tbl.push s, tbl.size)

/-- object ids are decimal; `tmpN` (created and destroyed inside one transaction) gets a number
    that cannot clash with a real id -/
def idNum (step : Nat) (s : String) : Nat :=
  match s.toNat? with
  | some n => n
  | none => 4000000000 + 1000 * step + (s.drop 3).toString.toNat?.getD 0

def pt? (a b : String) : Option (Rat × Rat) := do
  let x ← num? a
  let y ← num? b
  pure (x, y)

def parseConn (l : Array String) : Conn :=
  -- l = [s, id, e1, e2, n, x0, y0, xl, yl]
  let n := nat! (l[4]?.getD "0")
  { id := l[1]?.getD "?", e1 := l[2]?.getD "E", e2 := l[3]?.getD "E", n := n,
    first := if n > 0 then pt? (l[5]?.getD "") (l[6]?.getD "") else none,
    last := if n > 0 then pt? (l[7]?.getD "") (l[8]?.getD "") else none }

def stepLines (c : Case) (key : String) (s : Nat) : Array (Array String) :=
  (c.get key).filter (fun l => l.size > 0 && nat! l[0]! == s)

/-- one BFS round per edge is enough to saturate a component; diagnostics and slicing only -/
def component (edges : List Edge) (start : Nat) : List Nat := Id.run do
  let mut comp : List Nat := [start]
  for _ in [0:edges.length + 1] do
    for (a, b) in edges do
      if comp.contains a && !comp.contains b then comp := b :: comp
      if comp.contains b && !comp.contains a then comp := a :: comp
  return comp

/-- how far (Chebyshev) a route end may sit from the junction it is attached to: the largest
    `idealNudgingDistance` the generator uses -/
def junctionSlack : Rat := 25

def isJ (s : String) : Bool := s.startsWith "J"
def isT (s : String) : Bool := s.startsWith "T"

structure Fail where
  kind : String
  msg : String
  deriving Inhabited

structure StepState where
  conns : List Nat          -- live connector ids
  juncs : List Nat          -- effective live junction ids
  pending : List Nat        -- junctions reported deleted by the last transaction (router frees them in the next one)

def checkCase (c : Case) : CaseResult := Id.run do
  let mut fails : Array Fail := #[]
  let mut stats : List (String × Nat) := []
  let hedges : Array (List String) := (c.get "hedge").map (fun l => (l.extract 1 l.size).toList)
  let plain : List String := ((c.get "plain").map (fun l => l[0]?.getD "")).toList
  -- state before the first transaction = the harness's own input description
  let mut st : StepState := {
    conns := ((c.get "iconn").map (fun l => idNum 0 (l[0]?.getD ""))).toList,
    juncs := ((c.get "junction").map (fun l => idNum 0 (l[0]?.getD ""))).toList,
    pending := [] }
  let nsteps := (c.get "done").size
  let mut nontrivial := false
  let mut rerouted : List String := []     -- connectors created by HyperedgeRerouter so far
  let mut splitLeft : List String := []    -- junctions the improver created by a split and left with only the bridging connector
  let mut s := 1
  while s ≤ nsteps do
    -- ---------------------------------------------------------------- parse the step
    let conns : List Conn := ((stepLines c "conn" s).map parseConn).toList
    let mut juncs : List Junc := []
    for l in stepLines c "junc" s do
      match pt? (l[2]?.getD "") (l[3]?.getD ""), pt? (l[4]?.getD "") (l[5]?.getD "") with
      | some p, some q => juncs := juncs ++ [{ id := l[1]?.getD "?", pos := p, rcm := q, nattached := nat! (l[7]?.getD "0") }]
      | _, _ => fails := fails.push ⟨"parse", s!"step {s}: junction line {l}"⟩
    let mut newJ : List Nat := []
    let mut newC : List Nat := []
    let mut delJ : List Nat := []
    let mut delC : List Nat := []
    let mut impNewJ : List String := []      -- created by the improver in this transaction
    let mut reroutedNow : List String := []  -- connectors created by full rerouting in this transaction
    let mut impNewC : List String := []
    for l in stepLines c "nd" s do
      if (l[1]?.getD "").startsWith "rr" && l[2]?.getD "" == "newc" then
        rerouted := rerouted ++ (l.extract 3 l.size).toList
        reroutedNow := reroutedNow ++ (l.extract 3 l.size).toList
      if l[1]?.getD "" == "imp" && l[2]?.getD "" == "newj" then impNewJ := impNewJ ++ (l.extract 3 l.size).toList
      if l[1]?.getD "" == "imp" && l[2]?.getD "" == "newc" then impNewC := impNewC ++ (l.extract 3 l.size).toList
      let ids := ((l.extract 3 l.size).map (idNum s)).toList
      match l[2]?.getD "" with
      | "newj" => newJ := newJ ++ ids
      | "newc" => newC := newC ++ ids
      | "delj" => delJ := delJ ++ ids
      | "delc" => delC := delC ++ ids
      | _ => pure ()
    if !(newJ.isEmpty && newC.isEmpty && delJ.isEmpty && delC.isEmpty) then nontrivial := true
    stats := bumpStats stats "transactions" 1
    stats := bumpStats stats "objects.new" (newJ.length + newC.length)
    stats := bumpStats stats "objects.deleted" (delJ.length + delC.length)
    -- ---------------------------------------------------------------- live objects vs reported lists
    let connIds := conns.map (fun k => idNum s k.id)
    let juncRaw := juncs.map (fun j => idNum s j.id)
    let juncEff := juncRaw.filter (fun j => !delJ.contains j)
    if !liveConsistent st.conns newC delC connIds then
      fails := fails.push ⟨"lists-inconsistent", s!"step {s}: connectors after={connIds} before={st.conns} new={newC} deleted={delC}"⟩
    if !liveConsistent st.juncs newJ delJ juncEff then
      fails := fails.push ⟨"lists-inconsistent", s!"step {s}: junctions after={juncEff} before={st.juncs} new={newJ} deleted={delJ}"⟩
    if !(delC.all (fun x => st.conns.contains x || newC.contains x) && delJ.all (fun x => st.juncs.contains x || newJ.contains x)) then
      fails := fails.push ⟨"lists-inconsistent", s!"step {s}: an object reported deleted was neither alive before nor reported new: delc={delC} delj={delJ}"⟩
    if !disjoint juncRaw st.pending then
      fails := fails.push ⟨"deleted-junction-not-freed", s!"step {s}: junctions {st.pending} were reported deleted one transaction ago but are still in the router: {juncRaw}"⟩
    -- ---------------------------------------------------------------- the global multigraph
    let effJ : List String := (juncs.filter (fun j => juncEff.contains (idNum s j.id))).map (fun j => "J" ++ j.id)
    let mut tbl : Array String := #[]
    let mut listed : List Nat := []          -- vertices that exist: live junctions, terminal attachments, free ends
    for nm in effJ do
      let (t, i) := intern tbl nm; tbl := t
      listed := i :: listed
    -- every terminal the hyperedges had before gets a vertex number, attached or not
    for terms in hedges do
      for t in terms do
        let (t', _) := intern tbl t; tbl := t'
    let mut edges : List Edge := []
    let mut edgeConn : List String := []
    for k in conns do
      if plain.contains k.id then continue
      let mut ends : List Nat := []
      for (e, tagc) in [(k.e1, "a"), (k.e2, "b")] do
        if isJ e then
          let (t, i) := intern tbl e; tbl := t
          ends := ends ++ [i]                -- listed only if the junction is alive
        else if isT e then
          let (t, i) := intern tbl e; tbl := t
          if !listed.contains i then listed := i :: listed
          ends := ends ++ [i]
        else
          let (t, i) := intern tbl s!"free-end-{tagc}-of-connector-{k.id}"; tbl := t
          listed := i :: listed
          ends := ends ++ [i]
          fails := fails.push ⟨"unattached-end", s!"step {s}: connector {k.id} ({k.e1} -> {k.e2}) has an end that is attached to nothing"⟩
      edges := edges ++ [(ends[0]!, ends[1]!)]
      edgeConn := edgeConn ++ [k.id]
    let name (i : Nat) : String := tbl[i]?.getD "?"
    for k in conns do
      if plain.contains k.id then continue
      for e in [k.e1, k.e2] do
        if isJ e && !effJ.contains e then
          fails := fails.push ⟨"attached-to-deleted-junction", s!"step {s}: connector {k.id} ({k.e1} -> {k.e2}) is attached to junction {e}, which {if juncRaw.contains (idNum s (e.drop 1).toString) then "the router reported as deleted in this transaction (it is freed by the next one)" else "is not in the router"}"⟩
    -- ---------------------------------------------------------------- per hyperedge: tree with the same terminals
    let mut covered : List Nat := []
    let mut comps : List (List Nat) := []
    let mut h := 0
    for terms in hedges do
      let tIdx : List Nat := terms.map (fun t => (tbl.findIdx? (· == t)).getD 0)
      let missing := terms.filter (fun t => !listed.contains ((tbl.findIdx? (· == t)).getD 0))
      if !missing.isEmpty then
        fails := fails.push ⟨"terminal-dropped", s!"step {s} hyperedge {h}: no connector is attached to terminal(s) {missing}"⟩
      match tIdx with
      | [] => pure ()
      | t0 :: _ =>
        let t0 := (tIdx.find? (fun t => listed.contains t)).getD t0
        let comp := component edges t0
        let verts := comp.filter (fun v => listed.contains v)
        let es := edges.filter (fun e => comp.contains e.1 || comp.contains e.2)
        -- the proven check, against the full terminal set the hyperedge had before
        let ok := isTreeWithLeaves es verts tIdx
        stats := bumpStats stats "hyperedge.checks" 1
        stats := bumpStats stats s!"hyperedge.size.{min (es.length / 4 * 4) 24}" 1
        if !ok then
          -- diagnostics (wording only; the verdict above is the proven checker's)
          let mut explained := false
          let deadEnds := comp.filter (fun v => !listed.contains v)
          if !deadEnds.isEmpty then explained := true     -- reported above as attached-to-deleted-junction
          let unreached := tIdx.filter (fun t => !comp.contains t)
          if !unreached.isEmpty then
            explained := true
            fails := fails.push ⟨"disconnected", s!"step {s} hyperedge {h}: terminals {unreached.map name} are not connected to {name t0}"⟩
          let badLeaves := verts.filter (fun v => deg es v == 1 && !tIdx.contains v && isJ (name v))
          if !badLeaves.isEmpty then
            explained := true
            -- sub-fingerprint: the improver split a junction in THIS transaction, and the new junction
            -- carries nothing but the new bridging connector (the old connectors were not re-attached)
            let connsAt (v : Nat) : List String :=
              ((edges.zip edgeConn).filter (fun (e, _) => e.1 == v || e.2 == v)).map (·.2)
            let fresh (v : Nat) : Bool := impNewJ.contains ((name v).drop 1).toString &&
                                          (connsAt v).all (fun k => impNewC.contains k)
            for v in badLeaves do
              if fresh v then splitLeft := splitLeft ++ [name v]
            let split := badLeaves.all (fun v => fresh v || splitLeft.contains (name v))
            let kind := if split then "dangling-junction[new-split-junction]" else "dangling-junction"
            fails := fails.push ⟨kind, s!"step {s} hyperedge {h}: junction(s) {badLeaves.map name} have a single connector (a leaf that is not a terminal){if split then "; each was created by the improver's junction split (in this or an earlier transaction) and has carried only the new bridging connector since" else ""}"⟩
          let otherT := verts.filter (fun v => isT (name v) && !tIdx.contains v)
          if !otherT.isEmpty then
            explained := true
            fails := fails.push ⟨"hyperedges-merged", s!"step {s} hyperedge {h}: reaches foreign terminal(s) {otherT.map name}"⟩
          let nonLeafT := tIdx.filter (fun t => deg es t != 1 && comp.contains t)
          if !nonLeafT.isEmpty then
            explained := true
            fails := fails.push ⟨"cycle", s!"step {s} hyperedge {h}: terminal(s) {nonLeafT.map name} carry {nonLeafT.map (deg es)} connectors"⟩
          if deadEnds.isEmpty && unreached.isEmpty && es.length + 1 != verts.length then
            explained := true
            fails := fails.push ⟨"cycle", s!"step {s} hyperedge {h}: {es.length} connectors on {verts.length} vertices (cycle, parallel or self-loop connector)"⟩
          let loops := es.filter (fun e => e.1 == e.2)
          if !loops.isEmpty then
            explained := true
            fails := fails.push ⟨"cycle", s!"step {s} hyperedge {h}: self-loop connector(s) on {loops.map (fun e => name e.1)}"⟩
          let free := verts.filter (fun v => (name v).startsWith "free-end")
          if !free.isEmpty then explained := true     -- already reported as unattached-end
          if !explained then
            fails := fails.push ⟨"cycle", s!"step {s} hyperedge {h}: structure rejected by isTreeWithLeaves: edges={es} verts={verts.map name}"⟩
        if !disjoint comp covered then
          fails := fails.push ⟨"hyperedges-merged", s!"step {s}: hyperedge {h} shares objects with an earlier hyperedge"⟩
        covered := covered ++ comp
        comps := comps ++ [comp]
      h := h + 1
    -- every live junction / hyperedge connector belongs to one of the hyperedges
    let orphans := listed.filter (fun v => !covered.contains v)
    if !orphans.isEmpty then
      let oj := orphans.filter (fun v => isJ (name v))
      let lonely := oj.filter (fun v => deg edges v == 0)
      if !lonely.isEmpty then
        fails := fails.push ⟨"orphan-object", s!"step {s}: live junction(s) {lonely.map name} without any connector, not reported deleted"⟩
      else
        fails := fails.push ⟨"disconnected", s!"step {s}: objects {orphans.map name} are not connected to the terminals of any hyperedge"⟩
    -- ---------------------------------------------------------------- routes
    let pins := stepLines c "pinpos" s
    let pinPts (t : String) : List (Rat × Rat) := Id.run do
      let mut r : List (Rat × Rat) := []
      for l in pins do
        if l[1]?.getD "" == t then
          let mut i := 2
          while i + 1 < l.size do
            match pt? l[i]! l[i+1]! with
            | some p => r := r ++ [p]
            | none => pure ()
            i := i + 2
      return r
    let routes := stepLines c "route" s
    let routePts (id : String) : List (Rat × Rat) := Id.run do
      let mut r : List (Rat × Rat) := []
      for l in routes do
        if l[1]?.getD "" == id then
          let mut i := 2
          while i + 1 < l.size do
            match pt? l[i]! l[i+1]! with
            | some p => r := r ++ [p]
            | none => pure ()
            i := i + 2
      return r
    let boxes := stepLines c "tbox" s
    let inBox (t : String) (p : Rat × Rat) : Bool :=
      boxes.any (fun l => l[1]?.getD "" == t &&
        (match nums? (l.extract 2 6) with
         | some v => v[0]! ≤ p.1 && p.1 ≤ v[2]! && v[1]! ≤ p.2 && p.2 ≤ v[3]!
         | none => false))
    let cheb (p q : Rat × Rat) : Rat := max (absRat (p.1 - q.1)) (absRat (p.2 - q.2))
    -- level 0 = exactly at the attached object's position (junction: position() or
    -- recommendedPosition(); terminal: position of a pin of that class);
    -- level 1 = at the object up to the documented slack (junction: within `junctionSlack` of it,
    -- orthogonal nudging runs after the hyperedge code and shifts end segments; terminal: on or
    -- inside the shape the pin belongs to); level 2 = somewhere else
    let endLevel (e : String) (p : Rat × Rat) : Nat :=
      if isJ e then
        match juncs.find? (fun j => "J" ++ j.id == e) with
        | some j => if p == j.rcm || p == j.pos then 0
                    else if cheb p j.rcm ≤ junctionSlack || cheb p j.pos ≤ junctionSlack then 1 else 2
        | none => 2
      else if isT e then (if (pinPts e).contains p then 0 else if inBox e p then 1 else 2)
      else 0
    for k in conns do
      if plain.contains k.id then continue
      match k.first, k.last with
      | some a, some b =>
        let fwd := max (endLevel k.e1 a) (endLevel k.e2 b)
        let rev := max (endLevel k.e1 b) (endLevel k.e2 a)
        let lvl := min fwd rev
        -- orientation: the better one; on a tie of the worse end, the one with the better other end
        let fwdBetter := fwd < rev || (fwd == rev && endLevel k.e1 a + endLevel k.e2 b ≤ endLevel k.e1 b + endLevel k.e2 a)
        if fwdBetter then stats := bumpStats stats "route.forward" 1
        else stats := bumpStats stats "route.reversed" 1
        if lvl == 0 then stats := bumpStats stats "route.ends-exact" 1
        else if lvl == 1 then stats := bumpStats stats "route.ends-within-slack" 1
        else
          let jinfo := juncs.filter (fun j => "J" ++ j.id == k.e1 || "J" ++ j.id == k.e2)
          let js := jinfo.map (fun j => s!"J{j.id}@({ratToString j.rcm.1},{ratToString j.rcm.2}) pos=({ratToString j.pos.1},{ratToString j.pos.2})")
          -- which end is off?  (in the better of the two orientations)
          let (pa, pb) := if fwdBetter then (a, b) else (b, a)
          let junctionEndOff := (isJ k.e1 && endLevel k.e1 pa == 2) || (isJ k.e2 && endLevel k.e2 pb == 2)
          -- Sub-fingerprints of the route-end defects the unmodified library shows.  Common part: the
          -- route's end segment at the off end is axis-parallel and the attached object's position R
          -- lies on the line through the route end E perpendicular to that segment (a final
          -- perpendicular piece E–R is missing or the end segment was shifted sideways).  Then one of
          --  [nudged-off-junction]                 junction end, |E−R| ≤ 2·junctionSlack (stacked nudging steps)
          --  [along-terminal-shape-edge]           the missing piece E–R runs on (within 1 of) the line of a
          --                                        side of the box of the terminal shape this connector attaches to
          --  [terminal-end-shifted-with-junction]  terminal end, and E−R equals the shift position() →
          --                                        recommendedPosition() of the connector's junction in that coordinate
          -- Anything else (short/overshooting along the route's own direction, off in both coordinates,
          -- a perpendicular gap that meets none of the three) keeps the plain kind.
          let pts := routePts k.id
          let pts := if fwdBetter then pts else pts.reverse
          let expected (e : String) : List (Rat × Rat) :=
            if isJ e then (match juncs.find? (fun j => "J" ++ j.id == e) with
                           | some j => [j.rcm, j.pos]
                           | none => [])
            else pinPts e
          let termEnds := [k.e1, k.e2].filter isT
          let juncShift : List (Rat × Rat) :=
            (juncs.filter (fun j => "J" ++ j.id == k.e1 || "J" ++ j.id == k.e2)).map (fun j => (j.rcm.1 - j.pos.1, j.rcm.2 - j.pos.2))
          let onEdgeX (x : Rat) : Bool := boxes.any (fun l => termEnds.contains (l[1]?.getD "") &&
            (match nums? (l.extract 2 6) with
             | some v => absRat (x - v[0]!) ≤ 1 || absRat (x - v[2]!) ≤ 1
             | none => false))
          let onEdgeY (y : Rat) : Bool := boxes.any (fun l => termEnds.contains (l[1]?.getD "") &&
            (match nums? (l.extract 2 6) with
             | some v => absRat (y - v[1]!) ≤ 1 || absRat (y - v[3]!) ≤ 1
             | none => false))
          --  [rerouted-junction-link-misses-final-piece]  junction-to-junction connector created by full
          --                                        rerouting in this very transaction (and then edited by the improver)
          let jjNow := isJ k.e1 && isJ k.e2 && reroutedNow.contains k.id
          -- p = route end, q = its neighbour on the route; result = name of the sub-fingerprint met
          let sub (e : String) (p q : Rat × Rat) : Option String :=
            if p.1 == q.1 && p.2 != q.2 then          -- vertical end segment: R must share y with E
              (expected e).findSome? (fun r =>
                if r.2 == p.2 && r.1 != p.1 then
                  if isJ e && absRat (r.1 - p.1) ≤ 2 * junctionSlack then some "nudged-off-junction"
                  else if jjNow then some "rerouted-junction-link-misses-final-piece"
                  else if onEdgeY p.2 then some "along-terminal-shape-edge"
                  else if isT e && juncShift.any (fun d => d.1 == p.1 - r.1 && d.1 != 0) then some "terminal-end-shifted-with-junction"
                  else none
                else none)
            else if p.2 == q.2 && p.1 != q.1 then     -- horizontal end segment: R must share x with E
              (expected e).findSome? (fun r =>
                if r.1 == p.1 && r.2 != p.2 then
                  if isJ e && absRat (r.2 - p.2) ≤ 2 * junctionSlack then some "nudged-off-junction"
                  else if jjNow then some "rerouted-junction-link-misses-final-piece"
                  else if onEdgeX p.1 then some "along-terminal-shape-edge"
                  else if isT e && juncShift.any (fun d => d.2 == p.2 - r.2 && d.2 != 0) then some "terminal-end-shifted-with-junction"
                  else none
                else none)
            else none
          let sub1 : Option String := if endLevel k.e1 pa != 2 then some "" else
            (match pts with
             | p :: q :: _ => sub k.e1 p q
             | _ => none) <|> (if isT k.e1 && rerouted.contains k.id then some "" else none)
          let sub2 : Option String := if endLevel k.e2 pb != 2 then some "" else
            (match pts.reverse with
             | p :: q :: _ => sub k.e2 p q
             | _ => none) <|> (if isT k.e2 && rerouted.contains k.id then some "" else none)
          let kind := if !junctionEndOff && rerouted.contains k.id then "rerouted-route-misses-terminal"
                      else match sub1, sub2 with
                        | some a1, some a2 =>
                          let nm := if a1 != "" then a1 else a2
                          if nm == "" then "route-end-mismatch" else s!"route-end-mismatch[{nm}]"
                        | _, _ => "route-end-mismatch"
          fails := fails.push ⟨kind, s!"step {s}: connector {k.id} ({k.e1} -> {k.e2}) route runs ({ratToString a.1},{ratToString a.2}) .. ({ratToString b.1},{ratToString b.2}); attached: {js} pins {(pinPts k.e1 ++ pinPts k.e2).map (fun p => s!"({ratToString p.1},{ratToString p.2})")}"⟩
      | _, _ =>
        fails := fails.push ⟨"empty-route", s!"step {s}: connector {k.id} ({k.e1} -> {k.e2}) has a display route of {k.n} points"⟩
    -- ---------------------------------------------------------------- next
    st := { conns := connIds, juncs := juncEff, pending := delJ.filter (fun j => juncRaw.contains j) }
    s := s + 1
  if (c.get "leak").size > 0 then
    fails := fails.push ⟨"leak", "LeakSanitizer reported a leak after this case's router was deleted (see harness stderr; C15 matter)"⟩
  match c.get1 "crash" with
  | some l =>
    let k := if fails.any (fun f => f.kind == "attached-to-deleted-junction") then "crash-after-attached-to-deleted-junction" else "crash"
    let text := " ".intercalate (l.extract 1 l.size).toList
    fails := fails.push ⟨k, s!"{text} — the library aborted inside transaction {nsteps + 1} (harness child exit status {l[0]?.getD "?"}); replay the case for the full report (C15 matter)"⟩
  | none =>
    if nsteps == 0 then
      fails := fails.push ⟨"parse", "no completed transaction in the case"⟩
  stats := bumpStats stats s!"steps.{nsteps}" 1
  if fails.isEmpty then
    return { verdict := .ok, nontrivial := nontrivial, stats := stats }
  else
    let sorted := fails.toList.mergeSort (fun a b => kindRank a.kind ≤ kindRank b.kind)
    let kinds := (sorted.map (·.kind)).eraseDups
    let first := sorted.head!
    for k in kinds do stats := bumpStats stats ("fail." ++ k) 1
    return { verdict := .specfail s!"{first.kind}: {first.msg} [all kinds: {kinds}; {fails.size} findings]",
             nontrivial := nontrivial, stats := stats }

/-- cases of the op-level correspondence (tags `ops-*`, `hook-*`) go to `Driver.C12Ops` -/
def dispatch (c : Case) : CaseResult :=
  if c.tag.startsWith "ops-" then Driver.C12Ops.checkOps c
  else
    let r1 := checkCase c
    -- stage dumps of HyperedgeImprover::execute (guarded hook) inside a scene case: a failure of the
    -- op-level replay takes precedence, so that a known scene-level finding cannot mask it
    if (c.get "hst").size == 0 then r1 else
    let r2 := Driver.C12Ops.checkOps c
    -- kinds the unmodified library is known to produce (ranked last in `kindOrder`)
    let libKinds := kindOrder.drop (kindRank "attached-to-deleted-junction")
    match r1.verdict, r2.verdict with
    | _, .ok => { r1 with stats := r1.stats ++ r2.stats }
    | .specfail m1, .diverge m2 =>
      -- a concrete failing input of an unexpected kind (crash, cycle, …) beats a mere divergence
      if libKinds.any (fun k => m1.startsWith (k ++ ":")) then
        { r2 with stats := r1.stats ++ r2.stats, nontrivial := r1.nontrivial }
      else { r1 with verdict := .specfail (m1 ++ " || also " ++ m2), stats := r1.stats ++ r2.stats }
    | _, _ => { r2 with stats := r1.stats ++ r2.stats, nontrivial := r1.nontrivial }

def run (_args : List String) : IO UInt32 :=
  runCases dispatch

end Driver.C12
