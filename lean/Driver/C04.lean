/-
Driver c04 (DESIGN.md section 6, C04): polyline routes are Euclidean shortest paths.
Per connector the driver builds the spec visibility graph itself (vertices: all shape corners, then
src, dst; edge iff the proven `segHitsInterior` says the segment enters no shape; weights = certified
sqrt enclosures), then
 * penalty 0: verifies the harness's potential and witness path with `Check.Potential.checkCert`
   (sound by Props/C04.checkCert_sound) ⇒ certified interval [lo, hi] ∋ optimum.  SPECFAIL if the
   implementation's route length is certainly > hi + 1e-6 (not shortest) or certainly < lo − 1e-6
   (shorter than any obstacle-avoiding path through the visibility graph).
 * penalty > 0: certifies the oracle's witness path (every leg an edge of the spec graph) and its cost
   length + penalty·bends as an upper bound of the optimum: SPECFAIL if the implementation's cost is
   certainly larger by more than 1e-6.  The lower bound (that the oracle path is optimal) is only
   compared (DIVERGE), not certified.
 * penalty > 0, classification of a "not minimal" failure: the harness dumps libavoid's OWN search space (vertices
   with their shape neighbours, enabled visibility edges) and, for the failing connector, a certificate for the
   optimum of length + penalty·bends over the admissible routes of that space ((vertex, previous vertex) states,
   moves filtered by the `validateBendPoint` model, collinear triples charged no bend as in `cost()`), verified by
   `Check.OwnGraph.checkOwn` (sound by Props/C04Own.checkOwn_sound).  Route dearer than the certified optimum of
   its own space ⇒ kind `search-not-minimal` (the A* search failed; strict).  Route optimal in its own space but
   dearer than the geometric optimum ⇒ the known kind `not-minimal` (graph pruned for Euclidean shortest paths).
 * A* model tie (classes that dump `as` / `oa` / `oh` / `pops`): the abstract search loop of Model/AStar.lean (Part 1:
   PENDING / DONE keyed on (vertex, previous vertex), in-place improvement of a queued node, `ANodeCmp` order, time
   stamps) is run on the polyline problem of Model/PolyAStar.lean (optimal under the per-graph consistency check by
   Props/C04AStar.poly_search_optimal) built from the dumped graph — edges in visList order, the skip rules of `search()` (edge we came along, foreign connector
   end points, `validateBendPoint`), step cost getDist + penalty · bends of `cost()`, h = euclideanDist to the
   target as dumped — and its DONE list is compared with the expansion order of the real search (the library's own
   DebugHandler tap: the prevNode chain of every popped node, from which g and f are recomputed here).  A difference
   between nodes of unequal f, a real trace that is not in non-decreasing order of f, or a different final cost is a
   DIVERGE (the open-list discipline of the C++ is not the model's); nodes of equal f may be taken in either order.
A rejected certificate is a DIVERGE (the harness oracle, not libavoid, is then wrong).
-/
import Driver.Proto
import AdaptaVerif.Check.Potential
import AdaptaVerif.Check.OwnGraph
import AdaptaVerif.Model.PolyAStar
namespace Driver.C04
open Driver AdaptaVerif.Num
open AdaptaVerif.Model.Geometry (Pt area2)
open AdaptaVerif.Check.Route AdaptaVerif.Check.Potential
open AdaptaVerif.Check.OwnGraph (OV mkSpace movesOf potTable checkOwn)

def tol : Rat := 1 / 1000000
def sqrtBits : Nat := 44

def ptsOf (v : Array Rat) : List Pt :=
  (List.range (v.size / 2)).map fun i => ⟨v[2*i]!, v[2*i+1]!⟩

def parsePolys (c : Case) (kw : String) : Option (List (Nat × List Pt)) :=
  (c.get kw).toList.mapM fun l => do
    let v ← nums? (l.extract 2 l.size)
    if v.size != 2 * nat! l[1]! then none
    pure (nat! l[0]!, ptsOf v)

def ptStr (p : Pt) : String := s!"({ratToString p.x},{ratToString p.y})"

/-- decimal rendering with 9 digits for messages -/
def dec (r : Rat) : String :=
  let neg := r < 0
  let a := if neg then -r else r
  let scaled := (a * 1000000000).floor.toNat
  let ip := scaled / 1000000000
  let fp := scaled % 1000000000
  let fs := toString fp
  let pad := String.ofList (List.replicate (9 - fs.length) '0')
  s!"{if neg then "-" else ""}{ip}.{pad}{fs}"

def lenLo (rt : List Pt) : Rat := polylineLenLo sqrtBits (rt.map fun p => (p.x, p.y))
def lenHi (rt : List Pt) : Rat := polylineLenHi sqrtBits (rt.map fun p => (p.x, p.y))

/-- number of bends of a polyline: interior points where the direction changes (not straight-on) -/
def bends : List Pt → Nat
  | a :: b :: c :: rest =>
    let straight := area2 a b c == 0 && (b.x - a.x) * (c.x - b.x) + (b.y - a.y) * (c.y - b.y) > 0
    (if straight then 0 else 1) + bends (b :: c :: rest)
  | _ => 0

/-- symmetric closure of the edges leaving vertex i -/
def bothWays (es : List WEdge) : List WEdge :=
  es ++ es.map fun e => { e with u := e.v, v := e.u }


/-- the dumped own search space of the case: vertices and undirected enabled edges -/
def parseOwn (c : Case) : Option (Array OV × List (Nat × Nat)) := do
  let ovs ← (c.get "ov").mapM fun l => do
    let x ← num? (l[1]?.getD ""); let y ← num? (l[2]?.getD "")
    let pr := int! (l[3]?.getD "-1"); let nx := int! (l[4]?.getD "-1")
    pure ({ p := ⟨x, y⟩, prev := if pr < 0 then none else some pr.toNat, next := if nx < 0 then none else some nx.toNat } : OV)
  let es := (c.get "oe").toList.map fun l => (nat! (l[0]?.getD "0"), nat! (l[1]?.getD "0"))
  pure (ovs, es)

/-- certified enclosure [lo, hi] of the optimum over the admissible routes of libavoid's own search space for
    connector `id`, from the harness certificate; `none` if there is none or it is rejected -/
def ownOptimum (c : Case) (id : Nat) (penalty : Rat) (src dst : Pt) : Except String (Rat × Rat) := do
  let some (ovs, und) := parseOwn c | throw "unparsable own-graph dump"
  let some ol := (c.get "own").find? (fun w => nat! w[0]! == id) | throw "no own-graph certificate"
  let s := nat! ol[1]!; let t := nat! ol[2]!
  let n := ovs.size
  if !(s < n && t < n) then throw "own-graph endpoints out of range"
  if (ovs[s]!).p.x != src.x || (ovs[s]!).p.y != src.y || (ovs[t]!).p.x != dst.x || (ovs[t]!).p.y != dst.y then
    throw "own-graph endpoints are not the connector's"
  if und.any (fun uv => !(uv.1 < n && uv.2 < n)) then throw "own-graph edge out of range"
  -- moves: never into a connector endpoint other than the target (endpoints have no shape neighbours)
  let into : Nat → Bool := fun w => w == t || (ovs[w]!).prev.isSome
  let S := mkSpace ovs (movesOf ovs sqrtBits into und) penalty
  let some wl := (c.get "owit").find? (fun w => nat! w[0]! == id) | throw "no own-graph witness"
  let wit : List Nat := (wl.extract 2 wl.size).toList.map nat!
  let some pl := (c.get "opot").find? (fun w => nat! w[0]! == id) | throw "no own-graph potential"
  let some dflt := num? (pl[1]?.getD "") | throw "unparsable own-graph potential"
  let cnt := nat! (pl[2]?.getD "0")
  let mut tbl : Array Rat := Array.replicate (n * (n + 1)) dflt
  for i in [0:cnt] do
    let v := nat! (pl[3 + 3*i]?.getD "0"); let p := nat! (pl[4 + 3*i]?.getD "0")
    let some x := num? (pl[5 + 3*i]?.getD "") | throw "unparsable own-graph potential"
    if v < n && p ≤ n then tbl := tbl.set! (v * (n + 1) + p) x
  match checkOwn S (potTable n tbl) s t wit with
  | some r => pure r
  | none => throw "own-graph certificate rejected (potential infeasible on the own search space, or witness not an admissible route of it)"

/-- run the A* model for connector `id` and compare with the real search; `none` = equal (or nothing dumped) -/
def astarTie (c : Case) (id : Nat) (penalty : Rat) : Option String × List (String × Nat) := Id.run do
  let some al := (c.get "as").find? (fun w => nat! w[0]! == id) | return (none, [])
  let some (ovs, _) := parseOwn c | return (some "A* tie: unparsable own-graph dump", [])
  let n := ovs.size
  let s := nat! al[1]!; let t := nat! al[2]!
  if !(s < n && t < n) then return (some "A* tie: endpoints out of range", [])
  let S0 := mkSpace ovs [] penalty
  let mut adj : Array (List (Nat × Rat)) := Array.replicate n []
  for l in c.get "oa" do
    let v := nat! l[0]!; let k := nat! l[1]!
    let mut es : List (Nat × Rat) := []
    for i in [0:k] do
      let some d := num? (l[3 + 2*i]?.getD "") | return (some "A* tie: unparsable edge length", [])
      es := es ++ [(nat! (l[2 + 2*i]?.getD "0"), d)]
    if v < n then adj := adj.set! v es
  let some hl := (c.get "oh").find? (fun w => nat! w[0]! == id) | return (some "A* tie: no heuristic values", [])
  let some hs := nums? (hl.extract 1 hl.size) | return (some "A* tie: unparsable heuristic values", [])
  -- the real search: one prevNode chain per popped node; its g and f are recomputed here from the chain
  let mut implR : List (Nat × Option Nat × Rat) := []
  for l in c.get "pop" do
    if nat! l[0]! != id then continue
    let len := nat! l[1]!
    let ch : List Int := (List.range len).map fun i => int! (l[2 + i]?.getD "-2")
    if ch.any (· < 0) || ch.isEmpty then return (some s!"A* tie: a popped node of conn {id} is not a vertex of the dumped graph", [])
    let chain : List Nat := ch.map Int.toNat                                    -- node first, source last
    if chain.any (· ≥ n) then return (some "A* tie: pop chain out of range", [])
    let fwd := chain.reverse
    let mut g : Rat := 0
    let mut bad := false
    let arr := fwd.toArray
    for i in [1:arr.size] do
      let u := arr[i-1]!; let v := arr[i]!
      match (adj.getD u []).find? (·.1 == v) with
      | some (_, d) => g := g + d
      | none => bad := true
      if i ≥ 2 then g := g + penalty * (S0.bend arr[i-2]! u v : Nat)
    if bad then return (some s!"A* search of conn {id}: a popped node's chain uses a move that is not an edge of the dumped graph", [])
    let v0 := chain.head!
    let f := g + (if v0 == t then 0 else hs.getD v0 0)
    implR := implR ++ [(v0, chain[1]?, f)]
  if implR.isEmpty then return (some s!"A* tie: no pop trace for conn {id}", [])
  let impl : List (Nat × Option Nat) := implR.map fun x => (x.1, x.2.1)
  -- A* invariant on the real trace, independent of the model run: nodes are popped in non-decreasing f order
  -- (consistent heuristic; `ANodeCmp` treats differences up to 1e-7 as ties)
  let fsI := implR.map (·.2.2)
  let mono := (fsI.zip (fsI.drop 1)).all fun (a, b) => decide (a ≤ b + tol)
  let G : AdaptaVerif.Model.PolyAStar.PolyGraph :=
    { S := S0, adj := adj, hs := hs, corner := fun w => (ovs[w]!).prev.isSome, src := s, tar := t,
      eps := AdaptaVerif.Model.AStar.epsDouble }
  match AdaptaVerif.Model.PolyAStar.run G with
  | .found b done =>
    let model : List (Nat × Option Nat) := done.map fun nd => (nd.v, nd.pv)
    -- hypothesis of Props/C04AStar.poly_search_optimal on the dumped doubles (statistics only: a rounded triangle
    -- inequality can fail by an ulp on collinear triples)
    let st := [("astar.run", 1), ("astar.explored", done.length), ("astar.heuristic-consistent", if AdaptaVerif.Model.PolyAStar.consistent G then 1 else 0)]
    let shv := fun (v : Nat) (pv : Option Nat) => s!"{ptStr (ovs[v]!).p} via {match pv with | some p => ptStr (ovs[p]!).p | none => "-"}"
    if !mono then
      let k := ((fsI.zip (fsI.drop 1)).takeWhile fun (a, b) => decide (a ≤ b + tol)).length
      let (v, pv, f) := implR[k+1]?.getD (0, none, 0)
      return (some s!"A* search of conn {id}: nodes are not popped in order of f: pop {k+1} is {shv v pv} with f = {dec f} after a node with f = {dec (fsI[k]?.getD 0)} (the open list is not ordered; the model pops {match model[k+1]? with | some (a, b) => shv a b | none => "nothing"} there)", st)
    if impl != model then
      let k := ((impl.zip model).takeWhile fun (a, b) => a == b).length
      -- a difference between nodes of (numerically) equal f is a tie the doubles of the C++ and the exact sums of the
      -- model may break differently: not a divergence
      let fa := (implR[k]?.map (·.2.2))
      let fb := (done[k]?.map fun nd => nd.g + nd.h)
      match fa, fb, implR[k]?, done[k]? with
      | some fa, some fb, some (v, pv, _), some nd =>
        if AdaptaVerif.Model.AStar.absR (fa - fb) ≤ tol / 1000 then return (none, st ++ [("astar.tie-stop", 1)])
        return (some s!"A* search of conn {id}: expansion order differs from the model at pop {k} (of {impl.length} C++ / {model.length} model): C++ pops {shv v pv} (f = {dec fa}), model pops {shv nd.v nd.pv} (f = {dec fb})", st)
      | _, _, _, _ =>
        return (some s!"A* search of conn {id}: the real search pops {impl.length} nodes, the model {model.length}", st)
    let gI := (implR.getLast?.map (·.2.2)).getD 0
    if AdaptaVerif.Model.AStar.absR (gI - b.g) > tol / 1000 then
      return (some s!"A* search of conn {id}: same expansion order but cost {dec gI} instead of the model's {dec b.g}", st)
    return (none, st ++ [("astar.pop-trace-equal", 1)])
  | .noPath => return (some s!"A* model of conn {id}: no path", [])
  | .outOfFuel => return (some s!"A* model of conn {id}: out of fuel", [])

def run1 (c : Case) : CaseResult := Id.run do
  if c.tag == "empty" then return { verdict := .ok, nontrivial := false }
  let some shapesI := parsePolys c "shape" | return { verdict := .diverge "unparsable shape" }
  let some displays := parsePolys c "display" | return { verdict := .diverge "unparsable display route" }
  let shapes : List Poly := shapesI.map (·.2)
  let corners : List Pt := shapes.foldl (fun acc s => acc ++ s) []
  let nC := corners.length
  let penalty : Rat := match c.get1 "cfg" with
    | some l => (num? (l[3]?.getD "0")).getD 0
    | none => 0
  -- corner–corner edges once per case
  let cornerEdges := specGraph shapes [] sqrtBits corners
  let mut stats : List (String × Nat) := [("shapes", shapes.length), ("corners", nC), ("cornerEdges", cornerEdges.length)]
  let mut nontrivial := false
  let mut fails : List (Nat × Verdict) := []
  for l in c.get "conn" do
    let some v := nums? (l.extract 1 5) | return { verdict := .diverge "unparsable conn" }
    let id := nat! l[0]!
    let src : Pt := ⟨v[0]!, v[1]!⟩
    let dst : Pt := ⟨v[2]!, v[3]!⟩
    let some (_, rt) := displays.find? (·.1 == id) | return { verdict := .specfail s!"conn {id}: no display route" }
    let pts := corners ++ [src, dst]
    -- edges of the two endpoints (to every vertex), both directions
    let eS := edgesFrom shapes [] sqrtBits nC src pts 0
    let eD := edgesFrom shapes [] sqrtBits (nC + 1) dst pts 0
    let edges := cornerEdges ++ bothWays eS ++ bothWays (eD.filter fun e => e.v != nC)
    let some wl := (c.get "wit").find? (fun w => nat! w[0]! == id) | return { verdict := .diverge s!"conn {id}: no witness" }
    let wit : List Nat := (wl.extract 2 wl.size).toList.map nat!
    let witPts : List Pt := wit.map fun i => pts.getD i ⟨0, 0⟩
    let implLo := lenLo rt
    let implHi := lenHi rt
    let nb := bends rt
    if rt.length > 2 then nontrivial := true
    stats := bumpStats stats s!"bends{min nb 4}" 1
    -- A* model tie
    match astarTie c id penalty with
    | (some msg, st) =>
      for (k, v) in st do stats := bumpStats stats k v
      fails := (10, .diverge msg) :: fails
    | (none, st) => for (k, v) in st do stats := bumpStats stats k v
    if penalty == 0 then
      let some cl := (c.get "cert").find? (fun w => nat! w[0]! == id) | return { verdict := .diverge s!"conn {id}: no certificate" }
      let some pot := nums? (cl.extract 2 cl.size) | return { verdict := .diverge s!"conn {id}: unparsable certificate" }
      match checkCert edges pot.toList nC (nC + 1) wit with
      | none =>
        fails := (20, .diverge s!"conn {id}: oracle certificate rejected (potential infeasible on the spec graph, or witness not a path of it)") :: fails
      | some (lo, hi) =>
        stats := bumpStats stats "certified" 1
        if hi - lo > tol / 10 then
          fails := (21, .diverge s!"conn {id}: certified interval too wide [{dec lo},{dec hi}]") :: fails
        if implLo > hi + tol then
          fails := (0, .specfail s!"not-shortest conn {id}: route length ≥ {dec implLo} but a certified obstacle-free path of length ≤ {dec hi} exists (optimum ∈ [{dec lo},{dec hi}]); route has {rt.length} points, witness {wit.length}") :: fails
        else if implHi < lo - tol then
          fails := (1, .specfail s!"shorter-than-optimum conn {id}: route length ≤ {dec implHi} but every path in the spec visibility graph has length ≥ {dec lo} (route cuts through an obstacle or leaves the graph)") :: fails
    else
      -- certify the witness as an upper bound: all legs are edges of the spec graph
      if wit.head? != some nC || wit.getLast? != some (nC + 1) then
        fails := (20, .diverge s!"conn {id}: witness does not join src and dst") :: fails
      else
        match pathHi edges wit with
        | none => fails := (20, .diverge s!"conn {id}: oracle witness is not a path of the spec graph") :: fails
        | some whi =>
          stats := bumpStats stats "witnessCertified" 1
          let witCostHi := whi + penalty * (bends witPts : Nat)
          let implCostLo := implLo + penalty * (nb : Nat)
          let implCostHi := implHi + penalty * (nb : Nat)
          if implCostLo > witCostHi + tol then
            -- in the aligned-sides class the optimum is the taut route along the common side line, which
            -- libavoid finds; the message prefix keeps that class out of the known "not-minimal" finding
            let pre := if c.tag.startsWith "aligned-sides" then "aligned-not-minimal"
              else if c.tag.startsWith "fractional" then "fractional-not-minimal"
              -- edit histories: a route that detours although the straight segment is free (certified) is not
              -- the known penalty finding (which is about trading bends against length)
              else if c.tag.startsWith "edit-history" && wit.length == 2 then "history-not-minimal" else "not-minimal"
            let geo := s!"route cost length+penalty·bends ≥ {dec implCostLo} ({nb} bends) but a certified obstacle-free path of cost ≤ {dec witCostHi} ({bends witPts} bends) exists"
            -- is the route at least the optimum of the space the search itself explores?
            match ownOptimum c id penalty src dst with
            | .error e =>
              stats := bumpStats stats "ownCertMissing" 1
              fails := (19, .diverge s!"conn {id} (penalty {dec penalty}): {geo}; not classified: {e}") :: fails
            | .ok (olo, ohi) =>
              stats := bumpStats stats "ownCertified" 1
              if implCostLo > ohi + tol then
                stats := bumpStats stats "searchNotMinimal" 1
                fails := (0, .specfail s!"search-not-minimal conn {id} (penalty {dec penalty}): route cost ≥ {dec implCostLo} ({nb} bends) exceeds the certified optimum ∈ [{dec olo},{dec ohi}] of libavoid's own search space (its visibility graph, moves admitted by validateBendPoint): the A* search did not return the cheapest route it could reach; {geo}") :: fails
              else if implCostHi < olo - tol then
                fails := (18, .diverge s!"conn {id} (penalty {dec penalty}): route cost ≤ {dec implCostHi} is below the certified optimum ≥ {dec olo} of libavoid's own search space (route is not an admissible route of the dumped graph)") :: fails
              else
                stats := bumpStats stats "optimalInOwnGraph" 1
                fails := (0, .specfail s!"{pre} conn {id} (penalty {dec penalty}): {geo}; the route is optimal in libavoid's own (pruned) search space, optimum ∈ [{dec olo},{dec ohi}]") :: fails
          else
            -- lower side: only compared with the oracle's (unverified) optimum
            let witCostLo := polylineLenLo sqrtBits (witPts.map fun p => (p.x, p.y)) + penalty * (bends witPts : Nat)
            if implCostHi < witCostLo - tol then
              -- a route cheaper than the oracle optimum that provably enters a shape is the cut-through of the
              -- naive visibility test (same finding as "shorter-than-optimum" at penalty 0): rigorous SPECFAIL
              let hit := (legs rt).findSome? fun l => (firstHit tol [] shapes 0 l).map fun i => (i, l)
              match hit with
              | some (i, l) =>
                -- structural signature of the known blind spot of the visibility tests (Lee's sweep, the naive test and
                -- newBlockingShape alike accept a segment that passes exactly through two vertices of a shape, e.g. along a
                -- rectangle's diagonal or through a corner and along a side): the entering leg contains >= 2 vertices of the shape
                let onLeg (v : Pt) : Bool :=
                  area2 l.1 l.2 v == 0 &&
                  min l.1.x l.2.x ≤ v.x && v.x ≤ max l.1.x l.2.x && min l.1.y l.2.y ≤ v.y && v.y ≤ max l.1.y l.2.y
                let nOn := ((shapes[i]?.getD []).filter onLeg).length
                let sig := if nOn ≥ 2 then " [through-two-corners]" else ""
                fails := (1, .specfail s!"shorter-than-optimum conn {id} (penalty {dec penalty}): route cost ≤ {dec implCostHi} is below the oracle optimum ≥ {dec witCostLo} and the route enters the interior of shape {i+1} (proven checker){sig}") :: fails
              | none =>
              fails := (22, .diverge s!"conn {id} (penalty {dec penalty}): route cost ≤ {dec implCostHi} is below the oracle optimum ≥ {dec witCostLo} (oracle not optimal, or route leaves the spec graph)") :: fails
  match fails.foldl (fun acc f => match acc with
      | none => some f
      | some g => if f.1 < g.1 then some f else some g) none with
  | some f => return { verdict := f.2, nontrivial := nontrivial, stats := stats }
  | none => return { verdict := .ok, nontrivial := nontrivial, stats := stats }

def run (_args : List String) : IO UInt32 := runCases run1

end Driver.C04
