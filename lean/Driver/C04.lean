import Driver.Proto
namespace Driver.C04

def run (_args : List String) : IO UInt32 := do
  IO.eprintln "driver mode c04: not implemented yet"
  return 2

end Driver.C04
