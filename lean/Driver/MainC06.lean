import Driver.C06

def main (args : List String) : IO UInt32 := Driver.C06.run args
