/-
Driver section `kind planx` of mode c19 (harness/c19_planarise.h): exact tie of
`dialect::OrthoPlanariser::planarise` with `AdaptaVerif.Model.Planarise.planarise`, and the clauses of the
property on the library's output.

Tie.  The model is run on the routed input (`pn`/`pe`) and compared, stage by stage, with what the library produced:
  bends   — `Edge::getBendNodes()` of every edge (`pb`)                               (buildUniqueBendPoints)
  ofree   — node set and directed edge multiset of m_overlapFreeGraph (`on`/`oe`)     (computeNodeGroups)
  planar  — node positions and directed edge multiset of the planar graph (`qn`/`qe`) (computeCrossings)
New nodes are renamed by rank of their library id (ids come from one global counter, so id order = creation
order; the model numbers new nodes in creation order).  A difference is DIVERGE — unless the case is *ambiguous
as coded* for that stage: the library's result then depends on `std::sort`'s treatment of ties / of a comparator
that is not a strict weak order, on heap addresses (`std::set<Event*>`), or on the rounding of the running average
in `partition` (`Check.Planarise.ambiguity`); such cases are only counted (`planx.ambiguous*`).  The bend stage
has no such dependence and is always compared.  Cases carrying a `witness` line (the closed witnesses of
Props/C19Planarise.lean) must tie exactly.

Spec (SPECFAIL, reported before a tie difference because it is a concrete failing input):
  * always: every original node is present at its position (`planarise_preserves_nodes`);
  * if the segment list the LIBRARY hands to computeCrossings (one EdgeSegment per edge of its overlap-free graph)
    satisfies `goodB` (= hypothesis `Good` of the sweep theorems, `goodB_sound`): the crossing nodes are exactly the
    points (v.cc, h.cc) with  h.lo < v.cc ≤ h.hi, v.lo < h.cc < v.hi  (`crossings_sound/_complete`), no two edges of the
    planar graph cross (`sweep_no_crossing`), every edge of the overlap-free graph is connected through
    crossing nodes only (`sweep_preserves_connections`);
  * if the route segments the model builds from the input satisfy `goodAB` (= `GoodA`, `goodAB_sound`): the library's
    overlap-free graph must satisfy `goodB` (`overlap_removal_good`);
  * if the input satisfies `sepInputB` (= `SepInput ∧ NoCentreInside`, `sepInputB_sound`: orthogonal centre-to-centre
    routes, distinct coordinates more than 1 apart, no route through a third node's centre): no two edges of the result
    properly cross (`planarise_no_crossing_of_input`) and every original adjacency is realised by a chain of new nodes
    (`planarise_preserves_nodes_and_connections_partial`).
-/
import Driver.Proto
import AdaptaVerif.Model.Planarise
import AdaptaVerif.Check.Planarise
namespace Driver.C19Planarise
open Driver AdaptaVerif.Num AdaptaVerif.Model.Planarise AdaptaVerif.Check.Planarise

def pt? (a b : String) : Option Pt := do
  let x ← num? a; let y ← num? b; pure ⟨x, y⟩

def pts? : List String → Option (List Pt)
  | a :: b :: rest => do let p ← pt? a b; let r ← pts? rest; pure (p :: r)
  | [] => some []
  | _ => none

def nodes3? : List String → Option (List Node)
  | i :: a :: b :: rest => do let p ← pt? a b; let r ← nodes3? rest; pure (⟨nat! i, p⟩ :: r)
  | [] => some []
  | _ => none

def parseInput (c : Case) : Option Input := do
  let nodes ← (c.get "pn").toList.mapM (fun l => do let p ← pt? l[1]! l[2]!; pure (Node.mk (nat! l[0]!) p))
  let look (i : Nat) : Option Node := nodes.find? (fun n => n.id == i)
  let edges ← (c.get "pe").toList.mapM (fun l => do
    let s ← look (nat! l[0]!); let t ← look (nat! l[1]!)
    let r ← pts? (l.extract 2 l.size).toList
    pure (EdgeIn.mk s t r))
  pure { nodes := nodes, edges := edges }

def leNat2 (a b : Nat × Nat) : Bool := a.1 < b.1 || (a.1 == b.1 && a.2 ≤ b.2)
def sortPairs (l : List (Nat × Nat)) : List (Nat × Nat) := l.mergeSort leNat2
def sortNodes (l : List Node) : List Node := l.mergeSort (fun a b => a.id ≤ b.id)
def sortNat (l : List Nat) : List Nat := l.mergeSort (fun a b => a ≤ b)

def showPt (p : Pt) : String := s!"({p.x},{p.y})"
def showNodes (l : List Node) : String := " ".intercalate (l.map (fun n => s!"{n.id}@{showPt n.p}"))

def checkPlanX (c : Case) : CaseResult := Id.run do
  let some inp := parseInput c | return { verdict := .diverge "planx: unparsable input" }
  let out := planarise inp
  let origIds := inp.nodes.map (·.id)
  let base := firstFreeId inp.nodes
  -- implementation's observables
  let some qn := (c.get "qn").toList.mapM (fun l => do let p ← pt? l[1]! l[2]!; pure (Node.mk (nat! l[0]!) p))
    | return { verdict := .specfail "planarise: non-finite node position" }
  let some onN := (c.get "on").toList.mapM (fun l => do let p ← pt? l[1]! l[2]!; pure (Node.mk (nat! l[0]!) p))
    | return { verdict := .specfail "planarise: non-finite node position (overlap-free graph)" }
  let newIds := sortNat ((qn.map (·.id)).filter (fun i => !origIds.contains i))
  let ren (i : Nat) : Nat := if origIds.contains i then i else
    match newIds.idxOf? i with
    | some r => base + r
    | none => 1000000 + i       -- a node of an earlier stage that vanished from the planar graph
  let renN (n : Node) : Node := ⟨ren n.id, n.p⟩
  let isWitness := (c.get1 "witness").isSome     -- fixed witnesses of Props/C19Planarise: the tie must be exact
  let amb0 := ambiguity inp
  let amb : Ambiguity := if isWitness then {} else amb0
  let mut stats : List (String × Nat) := [("planx.nodes", inp.nodes.length), ("planx.edges", inp.edges.length),
      ("planx.crossNodes", out.crossNodes.length), ("planx.bendNodes", out.bendNodes.length)]
  if amb.any then stats := ("planx.ambiguous", 1) :: stats
  if amb.fragile then stats := ("planx.ambiguous.partitionRounding", 1) :: stats
  if amb.groupTies then stats := ("planx.ambiguous.groupTies", 1) :: stats
  if amb.activeOrder then stats := ("planx.ambiguous.activeOrder", 1) :: stats
  let sep := sepInputB inp        -- hypothesis of the raw-input theorems (`sepInputB_sound`)
  if sep then stats := ("planx.separated", 1) :: stats
  -- 0. original nodes present (promised unconditionally)
  match inp.nodes.find? (fun n => !(qn.any (fun q => q.id == n.id && q.p == n.p))) with
  | some v => return { verdict := .specfail s!"planarise: original node {v.id} missing or moved", stats := stats }
  | none => pure ()
  -- tie, stage by stage; a difference is excused only by an ambiguity that can influence that stage
  let implBends : Option (List (List Node)) := (c.get "pb").toList.mapM (fun l => nodes3? (l.extract 1 l.size).toList)
  let mut tieFail : Option String := none     -- reported (DIVERGE) after the spec checks, which give concrete failing inputs
  match implBends with
  | none => tieFail := some "bends unparsable"
  | some ib =>
    let ib := ib.map (·.map renN)
    if ib != out.bends then
      tieFail := some s!"bends: impl {ib.map showNodes} model {out.bends.map showNodes}"
  let mut diff : Option String := none
  -- overlap-free graph (partition + group sort)
  let mN := sortNodes (inp.nodes ++ out.bendNodes)
  let iN := sortNodes (onN.map renN)
  let mE := sortPairs (out.ofEdges.map (fun e => (e.1.id, e.2.id)))
  let iOE := sortPairs ((c.get "oe").toList.map (fun l => (ren (nat! l[0]!), ren (nat! l[1]!))))
  if mN != iN then diff := some s!"overlap-free nodes: impl {showNodes iN} model {showNodes mN}"
  else if mE != iOE then diff := some s!"overlap-free edges: impl {iOE} model {mE}"
  match diff with
  | some d =>
    if !(amb.fragile || amb.groupTies) && tieFail.isNone then tieFail := some d
  | none => pure ()
  -- planar graph
  let iE := sortPairs ((c.get "qe").toList.map (fun l => (ren (nat! l[0]!), ren (nat! l[1]!))))
  if diff.isNone then
    let mN := sortNodes out.nodes
    let iN := sortNodes (qn.map renN)
    let mE := sortPairs out.edges
    if mN != iN then diff := some s!"planar nodes: impl {showNodes iN} model {showNodes mN}"
    else if mE != iE then diff := some s!"planar edges: impl {iE} model {mE}"
  match diff with
  | some d =>
    if amb.any then stats := ("planx.ambiguousMismatch", 1) :: stats
    else if tieFail.isNone then tieFail := some d
  | none => stats := ("planx.tieExact", 1) :: stats
  -- spec checks on the implementation's output, under the theorems' hypothesis
  -- crossings_sound / crossings_complete on the segment list the LIBRARY hands to computeCrossings
  -- (one EdgeSegment per edge of its overlap-free graph), whenever that list satisfies `Good`
  let qnR := qn.map renN
  let onIds := onN.map (·.id)
  let implCross := (qn.filter (fun n => !onIds.contains n.id)).map (·.p)
  let implSegs := (c.get "oe").toList.filterMap (fun l =>
    match onN.find? (fun n => n.id == nat! l[0]!), onN.find? (fun n => n.id == nat! l[1]!) with
    | some u, some v => some (mkSeg u v) | _, _ => none)
  -- overlap_removal_good: if the route segments satisfy `GoodA`, the overlap-free graph must satisfy `Good`
  let goodA := goodAB (segsAOf inp)
  if goodA then stats := ("planx.goodRouteSegs", 1) :: stats
  if goodA && !goodB implSegs then
    return { verdict := .specfail "planarise: the overlap-free graph is not axis-parallel / separated / overlap-free although the route segments are (overlap_removal_good)", stats := stats }
  if goodB implSegs then
    stats := ("planx.goodSegs", 1) :: stats
    let want := specCrossings implSegs
    match want.find? (fun p => !implCross.contains p) with
    | some p => return { verdict := .specfail s!"planarise: crossing at {showPt p} of the overlap-free graph got no crossing node (crossings_complete)", stats := stats }
    | none => pure ()
    match implCross.find? (fun p => !want.contains p) with
    | some p => return { verdict := .specfail s!"planarise: crossing node at {showPt p} where no horizontal and vertical edge cross (crossings_sound)", stats := stats }
    | none => pure ()
    if implCross.length != want.length then
      return { verdict := .specfail s!"planarise: {implCross.length} crossing nodes for {want.length} crossing points", stats := stats }
    -- sweep_no_crossing / planarise_preserves_nodes_and_connections_partial under the same hypothesis:
    -- no two edges of the planar graph cross, every edge of the overlap-free graph is still connected through
    -- crossing nodes only
    let posI (i : Nat) : Option Pt := (qn.find? (fun n => n.id == i)).map (·.p)
    let qeRaw := (c.get "qe").toList.map (fun l => (nat! l[0]!, nat! l[1]!))
    let segsI := qeRaw.filterMap (fun e => match posI e.1, posI e.2 with
      | some a, some b => some (a, b) | _, _ => none)
    match firstProperCross segsI with
    | some (s, t) => return { verdict := .specfail s!"planarise: edges {showPt s.1}-{showPt s.2} and {showPt t.1}-{showPt t.2} cross (sweep_no_crossing)", stats := stats }
    | none => pure ()
    match (c.get "oe").toList.find? (fun l => !chainB onIds qeRaw (nat! l[0]!) (nat! l[1]!)) with
    | some l => return { verdict := .specfail s!"planarise: overlap-free edge {l[0]!}-{l[1]!} not connected through crossing nodes (sweep_preserves_connections)", stats := stats }
    | none => pure ()
  if sep then
    let pos (i : Nat) : Option Pt := (qnR.find? (fun n => n.id == i)).map (·.p)
    let segs := iE.filterMap (fun e => match pos e.1, pos e.2 with
      | some a, some b => some (a, b) | _, _ => none)
    if segs.length != iE.length then
      return { verdict := .specfail "planarise: an edge end is not a node of the planar graph", stats := stats }
    match firstProperCross segs with
    | some (s, t) => return { verdict := .specfail s!"planarise: edges {showPt s.1}-{showPt s.2} and {showPt t.1}-{showPt t.2} cross (planarise_no_crossing_of_input)", stats := stats }
    | none => pure ()
    match inp.edges.find? (fun e => !chainB origIds iE e.src.id e.tgt.id) with
    | some e => return { verdict := .specfail s!"planarise: adjacency {e.src.id}-{e.tgt.id} not realised by a chain of new nodes (planarise_preserves_nodes_and_connections_partial)", stats := stats }
    | none => pure ()
  match tieFail with
  | some d => return { verdict := .diverge s!"planarise tie: {d}", stats := stats }
  | none => pure ()
  return { verdict := .ok, nontrivial := out.crossNodes.length > 0, stats := stats }

/-- exact tie of the final planar graph for the older `plan-*` classes (kind `plan`: hand-routed grids and real
`LeaflessOrthoRouter` routes), which print only the input and the planar graph. Runs after `checkPlan` said OK. -/
def tieFinal (r : CaseResult) (c : Case) : CaseResult := Id.run do
  let some inp := parseInput c | return r
  let out := planarise inp
  let origIds := inp.nodes.map (·.id)
  let base := firstFreeId inp.nodes
  let some qn := (c.get "qn").toList.mapM (fun l => do let p ← pt? l[1]! l[2]!; pure (Node.mk (nat! l[0]!) p))
    | return r
  let newIds := sortNat ((qn.map (·.id)).filter (fun i => !origIds.contains i))
  let ren (i : Nat) : Nat := if origIds.contains i then i else
    match newIds.idxOf? i with
    | some k => base + k
    | none => 1000000 + i
  let amb := ambiguity inp
  let mut stats := r.stats
  let mN := sortNodes out.nodes
  let iN := sortNodes (qn.map (fun n => ⟨ren n.id, n.p⟩))
  let mE := sortPairs out.edges
  let iE := sortPairs ((c.get "qe").toList.map (fun l => (ren (nat! l[0]!), ren (nat! l[1]!))))
  let diff : Option String :=
    if mN != iN then some s!"planar nodes: impl {showNodes iN} model {showNodes mN}"
    else if mE != iE then some s!"planar edges: impl {iE} model {mE}" else none
  if amb.any then stats := ("plan.tie.ambiguous", 1) :: stats
  match diff with
  | some d =>
    if amb.any then return { r with stats := ("plan.tie.ambiguousMismatch", 1) :: stats }
    else return { r with verdict := .diverge s!"planarise tie: {d}", stats := stats }
  | none => return { r with stats := ("plan.tie.exact", 1) :: stats }

end Driver.C19Planarise
