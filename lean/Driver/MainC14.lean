import Driver.C14

def main (args : List String) : IO UInt32 := Driver.C14.run args
