import Driver.Proto
namespace Driver.C13

def run (_args : List String) : IO UInt32 := do
  IO.eprintln "driver mode c13: not implemented yet"
  return 2

end Driver.C13
