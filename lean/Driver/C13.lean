/-
Driver mode `c13` (see harness/c13.cpp for the line format).

tri-* cases   tie `TriConstraint::slackAtInitial/slackAtFinal/maxSafeAlpha` of the library to
              Model/Tri.lean.  SPECFAIL iff the step length the library returns for a constraint
              that is feasible initially and violated finally is *unsafe* (the slack at
              initial + α(final-initial), computed exactly, is negative beyond rounding: a move by
              α crosses the segment); every other difference from the model is DIVERGE.
scene-* cases after every layout step the state is judged by the proven checkers of
              Check/Topo.lean; for a step that moved the nodes in one axis only, the side
              signature must equal that of the previous state.  A library abort (its own
              COLA_ASSERTs, sanitizer reports) is reported together with the checker verdict of
              the state dumped at the abort.  A state of kind `construct` is what the
              `TopologyConstraints` constructor leaves (nothing moved; `PruneDegenerate` may have
              removed path points): the surviving points of every open path are compared with
              `Model/TopoPrune.prune` of the previous state's path (tie; Props/C13Prune says what the
              model guarantees).  A difference is a DIVERGE unless the history goes on to a failing
              state: then that failure is the verdict, and its class carries the prefix
              `prune-mismatch/` (the structural signature "the constructor did not prune as
              modelled" keeps it apart from the fingerprints of the registered findings).
-/
import Driver.Proto
import AdaptaVerif.Model.Tri
import AdaptaVerif.Check.Topo
import AdaptaVerif.Model.TopoPrune
namespace Driver.C13
open Driver AdaptaVerif.Num AdaptaVerif.Model.Tri AdaptaVerif.Check.Topo

def absQ (r : Rat) : Rat := if r < 0 then -r else r

/-- decimal rendering with 6 digits for messages -/
def showQ (r : Rat) : String :=
  let neg := r < 0
  let a := absQ r
  let scaled := (a * 1000000).floor.toNat
  let ip := scaled / 1000000
  let fp := scaled % 1000000
  let fs := toString fp
  let pad := String.ofList (List.replicate (6 - fs.length) '0')
  (if neg then "-" else "") ++ toString ip ++ "." ++ pad ++ fs

/-! ### TriConstraint tie -/

structure TriStats where
  n : Nat := 0
  bFinal : Nat := 0
  bZero : Nat := 0
  bNeg : Nat := 0
  bRoot : Nat := 0
  guarded : Nat := 0

def checkTri (c : Case) : CaseResult := Id.run do
  let exact := c.tag != "tri-float"
  let mut st : TriStats := {}
  for l in c.get "t" do
    if l.size < 12 then
      return { verdict := .diverge s!"short t line {l}" }
    let nums := #[l[0]!, l[1]!, l[3]!, l[4]!, l[5]!, l[6]!, l[7]!, l[8]!]
    match nums? nums, dbl? l[9]!, dbl? l[10]!, dbl? l[11]! with
    | some v, some dI, some dF, some dM =>
      let p := v[0]!; let g := v[1]!
      let left := l[2]! == "1"
      let u1 := v[2]!; let u2 := v[3]!; let v1 := v[4]!; let v2 := v[5]!; let w1 := v[6]!; let w2 := v[7]!
      if !(dI.isFinite && dF.isFinite && dM.isFinite) then
        return { verdict := .diverge s!"non-finite result on {l}" }
      let sI := slack p g left u1 v1 w1
      let sF := slack p g left u2 v2 w2
      let scale := absQ u1 + absQ u2 + absQ v1 + absQ v2 + absQ w1 + absQ w2 + absQ g
                    + absQ p * (absQ u1 + absQ u2 + absQ v1 + absQ v2) + 1
      let tol : Rat := if exact then 0 else scale / 1000000000
      st := { st with n := st.n + 1 }
      if absQ (dI.val - sI) > tol then
        return { verdict := .diverge s!"slackAtInitial {l}: model {showQ sI}" }
      if absQ (dF.val - sF) > tol then
        return { verdict := .diverge s!"slackAtFinal {l}: model {showQ sF}" }
      -- spec: a returned step that is used by solve() (0 < α ≤ 1 … α < 1) must be safe
      let α := dM.val
      if sI ≥ 0 && sF < 0 && α > 0 then
        let sα := sI + α * (sF - sI)          -- exact slack after moving by the library's α
        if sα < -(scale / 1000000000) then
          return { verdict := .specfail s!"class=unsafe-alpha maxSafeAlpha={showQ α} but slack there is {showQ sα} (initial {showQ sI}, final {showQ sF}): the move crosses the segment; input {l}" }
      -- model correspondence
      let br := maxSafeAlphaBranch p g left u1 u2 v1 v2 w1 w2
      let m := maxSafeAlpha p g left u1 u2 v1 v2 w1 w2
      let den := msaDen p u1 u2 v1 v2 w1 w2
      -- float inputs: the code branches on rounded values; compare only when the model's branch
      -- conditions have a margin
      let margin : Rat := scale / 10000000
      let safeToCompare := exact ||
        (absQ sF > margin && absQ den > margin && absQ (msaNum p g u1 v1 w1) > margin)
      match br with
      | .finalFeasible => st := { st with bFinal := st.bFinal + 1 }
      | .zeroDen => st := { st with bZero := st.bZero + 1 }
      | .negative => st := { st with bNeg := st.bNeg + 1 }
      | .root => st := { st with bRoot := st.bRoot + 1 }
      if !safeToCompare then
        st := { st with guarded := st.guarded + 1 }
      else
        let mtol : Rat := match br with
          | .root => (absQ m + 1) / 1000000000
          | .negative => tol
          | _ => 0
        if absQ (α - m) > mtol then
          -- a larger step than the model's on a violated constraint is unsafe: caught above;
          -- everything else is a broken tie
          return { verdict := .diverge s!"maxSafeAlpha {l}: model {showQ m} (branch {repr br})" }
        if !maxSafeAlphaAssertOk p g left u1 u2 v1 v2 w1 w2 then
          return { verdict := .diverge s!"model says COLA_ASSERT(iSlack>=fSlack) fails but the library returned: {l}" }
    | _, _, _, _ => return { verdict := .diverge s!"unparsable t line {l}" }
  match c.get1 "ABORT" with
  | some l =>
    let line := (c.lines.filter (fun l => l.size > 0 && l[0]! == "t")).back?.getD #[]
    return { verdict := .specfail s!"class=crash-tri CRASH inside TriConstraint on valid input (last line {line}): {" ".intercalate l.toList}" }
  | none => pure ()
  let branches := (if st.bFinal > 0 then 1 else 0) + (if st.bZero > 0 then 1 else 0)
                  + (if st.bNeg > 0 then 1 else 0) + (if st.bRoot > 0 then 1 else 0)
  return { verdict := .ok, nontrivial := branches ≥ 2,
           stats := [("tri.calls", st.n), ("tri.branch.finalFeasible", st.bFinal),
                     ("tri.branch.zeroDen", st.bZero), ("tri.branch.negative", st.bNeg),
                     ("tri.branch.root", st.bRoot), ("tri.guarded", st.guarded)] }

/-! ### scenes -/

structure Snap where
  kind : String
  dim : Nat
  nodes : Array NodeRect
  paths : Array (List PathPt)
  /-- per edge: the `C` line of a closed path (empty for ordinary edges) -/
  cinfo : Array (List Nat) := #[]
  deriving Inhabited

def parsePath (ts : Array String) : Option (Nat × List PathPt) := do
  let e := nat! ts[0]!
  let mut pts : Array PathPt := #[]
  let n := (ts.size - 1) / 4
  for i in [0:n] do
    let x ← num? ts[1 + 4*i + 2]!
    let y ← num? ts[1 + 4*i + 3]!
    pts := pts.push { node := nat! ts[1 + 4*i]!, ri := nat! ts[1 + 4*i + 1]!, x := x, y := y }
  return (e, pts.toList)

/-- states in stream order; `none` on a malformed line -/
def parseSnaps (c : Case) (nNodes nEdges : Nat) : Option (Array Snap) := do
  let mut out : Array Snap := #[]
  for l in c.lines do
    if l.size == 0 then continue
    if l[0]! == "S" then
      out := out.push { kind := l[1]?.getD "?", dim := nat! (l[2]?.getD "2"),
                        nodes := Array.replicate nNodes default, paths := Array.replicate nEdges [],
                        cinfo := Array.replicate nEdges [] }
    else if l[0]! == "R" && l.size ≥ 6 && out.size > 0 then
      let v ← nums? (l.extract 2 6)
      let i := nat! l[1]!
      let s := out.back!
      if i < s.nodes.size then
        out := out.pop.push { s with nodes := s.nodes.set! i ⟨v[0]!, v[1]!, v[2]!, v[3]!⟩ }
    else if l[0]! == "P" && l.size ≥ 2 && out.size > 0 then
      let (e, pts) ← parsePath (l.extract 1 l.size)
      let s := out.back!
      if e < s.paths.size then
        out := out.pop.push { s with paths := s.paths.set! e pts }
    else if l[0]! == "C" && l.size ≥ 8 && out.size > 0 then
      let e := nat! l[1]!
      let s := out.back!
      if e < s.cinfo.size then
        out := out.pop.push { s with cinfo := s.cinfo.set! e ((l.extract 2 8).toList.map nat!) }
  return out

/-- first violated state invariant, as (check name, detail, edge, leg, node) -/
def firstViolation (ends : Array (Nat × Nat)) (s : Snap) (cyc : Array Bool := #[]) : Option (String × String × Nat × Nat × Nat) := Id.run do
  let nodes := s.nodes.toList
  if !noNodeOverlap nodes then
    match firstOverlap nodes with
    | some (i, j) => return some ("node-overlap", s!"nodes {i} and {j} overlap", 0, 0, i)
    | none => return some ("node-overlap", "?", 0, 0, 0)
  for e in [0:s.paths.size] do
    let path := s.paths[e]!
    let (src, dst) := ends[e]!
    if cyc.getD e false then
      -- closed boundary path: closed and consistent list, no segment through a node, every
      -- bend (the join point included) turns around its node
      if !cycleClosed path || !cycleListConsistent (s.cinfo.getD e []) path then
        return some ("cycle-broken", s!"closed path {e} is no longer a consistent cycle: {path.length} points listed, first ({(path.head?.map (·.node)).getD 0},{(path.head?.map (·.ri)).getD 0}) last ({(path.getLast?.map (·.node)).getD 0},{(path.getLast?.map (·.ri)).getD 0}), [nSegments, walked, reachedLast, closed, ring, ringClosed] = {s.cinfo.getD e []}", e, 0, 0)
      if !noSegmentThroughNode nodes path then
        match firstSegThroughNode nodes path with
        | some (j, k) => return some ("seg-through-node", s!"closed path {e} segment {j} of {path.length - 1} passes through node {k}", e, j, k)
        | none => return some ("seg-through-node", s!"closed path {e}", e, 0, 0)
      if !bendsAtCorners nodes (cycleBendPath path) then
        let j := (firstBadBend nodes (cycleBendPath path)).getD 0
        let v := (cycleBendPath path).getD j default
        return some ("bad-bend", s!"closed path {e} bend {j} (node {v.node} corner {v.ri}) is not a tight bend around its node", e, j, v.node)
      continue
    if !endsUnchanged nodes src dst path then
      return some ("ends-changed", s!"edge {e} no longer runs centre({src}) → centre({dst})", e, 0, 0)
    if !noSegmentThroughNode nodes path then
      match firstSegThroughNode nodes path with
      | some (j, k) => return some ("seg-through-node", s!"edge {e} segment {j} of {path.length - 1} passes through node {k}", e, j, k)
      | none => return some ("seg-through-node", s!"edge {e}", e, 0, 0)
    if !bendsAtCorners nodes path then
      let j := (firstBadBend nodes path).getD 0
      let v := path.getD j default
      return some ("bad-bend", s!"edge {e} bend {j} (node {v.node} corner {v.ri}) is not a tight bend around its node", e, j, v.node)
  return none

def rangesOverlap (a0 a1 b0 b1 : Rat) : Bool := a0 < b1 && b0 < a1

/-- geometric fingerprint of a segment-through-node failure: is the offending segment attached to
    the CENTRE of an end node `s` whose extent (in the axis orthogonal to the move) overlaps that of
    the pierced node?  Then the scan-line "visibility" test of
    `NodeEvent::createStraightConstraints` treated `s` as blocking the pierced node from the
    segment, although the segment runs inside `s`. -/
def endNodeShadow (s : Snap) (e j k : Nat) : Bool :=
  let path := s.paths[e]!
  let a := path.getD j default
  let b := path.getD (j + 1) default
  let nk := s.nodes[k]!
  let test (q : PathPt) : Bool :=
    q.ri == 4 &&
      (let ns := s.nodes[q.node]!
       (s.dim != 1 && rangesOverlap nk.minY nk.maxY ns.minY ns.maxY) ||
       (s.dim != 0 && rangesOverlap nk.minX nk.maxX ns.minX ns.maxX))
  test a || test b

/-- same fingerprint for a side change: the first or last segment of edge `e` (attached to an end
    node's CENTRE) crosses the scan line through node `k`'s centre, and that end node shares scan
    lines with `k` -/
def endLegShadow (s : Snap) (e k : Nat) : Bool :=
  let path := s.paths[e]!
  let nk := s.nodes[k]!
  let c := conjC s.dim nk.cx nk.cy
  let test (a b : PathPt) (endNode : Nat) : Bool :=
    let ns := s.nodes[endNode]!
    crossesLine (conjC s.dim a.x a.y) (conjC s.dim b.x b.y) c &&
      (if s.dim == 0 then rangesOverlap nk.minY nk.maxY ns.minY ns.maxY
       else rangesOverlap nk.minX nk.maxX ns.minX ns.maxX)
  match path, path.reverse with
  | a :: b :: _, z :: y :: _ => test a b a.node || test y z z.node
  | _, _ => false

/-- did edge `e` have, in state `s`, a segment parallel to the axis of the coming move (equal
    coordinates in the orthogonal axis, 1e-6)?  Such segments get no scan-line events and no
    StraightConstraints; bends next to them degenerate when the two corners slide past each other. -/
def hasParallelLeg (s next : Snap) (e : Nat) : Bool :=
  (legs (s.paths[e]!)).any fun ab =>
    (next.dim != 1 && absQ (ab.1.y - ab.2.y) ≤ eps) || (next.dim != 0 && absQ (ab.1.x - ab.2.x) ≤ eps)


/-! ### tie of `PruneDegenerate` (TopologyConstraints constructor) to Model/TopoPrune -/

open AdaptaVerif.Model.TopoPrune in
def toBPt (nodes : Array NodeRect) (a : PathPt) : BPt :=
  let n := nodes.getD a.node default
  { x := a.x, y := a.y, cx := n.cx, cy := n.cy }

open AdaptaVerif.Model.TopoPrune in
/-- some turn test the model evaluates at a coincident pair is so close to 0 that the library's
    floating-point cross product need not have the same sign: the tie is not compared -/
def pruneDelicate (bp : Array BPt) : Bool := Id.run do
  let tiny (c : Rat) : Bool := c != 0 && absQ c < 1 / 1000000
  for i in [1:bp.size] do
    if samePos bp[i-1]! bp[i]! then
      -- the pair (i-1, i); before = i-2, after = i+1
      if i ≥ 2 && i + 1 < bp.size then
        let n := bp[i-2]!; let q := bp[i+1]!
        for v in [bp[i-1]!, bp[i]!] do
          if tiny (AdaptaVerif.Model.TopoPrune.cross n.x n.y v.x v.y q.x q.y) || tiny (AdaptaVerif.Model.TopoPrune.cross n.x n.y v.x v.y v.cx v.cy)
              || tiny (AdaptaVerif.Model.TopoPrune.cross v.x v.y q.x q.y v.cx v.cy) then
            return true
  return false

structure PruneTie where
  compared : Nat := 0
  guarded : Nat := 0
  pairs : Nat := 0
  pruned : Nat := 0
  assertFail : Nat := 0
  mismatch : Option String := none

open AdaptaVerif.Model.TopoPrune in
/-- compare what the constructor left (`post`) with the model's pruning of `pre` -/
def pruneTieEdge (t : PruneTie) (dim e stepNo : Nat) (nodes : Array NodeRect) (pre post : List PathPt) : PruneTie :=
  let bp := (pre.map (toBPt nodes)).toArray
  if pruneDelicate bp then { t with guarded := t.guarded + 1 } else
  let bl := bp.toList
  let kept := keptIdx dim bl
  let prA := pre.toArray
  let expected := kept.map fun i => let a := prA.getD i default; (a.node, a.ri)
  let got := post.map fun a => (a.node, a.ri)
  let npairs := ((legs bl).filter fun ab => samePos ab.1 ab.2).length
  let t := { t with compared := t.compared + 1, pairs := t.pairs + npairs,
                    pruned := t.pruned + (pre.length - kept.length),
                    assertFail := t.assertFail + (if allAssertsOk bl then 0 else 1) }
  if expected == got || t.mismatch.isSome then t else
    let showPts (l : List (Nat × Nat)) := " ".intercalate (l.map fun nr => s!"{nr.1}.{nr.2}")
    let pts := " ".intercalate (pre.map fun a => s!"{a.node}.{a.ri}({showQ a.x},{showQ a.y})")
    { t with mismatch := some s!"TopologyConstraints constructor (axis {dim}) at step {stepNo}, edge {e}: path before [{pts}], PruneDegenerate left [{showPts got}], Model/TopoPrune.prune leaves [{showPts expected}]" }

def abortClass (txt : String) : String :=
  if (txt.splitOn "NoIntersection").length > 1 then "assert-segment-rect-intersection"
  else if (txt.splitOn "assertConvexBend").length > 1 then "assert-convex-bend"
  else if (txt.splitOn "noOverlaps").length > 1 then "assert-no-overlaps"
  else if (txt.splitOn "assertFeasible").length > 1 then "assert-feasible"
  else if (txt.splitOn "Assertion").length > 1 then "assert-other"
  else if (txt.splitOn "LeakSanitizer").length > 1 then "leak"
  else if (txt.splitOn "AddressSanitizer").length > 1 then "asan"
  else if (txt.splitOn "runtime error").length > 1 then "ubsan"
  else "abort-other"

def checkScene (c : Case) : CaseResult := Id.run do
  let nNodes := nat! (((c.get1 "N").getD #["0"])[0]!)
  let endsL := c.get "E"
  let ends : Array (Nat × Nat) := endsL.map fun l => (nat! l[1]!, nat! l[2]!)
  let abortTxt : Option String := (c.get1 "ABORT").map fun l => " ".intercalate l.toList
  let cycIds := (c.get "Y").map fun l => nat! l[0]!
  let cyc : Array Bool := (Array.range ends.size).map fun e => cycIds.contains e
  match parseSnaps c nNodes ends.size with
  | none => return { verdict := .diverge "unparsable state line" }
  | some snaps =>
    if snaps.size == 0 then
      return { verdict := .ok, nontrivial := false, stats := [("scene.empty", 1)] }
    -- preconditions: the initial scene must itself satisfy the invariants
    match firstViolation ends snaps[0]! cyc with
    | some (name, _, _, _, _) =>
      -- not a verdict on the library: the generator is expected to keep this counter at 0
      return { verdict := .ok, nontrivial := false,
               stats := [("scene.invalid-initial", 1), ("scene.invalid-initial." ++ name, 1)] }
    | none => pure ()
    let mut nStates := 0
    let mut nLegs := 0
    let mut nBends := 0
    let mut structural := 0      -- steps in which some path gained / lost a bend
    let mut sigChecks := 0
    let mut tie : PruneTie := {}
    -- class prefix of every failure that follows a constructor pass that did not prune as modelled
    let pm (t : PruneTie) : String := if t.mismatch.isSome then "prune-mismatch/" else ""
    let pmNote (t : PruneTie) : String := match t.mismatch with | some m => "; earlier: " ++ m | none => ""
    for i in [1:snaps.size] do
      let s := snaps[i]!
      let prev := snaps[i-1]!
      nStates := nStates + 1
      for e in [0:s.paths.size] do
        nLegs := nLegs + (s.paths[e]!.length - 1)
        nBends := nBends + (s.paths[e]!.length - 2)
        if s.paths[e]!.length != prev.paths[e]!.length then structural := structural + 1
      if s.kind == "construct" && s.dim < 2 then
        for e in [0:s.paths.size] do
          if cyc.getD e false then continue
          tie := pruneTieEdge tie s.dim e i prev.nodes prev.paths[e]! s.paths[e]!
      let where_ := s!"step {i} ({s.kind}, axis {s.dim}) of {snaps.size - 1}"
      let ab := if s.kind == "abort" then
          s!"; library aborted: {abortTxt.getD "?"}" else ""
      -- a state dumped at an abort inside applyResizes mixes the original rectangles with
      -- paths pinned to the temporary lhs/rhs dummy nodes: not judged (reported as crash below)
      let judge := !(s.kind == "abort" && s.dim == 2)
      match (if judge then firstViolation ends s cyc else none) with
      | some (name, detail, e, j, k) =>
        let cls :=
          if name == "seg-through-node" then
            (if endNodeShadow s e j k then "endnode-visibility" else "seg-through-node")
          else if name == "bad-bend" && hasParallelLeg prev s e then "bad-bend-after-parallel-segment"
          else name
        let cls := pm tie ++ cls
        return { verdict := .specfail s!"class={cls} {where_}: {detail}{ab}{pmNote tie}",
                 stats := [("scene.fail." ++ cls, 1)] }
      | none => pure ()
      -- side signature for single-axis steps
      -- closed paths: inside / outside of every node (any step), exact crossing counts (one axis)
      for e in [0:s.paths.size] do
        if cyc.getD e false && s.kind != "init" && !(s.kind == "abort" && s.dim == 2) then
          sigChecks := sigChecks + 1
          let ia := cycleInside prev.nodes.toList prev.paths[e]!
          let ib := cycleInside s.nodes.toList s.paths[e]!
          if ia != ib then
            let k := (firstDiffIdx ia ib).getD 0
            return { verdict := .specfail s!"class=cycle-side-changed {where_}: node {k} changed between inside and outside of closed path {e}: crossing parity (x-ray, y-ray) {ia.getD k (false,false)} → {ib.getD k (false,false)}{ab}",
                     stats := [("scene.fail.cycle-side-changed", 1)] }
          if s.dim < 2 then
            let sa := cycleSignature s.dim prev.nodes.toList prev.paths[e]!
            let sb := cycleSignature s.dim s.nodes.toList s.paths[e]!
            if sa != sb then
              let k := (firstDiffIdx sa sb).getD 0
              return { verdict := .specfail s!"class=cycle-side-changed {where_}: closed path {e} passes node {k} differently: crossings before/at centre {sa.getD k (0,0)} → {sb.getD k (0,0)}{ab}",
                       stats := [("scene.fail.cycle-side-changed", 1)] }
      if s.dim < 2 then
        for e in [0:s.paths.size] do
          if cyc.getD e false then continue
          let sa := sideSignature s.dim prev.nodes.toList prev.paths[e]!
          let sb := sideSignature s.dim s.nodes.toList s.paths[e]!
          sigChecks := sigChecks + 1
          if sa != sb then
            let k := (firstSigDiff sa sb).getD 0
            let cls := if endLegShadow s e k then "endnode-visibility" else "side-changed"
            let cls := pm tie ++ cls
            return { verdict := .specfail s!"class={cls} {where_}: side changed without a visible intersection: edge {e} passes node {k} on a different side: crossings before/at centre {sa.getD k (0,0)} → {sb.getD k (0,0)}{ab}{pmNote tie}",
                     stats := [("scene.fail." ++ cls, 1)] }
      -- two-pass steps (applyResizes / handleResizes: x pass, then y pass): parity of the side
      -- count on both axes, corrected for path end points passing over the ray
      if s.dim == 2 && s.kind != "abort" && s.kind != "init" then
        for e in [0:s.paths.size] do
          if cyc.getD e false then continue
          sigChecks := sigChecks + 1
          match firstParityDiff prev.nodes.toList s.nodes.toList prev.paths[e]! s.paths[e]! with
          | some (k, d) =>
            let kb := prev.nodes[k]!
            let ka := s.nodes[k]!
            return { verdict := .specfail s!"class=side-changed-resize {where_}: edge {e} passes node {k} on a different side after the resize: parity of crossings before the centre on the axis-{d} scan line {sideParity d kb prev.paths[e]!} → {sideParity d ka s.paths[e]!}, predicted {expectedParity d prev.nodes.toList s.nodes.toList prev.paths[e]! k}; node {k} was [{showQ kb.minX},{showQ kb.maxX}]x[{showQ kb.minY},{showQ kb.maxY}], is [{showQ ka.minX},{showQ ka.maxX}]x[{showQ ka.minY},{showQ ka.maxY}]",
                     stats := [("scene.fail.side-changed-resize", 1)] }
          | none => pure ()
    match abortTxt with
    | some txt =>
      -- the library stopped itself (its own invariant checks / a sanitizer) although every state
      -- we saw passes our checkers: still a failing input (CRASH)
      let inResize := snaps.back!.kind == "abort" && snaps.back!.dim == 2
      let cls := pm tie ++ "crash-" ++ (if inResize then "resize-" else "") ++ abortClass txt
      return { verdict := .specfail s!"class={cls} CRASH after {snaps.size - 1} states, all of which pass the state checkers: {txt}{pmNote tie}",
               stats := [("scene.fail." ++ cls, 1)] }
    | none => pure ()
    match tie.mismatch with
    | some m => return { verdict := .diverge s!"prune tie: {m}", stats := [("prune.mismatch", 1)] }
    | none => pure ()
    return { verdict := .ok, nontrivial := structural > 0,
             stats := [("scene.states", nStates), ("scene.legs", nLegs), ("scene.bends", nBends),
                       ("scene.structural-steps", structural), ("scene.signature-checks", sigChecks),
                       ("scene.nodes", nNodes), ("scene.edges", ends.size),
                       ("prune.tie.paths", tie.compared), ("prune.tie.guarded", tie.guarded),
                       ("prune.tie.coincident-pairs", tie.pairs), ("prune.tie.points-pruned", tie.pruned),
                       ("prune.tie.model-assert-fails", tie.assertFail)] }

/-! ### prune-rule cases: the constructor's pruning of constructed paths vs. Model/TopoPrune -/

open AdaptaVerif.Model.TopoPrune in
def checkPruneRule (c : Case) : CaseResult := Id.run do
  let mut lines := 0
  let mut pairs := 0
  let mut prunedIn := 0
  let mut prunedOut := 0
  let mut prunedCol := 0
  let mut guarded := 0
  let mut last : Array String := #[]
  -- the `q` line (input) waiting for its `kept` line (what the constructor left)
  let mut pending : Array (Nat × Array BPt) := #[]
  for l0 in c.lines do
    if l0.size == 0 then continue
    let l := l0.extract 1 l0.size
    if l0[0]! == "q" then
      last := l0
      if l.size < 2 then return { verdict := .diverge s!"short q line {l}" }
      let dim := nat! l[0]!
      let k := nat! l[1]!
      if l.size < 2 + 4 * k then return { verdict := .diverge s!"short q line {l}" }
      match nums? (l.extract 2 (2 + 4 * k)) with
      | none => return { verdict := .diverge s!"unparsable q line {l}" }
      | some v =>
        pending := pending.push (dim, (Array.range k).map fun i => ⟨v[4*i]!, v[4*i+1]!, v[4*i+2]!, v[4*i+3]!⟩)
    else if l0[0]! == "kept" then
      match pending[0]? with
      | none => return { verdict := .diverge s!"kept line without q line {l}" }
      | some (dim, bp) =>
        pending := pending.extract 1 pending.size
        let k := bp.size
        let m := nat! (l[0]?.getD "0")
        let got := ((l.extract 1 (1 + m)).toList.map nat!)
        lines := lines + 1
        if pruneDelicate bp then
          guarded := guarded + 1
          continue
        let bl := bp.toList
        pairs := pairs + ((AdaptaVerif.Check.Topo.legs bl).filter fun ab => samePos ab.1 ab.2).length
        for i in [1:k-1] do
          let o := bp[i-1]!; let pt := bp[i]!; let q := bp[i+1]!
          let n? := if i < 2 then none else bp[i-2]?
          if collinearRule dim o pt q then prunedCol := prunedCol + 1
          if inRule n? o pt q then prunedIn := prunedIn + 1
          else if outRule o pt q bp[i+2]? then prunedOut := prunedOut + 1
        let want := keptIdx dim bl
        if want != got then
          let pts := " ".intercalate (bl.map fun a => s!"({showQ a.x},{showQ a.y};c {showQ a.cx},{showQ a.cy})")
          return { verdict := .diverge s!"prune tie: TopologyConstraints constructor (axis {dim}) on the path [{pts}] keeps the points {got}, Model/TopoPrune.prune keeps {want} (model asserts ok: {allAssertsOk bl})" }
  match c.get1 "ABORT" with
  | some l =>
    return { verdict := .specfail s!"class=crash-prune-rule CRASH inside the TopologyConstraints constructor on a constructed path (last line {last}): {" ".intercalate l.toList}" }
  | none => pure ()
  return { verdict := .ok, nontrivial := prunedIn + prunedOut + prunedCol > 0,
           stats := [("rule.paths", lines), ("rule.coincident-pairs", pairs), ("rule.pruned.second-of-pair", prunedIn),
                     ("rule.pruned.first-of-pair", prunedOut), ("rule.pruned.collinear", prunedCol), ("rule.guarded", guarded)] }

def run (_args : List String) : IO UInt32 :=
  runCases (fun c => if c.tag.startsWith "tri" then checkTri c
                     else if c.tag == "prune-rule" then checkPruneRule c else checkScene c)

end Driver.C13
