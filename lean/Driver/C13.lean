/-
Driver mode `c13` (see harness/c13.cpp for the line format).

tri-* cases   tie `TriConstraint::slackAtInitial/slackAtFinal/maxSafeAlpha` of the library to
              Model/Tri.lean.  SPECFAIL iff the step length the library returns for a constraint
              that is feasible initially and violated finally is *unsafe* (the slack at
              initial + α(final-initial), computed exactly, is negative beyond rounding: a move by
              α crosses the segment); every other difference from the model is DIVERGE.
scene-* cases after every layout step the state is judged by the proven checkers of
              Check/Topo.lean; for a step that moved the nodes in one axis only, the side
              signature must equal that of the previous state.  A library abort (its own
              COLA_ASSERTs, sanitizer reports) is reported together with the checker verdict of
              the state dumped at the abort.  A state of kind `construct` is what the
              `TopologyConstraints` constructor leaves (nothing moved; `PruneDegenerate` may have
              removed path points): the surviving points of every open path are compared with
              `Model/TopoPrune.prune` of the previous state's path (tie; Props/C13Prune says what the
              model guarantees).  A difference is a DIVERGE unless the history goes on to a failing
              state: then that failure is the verdict, and its class carries the prefix
              `prune-mismatch/` (the structural signature "the constructor did not prune as
              modelled" keeps it apart from the fingerprints of the registered findings).
-/
import Driver.Proto
import AdaptaVerif.Model.Tri
import AdaptaVerif.Check.Topo
import AdaptaVerif.Model.TopoPrune
import AdaptaVerif.Model.TopoCons
namespace Driver.C13
open Driver AdaptaVerif.Num AdaptaVerif.Model.Tri AdaptaVerif.Check.Topo

def absQ (r : Rat) : Rat := if r < 0 then -r else r

/-- decimal rendering with 6 digits for messages -/
def showQ (r : Rat) : String :=
  let neg := r < 0
  let a := absQ r
  let scaled := (a * 1000000).floor.toNat
  let ip := scaled / 1000000
  let fp := scaled % 1000000
  let fs := toString fp
  let pad := String.ofList (List.replicate (6 - fs.length) '0')
  (if neg then "-" else "") ++ toString ip ++ "." ++ pad ++ fs

/-! ### TriConstraint tie -/

structure TriStats where
  n : Nat := 0
  bFinal : Nat := 0
  bZero : Nat := 0
  bNeg : Nat := 0
  bRoot : Nat := 0
  guarded : Nat := 0

def checkTri (c : Case) : CaseResult := Id.run do
  let exact := c.tag != "tri-float"
  let mut st : TriStats := {}
  for l in c.get "t" do
    if l.size < 12 then
      return { verdict := .diverge s!"short t line {l}" }
    let nums := #[l[0]!, l[1]!, l[3]!, l[4]!, l[5]!, l[6]!, l[7]!, l[8]!]
    match nums? nums, dbl? l[9]!, dbl? l[10]!, dbl? l[11]! with
    | some v, some dI, some dF, some dM =>
      let p := v[0]!; let g := v[1]!
      let left := l[2]! == "1"
      let u1 := v[2]!; let u2 := v[3]!; let v1 := v[4]!; let v2 := v[5]!; let w1 := v[6]!; let w2 := v[7]!
      if !(dI.isFinite && dF.isFinite && dM.isFinite) then
        return { verdict := .diverge s!"non-finite result on {l}" }
      let sI := slack p g left u1 v1 w1
      let sF := slack p g left u2 v2 w2
      let scale := absQ u1 + absQ u2 + absQ v1 + absQ v2 + absQ w1 + absQ w2 + absQ g
                    + absQ p * (absQ u1 + absQ u2 + absQ v1 + absQ v2) + 1
      let tol : Rat := if exact then 0 else scale / 1000000000
      st := { st with n := st.n + 1 }
      if absQ (dI.val - sI) > tol then
        return { verdict := .diverge s!"slackAtInitial {l}: model {showQ sI}" }
      if absQ (dF.val - sF) > tol then
        return { verdict := .diverge s!"slackAtFinal {l}: model {showQ sF}" }
      -- spec: a returned step that is used by solve() (0 < α ≤ 1 … α < 1) must be safe
      let α := dM.val
      if sI ≥ 0 && sF < 0 && α > 0 then
        let sα := sI + α * (sF - sI)          -- exact slack after moving by the library's α
        if sα < -(scale / 1000000000) then
          return { verdict := .specfail s!"class=unsafe-alpha maxSafeAlpha={showQ α} but slack there is {showQ sα} (initial {showQ sI}, final {showQ sF}): the move crosses the segment; input {l}" }
      -- model correspondence
      let br := maxSafeAlphaBranch p g left u1 u2 v1 v2 w1 w2
      let m := maxSafeAlpha p g left u1 u2 v1 v2 w1 w2
      let den := msaDen p u1 u2 v1 v2 w1 w2
      -- float inputs: the code branches on rounded values; compare only when the model's branch
      -- conditions have a margin
      let margin : Rat := scale / 10000000
      let safeToCompare := exact ||
        (absQ sF > margin && absQ den > margin && absQ (msaNum p g u1 v1 w1) > margin)
      match br with
      | .finalFeasible => st := { st with bFinal := st.bFinal + 1 }
      | .zeroDen => st := { st with bZero := st.bZero + 1 }
      | .negative => st := { st with bNeg := st.bNeg + 1 }
      | .root => st := { st with bRoot := st.bRoot + 1 }
      if !safeToCompare then
        st := { st with guarded := st.guarded + 1 }
      else
        let mtol : Rat := match br with
          | .root => (absQ m + 1) / 1000000000
          | .negative => tol
          | _ => 0
        if absQ (α - m) > mtol then
          -- a larger step than the model's on a violated constraint is unsafe: caught above;
          -- everything else is a broken tie
          return { verdict := .diverge s!"maxSafeAlpha {l}: model {showQ m} (branch {repr br})" }
        if !maxSafeAlphaAssertOk p g left u1 u2 v1 v2 w1 w2 then
          return { verdict := .diverge s!"model says COLA_ASSERT(iSlack>=fSlack) fails but the library returned: {l}" }
    | _, _, _, _ => return { verdict := .diverge s!"unparsable t line {l}" }
  match c.get1 "ABORT" with
  | some l =>
    let line := (c.lines.filter (fun l => l.size > 0 && l[0]! == "t")).back?.getD #[]
    return { verdict := .specfail s!"class=crash-tri CRASH inside TriConstraint on valid input (last line {line}): {" ".intercalate l.toList}" }
  | none => pure ()
  let branches := (if st.bFinal > 0 then 1 else 0) + (if st.bZero > 0 then 1 else 0)
                  + (if st.bNeg > 0 then 1 else 0) + (if st.bRoot > 0 then 1 else 0)
  return { verdict := .ok, nontrivial := branches ≥ 2,
           stats := [("tri.calls", st.n), ("tri.branch.finalFeasible", st.bFinal),
                     ("tri.branch.zeroDen", st.bZero), ("tri.branch.negative", st.bNeg),
                     ("tri.branch.root", st.bRoot), ("tri.guarded", st.guarded)] }

/-! ### scenes -/

/-- a dumped StraightConstraint (`KS` line, harness/c13_cons.h) -/
structure KSLine where
  e : Nat
  seg : Nat
  node : Nat
  ri : Nat
  nodeLeft : Bool
  pos : Rat
  p : Rat
  g : Rat
  u : Nat
  v : Nat
  w : Nat
  /-- position in the vector `TopologyConstraints::constraints()` returns (the order `solve()` scans) -/
  seq : Nat := 0
  deriving Inhabited, BEq, Repr

/-- a dumped BendConstraint (`KB` line) -/
structure KBLine where
  e : Nat
  pt : Nat
  leftOf : Bool
  u : Nat
  v : Nat
  w : Nat
  p : Rat
  g : Rat
  seq : Nat := 0
  deriving Inhabited, BEq, Repr

structure Snap where
  kind : String
  dim : Nat
  nodes : Array NodeRect
  paths : Array (List PathPt)
  /-- per edge: the `C` line of a closed path (empty for ordinary edges) -/
  cinfo : Array (List Nat) := #[]
  /-- a constraint dump (`KD`) follows this state -/
  kd : Bool := false
  ks : Array KSLine := #[]
  kb : Array KBLine := #[]
  /-- the non-overlap separation constraints in `cs` after a construction (`KN`/`KC` lines) -/
  kn : Bool := false
  kc : Array (Nat × Nat × Rat) := #[]
  /-- `F` line: the solver's final positions of the `solve()` that led to this state -/
  fin : Option (Array Rat) := none
  deriving Inhabited

def parsePath (ts : Array String) : Option (Nat × List PathPt) := do
  let e := nat! ts[0]!
  let mut pts : Array PathPt := #[]
  let n := (ts.size - 1) / 4
  for i in [0:n] do
    let x ← num? ts[1 + 4*i + 2]!
    let y ← num? ts[1 + 4*i + 3]!
    pts := pts.push { node := nat! ts[1 + 4*i]!, ri := nat! ts[1 + 4*i + 1]!, x := x, y := y }
  return (e, pts.toList)

/-- states in stream order; `none` on a malformed line -/
def parseSnaps (c : Case) (nNodes nEdges : Nat) : Option (Array Snap) := do
  let mut out : Array Snap := #[]
  for l in c.lines do
    if l.size == 0 then continue
    if l[0]! == "S" then
      out := out.push { kind := l[1]?.getD "?", dim := nat! (l[2]?.getD "2"),
                        nodes := Array.replicate nNodes default, paths := Array.replicate nEdges [],
                        cinfo := Array.replicate nEdges [] }
    else if l[0]! == "R" && l.size ≥ 6 && out.size > 0 then
      let v ← nums? (l.extract 2 6)
      let i := nat! l[1]!
      let s := out.back!
      if i < s.nodes.size then
        out := out.pop.push { s with nodes := s.nodes.set! i ⟨v[0]!, v[1]!, v[2]!, v[3]!⟩ }
    else if l[0]! == "P" && l.size ≥ 2 && out.size > 0 then
      let (e, pts) ← parsePath (l.extract 1 l.size)
      let s := out.back!
      if e < s.paths.size then
        out := out.pop.push { s with paths := s.paths.set! e pts }
    else if l[0]! == "KD" && out.size > 0 then
      let s := out.back!
      out := out.pop.push { s with kd := true }
    else if l[0]! == "KN" && out.size > 0 then
      let s := out.back!
      out := out.pop.push { s with kn := true }
    else if l[0]! == "KC" && l.size ≥ 4 && out.size > 0 then
      let g ← num? l[3]!
      let s := out.back!
      out := out.pop.push { s with kc := s.kc.push (nat! l[1]!, nat! l[2]!, g) }
    else if l[0]! == "KS" && l.size ≥ 12 && out.size > 0 then
      let v ← nums? (l.extract 6 9)
      let s := out.back!
      let k : KSLine :=
        { e := nat! l[1]!, seg := nat! l[2]!, node := nat! l[3]!, ri := nat! l[4]!, nodeLeft := l[5]! == "1",
          pos := v[0]!, p := v[1]!, g := v[2]!, u := nat! l[9]!, v := nat! l[10]!, w := nat! l[11]!,
          seq := s.ks.size + s.kb.size }
      out := out.pop.push { s with ks := s.ks.push k }
    else if l[0]! == "KB" && l.size ≥ 9 && out.size > 0 then
      let v ← nums? (l.extract 7 9)
      let s := out.back!
      let k : KBLine :=
        { e := nat! l[1]!, pt := nat! l[2]!, leftOf := l[3]! == "1", u := nat! l[4]!, v := nat! l[5]!, w := nat! l[6]!,
          p := v[0]!, g := v[1]!, seq := s.ks.size + s.kb.size }
      out := out.pop.push { s with kb := s.kb.push k }
    else if l[0]! == "F" && l.size ≥ 2 && out.size > 0 then
      let v ← nums? (l.extract 2 l.size)
      let s := out.back!
      out := out.pop.push { s with fin := some v }
    else if l[0]! == "C" && l.size ≥ 8 && out.size > 0 then
      let e := nat! l[1]!
      let s := out.back!
      if e < s.cinfo.size then
        out := out.pop.push { s with cinfo := s.cinfo.set! e ((l.extract 2 8).toList.map nat!) }
  return out

/-- first violated state invariant, as (check name, detail, edge, leg, node) -/
def firstViolation (ends : Array (Nat × Nat)) (s : Snap) (cyc : Array Bool := #[]) : Option (String × String × Nat × Nat × Nat) := Id.run do
  let nodes := s.nodes.toList
  if !noNodeOverlap nodes then
    match firstOverlap nodes with
    | some (i, j) => return some ("node-overlap", s!"nodes {i} and {j} overlap", 0, 0, i)
    | none => return some ("node-overlap", "?", 0, 0, 0)
  for e in [0:s.paths.size] do
    let path := s.paths[e]!
    let (src, dst) := ends[e]!
    if cyc.getD e false then
      -- closed boundary path: closed and consistent list, no segment through a node, every
      -- bend (the join point included) turns around its node
      if !cycleClosed path || !cycleListConsistent (s.cinfo.getD e []) path then
        return some ("cycle-broken", s!"closed path {e} is no longer a consistent cycle: {path.length} points listed, first ({(path.head?.map (·.node)).getD 0},{(path.head?.map (·.ri)).getD 0}) last ({(path.getLast?.map (·.node)).getD 0},{(path.getLast?.map (·.ri)).getD 0}), [nSegments, walked, reachedLast, closed, ring, ringClosed] = {s.cinfo.getD e []}", e, 0, 0)
      if !noSegmentThroughNode nodes path then
        match firstSegThroughNode nodes path with
        | some (j, k) => return some ("seg-through-node", s!"closed path {e} segment {j} of {path.length - 1} passes through node {k}", e, j, k)
        | none => return some ("seg-through-node", s!"closed path {e}", e, 0, 0)
      if !bendsAtCorners nodes (cycleBendPath path) then
        let j := (firstBadBend nodes (cycleBendPath path)).getD 0
        let v := (cycleBendPath path).getD j default
        return some ("bad-bend", s!"closed path {e} bend {j} (node {v.node} corner {v.ri}) is not a tight bend around its node", e, j, v.node)
      continue
    if !endsUnchanged nodes src dst path then
      return some ("ends-changed", s!"edge {e} no longer runs centre({src}) → centre({dst})", e, 0, 0)
    if !noSegmentThroughNode nodes path then
      match firstSegThroughNode nodes path with
      | some (j, k) => return some ("seg-through-node", s!"edge {e} segment {j} of {path.length - 1} passes through node {k}", e, j, k)
      | none => return some ("seg-through-node", s!"edge {e}", e, 0, 0)
    if !bendsAtCorners nodes path then
      let j := (firstBadBend nodes path).getD 0
      let v := path.getD j default
      return some ("bad-bend", s!"edge {e} bend {j} (node {v.node} corner {v.ri}) is not a tight bend around its node", e, j, v.node)
  return none

def rangesOverlap (a0 a1 b0 b1 : Rat) : Bool := a0 < b1 && b0 < a1

/-- geometric fingerprint of a segment-through-node failure: is the offending segment attached to
    the CENTRE of an end node `s` whose extent (in the axis orthogonal to the move) overlaps that of
    the pierced node?  Then the scan-line "visibility" test of
    `NodeEvent::createStraightConstraints` treated `s` as blocking the pierced node from the
    segment, although the segment runs inside `s`. -/
def endNodeShadow (s : Snap) (e j k : Nat) : Bool :=
  let path := s.paths[e]!
  let a := path.getD j default
  let b := path.getD (j + 1) default
  let nk := s.nodes[k]!
  let test (q : PathPt) : Bool :=
    q.ri == 4 &&
      (let ns := s.nodes[q.node]!
       (s.dim != 1 && rangesOverlap nk.minY nk.maxY ns.minY ns.maxY) ||
       (s.dim != 0 && rangesOverlap nk.minX nk.maxX ns.minX ns.maxX))
  test a || test b

/-- same fingerprint for a side change: the first or last segment of edge `e` (attached to an end
    node's CENTRE) crosses the scan line through node `k`'s centre, and that end node shares scan
    lines with `k` -/
def endLegShadow (s : Snap) (e k : Nat) : Bool :=
  let path := s.paths[e]!
  let nk := s.nodes[k]!
  let c := conjC s.dim nk.cx nk.cy
  let test (a b : PathPt) (endNode : Nat) : Bool :=
    let ns := s.nodes[endNode]!
    crossesLine (conjC s.dim a.x a.y) (conjC s.dim b.x b.y) c &&
      (if s.dim == 0 then rangesOverlap nk.minY nk.maxY ns.minY ns.maxY
       else rangesOverlap nk.minX nk.maxX ns.minX ns.maxX)
  match path, path.reverse with
  | a :: b :: _, z :: y :: _ => test a b a.node || test y z z.node
  | _, _ => false

/-- did edge `e` have, in state `s`, a segment parallel to the axis of the coming move (equal
    coordinates in the orthogonal axis, 1e-6)?  Such segments get no scan-line events and no
    StraightConstraints; bends next to them degenerate when the two corners slide past each other. -/
def hasParallelLeg (s next : Snap) (e : Nat) : Bool :=
  (legs (s.paths[e]!)).any fun ab =>
    (next.dim != 1 && absQ (ab.1.y - ab.2.y) ≤ eps) || (next.dim != 0 && absQ (ab.1.x - ab.2.x) ≤ eps)


/-! ### tie of `PruneDegenerate` (TopologyConstraints constructor) to Model/TopoPrune -/

open AdaptaVerif.Model.TopoPrune in
def toBPt (nodes : Array NodeRect) (a : PathPt) : BPt :=
  let n := nodes.getD a.node default
  { x := a.x, y := a.y, cx := n.cx, cy := n.cy }

open AdaptaVerif.Model.TopoPrune in
/-- some turn test the model evaluates at a coincident pair is so close to 0 that the library's
    floating-point cross product need not have the same sign: the tie is not compared -/
def pruneDelicate (bp : Array BPt) : Bool := Id.run do
  let tiny (c : Rat) : Bool := c != 0 && absQ c < 1 / 1000000
  for i in [1:bp.size] do
    if samePos bp[i-1]! bp[i]! then
      -- the pair (i-1, i); before = i-2, after = i+1
      if i ≥ 2 && i + 1 < bp.size then
        let n := bp[i-2]!; let q := bp[i+1]!
        for v in [bp[i-1]!, bp[i]!] do
          if tiny (AdaptaVerif.Model.TopoPrune.cross n.x n.y v.x v.y q.x q.y) || tiny (AdaptaVerif.Model.TopoPrune.cross n.x n.y v.x v.y v.cx v.cy)
              || tiny (AdaptaVerif.Model.TopoPrune.cross v.x v.y q.x q.y v.cx v.cy) then
            return true
  return false

structure PruneTie where
  compared : Nat := 0
  guarded : Nat := 0
  pairs : Nat := 0
  pruned : Nat := 0
  assertFail : Nat := 0
  mismatch : Option String := none

open AdaptaVerif.Model.TopoPrune in
/-- compare what the constructor left (`post`) with the model's pruning of `pre` -/
def pruneTieEdge (t : PruneTie) (dim e stepNo : Nat) (nodes : Array NodeRect) (pre post : List PathPt) : PruneTie :=
  let bp := (pre.map (toBPt nodes)).toArray
  if pruneDelicate bp then { t with guarded := t.guarded + 1 } else
  let bl := bp.toList
  let kept := keptIdx dim bl
  let prA := pre.toArray
  let expected := kept.map fun i => let a := prA.getD i default; (a.node, a.ri)
  let got := post.map fun a => (a.node, a.ri)
  let npairs := ((legs bl).filter fun ab => samePos ab.1 ab.2).length
  let t := { t with compared := t.compared + 1, pairs := t.pairs + npairs,
                    pruned := t.pruned + (pre.length - kept.length),
                    assertFail := t.assertFail + (if allAssertsOk bl then 0 else 1) }
  if expected == got || t.mismatch.isSome then t else
    let showPts (l : List (Nat × Nat)) := " ".intercalate (l.map fun nr => s!"{nr.1}.{nr.2}")
    let pts := " ".intercalate (pre.map fun a => s!"{a.node}.{a.ri}({showQ a.x},{showQ a.y})")
    { t with mismatch := some s!"TopologyConstraints constructor (axis {dim}) at step {stepNo}, edge {e}: path before [{pts}], PruneDegenerate left [{showPts got}], Model/TopoPrune.prune leaves [{showPts expected}]" }


/-! ### tie of the constraint generation and of the two `satisfy()` rewrites to Model/TopoCons

After every `TopologyConstraints` construction the harness dumps the constraints the instance holds
(`KD`/`KS`/`KB`, harness/c13_cons.h), and again after every `solve()`.

* construct: per node event (NodeOpen at the node's low scan position, NodeClose at the high one)
  the set of dumped StraightConstraints with that (node, pos) must be the set `consAtOpen` /
  `consAtClose` of the model - (edge, segment, corner, nodeLeft) exactly, p and g within 1e-9
  relative, u v w exactly.  The comparator of the event sort leaves events of the same kind at the
  same position unordered; for every such group of nodes all orders are tried (≤ 5 nodes; the
  order `std::sort` produced is not observable) and one order must explain all events of the group.
  The BendConstraints of every open path must be `bendCons`.  The state machine `scan` is run as
  well and must give the same set as the closed form (model-internal check; Lemmas/TopoConsScan
  is the proof).
* solve: one edge may have gained a point (StraightConstraint::satisfy) or lost one
  (BendConstraint::satisfy): the new path and the new per-segment constraint lists (in list order)
  must be `straightSatisfy` / `bendSatisfy` of the previous dump evaluated in the geometry after
  the move; nothing else may change.

Comparisons whose outcome depends on a floating-point rounding (two compared quantities differ by
less than 1e-6 without being equal in exact arithmetic; for the computed crossing point of a segment
with the scan line also when they are equal) are not made (`cons.guarded`).
A difference is a DIVERGE; failures later in the same history get the class prefix `cons-mismatch/`. -/
namespace ConsTie
open AdaptaVerif.Model.TopoCons

structure St where
  constructs : Nat := 0
  events : Nat := 0
  straight : Nat := 0
  bends : Nat := 0
  guarded : Nat := 0
  tieGroups : Nat := 0
  tieNonStable : Nat := 0
  tieUndecided : Nat := 0
  blind : Nat := 0
  parallelSegs : Nat := 0
  rewritesS : Nat := 0
  rewritesB : Nat := 0
  unchanged : Nat := 0
  scanChecked : Nat := 0
  nonOverlap : Nat := 0
  nonOverlapUndecided : Nat := 0
  moves : Nat := 0
  movesCut : Nat := 0
  movesAmbiguous : Nat := 0
  mismatch : Option String := none

def St.fail (t : St) (m : String) : St := if t.mismatch.isSome then t else { t with mismatch := some m }

def tolQ : Rat := 1 / 1000000
def near (a b : Rat) : Bool := a != b && Driver.C13.absQ (a - b) < tolQ
/-- the same for a quantity the library computes with rounding (`forwardIntersection`): equality in exact arithmetic
    does not survive (a segment ending exactly at a neighbour's centre gives `p < leftLimit` or not by the last bit) -/
def nearI (a b : Rat) : Bool := Driver.C13.absQ (a - b) < tolQ
def closeRel (a b : Rat) : Bool := Driver.C13.absQ (a - b) ≤ (Driver.C13.absQ a + Driver.C13.absQ b + 1) / 1000000000

def tcNode (geom : Snap) (i : Nat) : Node :=
  let r := geom.nodes.getD i default
  ⟨i, ⟨r.minX, r.maxX, r.minY, r.maxY⟩⟩

def tcPts (geom : Snap) (path : List PathPt) : List EPt := path.map fun a => ⟨tcNode geom a.node, a.ri⟩

def insertAll {α : Type} (a : α) : List α → List (List α)
  | [] => [[a]]
  | b :: l => (a :: b :: l) :: (insertAll a l).map (b :: ·)

/-- all orders of a list, the given order first -/
def perms {α : Type} : List α → List (List α)
  | [] => [[]]
  | a :: l => (perms l).flatMap (insertAll a)

def beforeOf (perm : List Nat) (m n : Node) : Bool := perm.idxOf m.id < perm.idxOf n.id

/-- a comparison made for the pair (segment, node event) may round differently in the library -/
def pairDelicate (d : Nat) (n : Node) (pos : Rat) (others : List Node) (sg : Seg) : Bool :=
  let c := conj d
  near (sg.s.pos c) pos || near (sg.e.pos c) pos || near (sg.s.pos c) (sg.e.pos c) ||
  (!sg.parallel d &&
    (let x := sg.inter d pos
     nearI x (n.r.centre d) || others.any fun m => nearI x (m.r.centre d)))

def showKeys (l : List (Nat × Nat × Nat × Bool)) : String :=
  " ".intercalate (l.map fun k => s!"e{k.1}.s{k.2.1}:ri{k.2.2.1}{if k.2.2.2 then "L" else "R"}")

def sameSet {α : Type} [BEq α] (a b : List α) : Bool := a.length == b.length && a.all b.contains && b.all a.contains

/-- compare one node event; `none` = equal, `some msg` = difference; second component = (#compared, #guarded) -/
def eventDiff (d : Nat) (nodes : List Node) (segs : List Seg) (ks : List KSLine) (isOpen : Bool)
    (before : Node → Node → Bool) (n : Node) : Option String × Nat × Nat :=
  let pos := if isOpen then n.r.lo (conj d) else n.r.hi (conj d)
  let exp := if isOpen then consAtOpen d before nodes segs n else consAtClose d before nodes segs n
  let others := nodes.filter fun m => m.id != n.id
  let del := segs.filter (pairDelicate d n pos others)
  let isDel (e i : Nat) : Bool := del.any fun sg => sg.edge == e && sg.idx == i
  let exp := exp.filter fun x => !isDel x.1.edge x.1.idx
  let got := ks.filter fun k => k.node == n.id && k.pos == pos && !isDel k.e k.seg
  let ek := exp.map fun x => (x.1.edge, x.1.idx, x.2.ri, x.2.nodeLeft)
  let gk := got.map fun k => (k.e, k.seg, k.ri, k.nodeLeft)
  if !sameSet ek gk then
    (some s!"{if isOpen then "NodeOpen" else "NodeClose"} of node {n.id} at scan position {showQ pos} (axis {d}): the library holds StraightConstraints [{showKeys gk}], the model generates [{showKeys ek}]", exp.length, del.length)
  else
    let bad := exp.find? fun x =>
      match got.find? (fun k => k.e == x.1.edge && k.seg == x.1.idx && k.ri == x.2.ri) with
      | some k => !(closeRel k.p x.2.p && closeRel k.g x.2.g && k.u == x.1.s.node.id && k.v == x.1.e.node.id && k.w == n.id)
      | none => true
    match bad with
    | some x => (some s!"StraightConstraint of node {n.id} at {showQ pos} on edge {x.1.edge} segment {x.1.idx}: TriConstraint members differ from the model (model p={showQ x.2.p} g={showQ x.2.g} u={x.1.s.node.id} v={x.1.e.node.id})", exp.length, del.length)
    | none => (none, exp.length, del.length)

/-- all events of one tie group under one order -/
def groupDiff (d : Nat) (nodes : List Node) (segs : List Seg) (ks : List KSLine) (isOpen : Bool)
    (grp : List Node) (perm : List Nat) : Option String × Nat × Nat :=
  grp.foldl (fun acc n =>
    let r := eventDiff d nodes segs ks isOpen (beforeOf perm) n
    ((match acc.1 with | some m => some m | none => r.1), acc.2.1 + r.2.1, acc.2.2 + r.2.2)) (none, 0, 0)

/-- tie groups of one event kind with the orders that explain the dumped StraightConstraints -/
def checkGroups (t : St) (d : Nat) (nodes : List Node) (segs : List Seg) (ks : List KSLine) (isOpen : Bool) :
    St × List (List Node × List (List Nat)) := Id.run do
  let key (n : Node) : Rat := if isOpen then n.r.lo (conj d) else n.r.hi (conj d)
  let mut t := t
  let mut seen : List Rat := []
  let mut groups : List (List Node × List (List Nat)) := []
  for n in nodes do
    if seen.contains (key n) then continue
    seen := key n :: seen
    let grp := nodes.filter fun m => key m == key n
    let ids := grp.map (·.id)
    let stable := groupDiff d nodes segs ks isOpen grp ids
    t := { t with events := t.events + grp.length, straight := t.straight + stable.2.1, guarded := t.guarded + stable.2.2 }
    if grp.length > 1 then t := { t with tieGroups := t.tieGroups + 1 }
    let cands := if grp.length ≤ 5 then perms ids else [ids, ids.reverse]
    let ok := if grp.length == 1 then (if stable.1.isNone then [ids] else [])
              else cands.filter fun pm => (groupDiff d nodes segs ks isOpen grp pm).1.isNone
    groups := groups ++ [(grp, ok)]
    match stable.1 with
    | none => pure ()
    | some msg =>
      if !ok.isEmpty then t := { t with tieNonStable := t.tieNonStable + 1 }
      else if grp.length == 1 then t := t.fail msg
      else if grp.length ≤ 5 then
        t := t.fail (msg ++ s!" (no order of the {grp.length} nodes {ids} that share this scan position explains the constraints)")
      else t := { t with tieUndecided := t.tieUndecided + 1 }
  return (t, groups)

/-- remove one occurrence of every element of `sub` from `l`; `none` if some element is missing -/
def msub (l sub : List (Nat × Nat)) : Option (List (Nat × Nat)) :=
  sub.foldl (fun acc x => acc.bind fun l => if l.contains x then some (l.erase x) else none) (some l)

/-- is there one order per NodeClose tie group (among those that explain the StraightConstraints) such that the
    non-overlap constraints of all NodeClose events are exactly the dumped ones? -/
def nocSearch (d : Nat) (nodes : List Node) : List (List Node × List (List Nat)) → List (Nat × Nat) → Bool
  | [], rest => rest.isEmpty
  | (grp, oks) :: more, rest =>
    oks.any fun pm =>
      let made := grp.flatMap fun n => (nonOverlapAtClose d (beforeOf pm) nodes n).map fun c => (c.left.id, c.right.id)
      match msub rest made with
      | some rest' => nocSearch d nodes more rest'
      | none => false

def checkNonOverlap (t : St) (d : Nat) (nodes : List Node) (kc : List (Nat × Nat × Rat))
    (groups : List (List Node × List (List Nat))) (stepNo : Nat) : St := Id.run do
  if groups.any fun g => g.2.isEmpty then return t          -- the StraightConstraint tie already failed / is undecided
  let budget := groups.foldl (fun acc g => acc * g.2.length) 1
  if budget > 20000 then return { t with nonOverlapUndecided := t.nonOverlapUndecided + 1 }
  let t := { t with nonOverlap := t.nonOverlap + kc.length }
  -- gaps
  let arr := nodes.toArray
  -- the gap is a sum of two lengths, a halving and `+1e-7`: a few ulps; 1e-9 absolute separates it from a missing 1e-7
  match kc.find? (fun c => absQ (c.2.2 - (mkNOC d (arr.getD c.1 default) (arr.getD c.2.1 default)).gap) > 1 / 1000000000) with
  | some c => return t.fail s!"cons tie: TopologyConstraints constructor at step {stepNo} (axis {d}): non-overlap constraint x{c.1} + {showQ c.2.2} <= x{c.2.1}: the model's gap is {showQ (mkNOC d (arr.getD c.1 default) (arr.getD c.2.1 default)).gap}"
  | none => pure ()
  let pairs := kc.map fun c => (c.1, c.2.1)
  if nocSearch d nodes groups pairs then return t
  let stab (m n : Node) : Bool := m.id < n.id
  let exp := (nonOverlapClosed d stab nodes).map fun c => (c.left.id, c.right.id)
  return t.fail s!"cons tie: TopologyConstraints constructor at step {stepNo} (axis {d}): the scan created the non-overlap constraints (left,right) {pairs}, the model creates {exp} (in node order of equal-position NodeClose events; no admissible order gives the library's set)"

def bendDiff (d e : Nat) (pts : List EPt) (kb : List KBLine) : Option String × Nat × Nat := Id.run do
  let c := conj d
  -- bends whose reference-segment choice (inLen > outLen) is within rounding are not compared
  let arr := pts.toArray
  let delicate (i : Nat) : Bool :=
    if i == 0 || i + 1 ≥ arr.size then false else
    let u := arr[i-1]!; let v := arr[i]!; let w := arr[i+1]!
    near (absQ (v.pos c - u.pos c)) (absQ (w.pos c - v.pos c))
  let exp := (bendCons d pts).filter fun b => !delicate b.idx
  let got := kb.filter fun k => k.e == e && !delicate k.pt
  let nd := (List.range pts.length).countP delicate
  if exp.length != got.length then
    return (some s!"edge {e} (axis {d}): the library holds BendConstraints at points {got.map (·.pt)}, the model at {exp.map (·.idx)}", exp.length, nd)
  for (b, k) in exp.zip got do
    if !(b.idx == k.pt && b.leftOf == k.leftOf && b.u == k.u && b.v == k.v && b.w == k.w && closeRel b.p k.p && closeRel b.g k.g) then
      return (some s!"edge {e} (axis {d}) BendConstraint at point {k.pt}: library leftOf={k.leftOf} u={k.u} v={k.v} w={k.w} p={showQ k.p} g={showQ k.g}, model point {b.idx} leftOf={b.leftOf} u={b.u} v={b.v} w={b.w} p={showQ b.p} g={showQ b.g} (reverse={b.rev})", exp.length, nd)
  return (none, exp.length, nd)

def openEdges (s : Snap) (cyc : Array Bool) : List Nat := (List.range s.paths.size).filter fun e => !cyc.getD e false

def checkBends (t : St) (s : Snap) (cyc : Array Bool) : St :=
  (openEdges s cyc).foldl (fun t e =>
    let r := bendDiff s.dim e (tcPts s (s.paths[e]!)) s.kb.toList
    let t := { t with bends := t.bends + r.2.1, guarded := t.guarded + r.2.2 }
    match r.1 with | some m => t.fail ("cons tie: " ++ m) | none => t) t

/-- a construction: generation tie -/
def checkConstruct (t : St) (s : Snap) (cyc : Array Bool) (stepNo : Nat) : St := Id.run do
  let d := s.dim
  let nodes := (List.range s.nodes.size).map (tcNode s)
  let segs := (openEdges s cyc).flatMap fun e => segsOf e (tcPts s (s.paths[e]!))
  let ks := s.ks.toList
  let mut t := { t with constructs := t.constructs + 1,
                        parallelSegs := t.parallelSegs + segs.countP (·.parallel d) }
  let pre := t.mismatch.isSome
  t := (checkGroups t d nodes segs ks true).1
  let (t', closeGroups) := checkGroups t d nodes segs ks false
  t := t'
  t := checkBends t s cyc
  if s.kn then t := checkNonOverlap t d nodes s.kc.toList closeGroups stepNo
  if !pre then
    match t.mismatch with
    | some m => t := { t with mismatch := some s!"cons tie: TopologyConstraints constructor at step {stepNo}: {m}" }
    | none => pure ()
  -- model-internal: the state machine against the closed form (stable tie order)
  let tb : Ev → Nat := fun ev => match ev with
    | .nodeOpen n => n.id | .nodeClose n => n.id | .segOpen _ => 0 | .segClose _ => 0
  let stab (m n : Node) : Bool := m.id < n.id
  let sn := scanNO d tb nodes segs
  let sc := sn.1
  let k4 (x : Seg × SC) := (x.1.edge, x.1.idx, x.2.node.id, x.2.ri, x.2.nodeLeft, x.2.pos)
  let a := sc.out.map k4
  let b := (consClosed d stab stab nodes segs).map k4
  let na := sn.2.map fun c => (c.left.id, c.right.id)
  let nb := (nonOverlapClosed d stab nodes).map fun c => (c.left.id, c.right.id)
  t := { t with scanChecked := t.scanChecked + 1 }
  if !sc.dupKey && (!sameSet a b || !sameSet na nb || !sc.openSegs.isEmpty || !sc.openNodes.isEmpty) then
    t := t.fail s!"cons tie (model-internal): at step {stepNo} Model/TopoCons.scanNO and its closed forms consClosed / nonOverlapClosed differ ({a.length} vs {b.length} straight, {na.length} vs {nb.length} non-overlap constraints; open at end: {sc.openSegs.length} segments, {sc.openNodes.length} nodes)"
  -- statistics: pairs hidden by the segment's own end node (the registered blind spot)
  for n in nodes do
    for isOpen in [true, false] do
      let pos := if isOpen then n.r.lo (conj d) else n.r.hi (conj d)
      let others := if isOpen then openNodesAtOpen d stab n nodes else openNodesAtClose d stab n nodes
      let os := if isOpen then openSegsAtOpen d pos segs else openSegsAtClose d pos segs
      for sg in os do
        if sg.connected n then continue
        let x := sg.inter d pos
        let own (nb : Option Node) : Bool := match nb with
          | some m => (sg.s.ri == 4 && sg.s.node.id == m.id) || (sg.e.ri == 4 && sg.e.node.id == m.id)
          | none => false
        let L := leftNb d n others; let R := rightNb d n others
        if (blocks d pos x true L && own L) || (blocks d pos x false R && own R) then
          t := { t with blind := t.blind + 1 }
  return t

def edgeSt (geom : Snap) (e : Nat) (path : List PathPt) (ks : List KSLine) : EdgeSt :=
  let pts := tcPts geom path
  { id := e, pts := pts,
    scs := (List.range (pts.length - 1)).map fun j =>
      (ks.filter fun k => k.e == e && k.seg == j).map fun k =>
        { node := tcNode geom k.node, ri := k.ri, pos := k.pos, nodeLeft := k.nodeLeft, p := k.p, g := k.g } }

def scEq (a b : SC) : Bool :=
  a.node.id == b.node.id && a.ri == b.ri && a.pos == b.pos && a.nodeLeft == b.nodeLeft && closeRel a.p b.p && closeRel a.g b.g

def showScs (l : List SC) : String :=
  " ".intercalate (l.map fun c => s!"n{c.node.id}:ri{c.ri}{if c.nodeLeft then "L" else "R"}@{showQ c.pos}")

/-- some `createStraight` decision on the new segment(s) is within rounding -/
def rewriteDelicate (d : Nat) (newSegs : List Seg) (cands : List SC) : Bool :=
  newSegs.any fun sg => near (sg.s.pos (conj d)) (sg.e.pos (conj d)) ||
    cands.any fun c => !sg.parallel d && nearI (sg.inter d c.pos) (c.node.r.centre d)

/-- a `solve()` step: rewrite tie for edge `e` -/
def checkEdgeStep (t : St) (prev s : Snap) (e stepNo : Nat) : St := Id.run do
  let d := s.dim
  let pre := edgeSt s e (prev.paths[e]!) prev.ks.toList          -- previous structure in the geometry after the move
  let post := edgeSt s e (s.paths[e]!) s.ks.toList
  let n0 := pre.pts.length
  let n1 := post.pts.length
  let ptKey (l : List EPt) := l.map fun a => (a.node.id, a.ri)
  let where_ := s!"cons tie: solve() step {stepNo} (axis {d}), edge {e}: "
  let cmp (t : St) (st' : EdgeSt) (what : String) : St :=
    if ptKey st'.pts != ptKey post.pts then
      t.fail (where_ ++ s!"{what}: path is {ptKey post.pts}, the model's rewrite gives {ptKey st'.pts}")
    else
      match (List.range (n1 - 1)).find? (fun j =>
          let a := st'.scs.getD j []; let b := post.scs.getD j []
          !(a.length == b.length && (a.zip b).all fun ab => scEq ab.1 ab.2)) with
      | some j => t.fail (where_ ++ s!"{what}: segment {j} holds StraightConstraints [{showScs (post.scs.getD j [])}], the model's rewrite gives [{showScs (st'.scs.getD j [])}]")
      | none => t
  if n1 == n0 then
    return cmp { t with unchanged := t.unchanged + 1 } pre "nothing was rewritten on this edge"
  else if n1 == n0 + 1 then
    -- StraightConstraint::satisfy: the first index where the paths differ is the new bend
    let q := ((ptKey pre.pts).zip (ptKey post.pts)).takeWhile (fun ab => ab.1 == ab.2) |>.length
    if q == 0 then return t.fail (where_ ++ "the path gained a point at its start")
    let j := q - 1
    let bend := post.pts.getD q default
    let lst := pre.scs.getD j []
    match lst.findIdx? (fun c => c.node.id == bend.node.id && c.ri == bend.ri) with
    | none => return t.fail (where_ ++ s!"the path gained the bend (node {bend.node.id}, corner {bend.ri}) in segment {j}, but that segment held no StraightConstraint for it: [{showScs lst}]")
    | some k =>
      let a := pre.pts.getD j default; let b := pre.pts.getD (j+1) default
      if rewriteDelicate d [⟨e, j, a, bend⟩, ⟨e, j+1, bend, b⟩] lst then return { t with guarded := t.guarded + 1 }
      match straightSatisfy d pre j k with
      | none => return t.fail (where_ ++ "straightSatisfy undefined")
      | some st' => return cmp { t with rewritesS := t.rewritesS + 1 } st' s!"StraightConstraint::satisfy (segment {j}, node {bend.node.id}, corner {bend.ri})"
  else if n1 + 1 == n0 then
    let i := ((ptKey pre.pts).zip (ptKey post.pts)).takeWhile (fun ab => ab.1 == ab.2) |>.length
    if i == 0 || i + 1 ≥ n0 then return t.fail (where_ ++ "the path lost an end point")
    let u := pre.pts.getD (i-1) default; let v := pre.pts.getD i default; let w := pre.pts.getD (i+1) default
    let cands := (pre.scs.getD (i-1) []) ++ (pre.scs.getD i []) ++
      [{ node := v.node, ri := 0, pos := v.pos (conj d), nodeLeft := false, p := 0, g := 0 }]
    if rewriteDelicate d [⟨e, i-1, u, w⟩] cands then return { t with guarded := t.guarded + 1 }
    match bendSatisfy d pre i with
    | none => return t.fail (where_ ++ "bendSatisfy undefined")
    | some st' => return cmp { t with rewritesB := t.rewritesB + 1 } st' s!"BendConstraint::satisfy (point {i}, node {v.node.id}, corner {v.ri})"
  else
    return t.fail (where_ ++ s!"the path went from {n0} to {n1} points in one solve()")


/-- one dumped constraint as `solve()` sees it -/
structure TCon where
  seq : Nat
  straight : Bool
  e : Nat
  /-- segment index (straight) / point index (bend) -/
  at_ : Nat
  node : Nat
  ri : Nat
  tri : AdaptaVerif.Model.Tri.TriConstraint

/-- the whole `solve()` step: from the constraints and rectangles of the previous state and the solver's final positions
    (`F` line) the model (`Model/Tri`: maxSafeAlpha, the first-minimum loop, posOnLine) predicts minTAlpha, the new node
    positions and WHICH constraint is satisfied; the observed move and path edit must be that.  Not compared when two
    constraints tie for the minimum within 1e-9 or the minimum is within 1e-9 of 0 or 1 (rounding decides), nor in
    scenes with a cyclic edge (its constraints are not dumped), nor when a constraint is tight at the start and violated at
    the end (then `maxSafeAlpha` is ≈ 0 or, by the `msa<0` branch, the final slack - decided by the last bit). -/
def checkMove (t : St) (prev s : Snap) (cyc : Array Bool) (stepNo : Nat) : St := Id.run do
  match s.fin with
  | none => return t
  | some fin =>
    if cyc.any id then return t
    let d := s.dim
    let centre (sn : Snap) (i : Nat) : Rat :=
      let r := sn.nodes.getD i default
      if d == 0 then r.minX + (r.maxX - r.minX) / 2 else r.minY + (r.maxY - r.minY) / 2
    let ini : AdaptaVerif.Model.Tri.Pos := fun i => centre prev i
    let finP : AdaptaVerif.Model.Tri.Pos := fun i => fin.getD i 0
    let all : List TCon :=
      (prev.ks.toList.map fun k => { seq := k.seq, straight := true, e := k.e, at_ := k.seg, node := k.node, ri := k.ri,
                                     tri := { u := k.u, v := k.v, w := k.w, p := k.p, g := k.g, leftOf := k.nodeLeft } }) ++
      (prev.kb.toList.map fun k => { seq := k.seq, straight := false, e := k.e, at_ := k.pt, node := k.v, ri := 0,
                                     tri := { u := k.u, v := k.v, w := k.w, p := k.p, g := k.g, leftOf := k.leftOf } })
    let ordered := all.mergeSort fun a b => a.seq ≤ b.seq
    -- the loop of solve(): minTAlpha=1; if(tAlpha<minTAlpha) { minTAlpha=tAlpha; minT=t; }
    let (minA, arg) := ordered.foldl (fun (acc : Rat × Option TCon) c =>
      let a := c.tri.msa ini finP
      if a < acc.1 then (a, some c) else acc) (1, none)
    let tiny : Rat := 1 / 1000000000
    let others := ordered.filter fun c => match arg with | some a => c.seq != a.seq | none => true
    let tie := minA < 1 && others.any fun c => absQ (c.tri.msa ini finP - minA) ≤ tiny * (1 + absQ minA)
    -- a constraint that is tight at the start (|initial slack| < 1e-9) and violated at the end gets msa = root ≈ 0 or, if its
    -- initial slack rounds below 0, msa = fSlack (the `msa<0` branch): the last bit decides; likewise the sign of a final
    -- slack within 1e-9 of 0 decides whether the constraint counts at all
    let delicate := ordered.any fun c =>
      let sI := c.tri.slackAt ini
      let sF := c.tri.slackAt finP
      (sF < tiny && absQ sI < tiny) || absQ sF < tiny
    if tie || delicate || absQ minA < tiny || (minA < 1 && 1 - minA < tiny) then
      return { t with movesAmbiguous := t.movesAmbiguous + 1 }
    let t := { t with moves := t.moves + 1, movesCut := t.movesCut + (if minA < 1 then 1 else 0) }
    let where_ := s!"cons tie: solve() step {stepNo} (axis {d}): "
    -- the move
    let newPos := AdaptaVerif.Model.Tri.moveStep (ordered.map (·.tri)) ini finP
    match (List.range s.nodes.size).find? (fun i => !closeRel (centre s i) (newPos i)) with
    | some i => return t.fail (where_ ++ s!"node {i} is at {showQ (centre s i)}, the model's move phase (minTAlpha = {showQ minA}) puts it at {showQ (newPos i)} (from {showQ (ini i)}, solver's final position {showQ (finP i)})")
    | none => pure ()
    -- which constraint is satisfied
    let lens (sn : Snap) := (openEdges sn cyc).map fun e => (e, (sn.paths[e]!).length)
    let changed := ((lens prev).zip (lens s)).filter fun ab => ab.1.2 != ab.2.2
    let key (l : List PathPt) := l.map fun a => (a.node, a.ri)
    match (if minA < 1 then arg else none) with
    | none =>
      if changed.isEmpty then return t
      return t.fail (where_ ++ s!"no constraint limits the move (minTAlpha = {showQ minA}) but the paths of edges {changed.map (·.1.1)} changed length")
    | some c =>
      let pre := key (prev.paths[c.e]!)
      let post := key (s.paths[c.e]!)
      let exp := if c.straight then pre.take (c.at_ + 1) ++ [(c.node, c.ri)] ++ pre.drop (c.at_ + 1) else pre.eraseIdx c.at_
      if post == exp && changed.all (fun ab => ab.1.1 == c.e) then return t
      return t.fail (where_ ++ s!"minTAlpha = {showQ minA} is attained first by the {if c.straight then "StraightConstraint" else "BendConstraint"} of edge {c.e} ({if c.straight then "segment" else "point"} {c.at_}, node {c.node}), satisfying it gives the path {exp}; the library's path is {post} (edges whose length changed: {changed.map (·.1.1)})")

def checkSolve (t : St) (prev s : Snap) (cyc : Array Bool) (stepNo : Nat) : St :=
  let t := (openEdges s cyc).foldl (fun t e => checkEdgeStep t prev s e stepNo) t
  let t := checkBends t s cyc
  checkMove t prev s cyc stepNo

def St.stats (t : St) : List (String × Nat) :=
  [("cons.constructs", t.constructs), ("cons.node-events", t.events), ("cons.straight-compared", t.straight),
   ("cons.bends-compared", t.bends), ("cons.guarded", t.guarded), ("cons.tie-groups", t.tieGroups),
   ("cons.tie-groups.non-stable-order", t.tieNonStable), ("cons.tie-groups.undecided", t.tieUndecided),
   ("cons.hidden-by-own-endnode", t.blind), ("cons.parallel-segments", t.parallelSegs),
   ("cons.rewrite.straight-satisfy", t.rewritesS), ("cons.rewrite.bend-satisfy", t.rewritesB),
   ("cons.rewrite.unchanged-edges", t.unchanged), ("cons.scan-vs-closed", t.scanChecked),
   ("cons.non-overlap-compared", t.nonOverlap), ("cons.non-overlap-undecided", t.nonOverlapUndecided),
   ("cons.solve-steps-predicted", t.moves), ("cons.solve-steps-predicted.cut-short", t.movesCut),
   ("cons.solve-steps-ambiguous", t.movesAmbiguous)]

end ConsTie

def abortClass (txt : String) : String :=
  if (txt.splitOn "NoIntersection").length > 1 then "assert-segment-rect-intersection"
  else if (txt.splitOn "assertConvexBend").length > 1 then "assert-convex-bend"
  else if (txt.splitOn "noOverlaps").length > 1 then "assert-no-overlaps"
  else if (txt.splitOn "assertFeasible").length > 1 then "assert-feasible"
  else if (txt.splitOn "Assertion").length > 1 then "assert-other"
  else if (txt.splitOn "LeakSanitizer").length > 1 then "leak"
  else if (txt.splitOn "AddressSanitizer").length > 1 then "asan"
  else if (txt.splitOn "runtime error").length > 1 then "ubsan"
  else "abort-other"

def checkScene (c : Case) : CaseResult := Id.run do
  let nNodes := nat! (((c.get1 "N").getD #["0"])[0]!)
  let endsL := c.get "E"
  let ends : Array (Nat × Nat) := endsL.map fun l => (nat! l[1]!, nat! l[2]!)
  let abortTxt : Option String := (c.get1 "ABORT").map fun l => " ".intercalate l.toList
  let cycIds := (c.get "Y").map fun l => nat! l[0]!
  let cyc : Array Bool := (Array.range ends.size).map fun e => cycIds.contains e
  match parseSnaps c nNodes ends.size with
  | none => return { verdict := .diverge "unparsable state line" }
  | some snaps =>
    if snaps.size == 0 then
      return { verdict := .ok, nontrivial := false, stats := [("scene.empty", 1)] }
    -- preconditions: the initial scene must itself satisfy the invariants
    match firstViolation ends snaps[0]! cyc with
    | some (name, _, _, _, _) =>
      -- not a verdict on the library: the generator is expected to keep this counter at 0
      return { verdict := .ok, nontrivial := false,
               stats := [("scene.invalid-initial", 1), ("scene.invalid-initial." ++ name, 1)] }
    | none => pure ()
    let mut nStates := 0
    let mut nLegs := 0
    let mut nBends := 0
    let mut structural := 0      -- steps in which some path gained / lost a bend
    let mut sigChecks := 0
    let mut tie : PruneTie := {}
    let mut ct : ConsTie.St := {}
    -- class prefix of every failure that follows a constructor pass that did not prune as modelled
    let pm (t : PruneTie) : String := if t.mismatch.isSome then "prune-mismatch/" else ""
    let pmNote (t : PruneTie) : String := match t.mismatch with | some m => "; earlier: " ++ m | none => ""
    -- the same for a history in which the constraints held by the library are not the model's
    let cm (t : ConsTie.St) : String := if t.mismatch.isSome then "cons-mismatch/" else ""
    let cmNote (t : ConsTie.St) : String := match t.mismatch with | some m => "; earlier: " ++ m | none => ""
    for i in [1:snaps.size] do
      let s := snaps[i]!
      let prev := snaps[i-1]!
      nStates := nStates + 1
      for e in [0:s.paths.size] do
        nLegs := nLegs + (s.paths[e]!.length - 1)
        nBends := nBends + (s.paths[e]!.length - 2)
        if s.paths[e]!.length != prev.paths[e]!.length then structural := structural + 1
      if s.kind == "construct" && s.dim < 2 then
        for e in [0:s.paths.size] do
          if cyc.getD e false then continue
          tie := pruneTieEdge tie s.dim e i prev.nodes prev.paths[e]! s.paths[e]!
      -- constraint generation / rewrite tie (Model/TopoCons)
      if s.kd && s.dim < 2 then
        if s.kind == "construct" then ct := ConsTie.checkConstruct ct s cyc i
        else if s.kind == "solve" && prev.kd && prev.dim == s.dim then ct := ConsTie.checkSolve ct prev s cyc i
      let where_ := s!"step {i} ({s.kind}, axis {s.dim}) of {snaps.size - 1}"
      let ab := if s.kind == "abort" then
          s!"; library aborted: {abortTxt.getD "?"}" else ""
      -- a state dumped at an abort inside applyResizes mixes the original rectangles with
      -- paths pinned to the temporary lhs/rhs dummy nodes: not judged (reported as crash below)
      let judge := !(s.kind == "abort" && s.dim == 2)
      match (if judge then firstViolation ends s cyc else none) with
      | some (name, detail, e, j, k) =>
        let cls :=
          if name == "seg-through-node" then
            (if endNodeShadow s e j k then "endnode-visibility" else "seg-through-node")
          else if name == "bad-bend" && hasParallelLeg prev s e then "bad-bend-after-parallel-segment"
          else name
        let cls := pm tie ++ cm ct ++ cls
        return { verdict := .specfail s!"class={cls} {where_}: {detail}{ab}{pmNote tie}{cmNote ct}",
                 stats := [("scene.fail." ++ cls, 1)] }
      | none => pure ()
      -- side signature for single-axis steps
      -- closed paths: inside / outside of every node (any step), exact crossing counts (one axis)
      for e in [0:s.paths.size] do
        if cyc.getD e false && s.kind != "init" && !(s.kind == "abort" && s.dim == 2) then
          sigChecks := sigChecks + 1
          let ia := cycleInside prev.nodes.toList prev.paths[e]!
          let ib := cycleInside s.nodes.toList s.paths[e]!
          if ia != ib then
            let k := (firstDiffIdx ia ib).getD 0
            return { verdict := .specfail s!"class=cycle-side-changed {where_}: node {k} changed between inside and outside of closed path {e}: crossing parity (x-ray, y-ray) {ia.getD k (false,false)} → {ib.getD k (false,false)}{ab}",
                     stats := [("scene.fail.cycle-side-changed", 1)] }
          if s.dim < 2 then
            let sa := cycleSignature s.dim prev.nodes.toList prev.paths[e]!
            let sb := cycleSignature s.dim s.nodes.toList s.paths[e]!
            if sa != sb then
              let k := (firstDiffIdx sa sb).getD 0
              return { verdict := .specfail s!"class=cycle-side-changed {where_}: closed path {e} passes node {k} differently: crossings before/at centre {sa.getD k (0,0)} → {sb.getD k (0,0)}{ab}",
                       stats := [("scene.fail.cycle-side-changed", 1)] }
      if s.dim < 2 then
        for e in [0:s.paths.size] do
          if cyc.getD e false then continue
          let sa := sideSignature s.dim prev.nodes.toList prev.paths[e]!
          let sb := sideSignature s.dim s.nodes.toList s.paths[e]!
          sigChecks := sigChecks + 1
          if sa != sb then
            let k := (firstSigDiff sa sb).getD 0
            let cls := if endLegShadow s e k then "endnode-visibility" else "side-changed"
            let cls := pm tie ++ cm ct ++ cls
            return { verdict := .specfail s!"class={cls} {where_}: side changed without a visible intersection: edge {e} passes node {k} on a different side: crossings before/at centre {sa.getD k (0,0)} → {sb.getD k (0,0)}{ab}{pmNote tie}{cmNote ct}",
                     stats := [("scene.fail." ++ cls, 1)] }
      -- two-pass steps (applyResizes / handleResizes: x pass, then y pass): parity of the side
      -- count on both axes, corrected for path end points passing over the ray
      if s.dim == 2 && s.kind != "abort" && s.kind != "init" then
        for e in [0:s.paths.size] do
          if cyc.getD e false then continue
          sigChecks := sigChecks + 1
          match firstParityDiff prev.nodes.toList s.nodes.toList prev.paths[e]! s.paths[e]! with
          | some (k, d) =>
            let kb := prev.nodes[k]!
            let ka := s.nodes[k]!
            return { verdict := .specfail s!"class=side-changed-resize {where_}: edge {e} passes node {k} on a different side after the resize: parity of crossings before the centre on the axis-{d} scan line {sideParity d kb prev.paths[e]!} → {sideParity d ka s.paths[e]!}, predicted {expectedParity d prev.nodes.toList s.nodes.toList prev.paths[e]! k}; node {k} was [{showQ kb.minX},{showQ kb.maxX}]x[{showQ kb.minY},{showQ kb.maxY}], is [{showQ ka.minX},{showQ ka.maxX}]x[{showQ ka.minY},{showQ ka.maxY}]",
                     stats := [("scene.fail.side-changed-resize", 1)] }
          | none => pure ()
    match abortTxt with
    | some txt =>
      -- the library stopped itself (its own invariant checks / a sanitizer) although every state
      -- we saw passes our checkers: still a failing input (CRASH)
      let inResize := snaps.back!.kind == "abort" && snaps.back!.dim == 2
      let cls := pm tie ++ cm ct ++ "crash-" ++ (if inResize then "resize-" else "") ++ abortClass txt
      return { verdict := .specfail s!"class={cls} CRASH after {snaps.size - 1} states, all of which pass the state checkers: {txt}{pmNote tie}{cmNote ct}",
               stats := [("scene.fail." ++ cls, 1)] }
    | none => pure ()
    match tie.mismatch with
    | some m => return { verdict := .diverge s!"prune tie: {m}", stats := [("prune.mismatch", 1)] }
    | none => pure ()
    match ct.mismatch with
    | some m => return { verdict := .diverge m, stats := [("cons.mismatch", 1)] }
    | none => pure ()
    return { verdict := .ok, nontrivial := structural > 0,
             stats := [("scene.states", nStates), ("scene.legs", nLegs), ("scene.bends", nBends),
                       ("scene.structural-steps", structural), ("scene.signature-checks", sigChecks),
                       ("scene.nodes", nNodes), ("scene.edges", ends.size),
                       ("prune.tie.paths", tie.compared), ("prune.tie.guarded", tie.guarded),
                       ("prune.tie.coincident-pairs", tie.pairs), ("prune.tie.points-pruned", tie.pruned),
                       ("prune.tie.model-assert-fails", tie.assertFail)] ++ ct.stats }

/-! ### prune-rule cases: the constructor's pruning of constructed paths vs. Model/TopoPrune -/

open AdaptaVerif.Model.TopoPrune in
def checkPruneRule (c : Case) : CaseResult := Id.run do
  let mut lines := 0
  let mut pairs := 0
  let mut prunedIn := 0
  let mut prunedOut := 0
  let mut prunedCol := 0
  let mut guarded := 0
  let mut last : Array String := #[]
  -- the `q` line (input) waiting for its `kept` line (what the constructor left)
  let mut pending : Array (Nat × Array BPt) := #[]
  for l0 in c.lines do
    if l0.size == 0 then continue
    let l := l0.extract 1 l0.size
    if l0[0]! == "q" then
      last := l0
      if l.size < 2 then return { verdict := .diverge s!"short q line {l}" }
      let dim := nat! l[0]!
      let k := nat! l[1]!
      if l.size < 2 + 4 * k then return { verdict := .diverge s!"short q line {l}" }
      match nums? (l.extract 2 (2 + 4 * k)) with
      | none => return { verdict := .diverge s!"unparsable q line {l}" }
      | some v =>
        pending := pending.push (dim, (Array.range k).map fun i => ⟨v[4*i]!, v[4*i+1]!, v[4*i+2]!, v[4*i+3]!⟩)
    else if l0[0]! == "kept" then
      match pending[0]? with
      | none => return { verdict := .diverge s!"kept line without q line {l}" }
      | some (dim, bp) =>
        pending := pending.extract 1 pending.size
        let k := bp.size
        let m := nat! (l[0]?.getD "0")
        let got := ((l.extract 1 (1 + m)).toList.map nat!)
        lines := lines + 1
        if pruneDelicate bp then
          guarded := guarded + 1
          continue
        let bl := bp.toList
        pairs := pairs + ((AdaptaVerif.Check.Topo.legs bl).filter fun ab => samePos ab.1 ab.2).length
        for i in [1:k-1] do
          let o := bp[i-1]!; let pt := bp[i]!; let q := bp[i+1]!
          let n? := if i < 2 then none else bp[i-2]?
          if collinearRule dim o pt q then prunedCol := prunedCol + 1
          if inRule n? o pt q then prunedIn := prunedIn + 1
          else if outRule o pt q bp[i+2]? then prunedOut := prunedOut + 1
        let want := keptIdx dim bl
        if want != got then
          let pts := " ".intercalate (bl.map fun a => s!"({showQ a.x},{showQ a.y};c {showQ a.cx},{showQ a.cy})")
          return { verdict := .diverge s!"prune tie: TopologyConstraints constructor (axis {dim}) on the path [{pts}] keeps the points {got}, Model/TopoPrune.prune keeps {want} (model asserts ok: {allAssertsOk bl})" }
  match c.get1 "ABORT" with
  | some l =>
    return { verdict := .specfail s!"class=crash-prune-rule CRASH inside the TopologyConstraints constructor on a constructed path (last line {last}): {" ".intercalate l.toList}" }
  | none => pure ()
  return { verdict := .ok, nontrivial := prunedIn + prunedOut + prunedCol > 0,
           stats := [("rule.paths", lines), ("rule.coincident-pairs", pairs), ("rule.pruned.second-of-pair", prunedIn),
                     ("rule.pruned.first-of-pair", prunedOut), ("rule.pruned.collinear", prunedCol), ("rule.guarded", guarded)] }

def run (_args : List String) : IO UInt32 :=
  runCases (fun c => if c.tag.startsWith "tri" then checkTri c
                     else if c.tag == "prune-rule" then checkPruneRule c else checkScene c)

end Driver.C13
