/-
Driver mode c03 (DESIGN.md section 6, C03): route validity of libavoid connectors.
Per case (one scene, one processTransaction):
 * every connector's `route()` and `displayRoute()`: ≥ 2 points, first = src, last = dst (exact),
   no leg enters a real shape (not containing an endpoint) deeper than 1e-6  — `Check.Route.routeValid`,
   proved sound in Props/C03.  A violated route is a SPECFAIL only if an obstacle-free path exists,
   which the driver establishes by exhibiting one in the spec visibility graph of the routing
   polygons (corners + endpoints, edge iff `¬segHitsInterior`; every edge of the exhibited path is
   checked with the proven checker).
 * every dumped polyline visibility edge must be spec-unblocked w.r.t. the routing polygons (SPECFAIL);
   every orthogonal visibility edge axis-parallel and spec-unblocked (SPECFAIL / DIVERGE).
 * `UseLeesAlgorithm = false`, exactly representable scenes: dumped edge set = `Model.Visibility.visible`
   on all candidate pairs (DIVERGE).
 * `UseLeesAlgorithm = true` (the default), exactly representable single-transaction scenes: dumped edge set =
   `Model.LeeSweep.transactionEdges` (Lee's rotational sweep as written, incl. the decision rule of
   `sweepVisible`, `onBorderIDs`, the status list and `newBlockingShape`) — DIVERGE on any difference.  A dumped
   edge (or a route leg that is such an edge) which is spec-blocked AND which the modelled sweep does not produce
   is reported as `class=sweep-model-blocks`: that failure is NOT an instance of the known weaknesses of the
   sweep (those are reproduced by the model), so it is never absorbed by their known-finding fingerprint.
-/
import Driver.Proto
import AdaptaVerif.Check.Route
import AdaptaVerif.Model.Visibility
import AdaptaVerif.Model.LeeSweep
namespace Driver.C03
open Driver AdaptaVerif.Num
open AdaptaVerif.Model.Geometry (Pt area2)
open AdaptaVerif.Check.Route
open AdaptaVerif.Model.Visibility

def tolShrink : Rat := 1 / 1000000

structure Conn where
  id : Nat
  src : Pt
  dst : Pt
  orth : Bool
  deriving Inhabited

structure VisEdge where
  o1 : Nat
  v1 : Nat
  c1 : Bool
  p1 : Pt
  o2 : Nat
  v2 : Nat
  c2 : Bool
  p2 : Pt
  deriving Inhabited

def ptsOf (v : Array Rat) : List Pt :=
  (List.range (v.size / 2)).map fun i => ⟨v[2*i]!, v[2*i+1]!⟩

/-- lines `<kw> <id> <n> x y …` → (id, points) -/
def parsePolys (c : Case) (kw : String) : Option (List (Nat × List Pt)) :=
  (c.get kw).toList.mapM fun l => do
    let v ← nums? (l.extract 2 l.size)
    if v.size != 2 * nat! l[1]! then none
    pure (nat! l[0]!, ptsOf v)

def parseConns (c : Case) : Option (List Conn) :=
  (c.get "conn").toList.mapM fun l => do
    let v ← nums? (l.extract 1 5)
    pure { id := nat! l[0]!, src := ⟨v[0]!, v[1]!⟩, dst := ⟨v[2]!, v[3]!⟩, orth := l[5]! == "orth" }

def parseVis (c : Case) : Option (List VisEdge) :=
  (c.get "vis").toList.mapM fun l => do
    let a ← nums? (l.extract 3 5)
    let b ← nums? (l.extract 8 10)
    pure { o1 := nat! l[0]!, v1 := nat! l[1]!, c1 := l[2]! == "1", p1 := ⟨a[0]!, a[1]!⟩,
           o2 := nat! l[5]!, v2 := nat! l[6]!, c2 := l[7]! == "1", p2 := ⟨b[0]!, b[1]!⟩ }

def parseOvis (c : Case) : Option (List (Pt × Pt)) :=
  (c.get "ovis").toList.mapM fun l => do
    let v ← nums? l
    pure (⟨v[0]!, v[1]!⟩, ⟨v[2]!, v[3]!⟩)

def cfgFlag (c : Case) (name : String) : Bool :=
  match c.get1 "cfg" with
  | some l => Id.run do
    for i in [0:l.size] do
      if l[i]! == name then return l[i+1]! == "1"
    return false
  | none => false

def ptStr (p : Pt) : String := s!"({ratToString p.x},{ratToString p.y})"

/-- v lies on the closed segment pq -/
def onClosedSeg (p q v : Pt) : Bool :=
  area2 p q v == 0 && rmin p.x q.x ≤ v.x && v.x ≤ rmax p.x q.x && rmin p.y q.y ≤ v.y && v.y ≤ rmax p.y q.y

/-- number of vertices of `poly` in the open segment pq -/
def cornersInOpenSeg (poly : Poly) (p q : Pt) : Nat :=
  (poly.filter fun v => onClosedSeg p q v && v != p && v != q).length

/-- v lies on the boundary of poly -/
def onBoundary (poly : Poly) (v : Pt) : Bool := (polyEdges poly).any fun e => onClosedSeg e.1 e.2 v

/-- Classification of an interior hit (message only).
    collinear-vertex: a vertex of the crossed shape lies in the open segment (the orientation tests of
      `segmentIntersect` are 0 there, so neither adjacent edge reports a crossing);
    touch-touch: both segment ends lie on the boundary of the crossed shape (each end is an "endpoint
      touch", no proper crossing anywhere);
    touch-one: exactly one segment end lies on the boundary of the crossed shape (a vertex of a touching
      neighbour), the segment crosses one edge properly;
    other: anything else. -/
def hitClass (shapes : List Poly) (i : Nat) (p q : Pt) : String :=
  let poly := shapes.getD i []
  if cornersInOpenSeg poly p q ≥ 1 then "class=collinear-vertex"
  else if onBoundary poly p && onBoundary poly q then "class=touch-touch"
  else if onBoundary poly p || onBoundary poly q then "class=touch-one"
  else "class=other"

/-- axis-aligned bounding box (xmin, ymin, xmax, ymax) -/
def bbox (poly : Poly) : Rat × Rat × Rat × Rat :=
  match poly with
  | [] => (0, 0, 0, 0)
  | v :: vs => vs.foldl (fun (a, b, c, d) w => (rmin a w.x, rmin b w.y, rmax c w.x, rmax d w.y)) (v.x, v.y, v.x, v.y)

/-- Unverified prefilter: can the segment reach the open bounding box of the shape at all?  It is only
    used to skip shapes when *searching* for hits (completeness of the search); every reported hit is
    confirmed by the proven `segHitsInteriorTol`, and path certificates use the proven `routeValid`. -/
def mayTouch (bb : Rat × Rat × Rat × Rat) (p q : Pt) : Bool :=
  let (x0, y0, x1, y1) := bb
  !((p.x ≤ x0 && q.x ≤ x0) || (x1 ≤ p.x && x1 ≤ q.x) || (p.y ≤ y0 && q.y ≤ y0) || (y1 ≤ p.y && y1 ≤ q.y))

/-- first shape (index not in excl) hit by the leg, bounding-box prefiltered -/
def firstHitBB (tol : Rat) (excl : List Nat) (shapes : Array (Poly × (Rat × Rat × Rat × Rat))) (l : Pt × Pt) : Option Nat := Id.run do
  for i in [0:shapes.size] do
    let (poly, bb) := shapes[i]!
    if mayTouch bb l.1 l.2 && !excl.contains i && segHitsInteriorTol tol poly l.1 l.2 then return some i
  return none

def smallDyadic (r : Rat) : Bool := 64 % r.den == 0

/-- is the segment unblocked (margin tol) by all shapes not in excl (prefiltered search) -/
def unblocked (tol : Rat) (shapes : Array (Poly × (Rat × Rat × Rat × Rat))) (excl : List Nat) (p q : Pt) : Bool :=
  (firstHitBB tol excl shapes (p, q)).isNone

/-- Search for an obstacle-free path src → dst in the spec visibility graph (vertices: corners of
    `shapes` + the two endpoints).  Depth-first, neighbours tried nearest-to-target first, edges
    tested lazily with the exact checker.  Returns the path if found. -/
partial def findPath (shapes : Array (Poly × (Rat × Rat × Rat × Rat))) (excl : List Nat) (src dst : Pt) : Option (List Pt) := Id.run do
  let verts : Array Pt := (shapes.foldl (fun acc s => acc ++ s.1) []).toArray
  let d2 (p : Pt) : Rat := (p.x - dst.x) * (p.x - dst.x) + (p.y - dst.y) * (p.y - dst.y)
  let order := (List.range verts.size).toArray.qsort (fun i j => d2 verts[i]! < d2 verts[j]!)
  let mut visited : Array Bool := Array.replicate verts.size false
  -- stack of (point, path so far reversed)
  let mut stack : List (Pt × List Pt) := [(src, [src])]
  let mut fuel := 4 * verts.size + 8
  while fuel > 0 do
    fuel := fuel - 1
    match stack with
    | [] => return none
    | (u, path) :: rest =>
      stack := rest
      if unblocked 0 shapes excl u dst then return some (dst :: path).reverse
      -- push in reverse order so that the nearest is expanded first
      let mut nbrs : List (Pt × List Pt) := []
      for i in order do
        if !visited[i]! then
          let v := verts[i]!
          if unblocked 0 shapes excl u v then
            visited := visited.set! i true
            nbrs := (v, v :: path) :: nbrs
      stack := nbrs.reverse ++ stack
  return none

/-- failures found in a case; the one with the smallest priority number is reported
    (route-level before mechanism-level, unclassified before classified):
    0 unclassified route failure (incl. a leg that is an edge the modelled sweep does not produce) · 5 blocked
    visibility edge that the modelled sweep does not produce · 6 Lee edge set ≠ model · 10 classified interior hit ·
    20 endpoint moved · 50/60 naive edge set ≠ model · 100/110 blocked visibility edge (unclassified / classified) ·
    120 blocked orthogonal edge · 200 orthogonal edge not axis-parallel -/
structure Fail where
  prio : Nat
  verdict : Verdict

def worst (fs : List Fail) : Option Fail :=
  fs.foldl (fun acc f => match acc with
    | none => some f
    | some g => if f.prio < g.prio then some f else some g) none

def classPrio (cls : String) : Nat := if cls == "class=other" || cls == "class=sweep-model-blocks" then 0 else 1

/-- the Lee model is run on scenes with at most this many shapes (cost ~ (4·shapes)³) -/
def leeModelMaxShapes : Nat := 24


def vkey (o v : Nat) : Nat := o * 100000 + v
def pairKey (o1 v1 o2 v2 : Nat) : Nat × Nat :=
  let a := vkey o1 v1
  let b := vkey o2 v2
  if a ≤ b then (a, b) else (b, a)
def keyLt (a b : Nat × Nat) : Bool := a.1 < b.1 || (a.1 == b.1 && a.2 < b.2)
def sortKeys (l : List (Nat × Nat)) : Array (Nat × Nat) := l.toArray.qsort keyLt
def hasKey (ks : Array (Nat × Nat)) (k : Nat × Nat) : Bool := (ks.binSearch k keyLt).isSome

/-- the visible edge set that Lee's sweep *as modelled* produces for the transaction of this case -/
def leeModelKeys (ignoreRegions invis : Bool) (rpolysI : List (Nat × List Pt)) (conns : List Conn) : Array (Nat × Nat) :=
  let shapes := (rpolysI.toArray.qsort (fun a b => a.1 < b.1)).toList
  let cs := ((conns.map fun cn => (cn.id, cn.src, cn.dst)).toArray.qsort (fun a b => a.1 < b.1)).toList
  sortKeys ((AdaptaVerif.Model.LeeSweep.transactionEdges ignoreRegions invis shapes cs).map
    fun e => pairKey e.1.1 e.1.2 e.2.1 e.2.2)

def run1 (c : Case) : CaseResult := Id.run do
  if c.tag == "empty" then return { verdict := .ok, nontrivial := false }
  -- edit-history snapshots that are degenerate (three collinear graph points) or whose history ended early
  if (c.get1 "skip").isSome && (c.get1 "crash").isNone then
    return { verdict := .ok, nontrivial := false, stats := [("skippedSnapshot", 1)] }
  -- the harness runs every case in a child process; an abort (failed assertion, sanitizer report, leak)
  -- is reported as a `crash` line: no routes were produced for a valid scene
  if let some l := c.get1 "crash" then
    let msg := " ".intercalate ((l.toList.drop 4).filter (fun t => !(t.startsWith "c03")))
    return { verdict := .specfail s!"crash ({l[0]?.getD ""} {l[1]?.getD ""}) in processTransaction on a valid scene [C15 candidate]: {msg}",
             stats := [("crash", 1)] }
  let some shapesI := parsePolys c "shape" | return { verdict := .diverge "unparsable shape" }
  let some rpolysI := parsePolys c "rpoly" | return { verdict := .diverge "unparsable rpoly" }
  let some routes := parsePolys c "route" | return { verdict := .diverge "unparsable route (non-finite coordinate?)" }
  let some displays := parsePolys c "display" | return { verdict := .diverge "unparsable display route (non-finite coordinate?)" }
  let some conns := parseConns c | return { verdict := .diverge "unparsable conn" }
  let some vis := parseVis c | return { verdict := .diverge "unparsable vis" }
  let some ovis := parseOvis c | return { verdict := .diverge "unparsable ovis" }
  let shapes : List Poly := shapesI.map (·.2)
  let rpolys : List Poly := rpolysI.map (·.2)
  if rpolys.length != shapes.length then return { verdict := .diverge "rpoly count ≠ shape count" }
  let shapesBB := (shapes.map fun p => (p, bbox p)).toArray
  let rpolysBB := (rpolys.map fun p => (p, bbox p)).toArray
  let buffer : Rat := match (c.get "param").find? (fun l => l[0]! == "shapeBufferDistance") with
    | some l => (num? (l[1]?.getD "0")).getD 0
    | none => 0
  let buffered : Bool := buffer != 0
  let hyper := (c.get1 "hjunction").isSome
  let lee := cfgFlag c "lee"
  let lk := if lee then "lee" else "naive"
  let allowPoly := cfgFlag c "poly"
  let ignoreRegions := cfgFlag c "ignoreRegions"
  let invisG := cfgFlag c "invis"
  let exact := rpolys.all (fun p => p.all fun v => smallDyadic v.x && smallDyadic v.y) &&
               conns.all (fun cn => smallDyadic cn.src.x && smallDyadic cn.src.y && smallDyadic cn.dst.x && smallDyadic cn.dst.y)
  -- Lee's sweep as modelled: only for one-transaction scenes (no edit history, no junctions) with exact coordinates
  let singleTx := !hyper && (c.get1 "hist").isNone
  let leeKeys : Option (Array (Nat × Nat)) :=
    if allowPoly && lee && exact && singleTx && rpolys.length ≤ leeModelMaxShapes then some (leeModelKeys ignoreRegions invisG rpolysI conns) else none
  /- a dumped visibility edge between these two points that the modelled sweep does NOT produce -/
  let notInLeeModel (a b : Pt) : Bool :=
    match leeKeys with
    | none => false
    | some ks => vis.any fun e => ((e.p1 == a && e.p2 == b) || (e.p1 == b && e.p2 == a)) && !hasKey ks (pairKey e.o1 e.v1 e.o2 e.v2)
  let mut stats : List (String × Nat) := [("shapes", shapes.length), ("conns", conns.length), ("visEdges", vis.length), ("ovisEdges", ovis.length)]
  -- generator sub-class printed by the harness (`gen <name>`), e.g. touching-cluster
  if let some g := c.get1 "gen" then stats := bumpStats stats s!"gen.{g[0]?.getD "?"}" 1
  let mut nontrivial := false
  let mut fails : List Fail := []
  -- ---------------------------------------------------------------- routes (the property itself)
  for cn in conns do
    let excl := containing shapes cn.src ++ containing shapes cn.dst
    if !excl.isEmpty then stats := bumpStats stats "conn.endpointInsideShape" 1
    let ck := if cn.orth then "orth" else "poly"
    -- hyperedge class: route() is the raw route from before hyperedge improvement (junction at its old
    -- position); the property speaks about the displayed route, so only displayRoute() is judged there
    for (kind, table) in (if hyper then [("display", displays)] else [("route", routes), ("display", displays)]) do
      let some (_, rt) := table.find? (·.1 == cn.id)
        | fails := ⟨0, .specfail s!"conn {cn.id}: no {kind} dumped"⟩ :: fails
      if rt.length < 2 then
        fails := ⟨0, .specfail s!"too-short conn {cn.id} {kind} ({ck}): fewer than 2 points ({rt.length})"⟩ :: fails
        continue
      if rt.head? != some cn.src then
        fails := ⟨20, .specfail s!"endpoint-moved conn {cn.id} {kind} ({ck}): starts at {ptStr (rt.headD ⟨0,0⟩)} not at source {ptStr cn.src}"⟩ :: fails
      if rt.getLast? != some cn.dst then
        fails := ⟨20, .specfail s!"endpoint-moved conn {cn.id} {kind} ({ck}): ends at {ptStr (rt.getLastD ⟨0,0⟩)} not at destination {ptStr cn.dst}"⟩ :: fails
      if rt.length > 2 then nontrivial := true
      stats := bumpStats stats s!"{kind}.len{min rt.length 6}" 1
      if cn.orth && !routeOrthogonal rt then stats := bumpStats stats s!"{kind}.orthNotAxisParallel" 1
      -- obstacle check: search with the prefilter, confirm with the proven checker
      let mut hit : Option (Nat × Pt × Pt) := none
      for l in legs rt do
        if hit.isNone then
          match firstHitBB tolShrink excl shapesBB l with
          | some i => hit := some (i, l.1, l.2)
          | none => pure ()
      match hit with
      | none => pure ()
      | some (i, a, b) =>
        if routeValid shapes excl (rt.headD ⟨0,0⟩) (rt.getLastD ⟨0,0⟩) rt tolShrink then
          fails := ⟨0, .diverge "internal: prefiltered search and proven checker disagree"⟩ :: fails
        else
          -- displayRoute() merges collinear legs of route(): classify the hit by the raw route leg inside this display
          -- leg that enters the same shape (if there is one), so that the class describes the visibility edge used
          let sub : Option (Pt × Pt) :=
            if kind == "display" then
              match routes.find? (·.1 == cn.id) with
              | some (_, raw) => (legs raw).find? fun l => onClosedSeg a b l.1 && onClosedSeg a b l.2 && !(l.1 == a && l.2 == b) &&
                                   segHitsInteriorTol tolShrink (shapes.getD i []) l.1 l.2
              | none => none
            else none
          let (ca, cb) := sub.getD (a, b)
          let cls := if notInLeeModel ca cb then "class=sweep-model-blocks" else hitClass shapes i ca cb
          -- with a buffer the visibility graph lives on the ROUTING polygons: a leg that is a dumped visibility edge is
          -- classified by how it meets the routing polygon of the shape it enters
          let isVisEdge := vis.any fun e => (e.p1 == ca && e.p2 == cb) || (e.p1 == cb && e.p2 == ca)
          let cls := if cls == "class=other" && buffered && isVisEdge && hitClass rpolys i ca cb != "class=other"
                     then s!"{hitClass rpolys i ca cb} (w.r.t. the routing polygon)" else cls
          let cls := if sub.isSome then s!"{cls} (by route leg {ptStr ca}-{ptStr cb})" else cls
          -- does an obstacle-free path exist at all?  (w.r.t. the routing polygons)
          let exclR := containing rpolys cn.src ++ containing rpolys cn.dst
          match findPath rpolysBB exclR cn.src cn.dst with
          | some path =>
            -- certify the exhibited path with the proven checker (exact, tolerance 0)
            if routeValid rpolys exclR cn.src cn.dst path 0 then
              -- fingerprint of the "endpoint without any visibility edge" fallback (straight 2-point route)
              let deg (vn : Nat) : Nat := (vis.filter fun e => (e.o1 == cn.id && e.v1 == vn && e.c1) || (e.o2 == cn.id && e.v2 == vn && e.c2)).length
              let noVis := !cn.orth && allowPoly && rt.length == 2 && (deg 1 == 0 || deg 2 == 0)
              let extra := if noVis then " no-visibility-endpoint" else ""
              fails := ⟨10 * classPrio ((cls.splitOn " ").headD ""), .specfail s!"interior-hit conn {cn.id} {kind} ({ck},{lk}): leg {ptStr a}-{ptStr b} enters shape {i+1} {cls}{extra}; route has {rt.length} points; an obstacle-free path with {path.length} points exists"⟩ :: fails
            else
              fails := ⟨0, .diverge "internal: exhibited path failed certification"⟩ :: fails
          | none => stats := bumpStats stats "noObstacleFreePath" 1
  -- ---------------------------------------------------------------- polyline visibility graph (mechanism)
  let visTol : Rat := if exact then 0 else 1 / 1000000000
  let mut nVisBad := 0
  for e in vis do
    let ex := (if e.c1 then containing rpolys e.p1 else []) ++ (if e.c2 then containing rpolys e.p2 else [])
    match firstHitBB visTol ex rpolysBB (e.p1, e.p2) with
    | some i =>
      nVisBad := nVisBad + 1
      let unmodelled := match leeKeys with
        | some ks => !hasKey ks (pairKey e.o1 e.v1 e.o2 e.v2)
        | none => false
      let cls := if unmodelled then "class=sweep-model-blocks" else hitClass rpolys i e.p1 e.p2
      if nVisBad ≤ 50 || classPrio cls == 0 then
        fails := ⟨(if unmodelled then 5 else 100 + 10 * classPrio cls), .specfail s!"vis-edge-blocked ({lk}): visibility edge [{e.o1}.{e.v1}]{ptStr e.p1}-[{e.o2}.{e.v2}]{ptStr e.p2} passes through the interior of shape {i+1} {cls}"⟩ :: fails
    | none => pure ()
  if nVisBad > 0 then stats := bumpStats stats s!"visEdgesBlocked.{lk}" nVisBad
  -- orthogonal visibility: obstacles are the shapes' bounding boxes grown by the buffer, so the edges
  -- are checked against the real shapes
  for (p, q) in ovis do
    if !axisParallel p q then
      fails := ⟨200, .diverge s!"orthogonal visibility edge {ptStr p}-{ptStr q} is not axis-parallel"⟩ :: fails
    match firstHitBB tolShrink [] shapesBB (p, q) with
    | some i =>
      -- orthogonal edges through a non-rectangular shape whose bounding box contains a connector endpoint
      -- are a consequence of the bounding-box treatment (the route-level check covers it): counted only
      let (bx0, by0, bx1, by1) := bbox (shapes.getD i [])
      let inBB (e : Pt) : Bool := bx0 - buffer < e.x && e.x < bx1 + buffer && by0 - buffer < e.y && e.y < by1 + buffer   -- Obstacle::routingBox()
      let ex := conns.any fun cn => inBB cn.src || inBB cn.dst
      if ex then stats := bumpStats stats "ovisBlockedConnEndpointInBBox" 1
      else fails := ⟨120, .specfail s!"ovis-edge-blocked: orthogonal visibility edge {ptStr p}-{ptStr q} passes through the interior of shape {i+1}"⟩ :: fails
    | none => pure ()
  -- ---------------------------------------------------------------- naive visibility = model
  if allowPoly && !lee && exact then
    stats := bumpStats stats "naiveModelCompared" 1
    let mut verts : Array (Nat × Nat × VVert) := #[]
    let mut si := 0
    for p in rpolys do
      let cs := cornersOf si p
      let mut vn := 0
      for v in cs do
        verts := verts.push (si + 1, vn, v)
        vn := vn + 1
      si := si + 1
    let ncorner := verts.size
    for cn in conns do
      verts := verts.push (cn.id, 1, connVert rpolys cn.src)
      verts := verts.push (cn.id, 2, connVert rpolys cn.dst)
    let key (o v : Nat) : Nat := o * 100000 + v
    let pairKey (o1 v1 o2 v2 : Nat) : Nat × Nat :=
      let a := key o1 v1
      let b := key o2 v2
      if a ≤ b then (a, b) else (b, a)
    let visKeys := (vis.map fun e => pairKey e.o1 e.v1 e.o2 e.v2).toArray.qsort (fun a b => a.1 < b.1 || (a.1 == b.1 && a.2 < b.2))
    let has (k : Nat × Nat) : Bool := (visKeys.binSearch k (fun a b => a.1 < b.1 || (a.1 == b.1 && a.2 < b.2))).isSome
    let mut modelCount := 0
    let mut ndiv := 0
    for i in [0:verts.size] do
      for j in [i+1:verts.size] do
        let (oi, vi, a) := verts[i]!
        let (oj, vj, b) := verts[j]!
        -- connector endpoints only see corners and their own partner
        if i ≥ ncorner && j ≥ ncorner && oi != oj then continue
        let m := visible ignoreRegions rpolys a b
        if m then modelCount := modelCount + 1
        if m != has (pairKey oi vi oj vj) then
          ndiv := ndiv + 1
          if ndiv ≤ 3 then
            fails := ⟨50, .diverge s!"naive visibility: edge [{oi}.{vi}]{ptStr a.pt}-[{oj}.{vj}]{ptStr b.pt} model={m} implementation={!m}"⟩ :: fails
    if ndiv == 0 && modelCount != vis.length then
      fails := ⟨60, .diverge s!"naive visibility: implementation has {vis.length} edges, model {modelCount} (edge outside the candidate pairs)"⟩ :: fails
    stats := bumpStats stats "naiveModelEdges" modelCount
  -- ---------------------------------------------------------------- Lee's sweep = model (default algorithm)
  if let some ks := leeKeys then
    stats := bumpStats stats "leeModelCompared" 1
    stats := bumpStats stats "leeModelEdges" ks.size
    let visKeys := sortKeys (vis.map fun e => pairKey e.o1 e.v1 e.o2 e.v2)
    let mut ndiv := 0
    for e in vis do
      if !hasKey ks (pairKey e.o1 e.v1 e.o2 e.v2) then
        ndiv := ndiv + 1
        if ndiv ≤ 3 then
          fails := ⟨6, .diverge s!"lee visibility: edge [{e.o1}.{e.v1}]{ptStr e.p1}-[{e.o2}.{e.v2}]{ptStr e.p2} model=false implementation=true"⟩ :: fails
    for k in ks do
      if !hasKey visKeys k then
        ndiv := ndiv + 1
        if ndiv ≤ 3 then
          fails := ⟨6, .diverge s!"lee visibility: edge [{k.1 / 100000}.{k.1 % 100000}]-[{k.2 / 100000}.{k.2 % 100000}] model=true implementation=false"⟩ :: fails
    if ndiv > 0 then stats := bumpStats stats "leeModelDiffs" ndiv
  match worst fails with
  | some f => return { verdict := f.verdict, nontrivial := nontrivial, stats := bumpStats stats "failuresInCase" fails.length }
  | none => return { verdict := .ok, nontrivial := nontrivial, stats := stats }

def run (_args : List String) : IO UInt32 := runCases run1

end Driver.C03
