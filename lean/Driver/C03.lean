import Driver.Proto
namespace Driver.C03

def run (_args : List String) : IO UInt32 := do
  IO.eprintln "driver mode c03: not implemented yet"
  return 2

end Driver.C03
