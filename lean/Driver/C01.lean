/-
Driver mode `c01` (VPSC: every constraint satisfied on return or reported unsatisfiable).

Per case (see harness/c01.cpp for the line protocol):
 * V  : the implementation's outputs are judged by the proven checkers of `Check/Vpsc.lean`
        (`checkPost`, `feasible`) → SPECFAIL;
 * Tie: for the incremental solvers the Rat model `Model/Vpsc.lean` is run on the same history and
        compared (positions to 1e-6·scale, flags / active sets / return value / thrown-or-returned
        exactly) whenever every order decision of the model had margin > 1e-7·scale → DIVERGE.
        For the static `vpsc::Solver` the Rat model `Model/VpscStatic.lean` (totalOrder, mergeLeft /
        mergeRight with the pairing heaps and time stamps, refine) is run on the same problem and
        compared under the same guard: positions, active set (up to identical duplicates of a
        constraint), block partition, return value, thrown-or-returned.
-/
import Driver.Proto
import AdaptaVerif.Model.Vpsc
import AdaptaVerif.Model.VpscStatic
import AdaptaVerif.Check.Vpsc
namespace Driver.C01
open Driver AdaptaVerif.Num AdaptaVerif.Model.Vpsc
open AdaptaVerif.Check.Vpsc (C checkPost firstBad feasible Verdict sumW)
open AdaptaVerif.Model.VpscStatic (SSt partitionOf invOkStatic quiescentOk totalOrder satisfyStep rawSlack)

inductive Op where
  | add (j : Nat)
  | move (i : Nat) (d : Rat)
  | satisfy
  | solve
  deriving Inhabited

structure Out where
  status : String
  ret : Bool
  pos : Array Dbl
  uns : Array Bool
  act : Array Bool
  deriving Inhabited

def bits (s : String) : Array Bool := (s.toList.map (· == '1')).toArray

def ratStr (x : Rat) : String :=
  let f : Float := Float.ofInt x.num / Float.ofNat x.den
  toString f

def tolAbs : Rat := 1 / 1000000
def guardRel : Rat := 1 / 10000000

def worse (old new : Driver.Verdict) : Driver.Verdict :=
  match old, new with
  | .specfail m, _ => .specfail m
  | _, .specfail m => .specfail m
  | .diverge m, _ => .diverge m
  | _, v => v

def checkCase (c : Case) : CaseResult := Id.run do
  let impl := ((c.get1 "impl").getD #["?"])[0]!
  let n := nat! (((c.get1 "n").getD #["0"])[0]!)
  -- variables
  let mut vs : Array (Rat × Rat × Rat) := Array.replicate n (0, 1, 1)
  let mut dataMax : Rat := 0
  for l in c.get "var" do
    match nums? (l.extract 1 4) with
    | some v =>
      vs := vs.set! (nat! l[0]!) (v[0]!, v[1]!, v[2]!)
      dataMax := if rabs v[0]! > dataMax then rabs v[0]! else dataMax
    | none => return { verdict := .diverge "unparsable var line" }
  let mut allCons : Array Con := #[]
  for l in c.get "con" do
    match num? l[3]! with
    | some g =>
      allCons := allCons.push (mkCon (nat! l[1]!) (nat! l[2]!) g (l[4]! == "1"))
      dataMax := if rabs g > dataMax then rabs g else dataMax
    | none => return { verdict := .diverge "unparsable con line" }
  let m0 := nat! (((c.get1 "init").getD #["0"])[0]!)
  let mut ops : Array Op := #[]
  for l in c.get "op" do
    let kind := l[1]!
    if kind == "add" then ops := ops.push (.add (nat! l[2]!))
    else if kind == "move" then
      match num? l[3]! with
      | some d =>
        ops := ops.push (.move (nat! l[2]!) d)
        dataMax := if rabs d > dataMax then rabs d else dataMax
      | none => return { verdict := .diverge "unparsable move" }
    else if kind == "satisfy" then ops := ops.push .satisfy
    else ops := ops.push .solve
  -- outputs by op index
  let mut outs : Array (Option Out) := Array.replicate ops.size none
  for l in c.get "out" do
    let t := nat! l[0]!
    let posL := ((c.get "pos").filter fun p => nat! p[0]! == t)[0]?
    let unsL := ((c.get "uns").filter fun p => nat! p[0]! == t)[0]?
    let actL := ((c.get "act").filter fun p => nat! p[0]! == t)[0]?
    match posL, unsL, actL with
    | some p, some u, some a =>
      match (p.extract 1 p.size).mapM dbl? with
      | some ds =>
        outs := outs.set! t (some { status := l[1]!, ret := l[2]! == "1", pos := ds,
                                    uns := bits (u[1]?.getD ""), act := bits (a[1]?.getD "") })
      | none => return { verdict := .diverge "unparsable pos" }
    | _, _, _ => return { verdict := .diverge s!"missing pos/uns/act for op {t}" }
  let sblk : Option (Array Nat) := ((c.get "sblk")[0]?).map fun l => (l.extract 1 l.size).map (fun x => nat! x)
  -- the static model is tied on unscaled systems, and on scaled ones for satisfy() (refine's split has the known
  -- scale defect and asserts); equalities included: the static solver merges across them like across
  -- inequalities (known finding C01-static-eq) and so does the model
  let staticTie := vs.all (fun v => v.2.2 == 1) || ops.all (fun o => match o with | .solve => false | _ => true)
  let scaleD : Rat := 1 + dataMax
  let tol := tolAbs * scaleD
  let scaleFn : Nat → Rat := fun i => (vs.getD i (0, 1, 1)).2.2
  let isInc := impl != "vpsc-static"
  -- run
  let mut st : St := St.init vs (allCons.extract 0 m0)
  let mut verdict : Driver.Verdict := .ok
  let mut stats : List (String × Nat) := [("impl." ++ impl, 1)]
  let mut curM := m0
  let mut modelAlive := isInc
  let mut nontrivial := false
  let mut t := 0
  for op in ops do
    match op with
    | .add _ =>
      st := st.addConstraint allCons[curM]!
      curM := curM + 1
    | .move i d => st := st.setDesired i d
    | _ =>
      let isSolve := match op with | .solve => true | _ => false
      match outs[t]! with
      | none => pure ()     -- not executed (an earlier op threw)
      | some o =>
        stats := bumpStats stats (if isSolve then "op.solve" else "op.satisfy") 1
        let cs : List C := ((allCons.extract 0 curM).map fun k => ({ l := k.l, r := k.r, gap := k.gap, eq := k.eq } : C)).toList
        let flags : List Bool := (List.range curM).map fun j => o.uns.getD j false
        let anyFlag := flags.any id
        let anyEq := cs.any (·.eq)
        if anyFlag then stats := bumpStats stats "impl.flagged" 1
        -- ---------- V: proven checkers on the implementation's output
        if o.status == "ret" then
          if !(o.pos.all (·.isFinite)) || o.pos.size != n then
            verdict := worse verdict (.specfail s!"op {t}: non-finite or missing final position")
          else
            let posA := o.pos.map (·.val)
            let posFn : Nat → Rat := fun i => posA.getD i 0
            if !(checkPost tol scaleFn posFn (cs.zip flags)) then
              let j := (firstBad tol scaleFn posFn (cs.zip flags)).getD 0
              let cj := cs.getD j default
              verdict := worse verdict (.specfail s!"op {t}: unflagged constraint {j} (v{cj.l}+{ratStr cj.gap}{if cj.eq then "==" else "<="}v{cj.r}) violated: slack={ratStr (AdaptaVerif.Check.Vpsc.slack scaleFn posFn cj)} tol={ratStr tol}")
            if !anyEq then
              match feasible n cs with
              | .feasible _ =>
                stats := bumpStats stats "sys.feasible" 1
                if anyFlag then
                  verdict := worse verdict (.specfail s!"op {t}: constraint flagged unsatisfiable but the system is feasible (potentials certified)")
              | .infeasible cyc =>
                stats := bumpStats stats "sys.infeasible" 1
                if !anyFlag && sumW cyc > tol * cyc.length then
                  verdict := worse verdict (.specfail s!"op {t}: system infeasible (certified cycle of {cyc.length} edges, total gap {ratStr (sumW cyc)}) but nothing flagged")
              | .unknown =>
                verdict := worse verdict (.diverge s!"op {t}: feasibility checker produced no certificate")
            else stats := bumpStats stats "sys.withEq" 1
        else
          stats := bumpStats stats ("impl." ++ o.status) 1
          if !isInc then
            -- the static solver is only driven on inequality DAGs (always feasible).  Its way of reporting a
            -- constraint unsatisfiable is the exception: on a CERTIFIED feasible inequality system that is the
            -- property's "flagged iff infeasible" failing on a concrete input
            let certFeasible := !anyEq && (match feasible n cs with | .feasible _ => true | _ => false)
            if certFeasible && o.status == "threw-unsatisfied" then
              verdict := worse verdict (.specfail s!"op {t}: static solver reported a constraint unsatisfiable (threw UnsatisfiedConstraint) but the system is feasible (potentials certified)")
            else
              verdict := worse verdict (.diverge s!"op {t}: static solver threw ({o.status}) on an acyclic inequality system")
        -- ---------- Tie: the static solver's model
        if !isInc && t == 0 && staticTie then
          let s0 := SSt.init vs (allCons.extract 0 curM)
          let (s1, oc) := if isSolve then s0.solve else s0.satisfy
          let hs := s1.hs
          stats := bumpStats stats "smodel.mergeLeft" hs.nMergeL
          stats := bumpStats stats "smodel.mergeLeftSwapped" hs.nMergeLSwap
          stats := bumpStats stats "smodel.mergeRight" hs.nMergeR
          stats := bumpStats stats "smodel.mergeRightSwapped" hs.nMergeRSwap
          stats := bumpStats stats "smodel.heapInternalDropped" hs.nInternal
          stats := bumpStats stats "smodel.heapStaleReinserted" hs.nStale
          stats := bumpStats stats "smodel.refineSplit" hs.nSplit
          stats := bumpStats stats "smodel.refineRounds" hs.nRounds
          if hs.nSplit ≥ 2 then stats := bumpStats stats "smodel.casesWithSeveralSplits" 1
          -- the invariant of the VPSC paper's satisfy argument (NOT proved in Lean), evaluated exactly on the
          -- model after every step of the loop of `Solver::satisfy`: (i) every constraint between two processed
          -- variables holds, (ii) no previously processed variable has moved right
          if n ≤ 80 then
            let mut sp := s0
            let mut done : Array Bool := Array.replicate n false
            let mut okFeas := true
            let mut okLeft := true
            for v in (totalOrder s0.st).1 do
              let before := sp.st.positions
              sp := satisfyStep sp v
              for u in [0:n] do
                if done.getD u false && sp.st.pos u > before.getD u 0 then okLeft := false
              done := done.set! v true
              for ci in [0:curM] do
                let cc := sp.st.cons[ci]!
                if done.getD cc.l false && done.getD cc.r false && rawSlack sp.st ci < 0 then okFeas := false
            stats := bumpStats stats "smodel.paperInvariantCases" 1
            if !okFeas then stats := bumpStats stats "smodel.paperInvariant.prefixInfeasible" 1
            if !okLeft then stats := bumpStats stats "smodel.paperInvariant.processedMovedRight" 1
          if !hs.exact then stats := bumpStats stats "smodel.inexactCases" 1
          let guarded := hs.margin > guardRel * scaleD
          match oc with
          | .outOfFuel =>
            stats := bumpStats stats "smodel.outOfFuel" 1
            verdict := worse verdict (.diverge s!"op {t}: static model ran out of fuel")
          | .threw =>
            stats := bumpStats stats "smodel.threw" 1
            if guarded && o.status == "ret" then
              verdict := worse verdict (.diverge s!"op {t}: static model throws (exit scan) but the implementation returned")
          | .ok mpos mret =>
            if isSolve then
              let q := quiescentOk s1.st LAGRANGIAN_TOLERANCE
              if !q.1 then stats := bumpStats stats "smodel.solveNotStationary" 1
              if !q.2.1 then stats := bumpStats stats "smodel.solveNotExactlyFeasible" 1
              if !q.2.2 then stats := bumpStats stats "smodel.solveReturnedWithSplittable" 1
              if q.1 && q.2.1 && q.2.2 then stats := bumpStats stats "smodel.solveQuiescentAtReturn" 1
            if !(invOkStatic s1.st) then
              stats := bumpStats stats "smodel.invariantBroken" 1
              verdict := worse verdict (.diverge s!"op {t}: block invariant does not hold in the static model state after the call")
            else stats := bumpStats stats "smodel.invariantChecked" 1
            if o.status != "ret" then
              if guarded then
                verdict := worse verdict (.diverge s!"op {t}: implementation threw ({o.status}) but the static model returns")
            else if guarded then
              stats := bumpStats stats "sguarded.strict" 1
              let mut bad : Option String := none
              for i in [0:n] do
                let pi := (o.pos.getD i .nan).val
                if rabs (pi - mpos.getD i 0) > tol then
                  bad := some s!"position of v{i}: impl {ratStr pi} model {ratStr (mpos.getD i 0)}"
              -- active set up to identical duplicates (same l, r, gap): compare per class counts
              let rep : Nat → Nat := fun j =>
                let cj := allCons[j]!
                ((List.range j).find? fun k => let ck := allCons[k]!; ck.l == cj.l && ck.r == cj.r && ck.gap == cj.gap).getD j
              let actM := ((List.range curM).filter fun j => (s1.st.cons[j]!).active).map rep
              let actI := ((List.range curM).filter fun j => o.act.getD j false).map rep
              if actM.mergeSort != actI.mergeSort then
                bad := some s!"active set: impl {actI} model {actM}"
              match sblk with
              | some bl =>
                let pm := partitionOf s1.st
                if pm.toList != bl.toList then bad := some s!"block partition: impl {bl} model {pm}"
              | none => pure ()
              if mret != o.ret then bad := some s!"return value: impl {o.ret} model {mret}"
              match bad with
              | some msg =>
                verdict := worse verdict (.diverge s!"op {t}: static: {msg} (min decision margin {ratStr hs.margin})")
              | none => pure ()
            else
              stats := bumpStats stats "sguarded.loose" 1
        -- ---------- Tie: the model
        if modelAlive then
          let (st', oc) := if isSolve then st.solve else st.satisfy
          st := st'
          let guarded := st.margin > guardRel * scaleD
          match oc with
          | .outOfFuel =>
            modelAlive := false
            stats := bumpStats stats "model.outOfFuel" 1
            if o.status == "ret" then
              verdict := worse verdict (.diverge s!"op {t}: model ran out of fuel but the implementation returned")
          | .threw =>
            modelAlive := false
            stats := bumpStats stats "model.threw" 1
            if guarded && o.status == "ret" then
              verdict := worse verdict (.diverge s!"op {t}: model throws (exit scan) but the implementation returned")
          | .ok mpos mret =>
            if !(st.invOk && st.eqActive) then
              stats := bumpStats stats "model.invariantBroken" 1
              verdict := worse verdict (.diverge s!"op {t}: block invariant does not hold in the model state after the call")
            else stats := bumpStats stats "model.invariantChecked" 1
            if o.status != "ret" then
              modelAlive := false
              if guarded then
                verdict := worse verdict (.diverge s!"op {t}: implementation threw ({o.status}) but the model returns")
            else if guarded then
              stats := bumpStats stats "guarded.strict" 1
              let mut bad : Option String := none
              for i in [0:n] do
                let pi := (o.pos.getD i .nan).val
                if rabs (pi - mpos.getD i 0) > tol then
                  bad := some s!"position of v{i}: impl {ratStr pi} model {ratStr (mpos.getD i 0)}"
              for j in [0:curM] do
                let cj := st.cons[j]!
                if cj.unsat != o.uns.getD j false then
                  bad := some s!"unsatisfiable flag of constraint {j}: impl {o.uns.getD j false} model {cj.unsat}"
                else if cj.active != o.act.getD j false then
                  bad := some s!"active flag of constraint {j}: impl {o.act.getD j false} model {cj.active}"
              if mret != o.ret then bad := some s!"return value: impl {o.ret} model {mret}"
              match bad with
              | some msg =>
                modelAlive := false
                verdict := worse verdict (.diverge s!"op {t}: {msg} (min decision margin {ratStr st.margin})")
              | none => pure ()
            else
              stats := bumpStats stats "guarded.loose" 1
    t := t + 1
  if isInc then
    stats := bumpStats stats "model.merge" st.nMerge
    stats := bumpStats stats "model.splitBlocks" st.nSplit
    stats := bumpStats stats "model.splitBetween" st.nSplitBetween
    stats := bumpStats stats "model.flagPath" st.nFlagPath
    stats := bumpStats stats "model.flagNoSplitPoint" st.nFlagNoSplit
    stats := bumpStats stats "model.resatisfiedBySplit" st.nResat
    nontrivial := st.nMerge + st.nSplit + st.nSplitBetween + st.nFlagPath + st.nFlagNoSplit > 0
  else
    nontrivial := outs.any fun o => match o with
      | some o => o.act.any id
      | none => false
  stats := bumpStats stats "size.n" n
  stats := bumpStats stats "size.m" allCons.size
  return { verdict := verdict, nontrivial := nontrivial, stats := stats }

def run (_args : List String) : IO UInt32 :=
  runCases checkCase

end Driver.C01
