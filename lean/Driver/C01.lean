import Driver.Proto
namespace Driver.C01

def run (_args : List String) : IO UInt32 := do
  IO.eprintln "driver mode c01: not implemented yet"
  return 2

end Driver.C01
