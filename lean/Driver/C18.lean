/-
Driver mode c18: libdialect separation constraints. Reads the case stream of harness/c18.cpp, runs
the model (AdaptaVerif.Model.Sep) and decides per case:
  SPECFAIL — the C++ outputs themselves violate the property text (a placement on which transform
             equivariance fails; a composition that is not the D4 product; constraints stored after
             a history that do not mean what was requested; a TGLF round trip that changes geometry,
             routes or the meaning of a constraint), each with a concrete witness;
  DIVERGE  — the C++ differs from the model on an observable although no property violation is shown.
Argument `--impl-flag stale|fixed`: which `flippedRetrieval` semantics of `SepMatrix::getSepPair` the
C++ is expected to follow (stale = flag written only on creation, the code as found; fixed = written
on every retrieval). SPECFAIL decisions never depend on it (the requested meaning is always the
fixed semantics); it only selects the model used for the exact structural comparison.
-/
import AdaptaVerif.Model.TglfIds
import Driver.Proto
import AdaptaVerif.Model.Sep
namespace Driver.C18
open Driver AdaptaVerif.Num AdaptaVerif.Model.Sep

/-! ### token parsing -/

def gt? : String → Option GapType
  | "C" => some .centre | "B" => some .bdry | _ => none
def st? : String → Option SepType
  | "NONE" => some .none | "EQ" => some .eq | "INEQ" => some .ineq | _ => none
def sd? : String → Option SepDir
  | "EAST" => some .east | "SOUTH" => some .south | "WEST" => some .west | "NORTH" => some .north
  | "RIGHT" => some .right | "DOWN" => some .down | "LEFT" => some .left | "UP" => some .up | _ => none
def cd? : String → Option CardinalDir
  | "EAST" => some .east | "SOUTH" => some .south | "WEST" => some .west | "NORTH" => some .north
  | _ => none
def tf? (s : String) : Option SepTransform := SepTransform.all[nat! s]?
def tfOf (i : Nat) : SepTransform := SepTransform.all[i]?.getD .ident
def tfIndex (t : SepTransform) : Nat := (SepTransform.all.findIdx? (· == t)).getD 0

def sz? (s : String) : Option SZ :=
  match parseDbl s with
  | some (.fin sign v) => some (SZ.ofSignVal sign v)
  | _ => match s.toInt? with
    | some i => some (SZ.ofRat (i : Rat))
    | none => none

def gtS : GapType → String | .centre => "C" | .bdry => "B"
def stS : SepType → String | .none => "NONE" | .eq => "EQ" | .ineq => "INEQ"
def szS (g : SZ) : String := (if g.neg then "-" else "+") ++ ratToString g.mag
def fieldsS (sp : SepPair) : String :=
  s!"{gtS sp.xgt} {stS sp.xst} {szS sp.xgap} {gtS sp.ygt} {stS sp.yst} {szS sp.ygap}"

/-- decimal numeral `[-]ddd[.ddd]` -/
def dec? (s : String) : Option Dec :=
  let cs := s.toList
  let (neg, cs) := match cs with
    | '-' :: r => (true, r)
    | r => (false, r)
  let ip := cs.takeWhile (· != '.')
  let fp := (cs.dropWhile (· != '.')).drop 1
  if ip.isEmpty || !(ip ++ fp).all Char.isDigit then none
  else match (String.ofList (ip ++ fp)).toNat? with
    | some n => some { neg := neg, units := n, prec := fp.length }
    | none => none

/-- six tokens of a SEPCO line -/
def tglfLine? (t : Array String) (o : Nat) : Option TglfLine := do
  let src ← (t[o]?).bind String.toNat?
  let tgt ← (t[o+1]?).bind String.toNat?
  let gt ← (t[o+2]?).bind gt?
  let ds ← t[o+3]?
  let dir ← match ds.toList with
    | [c] => DirLetter.ofChar? c
    | _ => none
  let rel ← t[o+4]?
  let isEq ← if rel == "==" then some true else if rel == ">=" then some false else none
  let gap ← (t[o+5]?).bind dec?
  pure { src := src, tgt := tgt, gt := gt, dir := dir, isEq := isEq, gap := gap }

/-- `<n> tok*6n` or `THROW`, starting at token `o`; outer none = malformed, inner none = THROW -/
def tglfLines? (t : Array String) (o : Nat) : Option (Option (List TglfLine)) :=
  if t[o]? == some "THROW" then some none else do
    let n ← (t[o]?).bind String.toNat?
    let mut ls : List TglfLine := []
    for i in [0:n] do
      let l ← tglfLine? t (o + 1 + 6 * i)
      ls := ls ++ [l]
    pure (some ls)

/-- `none` | `left right gap eq` at token `o`; returns the constraint and the next offset -/
def vcon? (t : Array String) (o : Nat) : Option (Option VCon × Nat) :=
  if t[o]? == some "none" then some (none, o + 1) else do
    let l ← (t[o]?).bind String.toNat?
    let r ← (t[o+1]?).bind String.toNat?
    let g ← (t[o+2]?).bind num?
    let e ← t[o+3]?
    pure (some { left := l, right := r, gap := g, equality := e == "1" }, o + 4)

def vcons? (t : Array String) (o : Nat) : Option (List VCon) := do
  let n ← (t[o]?).bind String.toNat?
  let mut cs : List VCon := []
  let mut p := o + 1
  for _ in [0:n] do
    let (c, p') ← vcon? t p
    match c with
    | some c => cs := cs ++ [c]
    | none => failure
    p := p'
  pure cs

def vconS (c : VCon) : String :=
  s!"[{c.left}+{ratToString c.gap}{if c.equality then "=" else "<="}{c.right}]"
def vconsS (cs : List VCon) : String := " ".intercalate (cs.map vconS)

/-! ### meaning of generated constraints -/

/-- canonical form: an equality is reoriented so that left < right; inequalities stay -/
def vconNorm (c : VCon) : VCon :=
  if c.equality && c.right < c.left then { c with left := c.right, right := c.left, gap := -c.gap } else c

def vconLt (a b : VCon) : Bool :=
  let ka := (min a.left a.right, max a.left a.right)
  let kb := (min b.left b.right, max b.left b.right)
  keyLt ka kb

def insertSorted (c : VCon) : List VCon → List VCon
  | [] => [c]
  | d :: r => if vconLt c d then c :: d :: r else d :: insertSorted c r

def normList (cs : List VCon) : List VCon := (cs.map vconNorm).foldl (fun acc c => insertSorted c acc) []

/-- does `c` hold with `pos` ? -/
def vconHolds (c : VCon) (pos : Nat → Rat) : Bool :=
  if c.equality then pos c.left + c.gap == pos c.right else pos c.left + c.gap ≤ pos c.right

def allHold (cs : List VCon) (pos : Nat → Rat) : Bool := cs.all (vconHolds · pos)

/-- candidate offsets (pos hi − pos lo) that can distinguish constraints with the given gaps -/
def offsets (cs : List VCon) : List Rat :=
  let gs := cs.map (·.gap)
  (0 :: 1 :: -1 :: gs.flatMap fun g => [g, -g, g + 1, -g - 1, g - 1, -g + 1]).eraseDups

/-- Are two constraint lists (one dimension) the same statement pair by pair? If not, return a
    witness: ids (a, b) and an offset `pos b − pos a` on which exactly one side holds. -/
def distinguish (cs₁ cs₂ : List VCon) : Option (Nat × Nat × Rat) := Id.run do
  let n₁ := normList cs₁
  let n₂ := normList cs₂
  if n₁ == n₂ then return none
  -- find a pair on which they differ
  let keys := ((n₁ ++ n₂).map fun c => (min c.left c.right, max c.left c.right)).eraseDups
  for (a, b) in keys do
    let f (l : List VCon) := l.filter fun c => (min c.left c.right, max c.left c.right) == (a, b)
    let p₁ := f n₁
    let p₂ := f n₂
    if p₁ != p₂ then
      for d in offsets (p₁ ++ p₂) do
        let pos : Nat → Rat := fun i => if i == b then d else 0
        if allHold p₁ pos != allHold p₂ pos then return some (a, b, d)
  return none

/-! ### table cases -/

structure Row where
  sp0 : SepPair
  extra : Rat
  desc : String
  deriving Inhabited

def baseTable (dir : SepDir) (st : SepType) (gt : GapType) (gap : SZ) (base prec : Nat) : SepPair :=
  let sp0 : SepPair := { src := 3, tgt := 8, tglfPrecision := prec }
  let sp0 := if base == 1 then
      (sp0.addSep .bdry .right .ineq (SZ.ofRat 3)).addSep .centre .up .eq (SZ.ofRat 4)
    else sp0
  sp0.addSep gt dir st gap

def tfS : SepTransform → String
  | .ident => "IDENT" | .rotate90cw => "ROTATE90CW" | .rotate90acw => "ROTATE90ACW" | .rotate180 => "ROTATE180"
  | .flipv => "FLIPV" | .fliph => "FLIPH" | .flipmd => "FLIPMD" | .flipod => "FLIPOD"

/-- is the value a multiple of 10^-p ? -/
def isMultiple (p : Nat) (v : Rat) : Bool := (v * (pow10 p : Rat)).den == 1

def fields? (t : Array String) (o : Nat) : Option (GapType × SepType × SZ × GapType × SepType × SZ) := do
  let a ← (t[o]?).bind gt?
  let b ← (t[o+1]?).bind st?
  let c ← (t[o+2]?).bind sz?
  let d ← (t[o+3]?).bind gt?
  let e ← (t[o+4]?).bind st?
  let f ← (t[o+5]?).bind sz?
  pure (a, b, c, d, e, f)

def fieldsOf (sp : SepPair) := (sp.xgt, sp.xst, sp.xgap, sp.ygt, sp.yst, sp.ygap)

def fS (f : GapType × SepType × SZ × GapType × SepType × SZ) : String :=
  s!"{gtS f.1} {stS f.2.1} {szS f.2.2.1} {gtS f.2.2.2.1} {stS f.2.2.2.2.1} {szS f.2.2.2.2.2}"

structure Acc where
  spec : Option String := none
  div : Option String := none
  stats : List (String × Nat) := []

def Acc.specfail (a : Acc) (m : String) : Acc := if a.spec.isSome then a else { a with spec := some m }
def Acc.diverge (a : Acc) (m : String) : Acc := if a.div.isSome then a else { a with div := some m }
def Acc.bump (a : Acc) (k : String) (n : Nat := 1) : Acc := { a with stats := bumpStats a.stats k n }
def Acc.result (a : Acc) (nontrivial : Bool := true) : CaseResult :=
  match a.spec, a.div with
  | some m, _ => { verdict := .specfail m, nontrivial := nontrivial, stats := a.stats }
  | none, some m => { verdict := .diverge m, nontrivial := nontrivial, stats := a.stats }
  | none, none => { verdict := .ok, nontrivial := nontrivial, stats := a.stats }

def sizeFn (sw sh tw th : Rat) (swap : Bool) : Nat → Dim → Rat := fun id d =>
  let (w, h) := if id == 3 then (sw, sh) else (tw, th)
  let (w, h) := if swap then (h, w) else (w, h)
  match d with | .x => w | .y => h

/-- centre placements used to test equivariance on the C++'s own constraints -/
def samplePlacements (cs : List VCon) : List (Rat × Rat × Rat × Rat) :=
  let offs := offsets cs
  (offs.flatMap fun dx => offs.map fun dy => ((0 : Rat), (0 : Rat), dx, dy)) ++
  (offs.flatMap fun dx => offs.map fun dy => ((3 : Rat), (-2 : Rat), 3 + dx, -2 + dy))

def checkTable (c : Case) : CaseResult := Id.run do
  let mut acc : Acc := {}
  let some sz := (c.get1 "sizes").bind nums? | return { verdict := .diverge "no sizes line" }
  let (sw, sh, tw, th) := (sz[0]!, sz[1]!, sz[2]!, sz[3]!)
  -- rows
  let mut rows : Array Row := #[]
  for l in c.get "I" do
    match sd? l[1]!, st? l[2]!, gt? l[3]!, sz? l[4]!, num? l[5]! with
    | some d, some s, some g, some gap, some e =>
      rows := rows.push { sp0 := baseTable d s g gap (nat! l[6]!) (nat! l[7]!), extra := e,
                          desc := s!"{l[1]!} {l[2]!} {l[3]!} gap {szS gap} extra {ratToString e} base {l[6]!}" }
    | _, _, _, _, _ => return { verdict := .diverge s!"unparsable I line {l}" }
  for l in c.get "P" do
    match fields? l 1, num? l[7]! with
    | some (xgt, xst, xgap, ygt, yst, ygap), some e =>
      let sp : SepPair := { src := 3, tgt := 8, xgt := xgt, xst := xst, xgap := xgap, ygt := ygt, yst := yst,
                            ygap := ygap, tglfPrecision := nat! l[8]! }
      rows := rows.push { sp0 := sp, extra := e, desc := s!"pair [{fieldsS sp}] extra {ratToString e} prec {l[8]!}" }
    | _, _ => return { verdict := .diverge s!"unparsable P line {l}" }
  -- C++ observations indexed by (row, tf)
  let mut implF : Array (Array (Option (GapType × SepType × SZ × GapType × SepType × SZ))) :=
    Array.replicate rows.size (Array.replicate 8 none)
  let mut implC : Array (Array (Option (Option VCon × Option VCon))) :=
    Array.replicate rows.size (Array.replicate 8 none)
  for l in c.get "F" do
    let r := nat! l[0]!; let t := nat! l[1]!
    implF := implF.modify r (·.set! t (fields? l 2))
  for l in c.get "C" do
    let r := nat! l[0]!; let t := nat! l[1]!
    -- C r t X <con> Y <con>
    match vcon? l 3 with
    | some (cx, p) => match vcon? l (p + 1) with
      | some (cy, _) => implC := implC.modify r (·.set! t (some (cx, cy)))
      | none => pure ()
    | none => pure ()
  -- model vs C++: fields, constraints
  for ri in [0:rows.size] do
    let row := rows[ri]!
    let sp0 := row.sp0
    for t in [0:8] do
      let tf := tfOf t
      let sp := sp0.transform tf
      acc := acc.bump "rows.tf"
      match implF[ri]![t]! with
      | none => acc := acc.diverge s!"row {ri} tf {t}: missing/unparsable F line"
      | some f =>
        if f != fieldsOf sp then
          acc := acc.diverge s!"row {ri} tf {t}: fields impl [{fS f}] model [{fieldsS sp}]"
      let size := sizeFn sw sh tw th tf.swapsAxes
      let mx := sp.generateSeparationConstraint .x row.extra size
      let my := sp.generateSeparationConstraint .y row.extra size
      match implC[ri]![t]! with
      | none => acc := acc.diverge s!"row {ri} tf {t}: missing/unparsable C line"
      | some (cx, cy) =>
        if cx != mx || cy != my then
          acc := acc.diverge s!"row {ri} tf {t}: generated constraints impl X {cx.map vconS} Y {cy.map vconS} model X {mx.map vconS} Y {my.map vconS}"
        if mx.isSome || my.isSome then acc := acc.bump "rows.constrained"
    -- property on the C++ outputs alone: equivariance under sampled placements
    match implC[ri]![0]! with
    | some (cx0, cy0) =>
      for t in [1:8] do
        let tf := tfOf t
        match implC[ri]![t]! with
        | some (cxt, cyt) =>
          let all := (cx0.toList ++ cy0.toList ++ cxt.toList ++ cyt.toList)
          for (sx, sy, tx, ty) in samplePlacements all do
            let before := allHold cx0.toList (fun i => if i == 3 then sx else tx) &&
                          allHold cy0.toList (fun i => if i == 3 then sy else ty)
            let s' := tf.applyPt sx sy
            let t' := tf.applyPt tx ty
            let after := allHold cxt.toList (fun i => if i == 3 then s'.1 else t'.1) &&
                         allHold cyt.toList (fun i => if i == 3 then s'.2 else t'.2)
            acc := acc.bump "equivariance.placements"
            if before != after then
              acc := acc.specfail s!"transform_equivariant violated: row {ri} ({row.desc}) tf {tfS tf}: src=({ratToString sx},{ratToString sy}) tgt=({ratToString tx},{ratToString ty}) satisfies original={before} but image satisfies transformed={after}; impl constraints before X {cx0.map vconS} Y {cy0.map vconS}, after X {cxt.map vconS} Y {cyt.map vconS}"
        | none => pure ()
    | none => pure ()
  -- compositions: C++ (t then t2) must equal C++ single transform comp(t2, t); and the model
  for l in c.get "G" do
    let r := nat! l[0]!; let t := nat! l[1]!; let t2 := nat! l[2]!
    let f := fields? l 3
    let row := rows[r]!
    let spm := (row.sp0.transform (tfOf t)).transform (tfOf t2)
    acc := acc.bump "compositions"
    if f != some (fieldsOf spm) then
      acc := acc.diverge s!"row {r} tf {t} then {t2}: fields impl {f.map fS} model [{fieldsS spm}]"
    let tc := tfIndex ((tfOf t2).comp (tfOf t))
    if f != implF[r]![tc]! then
      acc := acc.specfail s!"transform_group violated: row {r} ({row.desc}): {tfS (tfOf t)} then {tfS (tfOf t2)} gives [{f.map fS}] but {tfS (tfOf tc)} gives [{(implF[r]![tc]!).map fS}]"
  -- TGLF lines
  for l in c.get "W" do
    let r := nat! l[0]!; let t := nat! l[1]!
    let row := rows[r]!
    let sp := row.sp0.transform (tfOf t)
    let mw := sp.writeTglf row.extra
    match tglfLines? l 2 with
    | none => acc := acc.diverge s!"row {r} tf {t}: unparsable W line {l}"
    | some iw =>
      if iw != mw then
        acc := acc.diverge s!"row {r} tf {t}: writeTglf impl {iw.map (·.map TglfLine.render)} model {mw.map (·.map TglfLine.render)}"
      if iw.isNone then acc := acc.bump "tglf.throw"
      -- round trip of the C++ text through the (model) reader against the C++'s own constraints
      let p := row.sp0.tglfPrecision
      let exact := isMultiple p sp.xgap.mag && isMultiple p sp.ygap.mag && isMultiple p row.extra
      if exact then acc := acc.bump "tglf.exact"
      match exact, iw, implC[r]![t]! with
      | true, some ls, some (cx, cy) =>
        match readSepcos true ls with
        | none => acc := acc.diverge s!"row {r} tf {t}: reader rejects {ls.map TglfLine.render}"
        | some m2 =>
          let size := sizeFn sw sh tw th (tfOf t).swapsAxes
          let rx := m2.generateSeparationConstraints .x size
          let ry := m2.generateSeparationConstraints .y size
          match distinguish cx.toList rx, distinguish cy.toList ry with
          | none, none => pure ()
          | wx, wy =>
            acc := acc.specfail s!"tglf_roundtrip violated: row {r} ({row.desc}) tf {tfS (tfOf t)}: written {ls.map TglfLine.render} reads back as X {vconsS rx} Y {vconsS ry} but the pair generates X {cx.map vconS} Y {cy.map vconS}; witness offset x {repr wx} y {repr wy}"
      | _, _, _ => pure ()
  -- cardinal queries
  for l in c.get "Q" do
    let r := nat! l[0]!
    let sp := rows[r]!.sp0
    let b (x : Bool) := if x then "1" else "0"
    let cdS := match sp.getCardinalDir with
      | some .east => "EAST" | some .south => "SOUTH" | some .west => "WEST" | some .north => "NORTH"
      | none => "THROW"
    let m := #[b sp.isVerticalCardinal, b sp.isHorizontalCardinal, b sp.isVAlign, b sp.isHAlign, b sp.isCardinal, cdS]
    if l.extract 1 7 != m then
      acc := acc.diverge s!"row {r}: cardinal queries impl {l.extract 1 7} model {m}"
  for l in c.get "R" do
    let r := nat! l[0]!
    let sp := rows[r]!.sp0.roundGapsUpAbs
    if sz? l[1]! != some sp.xgap || sz? l[2]! != some sp.ygap then
      acc := acc.diverge s!"row {r}: roundGapsUpAbs impl {l.extract 1 3} model {szS sp.xgap} {szS sp.ygap}"
  for l in c.get "D" do
    match sd? l[0]!, sd? l[1]!, sd? l[3]!, sd? l[4]! with
    | some d, some n, some lw, some cs =>
      if negateSepDir d != n || (sepDirIsCardinal d) != (l[2]! == "1") || lateralWeakening d != lw || cardinalStrengthening d != cs then
        acc := acc.diverge s!"SepDir functions: impl {l}"
      -- negation is an involution that exchanges opposite directions (property-level sanity)
    | _, _, _, _ => acc := acc.diverge s!"unparsable D line {l}"
  return acc.result

/-! ### op histories -/

def ids? (t : Array String) (o : Nat) : Option (List Nat) := do
  let n ← (t[o]?).bind String.toNat?
  let mut l : List Nat := []
  for i in [0:n] do
    let x ← (t[o+1+i]?).bind String.toNat?
    l := l ++ [x]
  pure l

/-- `op <i> name args…` (tokens after the keyword `op`) -/
def op? (t : Array String) : Option Op := do
  let name ← t[1]?
  let n (i : Nat) : Option Nat := (t[i]?).bind String.toNat?
  match name with
  | "addSep" => pure (.addSep (← n 2) (← n 3) (← (t[4]?).bind gt?) (← (t[5]?).bind sd?) (← (t[6]?).bind st?) (← (t[7]?).bind sz?))
  | "addFixedRelativeSep" => pure (.addFixedRelativeSep (← n 2) (← n 3) (← (t[4]?).bind sz?) (← (t[5]?).bind sz?))
  | "setCardinalOP" => pure (.setCardinalOP (← n 2) (← n 3) (← (t[4]?).bind cd?))
  | "hAlign" => pure (.hAlign (← n 2) (← n 3))
  | "vAlign" => pure (.vAlign (← n 2) (← n 3))
  | "alignByEquatedCoord" => pure (.alignByEquatedCoord (← n 2) (← n 3) (if t[4]? == some "X" then .x else .y))
  | "free" => pure (.free (← n 2) (← n 3))
  | "removeNode" => pure (.removeNode (← n 2))
  | "clear" => pure .clear
  | "transform" => pure (.transform (← (t[2]?).bind tf?))
  | "transformClosed" => pure (.transformClosed (← (t[2]?).bind tf?) (← ids? t 3))
  | "transformOpen" => pure (.transformOpen (← (t[2]?).bind tf?) (← ids? t 3))
  | "roundGapsUpward" => pure .roundGapsUpward
  | "setExtraBdryGap" => pure (.setExtraBdryGap (← (t[2]?).bind num?))
  | "getCardinalDir" => pure (.getCardinalDir (← n 2) (← n 3))
  | "areHAligned" => pure (.areHAligned (← n 2) (← n 3))
  | "areVAligned" => pure (.areVAligned (← n 2) (← n 3))
  | _ => none

def resS : OpRes → String
  | .done => "done"
  | .threw => "threw"
  | .card (.dir .east) => "card EAST" | .card (.dir .south) => "card SOUTH"
  | .card (.dir .west) => "card WEST" | .card (.dir .north) => "card NORTH"
  | .card .noConstraint => "card NOCONSTRAINT" | .card .notCardinal => "card NOTCARDINAL"
  | .bool true => "bool 1" | .bool false => "bool 0"

def lineAt (c : Case) (key : String) (i : Nat) : Option (Array String) :=
  (c.get key).find? fun l => l[0]? == some (toString i)

def opMentionsBothOrientations (ops : List Op) : Bool := Id.run do
  -- does some unordered pair get addressed as (lo,hi) and as (hi,lo)?
  let mut seen : List (Nat × Nat) := []
  for o in ops do
    let p : Option (Nat × Nat) := match o with
      | .addSep a b .. | .addFixedRelativeSep a b .. | .setCardinalOP a b _ | .hAlign a b | .vAlign a b
      | .alignByEquatedCoord a b _ | .getCardinalDir a b | .areHAligned a b | .areVAligned a b => some (a, b)
      | _ => none
    match p with
    | some (a, b) =>
      if seen.contains (b, a) then return true
      seen := (a, b) :: seen
    | none => pure ()
  return false

def checkHistory (implFixed : Bool) (c : Case) : CaseResult := Id.run do
  let mut acc : Acc := {}
  -- node sizes
  let mut sizes : List (Nat × Rat × Rat) := []
  for l in c.get "node" do
    match num? l[1]!, num? l[2]! with
    | some w, some h => sizes := sizes ++ [(nat! l[0]!, w, h)]
    | _, _ => return { verdict := .diverge "unparsable node line" }
  let size : Nat → Dim → Rat := fun id d =>
    match sizes.find? (·.1 == id) with
    | some (_, w, h) => (match d with | .x => w | .y => h)
    | none => 0
  let opLines := c.get "op"
  let mut mExp : SepMatrix := .empty      -- expected implementation semantics
  let mut mIdeal : SepMatrix := .empty    -- requested meaning (flag correct on every retrieval)
  let mut opsSoFar : List Op := []
  let mut nontrivial := false
  for l in opLines do
    let i := nat! l[0]!
    let some op := op? l | return { verdict := .diverge s!"unparsable op line {l}" }
    opsSoFar := opsSoFar ++ [op]
    let (m1, r1) := op.step implFixed mExp
    let (m2, _) := op.step true mIdeal
    mExp := m1; mIdeal := m2
    acc := acc.bump ("op." ++ l[1]!)
    if r1 == .threw then acc := acc.bump "op.threw"
    -- result
    match lineAt c "res" i with
    | none => acc := acc.diverge s!"op {i}: no res line"
    | some rl =>
      let rs := " ".intercalate (rl.extract 1 rl.size).toList
      if rs != resS r1 then acc := acc.diverge s!"op {i} {l.extract 1 l.size}: result impl '{rs}' model '{resS r1}'"
    -- TGLF text
    let implW := (lineAt c "w" i).bind (tglfLines? · 1)
    let mw := mExp.writeTglf
    match implW with
    | none => acc := acc.diverge s!"op {i}: missing/unparsable w line"
    | some iw =>
      if iw != mw then
        acc := acc.diverge s!"op {i} {l.extract 1 l.size}: writeTglf impl {iw.map (·.map TglfLine.render)} model {mw.map (·.map TglfLine.render)}"
    -- generated constraints
    for (key, dim, dn) in [("cx", Dim.x, "X"), ("cy", Dim.y, "Y")] do
      match (lineAt c key i).bind (vcons? · 1) with
      | none => acc := acc.diverge s!"op {i}: missing/unparsable {key} line"
      | some ic =>
        let mc := mExp.generateSeparationConstraints dim size
        let idl := mIdeal.generateSeparationConstraints dim size
        if !ic.isEmpty then nontrivial := true
        if ic != mc then
          acc := acc.diverge s!"op {i} {l.extract 1 l.size}: {dn} constraints impl {vconsS ic} model {vconsS mc}"
        match distinguish ic idl with
        | none => pure ()
        | some (a, b, d) =>
          let stale := ic == (runOps false .empty opsSoFar).generateSeparationConstraints dim size
          let kind := if stale && opMentionsBothOrientations opsSoFar then "stale-flippedRetrieval" else "history-meaning"
          acc := acc.specfail s!"{kind}: after op {i} {l.extract 1 l.size} the stored {dn} constraints {vconsS ic} do not mean what the history requested {vconsS idl}: with pos[{a}]=0, pos[{b}]={ratToString d} exactly one of them holds (impl agrees with as-coded model: {stale})"
  acc := acc.bump "pairs.final" mExp.pairs.length
  return acc.result nontrivial

/-! ### TGLF round trip on graphs -/

structure NodeG where
  ext : Int
  cx : Rat
  cy : Rat
  w : Rat
  h : Rat
  deriving BEq, Repr, Inhabited

def node? (l : Array String) : Option NodeG := do
  let v ← nums? (l.extract 2 6)
  pure { ext := int! l[1]!, cx := v[0]!, cy := v[1]!, w := v[2]!, h := v[3]! }

structure EdgeG where
  s : Nat
  t : Nat
  pts : Array Rat
  deriving BEq, Repr, Inhabited

def edge? (l : Array String) (o : Nat) : Option EdgeG := do
  let np := nat! l[o+2]!
  let v ← nums? (l.extract (o+3) (o+3+2*np))
  pure { s := nat! l[o]!, t := nat! l[o+1]!, pts := v }

/-- `a` read back as `b`: exact, or within the 6 significant digits of `ostream <<` -/
def closeGeom (fine : Bool) (a b : Rat) : Bool :=
  if fine then absRat (a - b) ≤ absRat a * (5001 / 1000000000 : Rat) else a == b

def checkTglf (implFixed : Bool) (fine : Bool) (c : Case) : CaseResult := Id.run do
  let mut acc : Acc := {}
  let mut nodes : Array NodeG := #[]
  for l in c.get "node" do
    match node? l with
    | some n => nodes := nodes.push n
    | none => return { verdict := .diverge "unparsable node line" }
  -- replay the ops on the model (node indices as ids)
  let mut m : SepMatrix := .empty
  for l in c.get "op" do
    let some op := op? l | return { verdict := .diverge s!"unparsable op line {l}" }
    let (m1, r1) := op.step implFixed m
    m := m1
    acc := acc.bump ("op." ++ l[1]!)
    match lineAt c "res" (nat! l[0]!) with
    | some rl => if " ".intercalate (rl.extract 1 rl.size).toList != resS r1 then
        acc := acc.diverge s!"op {l}: result differs from model {resS r1}"
    | none => acc := acc.diverge s!"op {l}: no res line"
  let size1 : Nat → Dim → Rat := fun id d =>
    match nodes[id]? with
    | some n => (match d with | .x => n.w | .y => n.h)
    | none => 0
  let some g1x := (c.get1 "g1cx").bind (vcons? · 0) | return { verdict := .diverge "no g1cx" }
  let some g1y := (c.get1 "g1cy").bind (vcons? · 0) | return { verdict := .diverge "no g1cy" }
  -- exact on the dyadic class; the fine class has inexact double additions (1e-9 tolerance)
  let sameCons (a b : List VCon) : Bool :=
    if fine then a.length == b.length && (a.zip b).all fun (x, y) =>
      x.left == y.left && x.right == y.right && x.equality == y.equality &&
      absRat (x.gap - y.gap) ≤ (1 / 1000000000 : Rat)
    else a == b
  if !sameCons g1x (m.generateSeparationConstraints .x size1) then
    acc := acc.diverge s!"original graph: X constraints impl {vconsS g1x} model {vconsS (m.generateSeparationConstraints .x size1)}"
  if !sameCons g1y (m.generateSeparationConstraints .y size1) then
    acc := acc.diverge s!"original graph: Y constraints impl {vconsS g1y} model {vconsS (m.generateSeparationConstraints .y size1)}"
  let mw := m.writeTglf
  -- did the writer throw?
  match c.get1 "tglf" with
  | none => return { verdict := .diverge "no tglf line" }
  | some tl =>
    if tl[0]? == some "THROW" then
      if mw.isSome then acc := acc.diverge "Graph::writeTglf threw but the model writes the constraints"
      acc := acc.bump "tglf.throw"
      return acc.result false
  -- the text: sections separated by "#"
  let tlines := (c.get "t").map fun l => l.extract 1 l.size
  let mut sect := 0
  let mut nodeLines : Array (Array String) := #[]
  let mut sepLines : Array (Array String) := #[]
  for l in tlines do
    if l == #["#"] then sect := sect + 1
    else if sect == 0 then nodeLines := nodeLines.push l
    else if sect == 2 then sepLines := sepLines.push l
  let writtenId (i : Nat) : Nat := nat! ((nodeLines[i]?.getD #["0"])[0]!)
  let indexOfWritten (w : Nat) : Nat := (nodeLines.findIdx? fun l => nat! l[0]! == w).getD 0
  -- model writer vs the SEPCO section
  match mw with
  | none => acc := acc.diverge "model writer throws but Graph::writeTglf did not"
  | some mls =>
    let mtxt := mls.map fun l => ({ l with src := writtenId l.src, tgt := writtenId l.tgt } : TglfLine).render
    let itxt := sepLines.toList.map fun l => " ".intercalate l.toList
    if mtxt != itxt then acc := acc.diverge s!"SEPCO section: impl {itxt} model {mtxt}"
    acc := acc.bump "tglf.sepco.lines" mls.length
  -- node ids: Model/TglfIds.lean (Props/C18Ids.written_ids_injective) vs the NODES section of the written text
  let useExt := ((c.get1 "useext").bind (·[0]?)) == some "1"
  let nids := (c.get "nid").map fun l => nat! l[1]!
  if nids.size == nodes.size then
    let ns : List AdaptaVerif.Model.TglfIds.NodeId :=
      (List.range nodes.size).map fun i => { id := nids[i]!, ext := nodes[i]!.ext }
    let mids := AdaptaVerif.Model.TglfIds.writtenIds useExt ns
    let wids : List Int := (List.range nodeLines.size).map fun i => (writtenId i : Int)
    if useExt && ns.any (fun n => n.ext < 0) && ns.any (fun n => n.ext ≥ 0) then
      acc := acc.bump "tglf.ids.mixed"
      if AdaptaVerif.Model.TglfIds.firstLacking ns ≤ AdaptaVerif.Model.TglfIds.maxExt ns + 1 then acc := acc.bump "tglf.ids.mixed.near-tie"
    if !decide wids.Nodup then
      acc := acc.specfail s!"tglf round trip: Graph::writeTglf wrote two nodes under one id: internal ids {nids.toList}, external ids {ns.map (·.ext)}, written ids {wids} (model: {mids})"
    else if mids != wids then
      acc := acc.diverge s!"Graph::writeTglf node ids: impl {wids} model {mids} (internal {nids.toList}, external {ns.map (·.ext)})"
  match c.get1 "readback" with
  | some l => acc := acc.specfail s!"tglf round trip: buildGraphFromTglf threw on the text Graph::writeTglf produced: {l}"; return acc.result false
  | none => pure ()
  -- graph read back
  let mut nodes2 : Array NodeG := #[]
  for l in c.get "node2" do
    match node? l with
    | some n => nodes2 := nodes2.push n
    | none => return { verdict := .diverge "unparsable node2 line" }
  if nodes2.size != nodes.size then
    acc := acc.specfail s!"tglf round trip: {nodes.size} nodes written, {nodes2.size} read back"
  else
    for i in [0:nodes.size] do
      let a := nodes[i]!; let b := nodes2[i]!
      if !(closeGeom fine a.cx b.cx && closeGeom fine a.cy b.cy && closeGeom fine a.w b.w && closeGeom fine a.h b.h) then
        acc := acc.specfail s!"tglf round trip: node {i} geometry ({ratToString a.cx},{ratToString a.cy},{ratToString a.w},{ratToString a.h}) read back as ({ratToString b.cx},{ratToString b.cy},{ratToString b.w},{ratToString b.h})"
      if a.ext ≥ 0 && a.ext != b.ext then
        acc := acc.specfail s!"tglf round trip: node {i} external id {a.ext} read back as {b.ext}"
  -- edges
  let e1 := (c.get "edge1").filterMap (edge? · 0)
  let e2 := (c.get "edge2").filterMap (edge? · 0)
  if e1.size != e2.size then
    acc := acc.specfail s!"tglf round trip: {e1.size} edges written, {e2.size} read back"
  else
    for i in [0:e1.size] do
      let a := e1[i]!; let b := e2[i]!
      let same := a.s == b.s && a.t == b.t && a.pts.size == b.pts.size &&
        (List.range a.pts.size).all fun j => closeGeom fine a.pts[j]! b.pts[j]!
      if !same then
        acc := acc.specfail s!"tglf round trip: edge {i} ({a.s}->{a.t}, {a.pts.size / 2} route points) read back as ({b.s}->{b.t}, {b.pts.size / 2} route points) or with moved points"
      acc := acc.bump "tglf.routepoints" (a.pts.size / 2)
  -- constraints: meaning preserved (the extra boundary gap is folded into the written gaps)
  let some g2x := (c.get1 "g2cx").bind (vcons? · 0) | return { verdict := .diverge "no g2cx" }
  let some g2y := (c.get1 "g2cy").bind (vcons? · 0) | return { verdict := .diverge "no g2cy" }
  for (dn, a, b) in [("X", g1x, g2x), ("Y", g1y, g2y)] do
    if fine then
      -- same structure, gaps within half a unit of the writer's precision (3 decimals) plus the
      -- half-extent error of the 6-digit node sizes
      let na := normList a; let nb := normList b
      let ok := na.length == nb.length && (na.zip nb).all fun (x, y) =>
        x.left == y.left && x.right == y.right && x.equality == y.equality &&
        absRat (x.gap - y.gap) ≤ (1 / 2000 : Rat) + absRat x.gap * (1 / 100000 : Rat)
      if !ok then
        acc := acc.specfail s!"tglf round trip: {dn} constraints {vconsS a} read back as {vconsS b} (beyond the writer's precision)"
    else
      match distinguish a b with
      | none => pure ()
      | some (p, q, d) =>
        acc := acc.specfail s!"tglf round trip: {dn} constraints {vconsS a} read back as {vconsS b}: with pos[{p}]=0, pos[{q}]={ratToString d} exactly one side holds"
  -- model reader on the C++ text vs the C++ reader's result
  let mut ls : List TglfLine := []
  for l in sepLines do
    match tglfLine? l 0 with
    | some tl => ls := ls ++ [{ tl with src := indexOfWritten tl.src, tgt := indexOfWritten tl.tgt }]
    | none => acc := acc.diverge s!"unparsable SEPCO line {l}"
  match readSepcos implFixed ls with
  | none => acc := acc.diverge "model reader rejects the SEPCO section"
  | some m2 =>
    let size2 : Nat → Dim → Rat := fun id d =>
      match nodes2[id]? with
      | some n => (match d with | .x => n.w | .y => n.h)
      | none => 0
    for (dn, dim, b) in [("X", Dim.x, g2x), ("Y", Dim.y, g2y)] do
      let mc := m2.generateSeparationConstraints dim size2
      let ok := mc.length == b.length && (mc.zip b).all fun (x, y) =>
        x.left == y.left && x.right == y.right && x.equality == y.equality &&
        absRat (x.gap - y.gap) ≤ (1 / 1000000000 : Rat)
      if !ok then acc := acc.diverge s!"reader: {dn} constraints impl {vconsS b} model {vconsS mc}"
  let nontrivial := !(g1x.isEmpty && g1y.isEmpty) || e1.any (fun e => e.pts.size > 0)
  acc := acc.bump "tglf.constraints" (g1x.length + g1y.length)
  return acc.result nontrivial

/-! ### Graph::rotate90cw / rotate90acw / rotate180 -/

def checkRotate (implFixed : Bool) (c : Case) : CaseResult := Id.run do
  let mut acc : Acc := {}
  let mut nodes : Array NodeG := #[]
  for l in c.get "node" do
    match node? l with
    | some n => nodes := nodes.push n
    | none => return { verdict := .diverge "unparsable node line" }
  let mut m : SepMatrix := .empty
  for l in c.get "op" do
    let some op := op? l | return { verdict := .diverge s!"unparsable op line {l}" }
    m := (op.step implFixed m).1
  let size : Nat → Dim → Rat := fun id d =>
    match nodes[id]? with
    | some n => (match d with | .x => n.w | .y => n.h)
    | none => 0
  let some rl := c.get1 "rotate" | return { verdict := .diverge "no rotate line" }
  let tf := tfOf (nat! rl[0]!)
  acc := acc.bump ("rotate." ++ tfS tf)
  let pts (key : String) : Array (Rat × Rat) :=
    (c.get key).filterMap fun l => match num? l[1]!, num? l[2]! with
      | some x, some y => some (x, y)
      | _, _ => none
  let bpos := pts "bpos"; let apos := pts "apos"
  if bpos.size != nodes.size || apos.size != nodes.size then return { verdict := .diverge "pos lines missing" }
  -- centres move by the plane map of the transform
  for i in [0:nodes.size] do
    let (x, y) := bpos[i]!
    if tf.applyPt x y != apos[i]! then
      acc := acc.diverge s!"node {i}: ({ratToString x},{ratToString y}) rotated by {tfS tf} to ({ratToString apos[i]!.1},{ratToString apos[i]!.2}), plane map says ({ratToString (tf.applyPt x y).1},{ratToString (tf.applyPt x y).2})"
  -- routes
  let br := c.get "broute"; let ar := c.get "aroute"
  if br.size != ar.size then acc := acc.diverge "route count changed"
  else
    for i in [0:br.size] do
      match nums? (br[i]!.extract 1 br[i]!.size), nums? (ar[i]!.extract 1 ar[i]!.size) with
      | some b, some a =>
        let ok := a.size == b.size && (List.range (b.size / 2)).all fun j =>
          tf.applyPt b[2*j]! b[2*j+1]! == (a[2*j]!, a[2*j+1]!)
        if !ok then acc := acc.diverge s!"route {i} not mapped by the plane map of {tfS tf}"
      | _, _ => acc := acc.diverge "unparsable route"
  -- constraints: model
  let get (k : String) := (c.get1 k).bind (vcons? · 0)
  match get "bcx", get "bcy", get "acx", get "acy" with
  | some bcx, some bcy, some acx, some acy =>
    if bcx != m.generateSeparationConstraints .x size || bcy != m.generateSeparationConstraints .y size then
      acc := acc.diverge s!"constraints before rotation differ from model: X {vconsS bcx} Y {vconsS bcy}"
    let m' := m.transform tf
    if acx != m'.generateSeparationConstraints .x size || acy != m'.generateSeparationConstraints .y size then
      acc := acc.diverge s!"constraints after {tfS tf} differ from model: impl X {vconsS acx} Y {vconsS acy} model X {vconsS (m'.generateSeparationConstraints .x size)} Y {vconsS (m'.generateSeparationConstraints .y size)}"
    -- the property on the C++'s own outputs: each pair is satisfied before iff it is satisfied after
    let keys := ((bcx ++ bcy ++ acx ++ acy).map fun c => (min c.left c.right, max c.left c.right)).eraseDups
    let mut nsat := 0
    for (a, b) in keys do
      let f (l : List VCon) := l.filter fun c => (min c.left c.right, max c.left c.right) == (a, b)
      let before := allHold (f bcx) (fun i => bpos[i]!.1) && allHold (f bcy) (fun i => bpos[i]!.2)
      let after := allHold (f acx) (fun i => apos[i]!.1) && allHold (f acy) (fun i => apos[i]!.2)
      if before then nsat := nsat + 1
      if before != after then
        acc := acc.specfail s!"transform_equivariant violated by Graph::{tfS tf}: pair ({a},{b}) satisfied before={before} after={after}; before X {vconsS (f bcx)} Y {vconsS (f bcy)} at ({ratToString bpos[a]!.1},{ratToString bpos[a]!.2}) ({ratToString bpos[b]!.1},{ratToString bpos[b]!.2}); after X {vconsS (f acx)} Y {vconsS (f acy)} at ({ratToString apos[a]!.1},{ratToString apos[a]!.2}) ({ratToString apos[b]!.1},{ratToString apos[b]!.2})"
    acc := acc.bump "rotate.pairs" keys.length
    acc := acc.bump "rotate.pairs.satisfied" nsat
    return acc.result (!keys.isEmpty)
  | _, _, _, _ => return { verdict := .diverge "constraint lines missing" }

def run (args : List String) : IO UInt32 := do
  let rec flagOf : List String → String
    | "--impl-flag" :: v :: _ => v
    | _ :: r => flagOf r
    | [] => "stale"
  let implFixed := flagOf args == "fixed"
  runCases fun c =>
    if c.tag == "table" || c.tag == "pair-random" then checkTable c
    else if c.tag == "graph-rotate" then checkRotate implFixed c
    else if c.tag == "hist-oriented" || c.tag == "flip-history" then checkHistory implFixed c
    else if c.tag == "tglf" then checkTglf implFixed false c
    else if c.tag == "tglf-fine" then checkTglf implFixed true c
    else { verdict := .diverge s!"unknown case class {c.tag}" }

end Driver.C18
