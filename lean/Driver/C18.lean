import Driver.Proto
namespace Driver.C18

def run (_args : List String) : IO UInt32 := do
  IO.eprintln "driver mode c18: not implemented yet"
  return 2

end Driver.C18
