import Driver.C18

def main (args : List String) : IO UInt32 := Driver.C18.run args
