import Driver.C10

def main (args : List String) : IO UInt32 := Driver.C10.run args
