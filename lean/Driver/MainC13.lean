import Driver.C13

def main (args : List String) : IO UInt32 := Driver.C13.run args
