import Driver.Proto
namespace Driver.C08

def run (_args : List String) : IO UInt32 := do
  IO.eprintln "driver mode c08: not implemented yet"
  return 2

end Driver.C08
