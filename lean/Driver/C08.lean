import Driver.Proto
import AdaptaVerif.Model.Compound
import AdaptaVerif.Check.Layout
/-
Driver mode c08.
  gen-noc-* : tie. NonOverlapConstraints / ClusterContainmentConstraints::generateSeparationConstraints
              of the real classes vs the model, exact.
  flat-* / clusters-* : end-to-end, ConstrainedFDLayout with overlap avoidance, makeFeasible then run.
              If nothing was reported unsatisfiable: no two non-exempt rectangles overlap by more than
              1e-3 in both dimensions; sibling clusters' member bounding boxes do not overlap (same
              threshold); no foreign node centre inside a cluster's member bounding box.
-/
namespace Driver.C08
open Driver AdaptaVerif.Num AdaptaVerif.Model.Compound AdaptaVerif.Check.Layout

def tolC08 : Rat := 1 / 1000

structure ClusterSpec where
  parent : Int
  pad : Array Rat     -- xMin xMax yMin yMax
  mar : Array Rat
  nodes : List Nat
  rect : Option Nat := none      -- cluster built from this node's rectangle
  deriving Inhabited

def parseRects (c : Case) (key : String) : Option (Array Rect) :=
  (c.get key).mapM fun l => do
    let v ← nums? (l.extract 1 5)
    pure { minX := v[0]!, maxX := v[1]!, minY := v[2]!, maxY := v[3]! }

def rectOf (c : Case) (cid : Nat) : Option Nat :=
  ((c.get "crect").toList.find? fun l => nat! (l[0]?.getD "") == cid).map fun l => nat! (l[1]?.getD "0")

def parseClusters (c : Case) : Option (Array ClusterSpec) :=
  ((c.get "cluster").mapIdx fun i l => (i, l)).mapM fun (cid, l) => do
    let pad ← nums? (l.extract 2 6)
    let mar ← nums? (l.extract 6 10)
    let k := nat! (l[10]?.getD "0")
    pure { parent := int! (l[1]?.getD "-1"), pad := pad, mar := mar,
           nodes := (List.range k).map fun j => nat! (l[11 + j]?.getD "0"), rect := rectOf c cid }

def parseExempt (c : Case) : List (List Nat) :=
  (c.get "exempt").toList.map fun l =>
    (List.range (nat! (l[0]?.getD "0"))).map fun j => nat! (l[1 + j]?.getD "0")

def exemptFn (groups : List (List Nat)) (i j : Nat) : Bool :=
  i != j && groups.any fun g => g.contains i && g.contains j

def childrenOf (cs : Array ClusterSpec) (p : Int) : List Nat :=
  (List.range cs.size).filter fun d => (cs[d]!).parent == p

/-- all nodes of a cluster including those of nested clusters (fuel = number of clusters) -/
def membersOf (cs : Array ClusterSpec) : Nat → Nat → List Nat
  | 0, c => (cs[c]!).nodes
  | fuel + 1, c => (cs[c]!).nodes ++ (childrenOf cs (c : Int)).flatMap (fun d => ownRect cs d ++ membersOf cs fuel d)
where ownRect (cs : Array ClusterSpec) (d : Nat) : List Nat := match (cs[d]!).rect with | some i => [i] | none => []

def padOf (k : ClusterSpec) (d : Dim) : Rat × Rat :=
  match d with | .x => (k.pad[0]!, k.pad[1]!) | .y => (k.pad[2]!, k.pad[3]!)
def marOf (k : ClusterSpec) (d : Dim) : Rat × Rat :=
  match d with | .x => (k.mar[0]!, k.mar[1]!) | .y => (k.mar[2]!, k.mar[3]!)

def showSeps (l : List Sep) : String :=
  toString (l.map fun s => s!"({s.left},{s.right},{ratToString s.gap})")

def checkGen (c : Case) : CaseResult := Id.run do
  let some rects := parseRects c "rect" | return { verdict := .diverge "unparsable rects" }
  let some cs := parseClusters c | return { verdict := .diverge "unparsable clusters" }
  let some bounds := parseRects c "bounds" | return { verdict := .diverge "unparsable bounds" }
  let cvar : Array Nat := (c.get "cvar").map fun l => nat! (l[1]?.getD "0")
  let exempt := exemptFn (parseExempt c)
  -- replay the addShape / addCluster calls
  let mut st : NocState := {}
  for l in c.lines do
    if l[0]! == "addshape" then
      match num? l[2]!, num? l[3]! with
      | some hw, some hh => st := st.addShape exempt (nat! l[1]!) hw hh (nat! l[4]!)
      | _, _ => return { verdict := .diverge "unparsable addshape" }
    else if l[0]! == "addcluster" then
      let cid := nat! l[1]!
      let k := cs[cid]!
      let sh : NoShape := .cluster (cvar[cid]!) (bounds[cid]!) k.mar[0]! k.mar[1]! k.mar[2]! k.mar[3]!
      st := st.addCluster sh k.nodes (nat! l[2]!)
  let mut ncons := 0
  let mut nclu := 0
  for dn in [0, 1] do
    let d := Dim.ofNat' dn
    let model := st.seps rects d
    let impl := ((c.get "nocon").filter fun l => l[0]! == toString dn).toList
    if impl.length != model.length then
      return { verdict := .diverge s!"non-overlap dim {dn}: impl {impl.length} constraints, model {model.length}: {showSeps model}" }
    for (l, m) in impl.zip model do
      if !(nat! l[1]! == m.left && nat! l[2]! == m.right && num? l[3]! == some m.gap && (l[4]! == "1") == m.eq) then
        return { verdict := .diverge s!"non-overlap dim {dn}: impl {l} model ({m.left},{m.right},{ratToString m.gap})" }
    ncons := ncons + model.length
    for cid in [0:cs.size] do
      let k := cs[cid]!
      let (pMin, pMax) := padOf k d
      let nodes := k.nodes.map fun i => (i, (rects.getD i default).len d / 2)
      let children := (childrenOf cs (cid : Int)).map fun ch => (cvar[ch]!, (marOf cs[ch]! d).1, (marOf cs[ch]! d).2)
      let model := containmentSeps (cvar[cid]!) pMin pMax nodes children
      let impl := ((c.get "cccon").filter fun l => l[0]! == toString cid && l[1]! == toString dn).toList
      if impl.length != model.length then
        return { verdict := .diverge s!"containment cluster {cid} dim {dn}: impl {impl.length} constraints, model {model.length}" }
      for (l, m) in impl.zip model do
        if !(nat! l[2]! == m.left && nat! l[3]! == m.right && num? l[4]! == some m.gap && (l[5]! == "1") == m.eq) then
          return { verdict := .diverge s!"containment cluster {cid} dim {dn}: impl {l} model ({m.left},{m.right},{ratToString m.gap})" }
      nclu := nclu + model.length
  -- generateFixedRectangleConstraints of rectangle-based clusters
  let mut nfr := 0
  for cid in [0:cs.size] do
    let impl := ((c.get "frcon").filter fun l => l[0]! == toString cid).toList
    let model : List (Nat × Sep) := match (cs[cid]!).rect with
      | none => []
      | some ri =>
        let r := rects.getD ri default
        (fixedRectSeps (cvar[cid]!) ri (r.width / 2)).map (fun s => (0, s)) ++
        (fixedRectSeps (cvar[cid]!) ri (r.height / 2)).map (fun s => (1, s))
    if impl.length != model.length then
      return { verdict := .diverge s!"fixed-rectangle constraints cluster {cid}: impl {impl.length}, model {model.length}" }
    for (l, m) in impl.zip model do
      if !(nat! l[1]! == m.1 && nat! l[2]! == m.2.left && nat! l[3]! == m.2.right && num? l[4]! == some m.2.gap && (l[5]! == "1") == m.2.eq) then
        return { verdict := .diverge s!"fixed-rectangle constraints cluster {cid}: impl {l} model dim {m.1} ({m.2.left},{m.2.right},{ratToString m.2.gap},{m.2.eq})" }
    nfr := nfr + model.length
  -- makeFeasible's alternatives for the most overlapping pair (flat cases)
  let mut nalt := 0
  if (c.get1 "noaltdone").isSome then
    let alts := (c.get "noalt").toList
    if !alts.isEmpty then
      if alts.length != 4 then return { verdict := .diverge s!"{alts.length} alternatives offered, expected 4" }
      let l0 := alts[0]!
      let id2 := nat! l0[1]!; let id1 := nat! l0[2]!
      let r1 := rects.getD id1 default; let r2 := rects.getD id2 default
      if !(id1 < id2) || exempt id1 id2 || !(overlapsBoth 0 r1 r2) then
        return { verdict := .diverge s!"alternatives offered for pair {id1},{id2} which is exempt / not overlapping / unordered" }
      let model := shapeAlternatives id1 id2 (r1.width / 2) (r1.height / 2) (r2.width / 2) (r2.height / 2)
      for (l, m) in alts.zip model do
        let gapOk := match num? l[3]! with
          | some g => absR (g - m.2.gap) ≤ (1 / 1000000000000 : Rat)
          | none => false
        if !(nat! l[0]! == m.1.toNat' && nat! l[1]! == m.2.left && nat! l[2]! == m.2.right && gapOk && l[4]! == "0") then
          return { verdict := .diverge s!"alternative impl {l} model dim {m.1.toNat'} ({m.2.left},{m.2.right},{ratToString m.2.gap})" }
      nalt := 4
    else
      -- nothing offered: no non-exempt pair may overlap in both dimensions
      if !(offending rects exempt 0).isEmpty then
        return { verdict := .diverge s!"no alternatives offered although pairs {offending rects exempt 0} overlap" }
  return { verdict := .ok, nontrivial := ncons > 0,
           stats := [("gen.alternatives", nalt), ("gen.fixedrect.constraints", nfr), ("gen.nonoverlap.constraints", ncons), ("gen.containment.constraints", nclu), ("gen.pairs", st.pairs.length)] }

def allFinite (c : Case) (key : String) : Bool :=
  (c.get key).all fun l => (l.extract 1 5).all fun s => match dbl? s with | some d => d.isFinite | none => false

def checkLayout (c : Case) : CaseResult := Id.run do
  let some rects := parseRects c "rect" | return { verdict := .diverge "unparsable rects" }
  let some cs := parseClusters c | return { verdict := .diverge "unparsable clusters" }
  let str (k : String) : String := (((c.get1 k).getD #["?"])[0]?).getD "?"
  let mut stats : List (String × Nat) := [("start." ++ str "start", 1), ("graph." ++ str "graph", 1),
    ("clusters." ++ toString cs.size, 1), ("exemptgroups." ++ toString (parseExempt c).length, 1)]
  match c.get1 "hang" with
  | some l => return { verdict := .specfail s!"hang: makeFeasible()+run() did not return within {l[0]?.getD "?"} s", stats := stats }
  | none => pure ()
  if !(allFinite c "out") then
    return { verdict := .specfail "non-finite coordinate in the final rectangles", stats := stats }
  let some outs := parseRects c "out" | return { verdict := .diverge "unparsable output" }
  if outs.size != rects.size then return { verdict := .diverge "wrong number of output rectangles", stats := stats }
  let exc := str "exc"
  if exc != "none" then
    return { verdict := .specfail s!"exception[fdmfrun]: {exc} escaped makeFeasible()+run()", stats := stats }
  let nrep := (c.get "unsat").size
  let fuel := cs.size
  let memD (cid : Nat) : List Nat := membersOf cs fuel cid        -- descendants (without the own container rectangle)
  -- a container rectangle and the nodes inside its cluster overlap by design
  let containerPair (i j : Nat) : Bool :=
    (List.range cs.size).any fun cid => match (cs[cid]!).rect with
      | some ri => (ri == i && (memD cid).contains j) || (ri == j && (memD cid).contains i)
      | none => false
  let userExempt := exemptFn (parseExempt c)
  let exempt : Nat → Nat → Bool := fun i j => userExempt i j || containerPair i j
  let initialOverlaps := (offending rects exempt tolC08).length
  stats := bumpStats stats "initial.overlapping_pairs" initialOverlaps
  let bad := offending outs exempt tolC08
  -- clusters
  let mem (cid : Nat) : List Nat := (match (cs[cid]!).rect with | some ri => [ri] | none => []) ++ memD cid
  let mut outsideBad : List (Nat × Nat) := []
  for a in [0:cs.size] do
    match (cs[a]!).rect with
    | some ri =>
      if !(membersWithin tolC08 outs ri (memD a)) then
        for i in memD a do
          if !(withinTol tolC08 (outs.getD i default) (outs.getD ri default)) then outsideBad := (a, i) :: outsideBad
    | none => pure ()
  let mut sibBad : List (Nat × Nat) := []
  let mut foreignBad : List (Nat × Nat) := []
  for a in [0:cs.size] do
    if !(noForeignInside tolC08 outs (mem a)) then
      match bbox outs (mem a) with
      | some b =>
        for i in [0:outs.size] do
          if !((mem a).contains i) && centreInside tolC08 b (outs.getD i default) then foreignBad := (a, i) :: foreignBad
      | none => pure ()
    for b in [0:a] do
      if (cs[a]!).parent == (cs[b]!).parent && !(boxesDisjoint tolC08 outs (mem a) (mem b)) then sibBad := (b, a) :: sibBad
  if nrep > 0 then
    stats := bumpStats stats "excused.reported_unsat" 1
    if !bad.isEmpty || !sibBad.isEmpty || !foreignBad.isEmpty || !outsideBad.isEmpty then stats := bumpStats stats "excused.with_overlap" 1
    return { verdict := .ok, nontrivial := false, stats := stats }
  match bad with
  | p :: _ =>
    let a := outs.getD p.1 default; let b := outs.getD p.2 default
    return { verdict := .specfail s!"overlap nodes {p.1},{p.2}: {ratToString (Rect.ovX a b)} in x and {ratToString (Rect.ovY a b)} in y (> 1e-3 in both), nothing reported unsatisfiable; {bad.length} offending pairs; clusters={cs.size}",
             stats := stats }
  | [] => pure ()
  match outsideBad with
  | p :: _ =>
    let ri := ((cs[p.1]!).rect).getD 0
    let m := outs.getD p.2 default; let b := outs.getD ri default
    return { verdict := .specfail s!"member-outside-container: node {p.2} of rectangle-based cluster {p.1} leaves container rectangle {ri} by more than 1e-3 (member x [{ratToString m.minX},{ratToString m.maxX}] y [{ratToString m.minY},{ratToString m.maxY}]; container x [{ratToString b.minX},{ratToString b.maxX}] y [{ratToString b.minY},{ratToString b.maxY}]), nothing reported unsatisfiable", stats := stats }
  | [] => pure ()
  match sibBad with
  | p :: _ => return { verdict := .specfail s!"sibling-clusters {p.1},{p.2}: member bounding boxes overlap by more than 1e-3 in both dimensions, nothing reported unsatisfiable", stats := stats }
  | [] => pure ()
  match foreignBad with
  | p :: _ => return { verdict := .specfail s!"foreign-node: centre of node {p.2} lies inside the member bounding box of cluster {p.1}, nothing reported unsatisfiable", stats := stats }
  | [] => pure ()
  return { verdict := .ok, nontrivial := initialOverlaps > 0 || cs.size > 0, stats := stats }

def run (_args : List String) : IO UInt32 :=
  runCases (fun c => if c.tag.startsWith "gen" then checkGen c else checkLayout c)

end Driver.C08
