import Driver.Proto
namespace Driver.C02

def run (_args : List String) : IO UInt32 := do
  IO.eprintln "driver mode c02: not implemented yet"
  return 2

end Driver.C02
