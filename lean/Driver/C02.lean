/-
Driver mode c02: per case, parse the QP and each solver variant's observables (exact hex
floats), compute the exact optimum with the active-set oracle, accept it only if `checkKkt`
certifies it (sound by `Props.C02.checkKkt_sound`), and compare:
  * SPECFAIL if a variant that flagged nothing unsatisfiable (and threw nothing) deviates from
    the certified optimum by more than 1e-5 * scale, scale = max(1, max|d_i|, max|gap|);
  * SPECFAIL if the permuted-order run differs from the original-order run by more than 2e-5*scale;
  * DIVERGE "oracle-uncertified" if the oracle result is not certified within fuel although the
    implementation reported nothing unsatisfiable.
-/
import Driver.Proto
import AdaptaVerif.Check.Kkt
namespace Driver.C02
open Driver AdaptaVerif.Num AdaptaVerif.Spec.Qp AdaptaVerif.Check.Kkt

def maxAbs (a : Array Rat) (init : Rat) : Rat := a.foldl (fun m v => if absRat v > m then absRat v else m) init

structure Variant where
  name : String
  pos : Option (Array Rat)
  act : Array Bool
  uns : Array Bool
  exc : String
  deriving Inhabited

def bits (s : String) : Array Bool := (s.toList.filter (fun c => c == '0' || c == '1')).toArray.map (· == '1')

def getVariant (c : Case) (name : String) : Option Variant :=
  match c.get1 ("exc." ++ name) with
  | none => none
  | some e =>
    some { name := name
           pos := nums? ((c.get1 ("pos." ++ name)).getD #[])
           act := bits (((c.get1 ("act." ++ name)).getD #[""])[0]!)
           uns := bits (((c.get1 ("uns." ++ name)).getD #[""])[0]!)
           exc := e[0]?.getD "?" }

def tol : Rat := 1 / 100000

/-- decimal rendering with ~9 significant fractional digits, for messages only -/
def approx (r : Rat) : String :=
  let sgn := if r < 0 then "-" else ""
  let a := absRat r
  let scaled : Nat := (a * 1000000000).floor.toNat
  let ip := scaled / 1000000000
  let fp := scaled % 1000000000
  let fs := toString fp
  sgn ++ toString ip ++ "." ++ String.ofList (List.replicate (9 - fs.length) '0') ++ fs

def maxDev (a b : Array Rat) : Rat × Nat := Id.run do
  let mut best : Rat := 0
  let mut ix := 0
  for i in [0:a.size] do
    let dv := absRat (a[i]! - b.getD i 0)
    if dv > best then
      best := dv
      ix := i
  return (best, ix)


def lagrangianTolerance : Rat := 1 / 10000

/-- Why is the implementation's answer not the optimum? Evaluate the implementation's own
    reported active set exactly (diagnostic text only; the verdict does not depend on it). -/
def diagnose (c : Case) (xs : Array Rat) (q : QpData) (v : Variant) (p : Array Rat) (scale : Rat) : String :=
  -- (a) does calling solve() again on the same live solver reach the certified optimum?
  let xname := v.name ++ "x"
  let reached : Bool := match getVariant c xname with
    | some vx => vx.exc == "none" && (match vx.pos with
        | some px => px.size == xs.size && (maxDev px xs).1 ≤ tol * scale
        | none => false)
    | none => false
  -- (b) did the library's solve() return exactly the state of the documented loop
  --     "satisfy(); repeat satisfy() until the cost changes by <= 1e-4", re-executed by the harness
  --     through the public satisfy()?  line: ref.<name> same|diff passes=<k> <largest move in the last pass>
  let refl := (c.get1 ("ref." ++ v.name)).getD #[]
  let refSame := refl.getD 0 "" == "same"
  let refDiff := refl.getD 0 "" == "diff"
  -- the reference loop's last pass is "neutral" if it moved no variable by more than 1e-9*scale
  -- (re-merging under another block scale changes positions by rounding only)
  let lastNeutral : Bool := match num? (refl.getD 2 "") with
    | some mv => 0 ≤ mv && mv ≤ scale / 1000000000
    | none => false
  let refInfo := s!"{refl.getD 1 "passes=?"} last={if lastNeutral then "neutral" else "moved"}"
  -- (c) the implementation's own active set, evaluated exactly
  let own : String := match Oracle.evalActive q (Oracle.adjacency q) v.act with
    | none => "active-set-not-a-forest"
    | some st => Id.run do
      let (dv, _) := maxDev p st.x
      if dv > tol * scale / 10 then
        return s!"positions-differ-from-own-active-set by={approx dv}"
      let mut minlm : Rat := 0
      let mut arg := 0
      for k in [0:q.cons.size] do
        if v.act.getD k false && !q.cons[k]!.eq && st.lam[k]! < minlm then
          minlm := st.lam[k]!
          arg := k
      if minlm < -lagrangianTolerance then
        return s!"returned-with-splittable-constraint minlm={approx minlm} con={arg}"
      if minlm < 0 then
        return s!"lm-within-solver-tolerance minlm={approx minlm} con={arg}"
      return "active-set-kkt-but-infeasible-or-other"
  let splittable := own.startsWith "returned-with-splittable-constraint"
  if refDiff then
    -- solve() did not do what its documented loop does (e.g. stopped after a fixed number of passes)
    s!"cause=solve-differs-from-documented-satisfy-loop reference-{refInfo} repeated-solve-reaches-optimum={reached} own-state={own}"
  else if refSame && reached && splittable && lastNeutral then
    -- the structural class of the known finding: the documented loop itself exits because its last
    -- pass changed no position (split undone by a re-merge) while a multiplier < -1e-4 remains
    s!"cause=stopped-after-cost-neutral-pass-with-splittable-constraint {refInfo} {own.drop 36}"
  else if refSame && reached && splittable then
    s!"cause=stopped-after-small-cost-change-with-splittable-constraint {refInfo} {own.drop 36}"
  else
    s!"cause={own}"

def parseCon (l : Array String) : Option Con :=
  if l.size < 4 then none else
  match num? l[2]! with
  | some g => some { l := nat! l[0]!, r := nat! l[1]!, gap := g, eq := l[3]! == "1" }
  | none => none

def checkCase (c : Case) : CaseResult := Id.run do
  let some d := nums? ((c.get1 "d").getD #[]) | return { verdict := .diverge "unparsable d" }
  let some w := nums? ((c.get1 "w").getD #[]) | return { verdict := .diverge "unparsable w" }
  let some s := nums? ((c.get1 "s").getD #[]) | return { verdict := .diverge "unparsable s" }
  let some d2 := nums? ((c.get1 "d2").getD #[]) | return { verdict := .diverge "unparsable d2" }
  let some cons := (c.get "con").mapM parseCon | return { verdict := .diverge "unparsable con" }
  let n := d.size
  let m := cons.size
  if nat! (((c.get1 "n").getD #["0"])[0]!) != n || nat! (((c.get1 "m").getD #["0"])[0]!) != m then
    return { verdict := .diverge "size mismatch" }
  let gapMax := maxAbs (cons.map (·.gap)) 1
  let scale1 := maxAbs d gapMax
  let scale2 := maxAbs d2 gapMax
  let q1 : QpData := { d := d, w := w, s := s, cons := cons }
  let q2 : QpData := { q1 with d := d2 }
  let mut stats : List (String × Nat) := []
  let mut nontrivial := false
  -- variants grouped by the problem they solve
  let groups : List (QpData × Rat × List String) :=
    [(q1, scale1, ["inc", "static", "avoid", "perm", "sperm"]), (q2, scale2, ["inc2", "avoid2"])]
  let mut fails : Array String := #[]                -- every failing comparison of the case
  let mut firstPos : Option (Array Rat) := none     -- positions of `inc`, for the order comparison
  let mut staticPos : Option (Array Rat) := none
  for (q, scale, names) in groups do
    let vs := names.filterMap (getVariant c)
    -- hint: the active set of the first clean variant
    let clean (v : Variant) : Bool := v.exc == "none" && !v.uns.any id && v.pos.isSome
    let cleanVs := vs.filter clean
    for v in vs do
      if v.exc == "abort" then stats := bumpStats stats "aborted" 1
      else if v.exc != "none" then stats := bumpStats stats ("skip.exception." ++ v.exc) 1
      else if v.uns.any id then stats := bumpStats stats "skip.unsat-flagged" 1
      else if v.pos.isNone then return { verdict := .specfail s!"non-finite position in variant {v.name}" }
    let aborted := vs.filter (fun v => v.exc == "abort")
    if cleanVs.isEmpty && aborted.isEmpty then continue
    let hint := if cleanVs.isEmpty then #[] else (cleanVs.head!).act
    match certifiedOptimum q hint with
    | none =>
      if cleanVs.isEmpty then continue     -- only aborted variants and feasibility not certified: nothing to claim
      return { verdict := .diverge s!"oracle-uncertified (variant group of {(cleanVs.head!).name})", stats := stats }
    | some (xs, lam, iters) =>
      stats := bumpStats stats "oracle.certified" 1
      stats := bumpStats stats (if iters == 0 then "oracle.hint-was-optimal" else "oracle.iterated") 1
      let nact := (lam.filter (· != 0)).size
      if nact > 0 then nontrivial := true
      stats := bumpStats stats "active-at-optimum" nact
      -- the certified optimum proves the problem feasible: an abort (failed assertion / sanitizer
      -- stop) instead of an answer is a failure of solve() on a feasible instance
      for v in aborted do
        let how := ((c.get1 ("exc." ++ v.name)).getD #[]).getD 1 "?"
        fails := fails.push s!"solver-aborted variant={v.name} n={n} m={m} scaled={if s.any (· != 1) then 1 else 0} how={how} cause=abort-on-certified-feasible-problem"
      for v in cleanVs do
        let p := v.pos.getD #[]
        if p.size != n then return { verdict := .diverge s!"variant {v.name}: wrong number of positions" }
        let (dv, ix) := maxDev p xs
        stats := bumpStats stats ("compared." ++ v.name) 1
        if dv > tol * scale then
          fails := fails.push s!"not-optimal variant={v.name} n={n} m={m} scaled={if s.any (· != 1) then 1 else 0} var={ix} impl={approx p[ix]!} optimum={approx xs[ix]!} dev={approx dv} tol={approx (tol * scale)} {diagnose c xs q v p scale}"
          stats := bumpStats stats ("fail." ++ v.name) 1
          continue
        if v.name == "inc" then firstPos := some p
        if v.name == "static" then staticPos := some p
        if v.name == "perm" || v.name == "sperm" then
          match (if v.name == "perm" then firstPos else staticPos) with
          | some p0 =>
            let (dv2, at2) := maxDev p p0
            stats := bumpStats stats "compared.order-pair" 1
            if dv2 > 2 * tol * scale then
              fails := fails.push s!"order-dependent variant={v.name} var={at2} dev={approx dv2} cause=unexplained"
          | none => pure ()
  stats := bumpStats stats (if n ≤ 4 then "n.1-4" else if n ≤ 12 then "n.5-12" else if n ≤ 60 then "n.13-60" else "n.61+") 1
  if s.any (· != 1) then stats := bumpStats stats "scaled" 1
  if cons.any (·.eq) then stats := bumpStats stats "with-equalities" 1
  if fails.size > 0 then
    -- report a failure without a recognised mechanism first, so that a recognised (possibly
    -- known) one can never hide it
    let recognised (m : String) : Bool :=
      (m.splitOn "cause=stopped-after-cost-neutral-pass-with-splittable-constraint").length > 1 ||
      (m.splitOn "cause=stopped-after-small-cost-change-with-splittable-constraint").length > 1 ||
      (m.splitOn "cause=lm-within-solver-tolerance").length > 1
    let pick := (fails.find? (fun m => !recognised m)).getD fails[0]!
    let more := if fails.size > 1 then s!" (+{fails.size - 1} more failing comparisons in this case)" else ""
    return { verdict := .specfail (pick ++ more), nontrivial := nontrivial, stats := stats }
  return { verdict := .ok, nontrivial := nontrivial, stats := stats }

def run (_args : List String) : IO UInt32 :=
  runCases checkCase

end Driver.C02
