import Driver.C08

def main (args : List String) : IO UInt32 := Driver.C08.run args
