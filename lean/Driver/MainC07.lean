import Driver.C07

def main (args : List String) : IO UInt32 := Driver.C07.run args
