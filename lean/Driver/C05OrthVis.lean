/-
C05 driver section (builder H): exact tie between `Model.OrthVis` (the static orthogonal visibility graph
builder) and libavoid's dumped `Router::visOrthogGraph`.

Input lines used (all written by harness/c05.cpp, `runScene` / `runSceneVG` / c05_orthvis.h):
  buf b | rect x0 y0 x1 y1 … | src x y mask | dst x y mask | other x0 y0 x1 y1 … | oconn x y mask …
  agx … | agy … | agc … | aga (deg (to dist dummy)*)*           (dumpGraphRaw)
Compared: the SET of undirected edges between (exact point, is-connector-end-point) pairs, and for every
dumped edge `getDist()` = its geometric length.
-/
import Driver.Proto
import AdaptaVerif.Model.OrthVis
namespace Driver.C05OrthVis
open Driver AdaptaVerif.Num AdaptaVerif.Model.OrthVis

def dirsOfMask (m : Nat) : Dirs :=
  ⟨m % 2 == 1, (m / 2) % 2 == 1, (m / 4) % 2 == 1, (m / 8) % 2 == 1⟩

def dirsAll : Dirs := ⟨true, true, true, true⟩

/-- scene of a case: routing boxes (shape ± buffer) and the connector end points in vertex-id order -/
def parseScene (c : Case) : Option Scene := do
  let buf ← (c.get1 "buf").bind fun l => l[0]?.bind num?
  let mut rects : List Rect := []
  for l in c.get "rect" do
    let v ← nums? l
    if v.size < 4 then none
    rects := rects ++ [⟨v[0]! - buf, v[1]! - buf, v[2]! + buf, v[3]! + buf⟩]
  let mut conns : List Conn := []
  for key in ["src", "dst"] do
    match c.get1 key with
    | some l =>
      let x ← l[0]?.bind num?
      let y ← l[1]?.bind num?
      conns := conns ++ [⟨x, y, dirsOfMask (nat! (l[2]?.getD "15"))⟩]
    | none => pure ()
  for l in c.get "other" do
    let v ← nums? l
    if v.size < 4 then none
    conns := conns ++ [⟨v[0]!, v[1]!, dirsAll⟩, ⟨v[2]!, v[3]!, dirsAll⟩]
  for l in c.get "oconn" do
    let x ← l[0]?.bind num?
    let y ← l[1]?.bind num?
    conns := conns ++ [⟨x, y, dirsOfMask (nat! (l[2]?.getD "15"))⟩]
  return ⟨rects, conns⟩

/-- canonical undirected edge key -/
structure EK where
  x1 : Rat
  y1 : Rat
  c1 : Bool
  x2 : Rat
  y2 : Rat
  c2 : Bool
  deriving BEq, Inhabited

def vlt (ax ay : Rat) (ac : Bool) (bx b_y : Rat) (bc : Bool) : Bool :=
  ax < bx || (ax == bx && (ay < b_y || (ay == b_y && (!ac && bc))))

def mkEK (ax ay : Rat) (ac : Bool) (bx b_y : Rat) (bc : Bool) : EK :=
  if vlt bx b_y bc ax ay ac then ⟨bx, b_y, bc, ax, ay, ac⟩ else ⟨ax, ay, ac, bx, b_y, bc⟩

def EK.lt (a b : EK) : Bool :=
  vlt a.x1 a.y1 a.c1 b.x1 b.y1 b.c1 ||
    (a.x1 == b.x1 && a.y1 == b.y1 && a.c1 == b.c1 && vlt a.x2 a.y2 a.c2 b.x2 b.y2 b.c2)

def EK.str (e : EK) : String :=
  let k := fun (c : Bool) => if c then "c" else ""
  s!"({ratToString e.x1},{ratToString e.y1}){k e.c1}-({ratToString e.x2},{ratToString e.y2}){k e.c2}"

def canon (a : Array EK) : Array EK := Id.run do
  let s := a.qsort EK.lt
  let mut out : Array EK := #[]
  for e in s do
    match out.back? with
    | some l => if l == e then pure () else out := out.push e
    | none => out := out.push e
  return out

/-- first element of sorted `a` that is not in sorted `b` -/
def firstMissing (a b : Array EK) : Option EK := Id.run do
  let mut j := 0
  for e in a do
    while j < b.size && EK.lt b[j]! e do j := j + 1
    if j < b.size && b[j]! == e then pure () else return some e
  return none

def rabs (r : Rat) : Rat := if r < 0 then -r else r

/-- dumped graph → (edge keys, first edge whose `getDist()` is not its geometric length) -/
def parseDump (c : Case) : Option (Array EK × Option String) := do
  let xs ← (c.get1 "agx").bind nums?
  let ys ← (c.get1 "agy").bind nums?
  let cl ← c.get1 "agc"
  let al ← c.get1 "aga"
  let mut out : Array EK := #[]
  let mut bad : Option String := none
  let mut i := 0
  let mut u := 0
  while i < al.size do
    let deg := nat! al[i]!
    for j in [0:deg] do
      let w := nat! (al[i + 1 + 3 * j]?.getD "0")
      let d ← num? (al[i + 2 + 3 * j]?.getD "x")
      let ux := xs.getD u 0; let uy := ys.getD u 0; let wx := xs.getD w 0; let wy := ys.getD w 0
      let e := mkEK ux uy (cl.getD u "0" == "1") wx wy (cl.getD w "0" == "1")
      out := out.push e
      if bad.isNone && d != rabs (ux - wx) + rabs (uy - wy) then
        bad := some s!"edge {e.str} has getDist() {ratToString d} ≠ its length {ratToString (rabs (ux - wx) + rabs (uy - wy))}"
    i := i + 1 + 3 * deg
    u := u + 1
  return (out, bad)

/-- vertex-level check of the dump: two DISTINCT dummy vertices at one point that both carry edges but do
    not have the same neighbour points — the graph is not joined at that point although `crossing_shared`
    proves that the model's lines share their vertex there.  Returns the first such point. -/
def splitNode (c : Case) : Option String := do
  let xs ← (c.get1 "agx").bind nums?
  let ys ← (c.get1 "agy").bind nums?
  let cl ← c.get1 "agc"
  let al ← c.get1 "aga"
  -- neighbour point lists per vertex
  let mut nb : Array (List (Rat × Rat × Bool)) := #[]
  let mut i := 0
  while i < al.size do
    let deg := nat! al[i]!
    let l : List (Rat × Rat × Bool) := (List.range deg).map fun j =>
      let w := nat! (al[i + 1 + 3 * j]?.getD "0")
      (xs.getD w 0, ys.getD w 0, cl.getD w "0" == "1")
    nb := nb.push l
    i := i + 1 + 3 * deg
  -- dummy vertices with edges, sorted by point
  let vs := ((Array.range xs.size).filter fun u => cl.getD u "0" != "1" && !(nb.getD u []).isEmpty)
  let key := fun (u : Nat) => (xs.getD u 0, ys.getD u 0)
  let srt := vs.qsort fun a b => (key a).1 < (key b).1 || ((key a).1 == (key b).1 && (key a).2 < (key b).2)
  for j in [0:srt.size - 1] do
    let a := srt[j]!; let b := srt[j + 1]!
    if key a == key b then
      let na := nb.getD a []; let nbb := nb.getD b []
      if !(na.all nbb.contains && nbb.all na.contains) then
        return s!"two distinct dummy vertices at ({ratToString (key a).1},{ratToString (key a).2}) carry different edges (the graph is not joined there)"
  none

/-- the routing boxes are pairwise separated (the scenes the C05 property text quantifies over) -/
def separatedBoxes (s : Scene) : Bool :=
  let rec go : List Rect → Bool
    | [] => true
    | a :: r => r.all (fun b => a.x1 < b.x0 || b.x1 < a.x0 || a.y1 < b.y0 || b.y1 < a.y0) && go r
  go s.rects

/-- `(x, y, isConn, flags)` sorted by key with the flags of equal keys OR-ed -/
def orFlags (a : Array (Rat × Rat × Bool × Nat)) : Array (Rat × Rat × Bool × Nat) := Id.run do
  let s := a.qsort fun p q => vlt p.1 p.2.1 p.2.2.1 q.1 q.2.1 q.2.2.1
  let mut out : Array (Rat × Rat × Bool × Nat) := #[]
  for e in s do
    match out.back? with
    | some l =>
      if l.1 == e.1 && l.2.1 == e.2.1 && l.2.2.1 == e.2.2.1 then
        out := out.pop.push (l.1, l.2.1, l.2.2.1, l.2.2.2 ||| e.2.2.2)
      else out := out.push e
    | none => out := out.push e
  return out

/-- `orthogVisPropFlags`: dumped (`agf`) vs model, per (point, is-connector-end-point), flags of several
    vertices at one key OR-ed.  Returns the first difference. -/
def flagsDiff (c : Case) (s : Scene) : Option String := do
  let xs ← (c.get1 "agx").bind nums?
  let ys ← (c.get1 "agy").bind nums?
  let cl ← c.get1 "agc"
  let fl ← c.get1 "agf"
  let impl := orFlags ((Array.range xs.size).map fun u => (xs.getD u 0, ys.getD u 0, cl.getD u "0" == "1", nat! (fl.getD u "0")))
  let model := orFlags (s.flagParts.map fun (g, f) => (g.x, g.y, g.k.isConn, f)).toArray
  -- every model key must be present with equal flags; dumped keys the model lacks must have no flags
  let mut j := 0
  for e in impl do
    while j < model.size && vlt model[j]!.1 model[j]!.2.1 model[j]!.2.2.1 e.1 e.2.1 e.2.2.1 do
      if model[j]!.2.2.2 != 0 then
        return s!"model vertex ({ratToString model[j]!.1},{ratToString model[j]!.2.1}) with flags {model[j]!.2.2.2} is not in the dump"
      j := j + 1
    if j < model.size && model[j]!.1 == e.1 && model[j]!.2.1 == e.2.1 && model[j]!.2.2.1 == e.2.2.1 then
      if model[j]!.2.2.2 != e.2.2.2 then
        return s!"orthogVisPropFlags at ({ratToString e.1},{ratToString e.2.1}){if e.2.2.1 then "c" else ""}: libavoid {e.2.2.2}, model {model[j]!.2.2.2}"
      j := j + 1
    else if e.2.2.2 != 0 then
      return s!"orthogVisPropFlags at ({ratToString e.1},{ratToString e.2.1}): libavoid {e.2.2.2}, the model has no breakpoint there"
  none

def modelKeys (s : Scene) : Array EK :=
  (s.graph.map fun (a, b) => mkEK a.x a.y a.k.isConn b.x b.y b.k.isConn).toArray

/-- `none`: no dump in this case, or model graph = dumped graph; `some (spec, msg)`: they differ
    (`spec`: the dumped graph itself is wrong — an edge weight that is not the edge's length, an edge through
    a routing box — a concrete failing input; otherwise only model ≠ implementation) -/
def checkOrthVis (c : Case) : Option (Bool × String) × List (String × Nat) := Id.run do
  if (c.get1 "agx").isNone then return (none, [("orthvis.nodump", 1)])
  let some s := parseScene c | return (some (false, "orthvis: unparsable scene"), [])
  let some (dump, bad) := parseDump c | return (some (false, "orthvis: unparsable graph dump"), [])
  let impl := canon dump
  let model := canon (modelKeys s)
  let L := s.lines
  let inShape := s.conns.any fun q => s.rects.any fun r => r.x0 < q.x ∧ q.x < r.x1 ∧ r.y0 < q.y ∧ q.y < r.y1
  let stats : List (String × Nat) :=
    [("orthvis.compared", 1), ("orthvis.edges", model.size), ("orthvis.hlines", L.hs.length),
     ("orthvis.vlines", L.vs.length),
     (if model.any (fun e => e.c1 && e.c2) then "orthvis.conn-conn-edge" else "orthvis.no-conn-conn-edge", 1),
     (if inShape then "orthvis.endpoint-in-shape" else "orthvis.endpoints-free", 1),
     (if s.fixDirs != s.conns then "orthvis.outside-rule-fired" else "orthvis.outside-rule-idle", 1)]
  match bad with
  | some m => return (some (true, s!"orthvis: {m}"), stats)
  | none => pure ()
  -- every dumped edge is axis-parallel and enters no rectangle that holds no end point (the property
  -- `Props.C05OrthVis.graph_edge_sound` proves of the model graph; checker: `edgeAvoids`, `edgeAvoids_iff`)
  let solid := s.rects.filter fun r => !hasConnIn s.conns r
  match impl.find? (fun e => solid.any fun r => !edgeAvoids r e.x1 e.y1 e.x2 e.y2) with
  | some e => return (some (true, s!"orthvis: libavoid's visibility edge {e.str} is not axis-parallel or passes through the interior of a routing box"), stats)
  | none => pure ()
  match firstMissing impl model, firstMissing model impl with
  | none, none =>
    -- vertex level: the dumped graph must be joined wherever two of its lines meet (`crossing_shared`);
    -- since the fix in /repo (insertBreakpointsFinish before addEdgeHorizontal) this holds in every scene,
    -- touching / overlapping routing boxes included
    match splitNode c with
    | some m => return (some (false, s!"orthvis: {m}"), stats)
    | none =>
      -- the long-range visibility flags (only where the vertex level is sound, i.e. no split vertices)
      -- a connector end point exactly on a box corner puts a plain dummy vertex and a shape-corner vertex
      -- at one point of one line; `std::set<PosVertInf>` keeps whichever has the lower heap address
      -- (`CmpVertInf` falls back to `u < v`), so the *_EDGE bits are not a function of the scene there
      let onCorner := s.conns.any fun q => !q.d.none && s.rects.any fun r =>
        (q.x == r.x0 || q.x == r.x1) && (q.y == r.y0 || q.y == r.y1)
      if onCorner then return (none, ("orthvis.flags-skipped-end-point-on-box-corner", 1) :: stats)
      match flagsDiff c s with
      | some m => return (some (false, s!"orthvis: {m}"), ("orthvis.flags-compared", 1) :: stats)
      | none => return (none, ("orthvis.flags-compared", 1) :: ("orthvis.flags-equal", 1) :: stats)
  | some e, _ =>
    return (some (false, s!"orthvis: libavoid's graph has edge {e.str}, the model's has not ({impl.size} vs {model.size} edges)"), stats)
  | none, some e =>
    return (some (false, s!"orthvis: the model's graph has edge {e.str}, libavoid's has not ({impl.size} vs {model.size} edges)"), stats)

/-- adds the graph tie to a scene verdict (reported unless the case already failed) -/
def withOrthVis (c : Case) (r : CaseResult) : CaseResult :=
  let (d, st) := checkOrthVis c
  let r' := { r with stats := r.stats ++ st }
  match d, r.verdict with
  | some (true, msg), .ok => { r' with verdict := .specfail msg }
  | some (true, msg), .diverge _ => { r' with verdict := .specfail msg }
  | some (false, msg), .ok => { r' with verdict := .diverge msg }
  | _, _ => r'

/-- classes `ovis-*` (c05_orthvis.h): scene + graph dump only -/
def checkOvis (c : Case) : CaseResult :=
  let (d, st) := checkOrthVis c
  match d with
  | some (true, msg) => { verdict := .specfail msg, stats := st }
  | some (false, msg) => { verdict := .diverge msg, stats := st }
  | none => { verdict := .ok, nontrivial := (c.get1 "agx").isSome, stats := st }

end Driver.C05OrthVis
