import Driver.Proto
import AdaptaVerif.Model.Bends
import AdaptaVerif.Check.Hanan
import AdaptaVerif.Check.OrthGraph
import AdaptaVerif.Model.AStar
import Driver.C05OrthVis
/-!
Driver mode `c05`.

(a) kernels of makepath.cpp (`bends-grid`, `bends-random`, `estimate` cases): every line carries the
    C++ answer; it is recomputed with `Model.Bends`.  For `bends` the model value is, by
    `Props.C05.bends_admissible` + `bends_tight`, the exact minimum number of bends; it is
    additionally cross-checked against an independent brute-force decider of that minimum
    (`specMin`, enumerating leg sequences).  C++ above the exact minimum = SPECFAIL (the estimator
    overestimates), any other difference = DIVERGE.
(b) routed scenes: axis-parallelism of `route()` and `displayRoute()` (exact), and raw route cost
    (Manhattan length + penalty·bends) against the optimum certified by `Check.Hanan.checkCert`
    from the harness' untrusted potential + witness.
-/
namespace Driver.C05
open Driver AdaptaVerif.Num AdaptaVerif.Model.Bends AdaptaVerif.Check.Hanan
open AdaptaVerif.Model.Geometry (Pt)

/-! ### independent decider of the minimum number of bends (Spec.OrthPath semantics) -/

def hMask : Nat → Nat
  | 0 => 1 | 1 => 2 | 2 => 4 | _ => 8

def maskToH (m : Nat) : Option Nat :=
  if m = 1 then some 0 else if m = 2 then some 1 else if m = 4 then some 2 else if m = 8 then some 3 else none

/-- can legs with the given orientations (+1 or −1) and zero-allowed flags add up to something of sign `t`? -/
def feasAxis (legs : List (Int × Bool)) (t : Int) : Bool :=
  let pos := legs.filter (fun l => l.1 > 0)
  let neg := legs.filter (fun l => l.1 < 0)
  if !pos.isEmpty && !neg.isEmpty then true
  else if pos.isEmpty && neg.isEmpty then t == 0
  else
    let allZero := (pos ++ neg).all (fun l => l.2)
    let tt := if pos.isEmpty then -t else t
    tt > 0 || (tt == 0 && allZero)

def feasSeq (seq : List Nat) (sx sy : Int) : Bool :=
  let n := seq.length
  let tagged := seq.zipIdx.map fun (h, i) => (h, i == 0 || i + 1 == n)
  let xs := tagged.filterMap fun (h, z) => if hdx h ≠ 0 then some (hdx h, z) else none
  let ys := tagged.filterMap fun (h, z) => if hdy h ≠ 0 then some (hdy h, z) else none
  feasAxis xs sx && feasAxis ys sy

/-- all heading sequences with `n` legs starting with `cd`, consecutive legs perpendicular -/
def seqs (cd : Nat) : Nat → List (List Nat)
  | 0 => []
  | 1 => [[cd]]
  | n + 1 => (seqs cd n).flatMap fun s =>
      let l := s.getLast?.getD 0
      [s ++ [(l + 1) % 4], s ++ [(l + 3) % 4]]

def specMin (sx sy : Int) (cd dd : Nat) : Option Nat :=
  (List.range 6).findSome? fun k =>
    if k = 0 then none
    else if (seqs cd k).any (fun s => s.getLast? == some dd && feasSeq s sx sy) then some (k - 1) else none

def sgn (r : Rat) : Int := if r > 0 then 1 else if r < 0 then -1 else 0

/-! ### kernel cases -/

def optStr (o : Option Nat) : String := match o with | some v => toString v | none => "assert"

def checkKernels (c : Case) : CaseResult := Id.run do
  let mut calls := 0
  let mut hist : List (String × Nat) := []
  for l in c.get "dir" do
    let d := nat! l[0]!
    calls := calls + 3
    if dirLeft d != some (nat! l[1]!) then return { verdict := .diverge s!"dirLeft {d}: impl {l[1]!} model {optStr (dirLeft d)}" }
    if dirRight d != some (nat! l[2]!) then return { verdict := .diverge s!"dirRight {d}: impl {l[2]!} model {optStr (dirRight d)}" }
    if dirReverse d != some (nat! l[3]!) then return { verdict := .diverge s!"dirReverse {d}: impl {l[3]!} model {optStr (dirReverse d)}" }
  for l in c.get "dd" do
    match num? l[0]! with
    | none => return { verdict := .diverge "unparsable dd" }
    | some x =>
      calls := calls + 1
      if dimDirection x != int! l[1]! then return { verdict := .diverge s!"dimDirection {l[0]!}: impl {l[1]!} model {dimDirection x}" }
  for l in c.get "od" do
    match nums? (l.extract 0 4) with
    | none => return { verdict := .diverge "unparsable od" }
    | some v =>
      calls := calls + 2
      let m := orthogonalDirection ⟨v[0]!, v[1]!⟩ ⟨v[2]!, v[3]!⟩
      if m != nat! l[4]! then return { verdict := .diverge s!"orthogonalDirection {l}: model {m}" }
      if orthogonalDirectionsCount m != nat! l[5]! then return { verdict := .diverge s!"orthogonalDirectionsCount {m}: impl {l[5]!}" }
  for l in c.get "b" do
    if l.size < 8 then return { verdict := .diverge s!"bends line without result (assertion abort?): {l}" }
    match num? l[0]!, num? l[1]!, num? l[3]!, num? l[4]! with
    | some cx, some cy, some dx, some dy =>
      calls := calls + 1
      let cd := nat! l[2]!
      let dd := nat! l[5]!
      let impl := int! l[6]!
      let impl2 := int! l[7]!
      let model := bends ⟨cx, cy⟩ cd ⟨dx, dy⟩ dd
      let spec := match maskToH cd, maskToH dd with
        | some a, some b => specMin (sgn (dx - cx)) (sgn (dy - cy)) a b
        | _, _ => none
      hist := bumpStats hist s!"bends.{optStr model}" 1
      match model, spec with
      | some m, some s =>
        if m != s then return { verdict := .diverge s!"model bends {m} ≠ brute-force minimum {s} on {l}" }
        if impl2 != impl then return { verdict := .diverge s!"linked bends {impl} ≠ TU copy {impl2} on {l}" }
        if impl > (m : Int) then
          return { verdict := .specfail s!"bends overestimates: impl {impl} > exact minimum {m}; curr=({l[0]!},{l[1]!}) dir {cd} dest=({l[3]!},{l[4]!}) dir {dd}" }
        if impl != (m : Int) then
          return { verdict := .diverge s!"bends: impl {impl} model {m}; curr=({l[0]!},{l[1]!}) dir {cd} dest=({l[3]!},{l[4]!}) dir {dd}" }
      | _, _ => return { verdict := .diverge s!"model/spec undefined on {l}: model {optStr model} spec {optStr spec}" }
    | _, _, _, _ => return { verdict := .diverge "unparsable b line" }
  for l in c.get "est" do
    if l.size < 10 then return { verdict := .diverge s!"estimate line without result (assertion abort?): {l}" }
    match nums? (l.extract 1 7), num? l[8]!, num? l[9]! with
    | some v, some pen, some impl =>
      calls := calls + 1
      let last : Option Pt := if l[0]! == "1" then some ⟨v[0]!, v[1]!⟩ else none
      let m := estimatedCostSpecific last ⟨v[2]!, v[3]!⟩ ⟨v[4]!, v[5]!⟩ (nat! l[7]!) pen
      hist := bumpStats hist (if last.isNone then "est.start" else "est.heading") 1
      match m with
      | some e => if e != impl then return { verdict := .diverge s!"estimatedCostSpecific {l}: model {ratToString e}" }
      | none => return { verdict := .diverge s!"estimatedCostSpecific {l}: model hits an assertion, impl returned" }
    | _, _, _ => return { verdict := .diverge "unparsable est line" }
  return { verdict := .ok, nontrivial := calls > 0, stats := ("kernel.calls", calls) :: hist }

/-! ### scenes -/

def pts? (ts : Array String) : Option (List (Rat × Rat)) := do
  let v ← nums? ts
  if v.size % 2 != 0 then none
  let mut out : List (Rat × Rat) := []
  for i in [0:v.size / 2] do
    out := (v[2*i]!, v[2*i+1]!) :: out
  return out.reverse

/-- first pair of consecutive points that differ in both coordinates -/
def firstDiagonal : List (Rat × Rat) → Option ((Rat × Rat) × (Rat × Rat))
  | a :: b :: t => if a.1 ≠ b.1 ∧ a.2 ≠ b.2 then some (a, b) else firstDiagonal (b :: t)
  | _ => none

/-- headings of the non-degenerate segments of an axis-parallel polyline -/
def headings : List (Rat × Rat) → List Nat
  | a :: b :: t =>
    let rest := headings (b :: t)
    if b.1 > a.1 then 1 :: rest else if b.1 < a.1 then 3 :: rest
    else if b.2 > a.2 then 2 :: rest else if b.2 < a.2 then 0 :: rest else rest
  | _ => []

def polyLen : List (Rat × Rat) → Rat
  | a :: b :: t => AdaptaVerif.Check.Hanan.absR (b.1 - a.1) + AdaptaVerif.Check.Hanan.absR (b.2 - a.2) + polyLen (b :: t)
  | _ => 0

/-- bends as charged by makepath.cpp `cost()`: 1 per quarter turn, 2 for doubling back -/
def bendsOfHeadings : List Nat → Nat
  | a :: b :: t => (if a = b then 0 else if (a + 2) % 4 = b then 2 else 1) + bendsOfHeadings (b :: t)
  | _ => 0

def anyBlocked (sc : Scene) : List (Rat × Rat) → Bool
  | a :: b :: t => segBlocked sc a.1 a.2 b.1 b.2 || anyBlocked sc (b :: t)
  | _ => false

def witStates : List (Nat × Nat) → List State
  | a :: b :: t =>
    let h := if b.1 > a.1 then 1 else if b.1 < a.1 then 3 else if b.2 > a.2 then 2 else 0
    ⟨b.1, b.2, h⟩ :: witStates (b :: t)
  | _ => []

def tol : Rat := 1 / 1000000

def checkScene (c : Case) : CaseResult := Id.run do
  let some pen := (c.get1 "pen").bind (fun l => num? l[0]!) | return { verdict := .diverge "no pen" }
  let some buf := (c.get1 "buf").bind (fun l => num? l[0]!) | return { verdict := .diverge "no buf" }
  let mut rects : List Rect := []
  for l in c.get "rect" do
    match nums? l with
    | some v => rects := ⟨v[0]! - buf, v[1]! - buf, v[2]! + buf, v[3]! + buf⟩ :: rects
    | none => return { verdict := .diverge "unparsable rect" }
  let some sl := c.get1 "src" | return { verdict := .diverge "no src" }
  let some tl := c.get1 "dst" | return { verdict := .diverge "no dst" }
  let some sv := nums? (sl.extract 0 2) | return { verdict := .diverge "bad src" }
  let some tv := nums? (tl.extract 0 2) | return { verdict := .diverge "bad dst" }
  let sc : Scene := { rects := rects.reverse, sx := sv[0]!, sy := sv[1]!, tx := tv[0]!, ty := tv[1]!,
                      smask := nat! sl[2]!, tmask := nat! tl[2]!, pen := pen }
  let restricted := sc.smask != 15 || sc.tmask != 15
  let stats0 : List (String × Nat) := [(s!"rects.{rects.length / 5 * 5}+", 1), (s!"pen.{ratToString pen}", 1),
      (if restricted then "masks.restricted" else "masks.all", 1)]
  -- implementation observables
  let some rl := c.get1 "route" | return { verdict := .diverge "no route line (crash?)" }
  let some dl := c.get1 "display" | return { verdict := .diverge "no display line" }
  let some route := pts? rl | return { verdict := .diverge "unparsable route" }
  let some disp := pts? dl | return { verdict := .diverge "unparsable display route" }
  -- sentence 1: exactly axis-parallel
  if let some (a, b) := firstDiagonal route then
    return { verdict := .specfail s!"route() segment not axis-parallel: ({ratToString a.1},{ratToString a.2})-({ratToString b.1},{ratToString b.2})", stats := stats0 }
  if let some (a, b) := firstDiagonal disp then
    return { verdict := .specfail s!"displayRoute() segment not axis-parallel: ({ratToString a.1},{ratToString a.2})-({ratToString b.1},{ratToString b.2})", stats := stats0 }
  if route.head? != some (sc.sx, sc.sy) || route.getLast? != some (sc.tx, sc.ty) then
    return { verdict := .diverge "route() does not join the endpoints", stats := stats0 }
  -- sentence 2: certified optimum
  let reach := ((c.get1 "reachable").map (fun l => l[0]! == "1")).getD false
  if !reach then
    return { verdict := .ok, nontrivial := false, stats := ("oracle.unreachable", 1) :: stats0 }
  let some potL := c.get1 "pot" | return { verdict := .diverge "no potential" }
  let some pot := nums? potL | return { verdict := .diverge "unparsable potential" }
  let some witL := c.get1 "wit" | return { verdict := .diverge "no witness" }
  let witIdx : List (Nat × Nat) := (List.range (witL.size / 2)).map fun i => (nat! witL[2*i]!, nat! witL[2*i+1]!)
  let cert : Cert := { pot := pot, wit := witStates witIdx }
  match checkCert sc cert with
  | none => return { verdict := .diverge s!"oracle certificate rejected: {explain sc cert}", stats := stats0 }
  | some opt =>
    let hs := headings route
    let nb := bendsOfHeadings hs
    let cost := polyLen route + (nb : Rat) * pen
    let stats := (s!"route.bends.{min nb 6}", 1) :: ("cert.states", pot.size) :: stats0
    let nontrivial := nb > 0
    if AdaptaVerif.Check.Hanan.absR (cost - opt) ≤ tol then
      return { verdict := .ok, nontrivial := nontrivial, stats := stats }
    else if cost > opt then
      return { verdict := .specfail s!"suboptimal route: cost {ratToString cost} ({nb} bends) > certified optimum {ratToString opt}; penalty {ratToString pen}, masks {sc.smask}/{sc.tmask}", stats := stats }
    else
      -- cheaper than every route of the state graph: the route must be breaking a rule
      let g := mkGrid sc
      let offGrid := route.any fun p => !(g.xs.contains p.1 && g.ys.contains p.2)
      let firstOk := match hs.head? with | some h => sc.smask &&& visBit h != 0 | none => false
      let lastOk := match hs.getLast? with | some h => sc.tmask &&& visBit ((h + 2) % 4) != 0 | none => false
      if anyBlocked sc route then
        return { verdict := .specfail s!"route crosses the interior of an obstacle (cost {ratToString cost} < optimum {ratToString opt})", stats := stats }
      else if !firstOk || !lastOk then
        return { verdict := .specfail s!"route violates direction restriction (leaves/enters an endpoint in a direction outside masks {sc.smask}/{sc.tmask}); cost {ratToString cost} < restricted optimum {ratToString opt}", stats := stats }
      else
        return { verdict := .diverge s!"valid route cheaper than certified optimum: cost {ratToString cost} < {ratToString opt} (offGrid={offGrid}) — oracle/Hanan assumption broken", stats := stats }

/-! ### direction-restricted scenes: optimum of libavoid's own visibility graph -/

/-- merge collinear hops: (heading, length) legs of an axis-parallel polyline -/
def legsOf : List (Rat × Rat) → List (Nat × Rat)
  | a :: b :: t =>
    let rest := legsOf (b :: t)
    let len := AdaptaVerif.Check.Hanan.absR (b.1 - a.1) + AdaptaVerif.Check.Hanan.absR (b.2 - a.2)
    let h := if b.1 > a.1 then 1 else if b.1 < a.1 then 3 else if b.2 > a.2 then 2 else 0
    if len = 0 then rest
    else match rest with
      | (h', l') :: r => if h' = h then (h, len + l') :: r else (h, len) :: rest
      | [] => [(h, len)]
  | _ => []

def parseAdj (ts : Array String) : Array (List Nat) := Id.run do
  let mut out : Array (List Nat) := #[]
  let mut i := 0
  while i < ts.size do
    let deg := nat! ts[i]!
    out := out.push (((List.range deg).map fun j => nat! (ts[i + 1 + j]?.getD "0")))
    i := i + 1 + deg
  return out

def witVG (g : AdaptaVerif.Check.OrthGraph.VG) : Nat → List Nat → List AdaptaVerif.Check.OrthGraph.VState
  | _, [] => []
  | u, w :: t =>
    match AdaptaVerif.Check.OrthGraph.hop g u w with
    | some (d, _) => ⟨w, d⟩ :: witVG g w t
    | none => ⟨w, 9⟩ :: witVG g w t

def checkSceneVG (c : Case) : CaseResult := Id.run do
  let some pen := (c.get1 "pen").bind (fun l => num? l[0]!) | return { verdict := .diverge "no pen" }
  let some sl := c.get1 "src" | return { verdict := .diverge "no src" }
  let some tl := c.get1 "dst" | return { verdict := .diverge "no dst" }
  let some sv := nums? (sl.extract 0 2) | return { verdict := .diverge "bad src" }
  let some tv := nums? (tl.extract 0 2) | return { verdict := .diverge "bad dst" }
  let smask := nat! sl[2]!
  let tmask := nat! tl[2]!
  let which := if smask != 15 && tmask != 15 then "source+target" else if smask != 15 then "source" else if tmask != 15 then "target" else "none"
  let stats0 : List (String × Nat) := [(s!"pen.{ratToString pen}", 1), (s!"restricted.{which}", 1)]
  let some rl := c.get1 "route" | return { verdict := .diverge "no route line (crash?)" }
  let some dl := c.get1 "display" | return { verdict := .diverge "no display line" }
  let some route := pts? rl | return { verdict := .diverge "unparsable route" }
  let some disp := pts? dl | return { verdict := .diverge "unparsable display route" }
  if let some (a, b) := firstDiagonal route then
    return { verdict := .specfail s!"route() segment not axis-parallel: ({ratToString a.1},{ratToString a.2})-({ratToString b.1},{ratToString b.2})", stats := stats0 }
  if let some (a, b) := firstDiagonal disp then
    return { verdict := .specfail s!"displayRoute() segment not axis-parallel: ({ratToString a.1},{ratToString a.2})-({ratToString b.1},{ratToString b.2})", stats := stats0 }
  if route.head? != some (sv[0]!, sv[1]!) || route.getLast? != some (tv[0]!, tv[1]!) then
    return { verdict := .diverge "route() does not join the endpoints", stats := stats0 }
  let legs := legsOf route
  let hs := legs.map (·.1)
  let firstOk := match hs.head? with | some h => smask &&& visBit h != 0 | none => false
  let lastOk := match hs.getLast? with | some h => tmask &&& visBit ((h + 2) % 4) != 0 | none => false
  if !firstOk || !lastOk then
    return { verdict := .specfail s!"route violates direction restriction of the {if !firstOk then "source" else "target"} (masks {smask}/{tmask}; restricted: {which})", stats := stats0 }
  let reach := ((c.get1 "vgreachable").map (fun l => l[0]! == "1")).getD false
  if !reach then
    return { verdict := .diverge "oracle finds no route in the dumped visibility graph although the router returned one", stats := stats0 }
  let some xs := (c.get1 "vgx").bind nums? | return { verdict := .diverge "no vgx" }
  let some ys := (c.get1 "vgy").bind nums? | return { verdict := .diverge "no vgy" }
  let some fl := c.get1 "vgf" | return { verdict := .diverge "no vgf" }
  let some al := c.get1 "vga" | return { verdict := .diverge "no vga" }
  let some st := c.get1 "vgs" | return { verdict := .diverge "no vgs" }
  let some pot := (c.get1 "vgpot").bind nums? | return { verdict := .diverge "no vgpot" }
  let some wl := c.get1 "vgwit" | return { verdict := .diverge "no vgwit" }
  let g : AdaptaVerif.Check.OrthGraph.VG :=
    { xs := xs, ys := ys, adj := parseAdj al, src := nat! st[0]!, tar := nat! st[1]!, pen := pen,
      flags := fl.map nat!, prune := false }
  let wit := wl.toList.map nat!
  let cert : AdaptaVerif.Check.OrthGraph.Cert := { pot := pot, wit := witVG g g.src wit }
  -- second certificate: optimum among the routes the documented turn-pruning rule permits
  let gp := { g with prune := true }
  let popt : Option Rat :=
    match (c.get1 "vppot").bind nums?, c.get1 "vpwit" with
    | some ppot, some pwl =>
      AdaptaVerif.Check.OrthGraph.checkCert gp { pot := ppot, wit := witVG gp gp.src (pwl.toList.map nat!) }
    | _, _ => none
  let pReach := ((c.get1 "vpreachable").map (fun l => l[0]! == "1")).getD false
  if pReach && popt.isNone then
    return { verdict := .diverge "certificate for the optimum under the pruning rule rejected", stats := stats0 }
  match AdaptaVerif.Check.OrthGraph.checkCert g cert with
  | none => return { verdict := .diverge s!"own-graph certificate rejected: {AdaptaVerif.Check.OrthGraph.explain g cert}", stats := stats0 }
  | some opt =>
    let nb := bendsOfHeadings hs
    let cost := polyLen route + (nb : Rat) * pen
    let lossy := match popt with | some p => p > opt + tol | none => true
    let aligned := sv[0]! == tv[0]! || sv[1]! == tv[1]!
    let stats := (s!"route.bends.{min nb 6}", 1) :: ("vg.vertices", xs.size) ::
      (if lossy then "scene.prune-lossy" else "scene.prune-safe", 1) :: stats0
    -- the tag is the harness' claim about the scene class; it must agree with the certified values
    if c.tag == "scene-dirs-src" && (lossy || aligned) then
      return { verdict := .diverge s!"scene tagged {c.tag} but certified class is prune-lossy={lossy} aligned={aligned}", stats := stats }
    if AdaptaVerif.Check.Hanan.absR (cost - opt) ≤ tol then
      return { verdict := .ok, nontrivial := nb > 0, stats := stats }
    else if cost > opt then
      let wpts := (g.xs.getD g.src 0, g.ys.getD g.src 0) :: wit.map fun v => (g.xs.getD v 0, g.ys.getD v 0)
      let wlegs := legsOf wpts
      let detail := s!"cost {ratToString cost} ({nb} bends) > graph optimum {ratToString opt} ({wlegs.length - 1} bends); penalty {ratToString pen}; restricted: {which} (masks {smask}/{tmask})"
      match popt with
      | some p =>
        if lossy && AdaptaVerif.Check.Hanan.absR (cost - p) ≤ tol then
          return { verdict := .specfail s!"suboptimal route (turn pruning discards every optimal route of libavoid's own visibility graph; route = optimum under the pruning rule {ratToString p}): {detail}", stats := stats }
        else
          return { verdict := .specfail s!"suboptimal route NOT explained by the documented turn-pruning rule (optimum under that rule {ratToString p}): {detail}", stats := stats }
      | none =>
        return { verdict := .specfail s!"suboptimal route (the documented turn-pruning rule leaves no route at all): {detail}", stats := stats }
    else
      return { verdict := .diverge s!"route cheaper than the optimum of the dumped graph: {ratToString cost} < {ratToString opt} (route uses an edge that was not dumped?)", stats := stats }

/-! ### the A* search itself: `Model.AStar` run on the dumped graph vs the C++ route -/

open AdaptaVerif.Model.AStar in
def parseAdjE (ts : Array String) : Array (List Edge) := Id.run do
  let mut out : Array (List Edge) := #[]
  let mut i := 0
  while i < ts.size do
    let deg := nat! ts[i]!
    let es : List Edge := (List.range deg).map fun j =>
      { to := nat! (ts[i + 1 + 3 * j]?.getD "0"), dist := (num? (ts[i + 2 + 3 * j]?.getD "0")).getD 0,
        dummy := (ts[i + 3 + 3 * j]?.getD "0") == "1" }
    out := out.push es
    i := i + 1 + 3 * deg
  return out

def ptsStr (l : List Pt) : String :=
  " ".intercalate (l.map fun p => s!"({ratToString p.x},{ratToString p.y})")

/-- largest graph (vertices) on which the list-based model search is run -/
def astarCap : Nat := 400

open AdaptaVerif.Model.AStar in
/-- some vertex has two edges in the same direction to vertices at DIFFERENT points (bypass edges around
    other connectors' end points): only there `list::sort` by `CmpVisEdgeRotation` leaves an order that
    depends on the earlier sorts of the same list -/
def parallelEdges (g : Graph) : Bool :=
  g.adj.zipIdx.any fun (l, u) =>
    l.any fun e => l.any fun e' => e.to ≠ e'.to && g.pt e.to != g.pt e'.to &&
      AdaptaVerif.Model.Bends.orthogonalDirection (g.pt u) (g.pt e.to) ==
        AdaptaVerif.Model.Bends.orthogonalDirection (g.pt u) (g.pt e'.to)

open AdaptaVerif.Model.AStar in
/-- `none`: model search and C++ agree (or no dump / graph too large); `some msg`: they differ.
    Compared, all exactly: (1) `route()` against the model's route = the loop-erased node chain
    (`routeOfChain`: what the per-vertex `pathNext` pointers yield), vertex for vertex; (2) the sequence
    of nodes the real search pops (DebugHandler tap: vertex + previous vertex) against the model's DONE
    list — the model reproduces time stamps and edge order, so ties are broken alike; (3) with the optional
    library hook, g / exploredCount / PENDING.size() / timestamp at the goal.  Only where a vertex has
    two edges in one direction to different points (bypass edges around other connectors' end points;
    the C++ list order is then history dependent) a different route of equal as-coded cost (`search`'s g:
    hop lengths + bend penalties, last hop from a cost target free) or a different pop order is accepted. -/
def checkAStar (c : Case) (pen : Rat) (route : List (Rat × Rat)) : Option String × List (String × Nat) := Id.run do
  if (c.get1 "agskip").isSome then return (none, [("astar.skipped-large", 1)])
  let some xs := (c.get1 "agx").bind nums? | return (none, [("astar.nodump", 1)])
  let some ys := (c.get1 "agy").bind nums? | return (some "A*: no agy", [])
  let some fl := c.get1 "agf" | return (some "A*: no agf", [])
  let some cl := c.get1 "agc" | return (some "A*: no agc", [])
  let some al := c.get1 "aga" | return (some "A*: no aga", [])
  let some st := c.get1 "ags" | return (some "A*: no ags", [])
  if xs.size > astarCap then return (none, [("astar.skipped-large", 1)])
  let pts : Array Pt := (Array.range xs.size).map fun i => ⟨xs[i]!, ys.getD i 0⟩
  let g : Graph :=
    { pts := pts, adj := parseAdjE al, vflags := fl.map nat!, connPt := cl.map (· == "1"),
      src := nat! st[0]!, tar := nat! st[1]!, segPen := pen }
  if !g.assertsOk then return (some "A*: segmentPenalty ≤ 0", [])
  let rpts : List Pt := route.map fun p => ⟨p.1, p.2⟩
  match g.run with
  | .outOfFuel => return (some "A* model ran out of fuel", [])
  | .noPath =>
    if rpts.length ≤ 2 then return (none, [("astar.nopath-both", 1)])
    else return (some s!"A* model finds no path, C++ route has {rpts.length} points", [])
  | .found b done =>
    let chain := pathOf done done.length b                       -- node chain, target first
    let mroute := (routeOfChain chain.length chain).reverse       -- what pathNext yields, source first
    let mpts := mroute.map g.pt
    let looped := mroute.length ≠ chain.length
    let implCost := routeCostPts g none rpts
    let modelCost := routeCostPts g none mpts
    let chainCost := routeCostPts g none (chain.reverse.map g.pt)
    let run0 := ({ g with eps := 0 }).run
    let epsFree := match run0 with | .found b0 d0 => b0 == b && d0.length == done.length | _ => false
    let isCT := fun (v : Nat) => (costTargets g).any fun ct => ct.1 = v
    -- consistency of the estimator on this graph (hypotheses of Props.C05AStar.graph_search_optimal),
    -- evaluated on every 8th case, graphs up to 250 vertices
    let consStats : List (String × Nat) :=
      if c.idx % 8 != 0 || xs.size > 250 then [] else
        let fi := g.firstInconsistent
        let kind := match fi with
          | none => "none"
          | some (pv, v, w) =>
            if w = g.tar then "edge-into-target"
            else if isCT w then "edge-into-cost-target"
            else match pv with
              | some p => if bendClass (g.pt p) (g.pt v) (g.pt w) = 2 then "doubling-back" else "other"
              | none => "edge-from-start"
        let cons := fi.isNone && g.consistent
        [(s!"astar.first-inconsistency.{kind}", 1),
         (if cons then "astar.estimator-consistent" else "astar.estimator-inconsistent", 1),
         (if g.firstInconsistentOther.isNone then "astar.estimator-consistent-off-known-kinds" else "astar.inconsistency-of-unknown-kind", 1)]
    let stats : List (String × Nat) :=
      [("astar.run", 1), ("astar.explored", done.length),
       (if epsFree then "astar.eps-irrelevant" else "astar.eps-matters", 1),
       (if looped then "astar.chain-has-loop" else "astar.chain-simple", 1)] ++ consStats
    -- expansion order: every node the real search popped (DebugHandler tap) against the model's DONE list
    let popCheck : Option String × List (String × Nat) :=
      match (c.get1 "apop").bind nums? with
      | none => (none, [("astar.no-pop-trace", 1)])
      | some pv =>
        let impl : List (Pt × Option Pt) := (List.range (pv.size / 5)).map fun i =>
          (⟨pv[5*i]!, pv[5*i+1]!⟩, if pv[5*i+2]! = 1 then some ⟨pv[5*i+3]!, pv[5*i+4]!⟩ else none)
        let model : List (Pt × Option Pt) := done.map fun n => (g.pt n.v, n.pv.map g.pt)
        if impl = model then (none, [("astar.pop-trace-equal", 1), ("astar.pops-compared", model.length)])
        else
          let k := ((impl.zip model).takeWhile fun (a, b) => a == b).length
          let sh := fun (l : List (Pt × Option Pt)) => match l[k]? with
            | some (p, q) => ptsStr (q.toList ++ [p])
            | none => "(end)"
          (some s!"A* search: expansion order differs at pop {k} (of {impl.length} C++ / {model.length} model): C++ pops {sh impl}, model pops {sh model}", [])
    -- optional library hook (harness/c05_astar_hook.patch): g, exploredCount, PENDING.size(), timestamp
    let hookCheck : Option String × List (String × Nat) :=
      match (c.get1 "ahook").bind nums? with
      | none => (none, [])
      | some hv =>
        match searchSt g.problem g.fuel (init g.problem) with
        | none => (some "A* model (searchSt) found nothing", [])
        | some (b2, st2) =>
          let m : List Rat := [b2.g, (st2.done.length : Rat), (st2.pending.length : Rat), (st2.time : Rat)]
          if hv.toList = m then (none, [("astar.hook-equal", 1)])
          else (some s!"A* search: hook values (g, explored, pending, timestamp) C++ {hv.toList.map ratToString} ≠ model {m.map ratToString}", [])
    if chainCost ≠ b.g then
      return (some s!"A* model self-check: g {ratToString b.g} ≠ cost of its own node chain {ratToString chainCost}", stats)
    let stats := stats ++ popCheck.2 ++ hookCheck.2
    if rpts = mpts then
      -- same route: the expansion order and the hook values must agree too, unless the graph has parallel edges
      let sameDir0 := parallelEdges g
      match popCheck.1, hookCheck.1 with
      | some m, _ => if sameDir0 then return (none, ("astar.pop-trace-differs-parallel-edges", 1) :: ("astar.path-equal", 1) :: stats)
                     else return (some m, stats)
      | none, some m => return (some m, stats)
      | none, none => return (none, ("astar.path-equal", 1) :: stats)
    -- a dearer route than a path of libavoid's own graph is a violation of the property itself
    let implFull := fullCostPts g none rpts
    let modelFull := fullCostPts g none mpts
    if implFull > modelFull then
      return (some s!"SPECFAIL dearer route than a path of libavoid's own orthogonal visibility graph: route() costs {ratToString implFull} (length + penalty*bends), the path {ptsStr mpts} of that graph costs {ratToString modelFull} (it is the route the A* search as coded in the unchanged makepath.cpp returns on this graph); route() = {ptsStr rpts}", stats)
    if implCost ≠ modelCost then
      return (some s!"A* search: as-coded cost of the C++ route {ratToString implCost} ≠ that of the model's route {ratToString modelCost} (search g {ratToString b.g}); C++ {ptsStr rpts}; model {ptsStr mpts}", stats)
    -- equal cost, different vertices: only acceptable where the C++ edge order is history dependent
    -- (several orthogVisList entries of one vertex in the same direction)
    let sameDir := parallelEdges g
    if sameDir then return (none, ("astar.path-differs-equal-cost-parallel-edges", 1) :: stats)
    return (some s!"A* search: C++ route and model route differ at equal as-coded cost {ratToString implCost} although no vertex has two edges in one direction (tie broken differently); C++ {ptsStr rpts}; model {ptsStr mpts}", stats)

/-- adds the A* comparison to a scene verdict: a model/implementation difference is reported unless the
    scene already failed for an unknown reason -/
def withAStar (c : Case) (r : CaseResult) : CaseResult :=
  let pen := ((c.get1 "pen").bind (fun l => num? l[0]!)).getD 0
  match (c.get1 "route").bind pts? with
  | none => r
  | some route =>
    let (d, st) := checkAStar c pen route
    let r' := { r with stats := r.stats ++ st }
    -- a message starting with "SPECFAIL " carries a concrete cheaper path: the property itself is violated
    let mk := fun (msg : String) =>
      if msg.startsWith "SPECFAIL " then Verdict.specfail (msg.drop 9).toString else Verdict.diverge msg
    match d, r.verdict with
    | some msg, .ok => { r' with verdict := mk msg }
    | some msg, .specfail m =>
      -- known-finding kinds (restricted end points) must not mask a model/implementation difference
      if m.startsWith "suboptimal route" || m.startsWith "route violates direction restriction" then
        { r' with verdict := mk msg } else r'
    | _, _ => r'

open AdaptaVerif.Model.AStar in
def checkAStarKernels (c : Case) : CaseResult := Id.run do
  let mut calls := 0
  let mut hist : List (String × Nat) := []
  for l in c.get "ck" do
    if l.size < 15 then return { verdict := .diverge s!"cost() line without result (abort?): {l}" }
    match nums? (l.extract 1 15) with
    | none => return { verdict := .diverge "unparsable ck line" }
    | some v =>
      calls := calls + 1
      let g : Graph := { pts := #[], adj := #[], vflags := #[], connPt := #[], src := 0, tar := 0,
                         segPen := v[7]!, revPen := v[8]!, connSrc := ⟨v[9]!, v[10]!⟩, connDst := ⟨v[11]!, v[12]!⟩ }
      let p1 : Option Pt := if l[0]! == "1" then some ⟨v[0]!, v[1]!⟩ else none
      let m := costPts g v[6]! p1 ⟨v[2]!, v[3]!⟩ ⟨v[4]!, v[5]!⟩
      let cls := match p1 with | some q => bendClass q ⟨v[2]!, v[3]!⟩ ⟨v[4]!, v[5]!⟩ | none => 9
      hist := bumpStats hist s!"cost.bendClass.{cls}" 1
      if m != v[13]! then
        return { verdict := .diverge s!"cost(): impl {ratToString v[13]!} model {ratToString m} on {l}" }
  for l in c.get "cmp" do
    match num? l[0]!, num? l[2]! with
    | some af, some bf =>
      calls := calls + 1
      let a : Node := { v := 0, pv := none, prev := none, g := af, h := 0, ts := nat! l[1]! }
      let b : Node := { v := 0, pv := none, prev := none, g := bf, h := 0, ts := nat! l[3]! }
      let m := worse epsDouble a b
      hist := bumpStats hist s!"cmp.{m}" 1
      if m != (l[4]! == "1") then
        return { verdict := .diverge s!"ANodeCmp: impl {l[4]!} model {m} on {l}" }
    | _, _ => return { verdict := .diverge "unparsable cmp line" }
  return { verdict := .ok, nontrivial := calls > 0, stats := ("kernel.calls", calls) :: hist }

def run (_args : List String) : IO UInt32 :=
  runCases (fun c =>
    if c.tag.startsWith "ovis" then Driver.C05OrthVis.checkOvis c
    else if c.tag.startsWith "scene-dirs" then Driver.C05OrthVis.withOrthVis c (withAStar c (checkSceneVG c))
    else if c.tag.startsWith "scene" then Driver.C05OrthVis.withOrthVis c (withAStar c (checkScene c))
    else if c.tag == "astar-kernels" then checkAStarKernels c
    else checkKernels c)

end Driver.C05
