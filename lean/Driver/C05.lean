import Driver.Proto
namespace Driver.C05

def run (_args : List String) : IO UInt32 := do
  IO.eprintln "driver mode c05: not implemented yet"
  return 2

end Driver.C05
