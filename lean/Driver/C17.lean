import Driver.Proto
namespace Driver.C17

def run (_args : List String) : IO UInt32 := do
  IO.eprintln "driver mode c17: not implemented yet"
  return 2

end Driver.C17
