/-
Driver mode c17 (see harness/c17.cpp for the case format).
Per graph case:
  * SPECFAIL  if a C++ matrix (johnsons, dijkstra, floyd_warshall) is rejected by the verified
              checker `checkApsp` (sound and complete: Props.C17.checkApsp_iff; message
              `alg=<name> [graphclass=…] reason=…`), if the three disagree, or if
              readLinearD()/readLinearG() differ from idealLength × certified distances of the
              length-corrected graph (1e-9 relative) / the documented classes 0/1/2;
  * DIVERGE   if the Lean models (`floydWarshall` = the code in /repo now, `johnsons selMin`)
              differ from the C++ matrices (exact equality; floyd_warshall only for n ≤ 64).
johnsons / dijkstra / layout are examined before floyd_warshall so that a floyd_warshall failure
never hides a failure of the others in the same case.
Per heap case (tag heap-ops): DIVERGE if an extraction of the real PairingHeap<T> is not a minimum
of the multiset specification, or differs (key or identity, i.e. tie-breaking) from the tree model
`Model.PairingHeap`.
-/
import Driver.Proto
import AdaptaVerif.Model.ShortestPaths
import AdaptaVerif.Check.Apsp
import AdaptaVerif.Model.PairingHeap
import AdaptaVerif.Gen.ShortestPathsK
import AdaptaVerif.Gen.DijkstraK
import AdaptaVerif.Gen.JohnsonsK
namespace Driver.C17
open Driver AdaptaVerif.Num AdaptaVerif.Model.ShortestPaths AdaptaVerif.Check.Apsp

/-- `DBL_MAX = (2^53 - 1) · 2^971` -/
def dblMax : Rat := (((2 ^ 53 - 1) * 2 ^ 971 : Nat) : Rat)

def toDist (x : Rat) : Dist := if x == dblMax then none else some x

/-- rows `key i v0 v1 …` → matrix (rows must come in order, each with `n` entries) -/
def parseMat (c : Case) (key : String) (n : Nat) : Option Mat := do
  let rows := c.get key
  if rows.size != n then none
  let mut M : Mat := #[]
  for r in rows do
    if r.size != n + 1 then none
    if nat! r[0]! != M.size then none
    let vals ← nums? (r.extract 1 r.size)
    M := M.push (vals.map toDist)
  return M

def parseNatMat (c : Case) (key : String) (n : Nat) : Option (Array (Array Nat)) := do
  let rows := c.get key
  if rows.size != n then none
  let mut M : Array (Array Nat) := #[]
  for r in rows do
    if r.size != n + 1 then none
    M := M.push ((r.extract 1 r.size).map nat!)
  return M

def matEq (n : Nat) (A B : Mat) : Option (Nat × Nat) := Id.run do
  for i in [0:n] do
    for j in [0:n] do
      if A.get i j != B.get i j then return some (i, j)
  return none

/-- `|a - b| ≤ 1e-9 · max(|a|,|b|)` -/
def closeRel (a b : Rat) : Bool :=
  let m := if absRat a < absRat b then absRat b else absRat a
  absRat (a - b) ≤ m / 1000000000

structure Parsed where
  n : Nat
  es : List (Nat × Nat)
  ws : List Rat
  lens : List Rat
  unit : Bool
  nolens : Bool
  ideal : Rat

def parseGraph (c : Case) : Option Parsed := do
  let n := nat! ((← c.get1 "n")[0]!)
  let unit := nat! ((← c.get1 "unit")[0]!) == 1
  let nolens := nat! ((← c.get1 "nolens")[0]!) == 1
  let ideal ← num? ((← c.get1 "ideal")[0]!)
  let mut es : Array (Nat × Nat) := #[]
  let mut ws : Array Rat := #[]
  let mut lens : Array Rat := #[]
  for l in c.get "e" do
    if l.size != 4 then none
    es := es.push (nat! l[0]!, nat! l[1]!)
    ws := ws.push (← num? l[2]!)
    lens := lens.push (← num? l[3]!)
  return { n, es := es.toList, ws := ws.toList, lens := lens.toList, unit, nolens, ideal }

def hasLoop (es : List (Nat × Nat)) : Bool := es.any fun e => e.1 == e.2
def hasParallel (es : List (Nat × Nat)) : Bool := Id.run do
  let norm := (es.filter fun e => e.1 != e.2).map fun e => if e.1 ≤ e.2 then e else (e.2, e.1)
  let mut seen : List (Nat × Nat) := []
  for e in norm do
    if seen.contains e then return true
    seen := e :: seen
  return false

def checkGraph (c : Case) : CaseResult := Id.run do
  let some p := parseGraph c | return { verdict := .diverge "unparsable case header" }
  let n := p.n
  let g : Graph := { n := n, edges := List.zipWith (fun e w => (e.1, e.2, if p.unit then 1 else w)) p.es p.ws }
  let some FW := parseMat c "fw" n | return { verdict := .diverge "unparsable fw matrix" }
  let some JO := parseMat c "jo" n | return { verdict := .diverge "unparsable jo matrix" }
  let some DJ := parseMat c "dj" n | return { verdict := .diverge "unparsable dj matrix" }
  let some LD := parseMat c "ld" n | return { verdict := .diverge "unparsable ld matrix" }
  let some LG := parseNatMat c "lg" n | return { verdict := .diverge "unparsable lg matrix" }
  let loops := hasLoop p.es
  let par := hasParallel p.es
  let nInf := (List.range n).foldl (fun a i => (List.range n).foldl (fun a j => if (JO.get i j).isNone then a + 1 else a) a) 0
  let zeroW := g.edges.any fun e => e.2.2 == 0
  let mut stats : List (String × Nat) :=
    [("n.le4", if n ≤ 4 then 1 else 0), ("n.5to12", if 4 < n ∧ n ≤ 12 then 1 else 0),
     ("n.13to40", if 12 < n ∧ n ≤ 40 then 1 else 0), ("n.gt40", if 40 < n then 1 else 0),
     ("graph.selfloop", if loops then 1 else 0), ("graph.parallel", if par then 1 else 0),
     ("graph.disconnected", if nInf > 0 then 1 else 0), ("graph.zeroweight", if zeroW then 1 else 0),
     ("graph.unitweights", if p.unit then 1 else 0), ("layout.nolens", if p.nolens then 1 else 0),
     ("layout.nonpositive", if !p.nolens && p.lens.any (· ≤ 0) then 1 else 0),
     ("edges", g.edges.length), ("pairs", n * n)]
  let nontrivial := g.edges.length > 0 && n ≥ 2
  let fail (v : Verdict) : CaseResult := { verdict := v, nontrivial := nontrivial, stats := stats }
  -- 1. johnsons, dijkstra against the verified checker
  if !checkApsp g JO.get then return fail (.specfail s!"alg=johnsons {explain g JO.get}")
  if !checkApsp g DJ.get then return fail (.specfail s!"alg=dijkstra {explain g DJ.get}")
  if let some (i, j) := matEq n JO DJ then
    return fail (.specfail s!"alg=johnsons-vs-dijkstra reason=disagree i={i} j={j} johnsons={showDist (JO.get i j)} dijkstra={showDist (DJ.get i j)}")
  -- 2. layout matrices: certified distances of the length-corrected graph, scaled
  let lg := layoutGraph n p.es (if p.nolens then none else some p.lens)
  let MJ := johnsons selMin lg
  if !checkApsp lg MJ.get then
    return fail (.diverge s!"model johnsons on the layout graph is not exact: {explain lg MJ.get}")
  for i in [0:n] do
    for j in [0:n] do
      let want := scaleEntry p.ideal i j (MJ.get i j)
      let got := LD.get i j
      let ok := match want, got with
        | none, none => true
        | some a, some b => closeRel a b
        | _, _ => false
      if !ok then
        return fail (.specfail s!"alg=layoutD reason=not-ideal-times-distance i={i} j={j} readLinearD={showDist got} expected={showDist want}")
      if i != j then
        let wantG := layoutGEntry p.es MJ i j
        if wantG != some ((LG[i]!)[j]!) then
          return fail (.specfail s!"alg=layoutG reason=class i={i} j={j} readLinearG={(LG[i]!)[j]!} expected={wantG}")
  -- 3. model correspondence for johnsons / dijkstra (DIVERGE only)
  let MD := johnsons selMin g
  if let some (i, j) := matEq n MD JO then
    return fail (.diverge s!"model dijkstra/johnsons differs from C++ johnsons at i={i} j={j}: model {showDist (MD.get i j)} impl {showDist (JO.get i j)}")
  -- 3b. Dijkstra exactly as coded (pairing-heap model): distances and the order in which nodes
  --     leave the heap (observed through the traced instantiation), n ≤ 64
  if n ≤ 64 then
    if (c.get "dxbad").size > 0 then
      return fail (.diverge "dijkstra<Traced> and dijkstra<double> returned different distances")
    let dx := c.get "dx"
    if dx.size != n then return fail (.diverge s!"expected {n} dx lines, got {dx.size}")
    let mut tiedRuns := 0
    let genVs := AdaptaVerif.Gen.ShortestPathsK.dijkstra_init (Array.replicate n default)
      (g.edges.map fun e => (e.1, e.2.1)) (g.edges.map fun e => some e.2.2)
    for s in [0:n] do
      let run := dijkstraHeapRun g s
      for j in [0:n] do
        if Vec.at run.out j != DJ.get s j then
          return fail (.diverge s!"model dijkstraHeap differs from C++ dijkstra at s={s} j={j}: model {showDist (Vec.at run.out j)} impl {showDist (DJ.get s j)}")
      let mo := run.order.reverse
      let row := dx[s]!
      let io := ((row.extract 1 row.size).map nat!).toList
      if nat! row[0]! != s then return fail (.diverge "dx lines out of order")
      if mo != io then
        return fail (.diverge s!"extraction order of dijkstra(s={s}) differs: model {mo} impl {io}")
      let keys := io.map fun v => DJ.get s v
      if keys.eraseDups.length != keys.length then tiedRuns := tiedRuns + 1
      -- the functions GENERATED from shortest_paths.h (dijkstra_init, then the whole dijkstra with the model heap, fuel n)
      -- on the same graph and source: translator cross-check against the C++ distances
      let gd := (AdaptaVerif.Gen.DijkstraK.dijkstra s genVs (Array.replicate n none) AdaptaVerif.Gen.KeysShortest.modelOps n).2
      for j in [0:n] do
        if Vec.at gd j != DJ.get s j then
          return fail (.diverge s!"generated dijkstra (cpp2lean) differs from C++ dijkstra at s={s} j={j}: generated {showDist (Vec.at gd j)} impl {showDist (DJ.get s j)} (translator)")
    stats := stats ++ [("dijkstraHeap.runs-compared", n), ("dijkstraHeap.runs-with-tied-keys", tiedRuns)]
    -- the generated johnsons (fresh node vector, generated dijkstra_init, generated dijkstra for every k on the SAME vector),
    -- run on a matrix full of junk, against the C++ johnsons matrix
    let GJ := AdaptaVerif.Gen.JohnsonsK.johnsons n (Mat.const n (some 999)) (g.edges.map fun e => (e.1, e.2.1))
      (g.edges.map fun e => some e.2.2) AdaptaVerif.Gen.KeysShortest.modelOps n
    if let some (i, j) := matEq n GJ JO then
      return fail (.diverge s!"generated johnsons (cpp2lean) differs from C++ johnsons at i={i} j={j}: generated {showDist (Mat.get GJ i j)} impl {showDist (JO.get i j)} (translator)")
    stats := stats ++ [("johnsonsgen.compared", 1)]
  -- 4. floyd_warshall last
  let mut modelNote := ""
  let mut modelDiverges := false
  if n ≤ 64 then
    let MF := floydWarshall g            -- the code in /repo now
    let MO := floydWarshallOrig g        -- the code before the fix (plain assignment)
    let eqF := (matEq n MF FW).isNone
    let eqO := (matEq n MO FW).isNone
    stats := stats ++ [("fwmodel.compared", 1), ("fwmodel.agrees-current", if eqF then 1 else 0),
      ("fwmodel.agrees-prefix-code", if eqO then 1 else 0),
      ("fwmodel.current-and-prefix-differ", if (matEq n MF MO).isSome then 1 else 0)]
    modelNote := if eqF then " model-current=agrees" else if eqO then " model-prefix-code=agrees" else " model=differs"
    modelDiverges := !eqF
    -- the kernel GENERATED from shortest_paths.h, run on an array full of junk (the C++ array is uninitialised): translator cross-check
    let GF := AdaptaVerif.Gen.ShortestPathsK.floyd_warshall n (Mat.const n (some 12345)) (g.edges.map fun e => (e.1, e.2.1))
      (g.edges.map fun e => some e.2.2)
    stats := stats ++ [("fwgen.compared", 1), ("fwgen.agrees", if (matEq n GF FW).isNone then 1 else 0)]
    if eqF then
      if let some (i, j) := matEq n GF MF then
        return { verdict := .diverge s!"generated floyd_warshall (cpp2lean) differs from the model at i={i} j={j} (translator)", nontrivial := nontrivial, stats := stats }
  if !checkApsp g FW.get then
    let cls := if loops && par then "selfloop+parallel" else if loops then "selfloop" else if par then "parallel" else "simple"
    return { verdict := .specfail s!"alg=floyd_warshall graphclass={cls} {explain g FW.get}{modelNote}", nontrivial := nontrivial, stats := stats }
  if let some (i, j) := matEq n FW JO then
    return { verdict := .specfail s!"alg=floyd_warshall-vs-johnsons reason=disagree i={i} j={j}", nontrivial := nontrivial, stats := stats }
  if modelDiverges then
    return { verdict := .diverge s!"model floyd_warshall differs from C++{modelNote}", nontrivial := nontrivial, stats := stats }
  return { verdict := .ok, nontrivial := nontrivial, stats := stats }

/-! pairing heap operation sequences against a multiset -/

/-- extraction of item `id` with key `k` is legal iff `id` is live with key `k` and no live key is smaller -/
def extractOk (live : List (Nat × Rat)) (id : Nat) (k : Rat) : Bool :=
  live.contains (id, k) && live.all fun x => decide (k ≤ x.2)

def checkHeap (c : Case) : CaseResult := Id.run do
  let mut live : List (Nat × Rat) := []          -- multiset specification
  let mut H : AdaptaVerif.Model.PairingHeap.PTree Rat := .nil     -- tree model (mirrors the pointer structure)
  let mut B : AdaptaVerif.Model.PairingHeap.PTree Rat := .nil
  let mut pendingB := 0
  let mut next := 0
  let mut nops := 0
  let mut nx := 0
  let mut ties := 0
  let outs := c.get "x"
  for l in c.get "h" do
    nops := nops + 1
    let op := l[0]!
    if op == "i" then
      let some k := num? l[1]! | return { verdict := .diverge "unparsable key" }
      live := (next, k) :: live
      H := AdaptaVerif.Model.PairingHeap.insert AdaptaVerif.Model.PairingHeap.ltRat H k next
      next := next + 1
    else if op == "g" then
      pendingB := nat! l[1]!
      B := .nil
      if pendingB == 0 then H := AdaptaVerif.Model.PairingHeap.merge AdaptaVerif.Model.PairingHeap.ltRat H B
    else if op == "j" then
      let some k := num? l[1]! | return { verdict := .diverge "unparsable key" }
      live := (next, k) :: live
      B := AdaptaVerif.Model.PairingHeap.insert AdaptaVerif.Model.PairingHeap.ltRat B k next
      next := next + 1
      pendingB := pendingB - 1
      if pendingB == 0 then H := AdaptaVerif.Model.PairingHeap.merge AdaptaVerif.Model.PairingHeap.ltRat H B
    else if op == "m" || op == "z" then
      let mut todo := if op == "m" then 1 else live.length
      if op == "z" && outs.size != nx + todo then
        return { verdict := .diverge s!"PairingHeap: drained {outs.size - nx} items, multiset model holds {todo}" }
      while todo > 0 do
        todo := todo - 1
        let some o := outs[nx]? | return { verdict := .diverge s!"PairingHeap: missing extraction #{nx}" }
        let some k := num? o[0]! | return { verdict := .diverge "unparsable key" }
        let id := nat! o[1]!
        if !extractOk live id k then
          return { verdict := .diverge s!"PairingHeap: extraction #{nx} returned item {id} key {ratToString k}, not a minimum of the multiset {live.map fun x => (x.1, ratToString x.2)}" }
        if (live.filter fun x => x.2 == k).length > 1 then ties := ties + 1
        match AdaptaVerif.Model.PairingHeap.findMin H with
        | some (mk, mid) =>
          if mk != k || mid != id then
            return { verdict := .diverge s!"PairingHeap tree model: extraction #{nx} model (key {ratToString mk}, item {mid}) impl (key {ratToString k}, item {id})" }
        | none => return { verdict := .diverge s!"PairingHeap tree model empty at extraction #{nx}" }
        H := AdaptaVerif.Model.PairingHeap.deleteMin AdaptaVerif.Model.PairingHeap.ltRat H
        live := live.filter fun x => x.1 != id
        nx := nx + 1
    else if op == "d" then
      let id := nat! l[1]!
      let some k := num? l[2]! | return { verdict := .diverge "unparsable key" }
      live := live.map fun x => if x.1 == id then (id, k) else x
      H := AdaptaVerif.Model.PairingHeap.decreaseKey AdaptaVerif.Model.PairingHeap.ltRat H id k
    else pure ()
  if nx != outs.size then
    return { verdict := .diverge s!"PairingHeap: {outs.size} extractions, multiset model {nx}" }
  return { verdict := .ok, nontrivial := nx > 1,
           stats := [("heap.ops", nops), ("heap.extractions", nx), ("heap.extractions-with-tied-minimum", ties)] }

def run (_args : List String) : IO UInt32 :=
  runCases (fun c => if c.tag == "heap-ops" then checkHeap c else checkGraph c)

end Driver.C17
