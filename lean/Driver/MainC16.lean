import Driver.C16

def main (args : List String) : IO UInt32 := Driver.C16.run args
