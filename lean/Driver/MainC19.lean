import Driver.C19

def main (args : List String) : IO UInt32 := Driver.C19.run args
