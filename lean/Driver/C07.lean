import Driver.Proto
namespace Driver.C07

def run (_args : List String) : IO UInt32 := do
  IO.eprintln "driver mode c07: not implemented yet"
  return 2

end Driver.C07
