import Driver.Proto
import AdaptaVerif.Model.Compound
import AdaptaVerif.Check.Layout
import AdaptaVerif.Model.MakeFeasible
/-
Driver mode c07.
  gen-*   : tie. Re-generate variables and separation constraints with the model and compare them
            exactly with what libcola's generateVariables/generateSeparationConstraints produced.
  fd*/cml*: end-to-end. Final rectangles of ConstrainedFDLayout / ConstrainedMajorizationLayout:
            every user constraint not reported unsatisfiable holds within 1e-4; all coordinates finite.
  sizes   : widths/heights (as the doubles `width()`/`height()`) unchanged bit for bit.
-/
namespace Driver.C07
open Driver AdaptaVerif.Num AdaptaVerif.Model.Compound AdaptaVerif.Check.Layout
open AdaptaVerif.Model (MakeFeasible.MF MakeFeasible.Scene)

def tolC07 : Rat := 1 / 10000

/-- parse `k` (node, offset) pairs starting at token `i` -/
def parseOffs (t : Array String) (i k : Nat) : Option (List (Nat × Rat)) :=
  (List.range k).mapM fun j => do
    let off ← num? (t[i + 2 * j + 1]?.getD "")
    pure (nat! (t[i + 2 * j]?.getD "0"), off)

def parsePairs (t : Array String) (i k : Nat) : List (Nat × Nat) :=
  (List.range k).map fun j => (nat! (t[i + 2 * j]?.getD "0"), nat! (t[i + 2 * j + 1]?.getD "0"))

/-- one `cc <idx> <kind> …` line (without the leading `cc`) -/
def parseCC (rects : Array Rect) (t : Array String) : Option CC := do
  let kind ← t[1]?
  let tk (i : Nat) : String := t[i]?.getD ""
  let d := Dim.ofNat' (nat! (tk 2))
  match kind with
  | "boundary" => do
    let pos ← num? (tk 3)
    let offs ← parseOffs t 5 (nat! (tk 4))
    pure (.boundary d pos offs)
  | "alignment" => do
    let pos ← num? (tk 3)
    let offs ← parseOffs t 6 (nat! (tk 5))
    pure (.alignment d pos (tk 4 == "1") offs)
  | "separation" => do
    let gap ← num? (tk 5)
    pure (.separation d (nat! (tk 3)) (nat! (tk 4)) gap (tk 6 == "1"))
  | "sepalign" => do
    let gap ← num? (tk 5)
    pure (.sepAlign d (nat! (tk 3)) (nat! (tk 4)) gap (tk 6 == "1"))
  | "multisep" => do
    let sep ← num? (tk 3)
    pure (.multiSep d sep (tk 4 == "1") (parsePairs t 6 (nat! (tk 5))))
  | "distribution" => do
    let sep ← num? (tk 3)
    pure (.distribution d sep (parsePairs t 5 (nat! (tk 4))))
  | "fixedrel" =>
    let k := nat! (tk 3)
    let ids := (List.range k).map fun j => nat! (tk (4 + j))
    pure (mkFixedRel rects ids (tk 2 == "1"))
  | "pagebounds" => do
    let xl ← num? (tk 2); let xh ← num? (tk 3); let yl ← num? (tk 4); let yh ← num? (tk 5); let w ← num? (tk 6)
    let k := nat! (tk 7)
    let shapes ← (List.range k).mapM fun j => do
      let hw ← num? (tk (8 + 3 * j + 1)); let hh ← num? (tk (8 + 3 * j + 2))
      pure (nat! (tk (8 + 3 * j)), hw, hh)
    pure (.pageBounds xl xh yl yh w shapes)
  | _ => none

def parseRects (c : Case) (key : String) : Option (Array Rect) :=
  (c.get key).mapM fun l => do
    let v ← nums? (l.extract 1 5)
    pure { minX := v[0]!, maxX := v[1]!, minY := v[2]!, maxY := v[3]! }

def parseScene (c : Case) : Option (Array Rect × List CC) := do
  let rects ← parseRects c "rect"
  let ccs ← (c.get "cc").toList.mapM (parseCC rects)
  pure (rects, ccs)

def ccKind : CC → String
  | .boundary .. => "boundary" | .alignment .. => "alignment" | .separation .. => "separation"
  | .sepAlign .. => "sepalign" | .multiSep .. => "multisep" | .distribution .. => "distribution"
  | .fixedRel .. => "fixedrel" | .pageBounds .. => "pagebounds"

def errString : Option GenErr → String
  | none => "none"
  | some (.invalidIndex cc i) => s!"invalidindex {cc} {i}"
  | some (.invalidConstraint cc) => s!"invalidconstraint {cc}"
  | some (.undefinedBehaviour cc) => s!"UB {cc}"

def showSep (s : TSep) : String :=
  s!"({s.sep.left},{s.sep.right},{ratToString s.sep.gap},{s.sep.eq},cc{s.creator})"

/-- tie: exact comparison of generated variables / constraints -/
def checkGen (c : Case) : CaseResult := Id.run do
  let some (rects, ccs) := parseScene c | return { verdict := .diverge "unparsable case" }
  let first := nat! (((c.get1 "first").getD #["0"])[0]!)
  let mut prev : List Aux := []
  let mut ncons := 0
  let mut stats : List (String × Nat) := []
  for cc in ccs do stats := bumpStats stats ("gen.cc." ++ ccKind cc) 1
  for dn in [first, 1 - first] do
    let d := Dim.ofNat' dn
    let res := generate d ccs (nodeVars d rects) prev
    prev := res.aux
    -- implementation's dump for this dimension
    let ivars := (c.get "var").filter (fun l => l[0]! == toString dn)
    let icons := (c.get "con").filter (fun l => l[0]! == toString dn)
    let iexc := ((c.get "exc").filter (fun l => l[0]! == toString dn))[0]?.getD #[]
    let iexcS := " ".intercalate (iexc.extract 1 iexc.size).toList
    if iexcS != errString res.err then
      return { verdict := .diverge s!"dim {dn}: exception impl '{iexcS}' model '{errString res.err}'", stats := stats }
    if ivars.size != res.vars.size then
      return { verdict := .diverge s!"dim {dn}: {ivars.size} variables generated, model {res.vars.size}", stats := stats }
    for i in [0:ivars.size] do
      let l := ivars[i]!
      let mv := res.vars[i]!
      let ok := nat! l[1]! == i && num? l[2]! == some mv.desired && num? l[3]! == some mv.weight
                && (l[4]! == "1") == mv.fixed && num? l[5]! == some 1
      if !ok then
        return { verdict := .diverge s!"dim {dn}: variable {i}: impl {l} model desired={ratToString mv.desired} weight={ratToString mv.weight} fixed={mv.fixed}", stats := stats }
    if icons.size != res.seps.length then
      return { verdict := .diverge s!"dim {dn}: {icons.size} constraints generated, model {res.seps.length}: {res.seps.map showSep}", stats := stats }
    for i in [0:icons.size] do
      let l := icons[i]!
      let ms := res.seps[i]!
      let ok := nat! l[1]! == ms.sep.left && nat! l[2]! == ms.sep.right && num? l[3]! == some ms.sep.gap
                && (l[4]! == "1") == ms.sep.eq && int! l[5]! == (ms.creator : Int)
      if !ok then
        return { verdict := .diverge s!"dim {dn}: constraint {i}: impl {l} model {showSep ms}", stats := stats }
    ncons := ncons + icons.size
    match res.err with
    | some (.invalidIndex ..) => stats := bumpStats stats "gen.err.invalidIndex" 1
    | some (.invalidConstraint ..) => stats := bumpStats stats "gen.err.invalidConstraint" 1
    | some (.undefinedBehaviour ..) => stats := bumpStats stats "gen.err.UB" 1
    | none => pure ()
  stats := bumpStats stats "gen.constraints" ncons
  -- makeFeasible's second encoding: getCurrSubConstraintAlternatives
  if (c.get1 "altdone").isSome then
    let gx := generate .x ccs (nodeVars .x rects) []
    let gy := generate .y ccs (nodeVars .y rects) gx.aux
    let mut nalt := 0
    for idx in [0:ccs.length] do
      let model := alternativesOf gx gy idx ccs[idx]!
      let impl := ((c.get "alt").filter fun l => l[0]! == toString idx).toList
      if !((c.get "altexc").filter fun l => l[0]! == toString idx).isEmpty then
        return { verdict := .diverge s!"alternatives of cc{idx}: implementation threw, model yields {model.length}", stats := stats }
      if impl.length != model.length then
        return { verdict := .diverge s!"alternatives of cc{idx} ({ccKind ccs[idx]!}): impl {impl.length}, model {model.length}", stats := stats }
      for (l, m) in impl.zip model do
        let ok := nat! l[1]! == m.1.toNat' && nat! l[2]! == m.2.left && nat! l[3]! == m.2.right
                  && num? l[4]! == some m.2.gap && (l[5]! == "1") == m.2.eq
        if !ok then
          return { verdict := .diverge s!"alternatives of cc{idx} ({ccKind ccs[idx]!}): impl {l} model dim {m.1.toNat'} ({m.2.left},{m.2.right},{ratToString m.2.gap},{m.2.eq})", stats := stats }
      nalt := nalt + model.length
    stats := bumpStats stats "gen.alternatives" nalt
  return { verdict := .ok, nontrivial := ncons > 0, stats := stats }

/-- centres of the final rectangles, per dimension -/
def centres (rs : Array Rect) : Dim → Nat → Rat := fun d i => (rs.getD i default).centre d

def reportedOf (c : Case) : List Nat :=
  ((c.get "unsat").toList.filterMap fun l =>
    let j := int! (l[5]?.getD "-9")
    if j ≥ 0 then some j.toNat else none).eraseDups

def allFinite (c : Case) (key : String) : Bool :=
  (c.get key).all fun l => (l.extract 1 5).all fun s => match dbl? s with | some d => d.isFinite | none => false


/-! ### makeFeasible: the model of the control flow against the implementation (bN8)

Harness lines (suffix `1` = first call of a repeat case): `order …` (idleConstraints after the sort),
`mfout i …` rectangles right after makeFeasible(), `mfsat j k f…` the `satisfied` flags of compound
constraint j, `mftrial …` the hook's trial log when the hook is compiled in. -/

/-- every order decision of every solve was clear of the double rounding noise: the discrete
    accepted/dropped sequence is then compared exactly (the solver's own threshold is 1e-10, an exactly
    tight constraint has margin 1e-10; noise is ~1e-13·scale) -/
def mfGuard : Rat := 1 / 50000000000

structure MFInfo where
  /-- compound constraints with a sub-constraint the MODEL drops -/
  droppedModel : List Nat
  /-- compound constraints with a sub-constraint the implementation marked unsatisfied -/
  droppedImpl : List Nat
  /-- compound constraints the model's combined (unchecked) solves flagged: marked satisfied, not enforced -/
  brokenModel : List Nat := []
  guarded : Bool
  /-- model flags = implementation flags -/
  flagsAgree : Bool
  msg : String := ""
  deriving Inhabited

def ratAbs (r : Rat) : Rat := if r < 0 then -r else r

/-- run the model of makeFeasible on `start` rectangles and compare with the `mfsat`/`mfout`/`mftrial`
    lines carrying suffix `sfx`; returns the info for the classification, a DIVERGE message if the tie is
    broken, and statistics -/
def checkMF (c : Case) (sfx : String) (start : Array Rect) (ccs : List CC) (overlap : Bool) :
    Option MFInfo × Option String × List (String × Nat) := Id.run do
  let mut stats : List (String × Nat) := []
  let satLines := c.get ("mfsat" ++ sfx)
  if (c.get ("mfout" ++ sfx)).isEmpty then return (none, none, stats)
  let some ord := c.get1 "order" | return (none, none, stats)
  let order := (ord.toList.map nat!).filter (· < ccs.length)
  let some scene := AdaptaVerif.Model.MakeFeasible.mkScene start ccs order
    | return (none, none, bumpStats stats "mf.unsupported" 1)
  let mfUser := AdaptaVerif.Model.MakeFeasible.makeFeasible scene.n scene.vx scene.vy scene.items
  stats := bumpStats stats "mf.modelled" 1
  -- overlap avoidance: the NonOverlapConstraints item (lowest priority) is processed after all user constraints
  let mut mf := mfUser
  let mut nocOk := !overlap
  let mut nocMargin : Rat := AdaptaVerif.Model.Vpsc.BIG
  if overlap && !mfUser.escaped && !mfUser.fuelOut then
    -- makeFeasible(xBorder = 1, yBorder = 1): `boundingBoxes[i]->width() / 2` is taken with the borders set
    let half := start.map fun r => ((r.width + 2) / 2, (r.height + 2) / 2)
    let noc0 := AdaptaVerif.Model.MakeFeasible.Noc.ofSizes half
    match AdaptaVerif.Model.MakeFeasible.MF.runNoc ccs.length (40 * noc0.pairs.length + 100) mfUser noc0 with
    | some (mf2, noc) =>
      mf := mf2; nocOk := true; nocMargin := noc.margin
      stats := bumpStats stats "mf.noc.modelled" 1
      stats := bumpStats stats "mf.noc.trials" (mf2.log.size - mfUser.log.size)
      stats := bumpStats stats "mf.noc.pairs_separated" ((noc.pairs.filter (·.satisfied)).length)
      stats := bumpStats stats "mf.noc.pairs_given_up" ((noc.pairs.filter fun p => p.processed && !p.satisfied).length)
    | none => stats := bumpStats stats "mf.noc.model-livelock" 1
  stats := bumpStats stats "mf.trials" mf.log.size
  stats := bumpStats stats "mf.trials.rejected" (mf.log.filter (!·.accepted)).size
  stats := bumpStats stats "mf.trials.threw" (mf.log.filter (!·.returned)).size
  stats := bumpStats stats "mf.trials.flag-on-earlier" (mf.log.filter fun t => t.flagged && t.returned).size
  if mf.fuelOut then return (none, some s!"makeFeasible{sfx}: the solver model ran out of fuel", stats)
  if mf.stuck then return (none, some s!"makeFeasible{sfx}: model: a sub-constraint without alternatives", stats)
  if mf.escaped then return (none, some s!"makeFeasible{sfx}: model: satisfy() throws inside the combined branch, the implementation returned", stats)
  if !mf.combineFlags.isEmpty then stats := bumpStats stats "mf.cases_with_combined_flags" 1
  let guarded := mf.margin > mfGuard && nocMargin > mfGuard
  -- the flags of the user constraints are settled before the non-overlap item is processed
  let guardedUser := mfUser.margin > mfGuard
  stats := bumpStats stats (if guarded then "mf.guarded" else "mf.unguarded") 1
  if !guarded then stats := bumpStats stats (if mf.margin > mfGuard then "mf.unguarded.by-overlap-decision" else "mf.unguarded.by-solver-decision") 1
  -- flags
  let mut agree := true
  let mut msg := ""
  let mut droppedImpl : List Nat := []
  for l in satLines do
    let j := nat! (l[0]?.getD "0")
    let k := nat! (l[1]?.getD "0")
    let impl := (List.range k).map fun i => (l[2 + i]?.getD "0") == "1"
    let isPage := match ccs[j]? with | some (.pageBounds ..) => true | _ => false
    if isPage then continue
    if impl.any (!·) then droppedImpl := j :: droppedImpl
    let model := (List.range k).map fun i => mf.mark? j i
    let nsubs := ((scene.items.find? (·.cc == j)).map (·.subs.length)).getD 0
    if nsubs != k || model != impl.map some then
      if agree then msg := s!"cc{j}: satisfied flags impl {impl} model {model}"
      agree := false
  if !mf.dropped.isEmpty then stats := bumpStats stats "mf.cases_with_drops" 1
  -- which constraint carried the flag in the rejected trials: the tried one itself, or an earlier accepted one
  for t in mf.log do
    if !t.accepted && t.returned then
      stats := bumpStats stats (if t.flaggedOwners.all (· == (t.cc, t.sub)) then "mf.reject.flag-on-new-only" else "mf.reject.flag-on-earlier") 1
  let trace := " ".intercalate ((mf.log.toList.filter (!·.accepted)).map fun t =>
    s!"[cc{t.cc}.{t.sub} dim{t.dim.toNat'} ({t.con.l},{t.con.r},{ratToString t.con.gap},{t.con.eq}) flagged={t.flaggedOwners}]")
  -- the hook's trial log
  let mut div : Option String := none
  if guardedUser && !agree then
    div := some s!"makeFeasible{sfx}: accepted/dropped sequence differs: {msg} (min decision margin {ratToString mf.margin})"
  if (c.get1 ("mfhook" ++ sfx)).isSome then
    stats := bumpStats stats "mf.hook" 1
    let trials := (c.get ("mftrial" ++ sfx)).filter fun l => int! (l[0]?.getD "-1") ≥ 0
    let nocTrials := (c.get ("mftrial" ++ sfx)).filter fun l => int! (l[0]?.getD "-1") < 0
    let userLog := mf.log.filter (·.cc < ccs.length)
    let nocLog := mf.log.filter (·.cc ≥ ccs.length)
    if guarded && div.isNone && nocOk && overlap then
      if nocTrials.size != nocLog.size then
        div := some s!"makeFeasible{sfx}: {nocTrials.size} non-overlap trials in the implementation, model {nocLog.size}"
      else
        for (l, t) in nocTrials.toList.zip nocLog.toList do
          let gapOk := match num? l[5]! with | some g => ratAbs (g - t.con.gap) ≤ (1 / 1000000000000 : Rat) * (1 + ratAbs g) | none => false
          let ok := nat! l[1]! == t.dim.toNat' && nat! l[2]! == t.alt && nat! l[3]! == t.con.l
                    && nat! l[4]! == t.con.r && gapOk && (l[7]! == "1") == t.accepted
          if !ok && div.isNone then
            div := some s!"makeFeasible{sfx}: non-overlap trial log differs: impl {l} model alt{t.alt} dim{t.dim.toNat'} ({t.con.l},{t.con.r},{ratToString t.con.gap}) accepted={t.accepted}"
        if div.isNone then stats := bumpStats stats "mf.noc.trial_log_equal" 1
    if guardedUser && div.isNone then
      if trials.size != userLog.size then
        div := some s!"makeFeasible{sfx}: {trials.size} trials on user constraints in the implementation, model {userLog.size}"
      else
        for (l, t) in trials.toList.zip userLog.toList do
          let ok := nat! l[0]! == t.cc && nat! l[1]! == t.dim.toNat' && nat! l[2]! == t.alt && nat! l[3]! == t.con.l
                    && nat! l[4]! == t.con.r && num? l[5]! == some t.con.gap && (l[6]! == "1") == t.con.eq
                    && (l[7]! == "1") == t.accepted
          if !ok && div.isNone then
            div := some s!"makeFeasible{sfx}: trial log differs: impl {l} model cc{t.cc} sub{t.sub} alt{t.alt} dim{t.dim.toNat'} ({t.con.l},{t.con.r},{ratToString t.con.gap},{t.con.eq}) accepted={t.accepted}"
  -- positions (only when no later non-overlap phase moved the nodes)
  if guarded && agree && nocOk && div.isNone then
    match parseRects c ("mfout" ++ sfx) with
    | some outs =>
      if outs.size == start.size then
        for i in [0:outs.size] do
          for d in [Dim.x, Dim.y] do
            let a := (outs[i]!).centre d
            let b := mf.nodePos d i
            if ratAbs (a - b) > (1 / 1000000 : Rat) * (1 + ratAbs b) && div.isNone then
              div := some s!"makeFeasible{sfx}: node {i} dim {d.toNat'}: impl centre {ratToString a} model {ratToString b}"
        stats := bumpStats stats (if overlap then "mf.noc.positions_compared" else "mf.positions_compared") 1
    | none => pure ()
  return (some { droppedModel := mf.droppedCCs, brokenModel := mf.brokenCCs, droppedImpl := droppedImpl.eraseDups, guarded := guardedUser,
                 flagsAgree := agree, msg := trace }, div, stats)

/-- is compound constraint `j` (or an alignment it refers to) in `dropped`? -/
def excusedBy (ccs : List CC) (dropped : List Nat) (j : Nat) : Bool :=
  dropped.contains j || (match ccs[j]? with | some cc => (ccRefs cc).any dropped.contains | none => false)

/-- a violated compound constraint that makeFeasible had ACCEPTED (strict kind, never excused): the model
    does not drop it, and either the tie is exact (guarded) or the implementation's own flags say accepted -/
def strictViolation (ccs : List CC) (info : MFInfo) (j : Nat) : Bool :=
  !(excusedBy ccs info.droppedModel j) && !(excusedBy ccs info.brokenModel j) &&
    (info.guarded || !(excusedBy ccs info.droppedImpl j))

/-- a `hang` of the implementation: which makeFeasible() call did not return (if any), and does the MODEL of
    makeFeasible terminate on that scene?  Returns (call that hung, model terminated, all decisions guarded,
    number of trials of the model, pairs of the non-overlap item). `none`: the hang is not inside makeFeasible
    (its `mfsat` lines were printed) or the scene is outside the model. -/
def hangInModel (c : Case) (rects : Array Rect) (ccs : List CC) (algo : String) (overlap : Bool) :
    Option (String × Bool × Bool × Nat × Nat) := Id.run do
  let isRepeat := algo == "fdmf2" || algo == "fdmfre"
  let mfAlgo := isRepeat || algo == "fdmf" || algo == "fdmfrun"
  if !mfAlgo then return none
  let some ord := c.get1 "order" | return none
  -- which call?
  let (call, start) :=
    if isRepeat then
      if (c.get "mfout1").isEmpty then ("first makeFeasible()", some rects)
      else if (c.get "mfout").isEmpty then
        ("second makeFeasible()", match parseRects c "dragged" with | some d => if d.size == rects.size then some d else none | none => none)
      else ("", none)
    else if (c.get "mfout").isEmpty then ("makeFeasible()", some rects) else ("", none)
  let some st := start | return none
  let order := (ord.toList.map nat!).filter (· < ccs.length)
  let some scene := AdaptaVerif.Model.MakeFeasible.mkScene st ccs order | return none
  let mfUser := AdaptaVerif.Model.MakeFeasible.makeFeasible scene.n scene.vx scene.vy scene.items
  if mfUser.fuelOut || mfUser.stuck || mfUser.escaped then return some (call, false, false, mfUser.log.size, 0)
  if !overlap then return some (call, true, mfUser.margin > mfGuard, mfUser.log.size, 0)
  let half := st.map fun r => ((r.width + 2) / 2, (r.height + 2) / 2)
  let noc0 := AdaptaVerif.Model.MakeFeasible.Noc.ofSizes half
  -- generous fuel: the loop of the code handles every pair once, plus re-sorts
  match AdaptaVerif.Model.MakeFeasible.MF.runNoc ccs.length (40 * noc0.pairs.length + 100) mfUser noc0 with
  | some (mf2, noc) => return some (call, !mf2.fuelOut, mf2.margin > mfGuard && noc.margin > mfGuard, mf2.log.size, noc0.pairs.length)
  | none => return some (call, false, false, mfUser.log.size, noc0.pairs.length)

def checkLayout (c : Case) : CaseResult := Id.run do
  let some (rects, ccs) := parseScene c | return { verdict := .diverge "unparsable case" }
  let mut stats : List (String × Nat) := []
  let str (k : String) : String := (((c.get1 k).getD #["?"])[0]?).getD "?"
  stats := bumpStats stats ("graph." ++ str "graph") 1
  stats := bumpStats stats ("start." ++ str "start") 1
  stats := bumpStats stats ("overlap." ++ str "overlap") 1
  stats := bumpStats stats ("nstress." ++ str "nstress") 1
  if str "locks" != "0" && str "locks" != "?" then stats := bumpStats stats "with.locks" 1
  if str "desired" != "0" && str "desired" != "?" then stats := bumpStats stats "with.desiredPositions" 1
  for cc in ccs do stats := bumpStats stats ("lay.cc." ++ ccKind cc) 1
  match c.get1 "hang" with
  | some l =>
    -- the clean library has ONE known way not to return (a rigidly overlapping pair re-queued forever by
    -- NonOverlapConstraints::markCurrSubConstraintAsActive(false)); the model of the non-overlap loop reproduces it (it runs
    -- out of fuel).  A hang on a scene where the model's makeFeasible TERMINATES is a different defect: strict kind.
    match hangInModel c rects ccs (str "algo") (str "overlap" == "1") with
    | some (call, terminated, guarded, trials, pairs) =>
      stats := bumpStats stats (if terminated then (if guarded then "hang.model-terminates" else "hang.model-terminates-unguarded") else "hang.model-livelock") 1
      if terminated && guarded then
        return { verdict := .specfail s!"hang-but-model-terminates: {call} did not return within {l[0]?.getD "?"} s, the model of makeFeasible terminates on this scene after {trials} trials ({pairs} non-overlap pairs, every decision clear of rounding) (algo={str "algo"}, overlap={str "overlap"}, planted={str "planted"})", stats := stats }
      else
        let why := if terminated then "the model terminates but a decision is within rounding noise" else "the model of the non-overlap loop does not terminate either: a rigidly overlapping pair is re-queued forever"
        return { verdict := .specfail s!"hang: {call} did not return within {l[0]?.getD "?"} s; {why} (algo={str "algo"}, planted={str "planted"})", stats := stats }
    | none =>
      return { verdict := .specfail s!"hang: the layout call did not return within {l[0]?.getD "?"} s (algo={str "algo"}, planted={str "planted"})", stats := stats }
  | none => pure ()
  if !(allFinite c "out") then
    return { verdict := .specfail "non-finite coordinate in the final rectangles", stats := stats }
  let some outs := parseRects c "out" | return { verdict := .diverge "unparsable output" }
  if outs.size != rects.size then
    return { verdict := .diverge s!"{outs.size} output rectangles for {rects.size} nodes", stats := stats }
  let reported := reportedOf c
  stats := bumpStats stats "lay.reported" reported.length
  if !reported.isEmpty then stats := bumpStats stats "lay.cases_with_reports" 1
  let pos := centres outs
  let bad := violated tolC07 ccs pos reported
  let moved := outs != rects
  let exc := str "exc"
  -- makeFeasible: model of the control flow against the implementation
  let algo0 := str "algo"
  let overlapOn := str "overlap" == "1"
  let isRepeat := algo0 == "fdmf2" || algo0 == "fdmfre"
  let (info1, div1, st1) := if isRepeat then checkMF c "1" rects ccs overlapOn else (none, none, [])
  let start2 := if isRepeat then (match parseRects c "dragged" with | some d => if d.size == rects.size then d else rects | none => rects) else rects
  let (info2, div2, st2) := checkMF c "" start2 ccs overlapOn
  for (k, v) in st1 ++ st2 do stats := bumpStats stats k v
  -- strict kind 1: a constraint violated right after a makeFeasible() call that had accepted it
  let strictAt (sfx : String) (info : Option MFInfo) : Option String :=
    match info, parseRects c ("mfout" ++ sfx) with
    | some inf, some o =>
      if o.size != rects.size then none else
      match (violated tolC07 ccs (centres o) []).find? (strictViolation ccs inf) with
      | some j =>
        let kind := match ccs[j]? with | some cc => ccKind cc | none => "?"
        some s!"makeFeasible-violates-accepted cc{j} {kind}: violated by more than 1e-4 right after makeFeasible{sfx}() although every sub-constraint of it was accepted (model drops: {inf.droppedModel}; impl flags drop: {inf.droppedImpl}; guarded={inf.guarded}; algo={algo0})"
      | none => none
    | _, _ => none
  match strictAt "1" info1 with
  | some m => return { verdict := .specfail m, stats := stats }
  | none => pure ()
  match strictAt "" info2 with
  | some m => return { verdict := .specfail m, stats := stats }
  | none => pure ()
  match div1 with
  | some m => return { verdict := .diverge m, stats := stats }
  | none => pure ()
  match div2 with
  | some m => return { verdict := .diverge m, stats := stats }
  | none => pure ()
  match bad with
  | j :: _ =>
    let kind := match ccs[j]? with | some cc => ccKind cc | none => "?"
    let algo := str "algo"
    -- repeated makeFeasible over the same constraint objects: was the constraint already violated
    -- right after the FIRST call (then it is the first call's silent drop), or only after the second?
    let bad1 := match parseRects c "out1" with
      | some o1 => if o1.size == rects.size then violated tolC07 ccs (centres o1) reported else []
      | none => []
    let repeatAlgo := algo == "fdmf2" || algo == "fdmfre"
    let cls := if repeatAlgo && str "planted" == "0" && !(bad1.contains j) then "makeFeasible-repeat,satisfiable"
               else if repeatAlgo then "makeFeasible-only"
               else if algo == "fdmf" then "makeFeasible-only"
               else if (algo == "fdrun" || algo == "fdmfrun") && !reported.isEmpty then "fd-run,over-constrained"
               else "other"
    -- `makeFeasible-only` is the registered finding "makeFeasible drops silently": with the model at hand it is
    -- excused only as class makeFeasible-drop (the MODEL drops that sub-constraint on this scene); the strict kind
    -- was returned above
    let dropNote := if cls != "makeFeasible-only" then "" else
      match info2 with
      | some inf => if excusedBy ccs inf.droppedModel j then s!" class=makeFeasible-drop (the model of makeFeasible drops {inf.droppedModel}; rejected trials: {inf.msg})"
                    else if excusedBy ccs inf.brokenModel j then s!" class=makeFeasible-combined-unchecked (model: flagged unsatisfiable by the unchecked solve of a combined FixedRelativeConstraint, marked satisfied all the same: {inf.brokenModel})"
                    else s!" class=makeFeasible-drop-unguarded (implementation flags drop {inf.droppedImpl}, model {inf.droppedModel}; a solver decision inside the rounding noise)"
      | none => " class=unmodelled"
    if cls == "makeFeasible-only" then
      stats := bumpStats stats ("mf.excused" ++ (if dropNote.startsWith " class=makeFeasible-drop (" then ".model-drop" else if dropNote.startsWith " class=makeFeasible-combined" then ".model-combined" else if info2.isSome then ".unguarded" else ".unmodelled")) 1
    return { verdict := .specfail s!"unreported-violation[{cls}] cc{j} {kind}: violated by more than 1e-4 and not in the unsatisfiable lists (reported: {reported}; all violated: {bad}; exc={exc}){dropNote}",
             stats := stats }
  | [] =>
    if exc != "none" then
      return { verdict := .specfail s!"exception[{str "algo"}]: {exc} escaped the layout call (no constraint violation in the rectangles left behind; reported: {reported})", stats := stats }
    let draggedBad := match parseRects c "dragged" with
      | some d => if d.size == rects.size then !(violated tolC07 ccs (centres d) []).isEmpty else false
      | none => false
    if (c.get1 "dragged").isSome then
      stats := bumpStats stats (if draggedBad then "repeat.dragged_violates" else "repeat.dragged_ok") 1
      return { verdict := .ok, nontrivial := draggedBad, stats := stats }
    return { verdict := .ok, nontrivial := moved && !ccs.isEmpty, stats := stats }

def checkSizes (c : Case) : CaseResult := Id.run do
  let parse (key : String) : Option (List (Rat × Rat)) :=
    (c.get key).toList.mapM fun l => do
      let w ← num? (l[0]?.getD ""); let h ← num? (l[1]?.getD ""); pure (w, h)
  let some b := parse "size0" | return { verdict := .specfail "non-finite size before layout" }
  let some a := parse "size1" | return { verdict := .specfail "non-finite size after layout" }
  if sizesSame b a then return { verdict := .ok, nontrivial := !b.isEmpty }
  -- classify: rounding-level drift (relative 1e-9, the bound asserted in Rectangle::moveMinX) or more
  let mut worst : Rat := 0
  let mut gross := false
  for (p, q) in b.zip a do
    for (u, v) in [(p.1, q.1), (p.2, q.2)] do
      let d := absR (u - v)
      if d > worst then worst := d
      if d > (1 / 1000000000 : Rat) then gross := true
  let idx := (b.zip a).findIdx (fun pq => pq.1 != pq.2)
  if gross || a.length != b.length then
    return { verdict := .specfail s!"size-changed node {idx}: width/height differ by {ratToString worst}" }
  return { verdict := .specfail s!"size-rounding node {idx}: width()/height() changed bitwise (max |diff| = {ratToString worst}, below 1e-9)" }

def run (_args : List String) : IO UInt32 :=
  runCases (fun c =>
    if c.tag.startsWith "gen" then checkGen c
    else if c.tag.startsWith "sizes" then checkSizes c
    else checkLayout c)

end Driver.C07
