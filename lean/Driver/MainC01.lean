import Driver.C01

def main (args : List String) : IO UInt32 := Driver.C01.run args
