import Driver.Proto
import AdaptaVerif.Model.Geometry
import AdaptaVerif.Gen.Geometry
import AdaptaVerif.Gen.GeometryK2
/-!
Driver mode c16. For every call made by the harness the answer of the implementation is compared
with (a) the hand model `Model.Geometry.f` (whose geometric meaning is proved in Props/C16.lean) —
a difference is a SPECFAIL with the concrete tuple — and (b) the kernel `Gen.Geometry.f` generated
from the current C++ source — a difference there alone means the translator is wrong (DIVERGE).
-/
namespace Driver.C16
open Driver AdaptaVerif.Num
open AdaptaVerif.Model.Geometry
namespace G
export AdaptaVerif.Gen.Geometry (vecDir colinear pointOnLine segmentIntersect cornerSide inValidRegion
  segmentIntersectPoint rayIntersectPoint)
end G

def gridPt (side i : Nat) : Pt := ⟨(i / side : Nat), (i % side : Nat)⟩
def dirChar (d : Int) : Char := if d < 0 then '-' else if d > 0 then '+' else '0'
def bit (b : Bool) : Char := if b then '1' else '0'
def digit (n : Nat) : Char := Char.ofNat ('0'.toNat + n)

/-- answers of model (m) and generated kernel (g) for one triple / 4-tuple, in the harness' packing -/
structure Ans where
  vd : Char
  co : Char
  pl : Char

def ans3M (a b c : Pt) : Ans := ⟨dirChar (vecDir a b c), bit (colinear a b c), bit (pointOnLine a b c)⟩
def ans3G (a b c : Pt) : Ans := ⟨dirChar (G.vecDir a b c 0), bit (G.colinear a b c 0), bit (G.pointOnLine a b c 0)⟩

structure Ans4 where
  si : Char
  ss0 : Char
  ss1 : Char
  cs : Char
  vr : Char
  ip : Char
  rp : Char
  ipPt : Option (Rat × Rat)
  rpPt : Option (Rat × Rat)

def ssChar (r : Bool × Bool) : Char := digit ((if r.1 then 2 else 0) + (if r.2 then 1 else 0))

def ans4M (a b c d : Pt) : Ans4 :=
  let ip := segmentIntersectPoint a b c d
  let rp := rayIntersectPoint a b c d
  { si := bit (segmentIntersect a b c d)
    ss0 := ssChar (segmentShapeIntersect a b c d false)
    ss1 := ssChar (segmentShapeIntersect a b c d true)
    cs := dirChar (cornerSide a b c d)
    vr := digit ((if inValidRegion false a b c d then 1 else 0) + (if inValidRegion true a b c d then 2 else 0))
    ip := digit ip.1.toNat, rp := digit rp.1.toNat
    ipPt := if ip.1 == 1 then some (ip.2.1, ip.2.2) else none
    rpPt := if rp.1 == 1 then some (rp.2.1, rp.2.2) else none }

/-- generated kernels (segmentShapeIntersect, with its in/out reference parameter, from Gen/GeometryK2) -/
def ans4G (a b c d : Pt) : Ans4 :=
  let ip := G.segmentIntersectPoint a b c d
  let rp := G.rayIntersectPoint a b c d
  { si := bit (G.segmentIntersect a b c d)
    ss0 := ssChar (AdaptaVerif.Gen.GeometryK2.segmentShapeIntersect a b c d false)
    ss1 := ssChar (AdaptaVerif.Gen.GeometryK2.segmentShapeIntersect a b c d true)
    cs := dirChar (G.cornerSide a b c d)
    vr := digit ((if G.inValidRegion false a b c d then 1 else 0) + (if G.inValidRegion true a b c d then 2 else 0))
    ip := digit ip.1.toNat, rp := digit rp.1.toNat
    ipPt := if ip.1 == 1 then some (ip.2.1, ip.2.2) else none
    rpPt := if rp.1 == 1 then some (rp.2.1, rp.2.2) else none }

def close (impl model : Rat) : Bool := absRat (impl - model) ≤ (1 / 1000000000 : Rat) * (1 + absRat model)

structure St where
  err : Option Verdict := none
  i3 : Nat := 0      -- index into the triple strings
  i4 : Nat := 0
  ipts : Nat := 0
  nTrue : Nat := 0
  calls : Nat := 0

structure Impl where
  vd : Array Char
  co : Array Char
  pl : Array Char
  si : Array Char
  ss : Array Char
  cs : Array Char
  vr : Array Char
  ip : Array Char
  rp : Array Char
  pts : Array String

def fieldChars (c : Case) (k : String) : Array Char := (((c.get1 k).getD #[""])[0]?.getD "").toList.toArray

def Impl.ofCase (c : Case) : Impl :=
  { vd := fieldChars c "vecDir", co := fieldChars c "colinear", pl := fieldChars c "pointOnLine"
    si := fieldChars c "segmentIntersect", ss := fieldChars c "segmentShapeIntersect"
    cs := fieldChars c "cornerSide", vr := fieldChars c "inValidRegion"
    ip := fieldChars c "segmentIntersectPoint", rp := fieldChars c "rayIntersectPoint"
    pts := (c.get1 "points").getD #[] }

def cmpChar (what : String) (impl : Option Char) (m g : Char) (ctx : Unit → String) : Option Verdict :=
  if impl != some m then some (.specfail s!"{what} {ctx ()}: impl {impl} exact {m}")
  else if g != m then some (.diverge s!"{what} {ctx ()}: generated kernel {g} but impl/model {m} (translator)")
  else none

def firstSome (xs : List (Option Verdict)) : Option Verdict := xs.foldl (fun acc x => match acc with | some v => some v | none => x) none

def check3 (im : Impl) (i : Nat) (a b c : Pt) (ctx : Unit → String) : Option Verdict :=
  let m := ans3M a b c
  let g := ans3G a b c
  firstSome [cmpChar "vecDir" im.vd[i]? m.vd g.vd ctx, cmpChar "colinear" im.co[i]? m.co g.co ctx,
             cmpChar "pointOnLine" im.pl[i]? m.pl g.pl ctx]

def checkPt (what : String) (im : Impl) (ip : Nat) (m g : Option (Rat × Rat)) (ctx : Unit → String) : Option Verdict × Nat :=
  match m with
  | none => (none, ip)
  | some (mx, my) =>
    match (im.pts[ip]?).bind parseNum, (im.pts[ip+1]?).bind parseNum with
    | some x, some y =>
      if !(close x mx && close y my) then (some (.specfail s!"{what} point {ctx ()}: impl ({ratToString x},{ratToString y}) exact ({ratToString mx},{ratToString my})"), ip + 2)
      else if g != m then (some (.diverge s!"{what} point {ctx ()}: generated kernel differs from model"), ip + 2)
      else (none, ip + 2)
    | _, _ => (some (.specfail s!"{what} point {ctx ()}: impl point missing or non-finite"), ip + 2)

def check4 (im : Impl) (i ip : Nat) (a b c d : Pt) (ctx : Unit → String) : Option Verdict × Nat × Bool :=
  let m := ans4M a b c d
  let g := ans4G a b c d
  let e := firstSome [cmpChar "segmentIntersect" im.si[i]? m.si g.si ctx,
     cmpChar "segmentShapeIntersect(seen=false)" im.ss[2*i]? m.ss0 g.ss0 ctx,
     cmpChar "segmentShapeIntersect(seen=true)" im.ss[2*i+1]? m.ss1 g.ss1 ctx,
     cmpChar "cornerSide" im.cs[i]? m.cs g.cs ctx, cmpChar "inValidRegion" im.vr[i]? m.vr g.vr ctx,
     cmpChar "segmentIntersectPoint" im.ip[i]? m.ip g.ip ctx, cmpChar "rayIntersectPoint" im.rp[i]? m.rp g.rp ctx]
  let (e1, ip1) := checkPt "segmentIntersectPoint" im ip m.ipPt g.ipPt ctx
  let (e2, ip2) := checkPt "rayIntersectPoint" im ip1 m.rpPt g.rpPt ctx
  (firstSome [e, e1, e2], ip2, m.si == '1')

def checkGridTuples (c : Case) : CaseResult := Id.run do
  let side := nat! (((c.get1 "side").getD #["0"])[0]!)
  let ia := nat! (((c.get1 "chunk").getD #["0"])[0]!)
  let im := Impl.ofCase c
  let n := side * side
  let a := gridPt side ia
  let mut i3 := 0
  let mut i4 := 0
  let mut ip := 0
  let mut nz := 0
  for ib in [0:n] do
    let b := gridPt side ib
    for ic in [0:n] do
      let cc := gridPt side ic
      match check3 im i3 a b cc (fun _ => s!"grid side={side} a={ia} b={ib} c={ic}") with
      | some v => return { verdict := v }
      | none => pure ()
      i3 := i3 + 1
      for id in [0:n] do
        let dd := gridPt side id
        let (e, ip', t) := check4 im i4 ip a b cc dd (fun _ => s!"grid side={side} a={ia} b={ib} c={ic} d={id}")
        match e with
        | some v => return { verdict := v }
        | none => pure ()
        ip := ip'
        i4 := i4 + 1
        if t then nz := nz + 1
  if i3 != im.vd.size || i4 != im.si.size then
    return { verdict := .diverge s!"answer string length mismatch {i3}/{im.vd.size} {i4}/{im.si.size}" }
  return { verdict := .ok, nontrivial := nz > 0, stats := [("calls", 3 * i3 + 9 * i4), ("segint.true", nz), ("points.checked", ip / 2)] }

def polyAns (poly : List Pt) (q : Pt) : Nat :=
  (if inPoly poly q true then 1 else 0) + (if inPoly poly q false then 2 else 0) + (if inPolyGen poly q then 4 else 0)

/-- the generated loop kernels `Gen.Geometry.inPoly` and `Gen.GeometryK2.inPolyGen` on the same query -/
def polyAnsG (poly : List Pt) (q : Pt) : Nat :=
  (if AdaptaVerif.Gen.Geometry.inPoly poly q true then 1 else 0) + (if AdaptaVerif.Gen.Geometry.inPoly poly q false then 2 else 0) +
  (if AdaptaVerif.Gen.GeometryK2.inPolyGen poly q then 4 else 0)

def checkGridPolys (c : Case) : CaseResult := Id.run do
  let side := nat! (((c.get1 "side").getD #["0"])[0]!)
  let i0 := nat! (((c.get1 "chunk").getD #["0"])[0]!)
  let quads := nat! (((c.get1 "quads").getD #["0"])[0]!) == 1
  let tri := fieldChars c "tri"
  let quad := fieldChars c "quad"
  let n := side * side
  let mut it := 0
  let mut iq := 0
  let mut inside := 0
  for i1 in [0:n] do
    for i2 in [0:n] do
      let poly := [gridPt side i0, gridPt side i1, gridPt side i2]
      for q in [0:n] do
        let m := polyAns poly (gridPt side q)
        if m % 2 == 1 then inside := inside + 1
        if tri[it]? != some (digit m) then
          return { verdict := .specfail s!"inPoly/inPolyGen triangle ({i0},{i1},{i2}) q={q} side={side}: impl {tri[it]?} exact {m} (bits: inPoly border, inPoly strict, inPolyGen)" }
        if polyAnsG poly (gridPt side q) != m then
          return { verdict := .diverge s!"inPoly triangle ({i0},{i1},{i2}) q={q}: generated kernel differs from model (translator; bits: inPoly border, inPoly strict, inPolyGen)" }
        it := it + 1
      if quads then
        for i3 in [0:n] do
          let p4 := [gridPt side i0, gridPt side i1, gridPt side i2, gridPt side i3]
          for q in [0:n] do
            let m := polyAns p4 (gridPt side q)
            if quad[iq]? != some (digit m) then
              return { verdict := .specfail s!"inPoly/inPolyGen quad ({i0},{i1},{i2},{i3}) q={q} side={side}: impl {quad[iq]?} exact {m}" }
            iq := iq + 1
  return { verdict := .ok, nontrivial := inside > 0, stats := [("calls", 3 * (it + iq)), ("inpoly.true", inside)] }

def checkRandomTuples (c : Case) : CaseResult := Id.run do
  let mut calls := 0
  let mut nz := 0
  for l in c.get "q" do
    match nums? (l.extract 0 8) with
    | none => return { verdict := .diverge "unparsable numbers" }
    | some v =>
      let p (i : Nat) : Pt := ⟨v[2*i]!, v[2*i+1]!⟩
      let s (i : Nat) : Array Char := (l[i]?.getD "").toList.toArray
      let im : Impl := { vd := s 8, co := s 9, pl := s 10, si := s 11, ss := s 12, cs := s 13, vr := s 14, ip := s 15, rp := s 16,
                         pts := l.extract 17 l.size }
      let ctx := fun (_ : Unit) => s!"{l.extract 0 8}"
      match check3 im 0 (p 0) (p 1) (p 2) ctx with
      | some v => return { verdict := v }
      | none => pure ()
      let (e, _, t) := check4 im 0 0 (p 0) (p 1) (p 2) (p 3) ctx
      match e with
      | some v => return { verdict := v }
      | none => pure ()
      calls := calls + 12
      if t then nz := nz + 1
  return { verdict := .ok, nontrivial := nz > 0, stats := [("calls", calls), ("segint.true", nz)] }

def checkRandomPolys (c : Case) : CaseResult := Id.run do
  let mut poly : List Pt := []
  let mut calls := 0
  let mut inside := 0
  for l in c.lines do
    if l[0]! == "poly" then
      let n := nat! l[1]!
      match nums? (l.extract 2 (2 + 2 * n)) with
      | none => return { verdict := .diverge "unparsable polygon" }
      | some v => poly := (List.range n).map (fun i => (⟨v[2*i]!, v[2*i+1]!⟩ : Pt))
    else if l[0]! == "pq" then
      match nums? (l.extract 1 3) with
      | none => return { verdict := .diverge "unparsable point" }
      | some v =>
        let q : Pt := ⟨v[0]!, v[1]!⟩
        let m := polyAns poly q
        let impl := nat! l[3]! + 2 * nat! l[4]! + 4 * nat! l[5]!
        calls := calls + 3
        if m % 2 == 1 then inside := inside + 1
        if impl != m then
          return { verdict := .specfail s!"inPoly/inPolyGen poly={poly.map (fun p => (ratToString p.x, ratToString p.y))} q=({ratToString q.x},{ratToString q.y}): impl {impl} exact {m} (bits: inPoly border, inPoly strict, inPolyGen)" }
        if polyAnsG poly q != m then
          return { verdict := .diverge s!"inPoly random polygon: generated kernel differs from model (translator)" }
  return { verdict := .ok, nontrivial := inside > 0, stats := [("calls", calls), ("inpoly.true", inside)] }

def run (_args : List String) : IO UInt32 :=
  runCases (fun c =>
    if c.tag == "grid-tuples" then checkGridTuples c
    else if c.tag == "grid-polygons" then checkGridPolys c
    else if c.tag == "random-tuples" then checkRandomTuples c
    else if c.tag == "random-polygons" then checkRandomPolys c
    else { verdict := .diverge s!"unknown case tag {c.tag}" }) (maxSamples := 3)

end Driver.C16
