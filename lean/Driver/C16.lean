import Driver.Proto
import AdaptaVerif.Model.Geometry
namespace Driver.C16
open Driver AdaptaVerif.Num AdaptaVerif.Model.Geometry

def gridPt (side i : Nat) : Pt := ⟨(i / side : Nat), (i % side : Nat)⟩

def dirChar (d : Int) : Char := if d < 0 then '-' else if d > 0 then '+' else '0'

/-- exhaustive chunk: recompute the packed answer strings with the model and compare -/
def checkGrid (c : Case) : CaseResult := Id.run do
  let side := nat! (((c.get1 "side").getD #["0"])[0]!)
  let ia := nat! (((c.get1 "chunk").getD #["0"])[0]!)
  let vdImpl := (((c.get1 "vecDir").getD #[""])[0]!).toList.toArray
  let siImpl := (((c.get1 "segmentIntersect").getD #[""])[0]!).toList.toArray
  let n := side * side
  let a := gridPt side ia
  let mut iv := 0
  let mut is := 0
  let mut nz := 0
  for ib in [0:n] do
    let b := gridPt side ib
    for ic in [0:n] do
      let cc := gridPt side ic
      let d := vecDir a b cc
      if vdImpl[iv]? != some (dirChar d) then
        return { verdict := .specfail s!"vecDir a={ia} b={ib} c={ic} side={side}: impl {vdImpl[iv]?} model {dirChar d}" }
      iv := iv + 1
      for id in [0:n] do
        let dd := gridPt side id
        let s := segmentIntersect a b cc dd
        if s then nz := nz + 1
        if siImpl[is]? != some (if s then '1' else '0') then
          return { verdict := .specfail s!"segmentIntersect a={ia} b={ib} c={ic} d={id} side={side}: model {s}" }
        is := is + 1
  return { verdict := .ok, nontrivial := nz > 0, stats := [("calls", iv + is), ("segint.true", nz)] }

def checkRandom (c : Case) : CaseResult := Id.run do
  let mut calls := 0
  let mut nz := 0
  for l in c.get "q" do
    match nums? (l.extract 0 8) with
    | none => return { verdict := .diverge "unparsable numbers" }
    | some v =>
      let p (i : Nat) : Pt := ⟨v[2*i]!, v[2*i+1]!⟩
      let d := vecDir (p 0) (p 1) (p 2)
      let s := segmentIntersect (p 0) (p 1) (p 2) (p 3)
      calls := calls + 2
      if d != 0 then nz := nz + 1
      if d != int! l[8]! then return { verdict := .specfail s!"vecDir {l}: model {d}" }
      if (if s then 1 else 0) != nat! l[9]! then return { verdict := .specfail s!"segmentIntersect {l}: model {s}" }
  return { verdict := .ok, nontrivial := nz > 0, stats := [("calls", calls)] }

def run (_args : List String) : IO UInt32 :=
  runCases (fun c => if c.tag == "grid-chunk" then checkGrid c else checkRandom c)

end Driver.C16
