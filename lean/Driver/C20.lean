import Driver.Proto
namespace Driver.C20

def run (_args : List String) : IO UInt32 := do
  IO.eprintln "driver mode c20: not implemented yet"
  return 2

end Driver.C20
