import Driver.Proto
import AdaptaVerif.Model.Frame
import AdaptaVerif.Model.RouteCost
import AdaptaVerif.Model.PinCone
import AdaptaVerif.Num.Sqrt
import AdaptaVerif.Gen.Comparators
/-!
Driver mode c20 (runtime half of C20).  The harness ran the same API calls twice ("A", "B") — on
equal inputs with heap perturbation in between (`*-twice`, `removeoverlaps-coincident`), or on an
input and its image under a frame change (`route-translate`, `route-symmetry`, `vpsc-translate`,
`vpsc-permute`).  Both outputs arrive as exact hex floats; this driver decides:

* bit-identity (`Dbl` equality: value AND sign of zero) for routes, solver positions, removeoverlaps;
* |a−b| ≤ 1e-9·max(1,|a|) for layout positions;
* exact translation of raw routes (and of VPSC positions up to the rounding of the block-position
  division: exactness is counted, 1e-9·scale is enforced);
* equality of route COSTS under the 8 symmetries, the cost being recomputed here from the returned
  points with the cost functions of Model/Frame.lean (`orthCost`, `sqLens`, `bends`), which are proved
  frame-invariant in Props/C20.lean — exactly for orthogonal routes, through certified square-root
  enclosures (Num/Sqrt.lean) and 1e-9 relative for polyline routes.
-/
namespace Driver.C20
open Driver AdaptaVerif.Num
open AdaptaVerif.Model.Geometry (Pt)
open AdaptaVerif.Model.Frame
open AdaptaVerif.Model.RouteCost
open AdaptaVerif.Model.PinCone

def tolRel : Rat := 1 / 1000000000

def parseDbls (ts : Array String) : Option (Array Dbl) := ts.mapM parseDbl

/-- labelled vectors of one run: lines `A <label> v…` -/
def runVecs (c : Case) (run : String) : Array (String × Array String) :=
  (c.get run).filterMap (fun l => if l.size ≥ 1 then some (l[0]!, l.extract 1 l.size) else none)

def findLabel (vs : Array (String × Array String)) (lab : String) : Option (Array String) :=
  (vs.find? (fun p => p.1 == lab)).map (·.2)

def dblStr (d : Dbl) : String :=
  match d with
  | .fin s v => (if s && v == 0 then "-0" else ratToString v)
  | .inf s => if s then "-inf" else "inf"
  | .nan => "nan"

/-- failed library assertions caught by the harness (`libassert <stage> <expr> <line>`) -/
def libAsserts (c : Case) : Nat := (c.get "libassert").size

def heapDiffers (c : Case) : Bool :=
  match c.get1 "heap" with
  | some h => h.size ≥ 2 && h[0]! != h[1]!
  | none => false

def closeRel (a b : Rat) : Bool := absRat (a - b) ≤ tolRel * (if absRat a ≤ 1 then 1 else absRat a)

/-- compare all labelled vectors of A and B with `eq`; message names the first difference -/
def compareRuns (c : Case) (what : String) (eq : Dbl → Dbl → Bool) : Option String × Nat × Nat := Id.run do
  let a := runVecs c "A"
  let b := runVecs c "B"
  if a.size != b.size then return (some s!"{what}: run A produced {a.size} vectors, run B {b.size}", 0, 0)
  let mut n := 0
  let mut nbit := 0
  for (lab, av) in a do
    match findLabel b lab with
    | none => return (some s!"{what}: run B has no vector {lab}", n, nbit)
    | some bv =>
      if av.size != bv.size then
        return (some s!"{what}: {lab} has {av.size} values in run A and {bv.size} in run B", n, nbit)
      match parseDbls av, parseDbls bv with
      | some ad, some bd =>
        for i in [0:ad.size] do
          n := n + 1
          if ad[i]! == bd[i]! then nbit := nbit + 1
          if !(eq ad[i]! bd[i]!) then
            return (some s!"{what}: {lab}[{i}] A={av[i]!} ({dblStr ad[i]!}) B={bv[i]!} ({dblStr bd[i]!})", n, nbit)
      | _, _ => return (some s!"{what}: unparsable value in {lab}", n, nbit)
  return (none, n, nbit)

def checkTwice (c : Case) (what : String) : CaseResult :=
  let (e, n, _) := compareRuns c what (fun x y => x == y)
  let hd := heapDiffers c
  let exclMulti := (c.get "ccls").size ≥ 2 && (c.get "pin").any (fun l => l.size ≥ 8 && l[7]! == "1")
  let st := [("values.compared", n), ("heap.order.differs", if hd then 1 else 0), ("finding.lib-assert", libAsserts c),
             ("twice.params.cases", if (c.get "param").size > 0 then 1 else 0), ("twice.pin-class.connectors", (c.get "ccls").size),
             ("twice.exclusive-class.several-connectors", if exclMulti then 1 else 0)]
  match e with
  | some m => { verdict := .specfail m, nontrivial := true, stats := st }
  | none => { verdict := .ok, nontrivial := hd && n > 0, stats := st }

def checkLayoutTwice (c : Case) : CaseResult :=
  let eq (x y : Dbl) : Bool :=
    match x, y with
    | .fin _ a, .fin _ b => closeRel a b
    | _, _ => x == y
  let (e, n, nbit) := compareRuns c "not reproducible to 1e-9 (layout)" eq
  let hd := heapDiffers c
  let st := [("values.compared", n), ("layout.values.bitidentical", nbit), ("heap.order.differs", if hd then 1 else 0)]
  match e with
  | some m => { verdict := .specfail m, stats := st }
  | none => { verdict := .ok, nontrivial := hd && n > 0, stats := st }

/-! ### routes -/

def ptsOf (v : Array Rat) : List Pt :=
  (List.range (v.size / 2)).map (fun i => (⟨v[2*i]!, v[2*i+1]!⟩ : Pt))

def sceneOf (c : Case) : Scene :=
  ((c.get "rect").filterMap (fun l => (nums? l).bind (fun v =>
    if v.size == 4 then some (⟨⟨v[0]!, v[1]!⟩, ⟨v[2]!, v[3]!⟩⟩ : Rect) else none))).toList

def connsOf (c : Case) : Array (Pt × Pt) :=
  (c.get "conn").filterMap (fun l => (nums? l).bind (fun v =>
    if v.size == 4 then some ((⟨v[0]!, v[1]!⟩ : Pt), (⟨v[2]!, v[3]!⟩ : Pt)) else none))

def flag (c : Case) (k : String) : Nat := nat! (((c.get1 k).getD #["0"])[0]?.getD "0")
def numOf (c : Case) (k : String) (i : Nat) : Rat := ((c.get1 k).bind (fun l => l[i]?.bind parseNum)).getD 0

def ptStr (p : Pt) : String := s!"({ratToString p.x},{ratToString p.y})"
def routeStr (r : List Pt) : String := " ".intercalate (r.map ptStr)

/-- consecutive points that coincide to 1e-9 (relative) merged: a nudged display route may carry a jog of a few ulps -/
def dedupClose (v : Array Rat) : Array Rat := Id.run do
  let mut out : Array Rat := #[]
  for i in [0:v.size / 2] do
    let x := v[2*i]!
    let y := v[2*i+1]!
    if out.size ≥ 2 && closeRel out[out.size-2]! x && closeRel out[out.size-1]! y then continue
    out := (out.push x).push y
  return out

/-- `lenient` (scenes of the wider class, recognised by their `param` lines: all nudging options): nudged display routes whose point counts differ
    are compared after merging points that coincide to 1e-9 -/
def checkRouteTranslate (c : Case) : CaseResult := Id.run do
  let lenient := (c.get "param").size > 0
  let tx := numOf c "shift" 0
  let ty := numOf c "shift" 1
  let orth := flag c "orth" == 1
  let a := runVecs c "A"
  let b := runVecs c "B"
  let la := libAsserts c
  -- a library assertion (nudging stage) that fails in one frame only removes that frame's display routes;
  -- it is counted (finding.lib-assert.one-frame-only), the raw routes are still compared
  if la == 0 && a.size != b.size then return { verdict := .specfail s!"route-translate: {a.size} vectors in A, {b.size} in B" }
  let oneFrame := if la > 0 && a.size != b.size then 1 else 0
  let mut n := 0
  let mut inexact := 0
  let mut bendy := 0
  for (lab, av) in a do
    if la > 0 && (findLabel b lab).isNone then continue
    match findLabel b lab, nums? av with
    | some bv, some ar =>
      match nums? bv with
      | none => return { verdict := .specfail s!"route-translate: non-finite value in {lab} (B)" }
      | some br =>
        let isDisp := lab.startsWith "display" || lab.startsWith "mdisplay"
        let merge := lenient && orth && isDisp && ar.size != br.size
        let ar := if merge then dedupClose ar else ar
        let br := if merge then dedupClose br else br
        if ar.size != br.size then
          return { verdict := .specfail s!"route-translate: {lab} has {ar.size / 2} points, its translate {br.size / 2}: A={routeStr (ptsOf ar)} B={routeStr (ptsOf br)} shift=({ratToString tx},{ratToString ty})" }
        if lab.startsWith "exc" then
          -- the same library assertion must fail in both frames
          if ar != br then
            return { verdict := .specfail s!"route-translate: different library assertions fail in the two frames ({lab}: line {ar.toList.map ratToString} vs {br.toList.map ratToString})" }
          continue
        let raw := !(lab.startsWith "display" || lab.startsWith "mdisplay")
        if raw && ar.size > 4 then bendy := bendy + 1
        for i in [0:ar.size] do
          n := n + 1
          let want := ar[i]! + (if i % 2 == 0 then tx else ty)
          if br[i]! != want then
            -- raw routes, and display routes of polyline connectors (no nudging), are copies of input
            -- coordinates: exact.  Nudged orthogonal display routes come out of a VPSC division.
            if raw || !orth || !(closeRel want br[i]!) then
              let kind := if raw then "raw route" else if orth then "nudged displayRoute" else "displayRoute"
              return { verdict := .specfail s!"route-translate: {kind} does not translate with the scene: {lab} coordinate {i} is {ratToString br[i]!}, expected {ratToString ar[i]!} + shift = {ratToString want}; A={routeStr (ptsOf ar)} B={routeStr (ptsOf br)} shift=({ratToString tx},{ratToString ty})" }
            inexact := inexact + 1
    | _, _ => return { verdict := .specfail s!"route-translate: vector {lab} missing in B or non-finite in A" }
  return { verdict := .ok, nontrivial := bendy > 0,
           stats := [("values.compared", n), ("translate.display.rounded", inexact), ("routes.with.bends", bendy),
                     ("translate.params.cases", if lenient then 1 else 0), ("params.set", (c.get "param").size), ("params.options.set", (c.get "opt").size),
                     ("finding.lib-assert", la), ("finding.lib-assert.one-frame-only", oneFrame)] }

/-- lower / upper bound of Σ√(sq) -/
def lenLo (sq : List Rat) : Rat := sq.foldl (fun acc x => acc + sqrtLo x 60) 0
def lenHi (sq : List Rat) : Rat := sq.foldl (fun acc x => acc + sqrtHi x 60) 0

def checkRouteSymmetry (c : Case) : CaseResult := Id.run do
  let orth := flag c "orth" == 1
  let pen := numOf c "pen" 0
  let sc := sceneOf c
  let conns := connsOf c
  let a := runVecs c "A"
  -- a library assertion that fails in one frame only is a frame dependence as well
  let aLabs := (a.filter (fun p => p.1.startsWith "route")).map (·.1)
  for sym in [1:8] do
    let sLabs := ((c.get "S").filter (fun l => l.size ≥ 2 && nat! l[0]! == sym)).map (fun l => l[1]!)
    if sLabs != aLabs then
      return { verdict := .specfail s!"route-symmetry: sym {sym} produced routes {sLabs.toList} but the original scene {aLabs.toList} (a library assertion failed in one frame only: {(c.get "libassert").toList.map (·.toList)})" }
  let mut compared := 0
  let mut sameRoute := 0
  let mut otherRoute := 0
  let mut bendy := 0
  for l in c.get "S" do
    if l.size < 2 then continue
    let sym := Sym.ofIdx (nat! l[0]!)
    let lab := l[1]!
    let F := Frame.ofSym sym
    let ci := nat! (lab.drop 5).toString
    match findLabel a lab, nums? (l.extract 2 l.size) with
    | some av, some br =>
      match nums? av with
      | none => return { verdict := .specfail s!"route-symmetry: non-finite value in A {lab}" }
      | some ar =>
        let ra := ptsOf ar
        let rb := ptsOf br
        compared := compared + 1
        if bends ra > 0 then bendy := bendy + 1
        -- the image problem's route must join the image endpoints
        match conns[ci]? with
        | some (s, d) =>
          if rb.head? != some (F.act s) || rb.getLast? != some (F.act d) then
            return { verdict := .specfail s!"route-symmetry: sym {nat! l[0]!} {lab} does not join the image endpoints: {routeStr rb}" }
        | none => pure ()
        let img := F.actRoute ra
        if img == rb then sameRoute := sameRoute + 1 else otherRoute := otherRoute + 1
        let va := !(routeHits sc ra)
        let vb := !(routeHits (F.actScene sc) rb)
        let ctx := fun (_ : Unit) => s!"sym {nat! l[0]!} {lab} pen={ratToString pen}: original route {routeStr ra} (obstacle-free={va}); route in the image scene {routeStr rb} (obstacle-free={vb}); image of the original route {routeStr img}"
        if orth && isOrth ra != isOrth rb then
          return { verdict := .specfail s!"route-symmetry: axis-parallelism changes under the symmetry (orthogonal connector, {if isOrth ra then "original axis-parallel, image not" else "image axis-parallel, original not"}); {ctx ()}" }
        if orth then
          let ca := orthCost pen ra
          let cb := orthCost pen rb
          if ca != cb then
            return { verdict := .specfail s!"route-symmetry: orthogonal cost changes under the symmetry: {ratToString ca} (length {ratToString (manhattanLen ra)}, bends {bends ra}) vs {ratToString cb} (length {ratToString (manhattanLen rb)}, bends {bends rb}); {ctx ()}" }
        else
          let pa := pen * ((bends ra : Nat) : Rat)
          let pb := pen * ((bends rb : Nat) : Rat)
          let loA := lenLo (sqLens ra) + pa
          let hiA := lenHi (sqLens ra) + pa
          let loB := lenLo (sqLens rb) + pb
          let hiB := lenHi (sqLens rb) + pb
          let tol := tolRel * (1 + hiA)
          if loA > hiB + tol || loB > hiA + tol then
            return { verdict := .specfail s!"route-symmetry: polyline cost changes under the symmetry: [{ratToString loA},…] vs [{ratToString loB},…] (bends {bends ra} vs {bends rb}); {ctx ()}" }
    | _, _ => return { verdict := .specfail s!"route-symmetry: vector {lab} missing in A or non-finite" }
  return { verdict := .ok, nontrivial := bendy > 0,
           stats := [("sym.routes.compared", compared), ("sym.same.route.up.to.frame", sameRoute),
                     ("sym.other.route.same.cost", otherRoute), ("routes.with.bends", bendy),
                     ("finding.lib-assert", libAsserts c),
                     ("finding.lib-assert.one-frame-only", if libAsserts c > 0 && libAsserts c < 8 then 1 else 0)] }

/-! ### route-symmetry-params: all routing parameters / options, degenerate alignments.  The harness reports, besides
`route<i>`, the A* VERTEX PATH `path<i>` of every connector in every frame (DebugHandler); its cost under the Lean model
of `cost()` (Model/RouteCost.lean: length + segmentPenalty·bends + reverseDirectionPenalty·reversing edges, proved
invariant under the 8 symmetries in Props/C20.lean) must be the same in all 8 frames. -/

/-- value of `param <i> v`, or the library default -/
def paramOf (c : Case) (i : Nat) (dflt : Rat) : Rat :=
  match (c.get "param").find? (fun l => l.size ≥ 2 && nat! l[0]! == i) with
  | some l => (parseNum l[1]!).getD dflt
  | none => dflt

/-- 10·log10(11)/10.5 < 0.992: the largest factor `cost()` applies to anglePenalty at one bend -/
def angleFactorMax : Rat := 992 / 1000

def symVec (c : Case) (sym : Nat) (lab : String) : Option (Array String) :=
  ((c.get "S").find? (fun l => l.size ≥ 2 && nat! l[0]! == sym && l[1]! == lab)).map (fun l => l.extract 2 l.size)

def bendVertices : Route → Nat
  | a :: b :: c :: rest => (if bendWeight a b c = 0 then 0 else 1) + bendVertices (b :: c :: rest)
  | _ => 0

/-- does a leg of the route pass exactly through a corner of a (buffered) shape, the corner strictly inside the leg?
    Polyline visibility along such a grazing line exists in some frames only (C03's subject); such routes are counted,
    not judged. -/
def grazesCorner (sc : Scene) (buf : Rat) (r : Route) : Bool :=
  (legs r).any (fun l => sc.any (fun R =>
    let x0 := minR R.a.x R.b.x - buf
    let x1 := maxR R.a.x R.b.x + buf
    let y0 := minR R.a.y R.b.y - buf
    let y1 := maxR R.a.y R.b.y + buf
    [(⟨x0, y0⟩ : Pt), ⟨x0, y1⟩, ⟨x1, y0⟩, ⟨x1, y1⟩].any (fun k =>
      crossAt l.1 k l.2 == 0 && decide (dotAt l.1 k l.2 < 0))))

/-- the frame of image `sym`: the symmetry followed by the translation of the `frame sym tx ty` line (none: no translation) -/
def frameOf (c : Case) (sym : Nat) : Frame :=
  match (c.get "frame").find? (fun l => l.size ≥ 3 && nat! l[0]! == sym) with
  | some l => ⟨if sym == 8 then Sym.id else Sym.ofIdx sym, ⟨(parseNum l[1]!).getD 0, (parseNum l[2]!).getD 0⟩⟩
  | none => Frame.ofSym (Sym.ofIdx sym)

/-- a pin of a multi-pin class: `pin shape cls px py prop inside dirs excl cost` -/
structure PinLine where
  shape : Nat
  cls : Nat
  p : Pt
  ins : Rat
  dirs : Dirs
  cost : Rat

def pinsOf (c : Case) : Array PinLine :=
  (c.get "pin").filterMap (fun l =>
    if l.size < 9 then none else
    match parseNum l[2]!, parseNum l[3]!, parseNum l[5]!, parseNum l[8]! with
    | some x, some y, some ins, some cost => some ⟨nat! l[0]!, nat! l[1]!, ⟨x, y⟩, ins, Dirs.ofNat (nat! l[6]!), cost⟩
    | _, _, _, _ => none)

/-- (shape, class) of a connector whose source is a pin class -/
def pinClassOf (c : Case) (ci : Nat) : Option (Nat × Nat) :=
  ((c.get "ccls").find? (fun l => l.size ≥ 3 && nat! l[0]! == ci)).map (fun l => (nat! l[1]!, nat! l[2]!))

/-- extra cost of the pin edge for the pin the path leaves through (`pinPt` = second vertex of the path), in frame `F`;
    `none` if no pin of the class sits there.  Several pins at one position: the cheapest. -/
def pinExtra (F : Frame) (rects : Array Rect) (pins : Array PinLine) (sh cls : Nat) (portPen : Rat) (pinPt target : Pt) : Option Rat :=
  match rects[sh]? with
  | none => none
  | some R =>
    let R' := F.actRect R
    let x0 := minR R'.a.x R'.b.x
    let x1 := maxR R'.a.x R'.b.x
    let y0 := minR R'.a.y R'.b.y
    let y1 := maxR R'.a.y R'.b.y
    (pins.filter (fun q => q.shape == sh && q.cls == cls)).foldl (fun acc q =>
      let pos := pinPosition x0 y0 x1 y1 (F.act q.p) q.ins
      if pos == pinPt then
        let e := pinEdgeExtra portPen q.cost (q.dirs.act F.sym) pos target
        match acc with
        | none => some e
        | some a => some (if e < a then e else a)
      else acc) none

def checkRouteSymmetryParams (c : Case) (crossStage : Bool) : CaseResult := Id.run do
  -- frames 1..7: the symmetries (followed by a translation if a `frame` line says so); frame 8, if present: a pure translation
  let nFrames := if ((c.get "frame").any (fun l => l.size ≥ 1 && nat! l[0]! == 8)) then 9 else 8
  let portPen := paramOf c 5 0
  let rectsArr := (sceneOf c).toArray
  let pinLines := pinsOf c
  let mut pinned := 0
  let mut pinSame := 0
  let mut pinOther := 0
  let mut pinPenalised := 0
  let buf := paramOf c 6 (numOf c "buf" 0)
  let mut grazing := 0
  let orth := flag c "orth" == 1
  let seg := paramOf c 0 (numOf c "pen" 0)
  let ang := paramOf c 1 0
  let rev := paramOf c 8 0
  let sc := sceneOf c
  let conns := connsOf c
  let a := runVecs c "A"
  let aLabs := (a.filter (fun p => p.1.startsWith "route")).map (·.1)
  for sym in [1:nFrames] do
    let sLabs := ((c.get "S").filter (fun l => l.size ≥ 2 && nat! l[0]! == sym && l[1]!.startsWith "route")).map (fun l => l[1]!)
    if sLabs != aLabs then
      return { verdict := .specfail s!"route-symmetry-params: sym {sym} produced routes {sLabs.toList} but the original scene {aLabs.toList} (a library assertion failed in one frame only: {(c.get "libassert").toList.map (·.toList)})" }
  let mut compared := 0
  let mut bendy := 0
  let mut noPath := 0
  let mut revCharged := 0
  let mut aligned := 0
  let mut alignedRev := 0
  let mut otherRoute := 0
  let mut xDiffers := 0
  for ci in [0:conns.size] do
    let (s, d) := conns[ci]!
    let rl := s!"route{ci}"
    let pl := s!"path{ci}"
    match (findLabel a rl).bind nums?, (findLabel a pl).bind nums? with
    | some ar, some ap =>
      let ra := ptsOf ar
      let pa := ptsOf ap
      if s.x == d.x || s.y == d.y then
        aligned := aligned + 1
        if rev > 0 then alignedRev := alignedRev + 1
      if bends ra > 0 then bendy := bendy + 1
      if revEdges s d (if orth then pa.dropLast else pa) > 0 && rev > 0 then revCharged := revCharged + 1
      for symI in [1:nFrames] do
        let F := frameOf c symI
        match (symVec c symI rl).bind nums?, (symVec c symI pl).bind nums? with
        | some br, some bp =>
          let rb := ptsOf br
          let pb := ptsOf bp
          compared := compared + 1
          -- a source attached to a pin class: the route starts at the pin the search chose (second vertex of the path,
          -- the first being the connector's dummy end vertex), whose edge costs `pinEdgeExtra` (Model/PinCone.lean)
          let pc := pinClassOf c ci
          let mut extraA : Rat := 0
          let mut extraB : Rat := 0
          if let some (sh, cls) := pc then
            match pa, pb with
            | sa :: pinA :: _, sb :: pinB :: _ =>
              match pinExtra (Frame.ofSym Sym.id) rectsArr pinLines sh cls portPen pinA d,
                    pinExtra F rectsArr pinLines sh cls portPen pinB (F.act d) with
              | some ea, some eb =>
                extraA := ea
                extraB := eb
                if symI == 1 then
                  pinned := pinned + 1
                  if ea ≥ portPen && portPen > 0 then pinPenalised := pinPenalised + 1
                if F.act pinA == pinB then pinSame := pinSame + 1 else pinOther := pinOther + 1
                if ra.head? != some pinA || rb.head? != some pinB || sb != F.act sa then
                  return { verdict := .diverge s!"route-symmetry-params: sym {symI} {rl}: the route does not start at the pin the vertex path leaves through: routes {routeStr ra} / {routeStr rb}, paths {routeStr pa} / {routeStr pb}" }
              | _, _ =>
                return { verdict := .diverge s!"route-symmetry-params: sym {symI} {rl}: the vertex path does not leave through a pin of class {cls} of shape {sh}: paths {routeStr pa} / {routeStr pb}" }
            | _, _ => pure ()
          let s := if pc.isSome then (pa.head?.getD s) else s
          let joinB := if pc.isSome then (pb.head? == none || rb.getLast? == some (F.act d)) else (rb.head? == some (F.act s) && rb.getLast? == some (F.act d))
          if !joinB then
            return { verdict := .specfail s!"route-symmetry-params: sym {symI} {rl} does not join the image endpoints: {routeStr rb}" }
          let ctx := fun (_ : Unit) => s!"sym {symI} {rl} seg={ratToString seg} rev={ratToString rev} ang={ratToString ang} src={ptStr s} dst={ptStr d}: original route {routeStr ra} (obstacle-free={!(routeHits sc ra)}), vertex path {routeStr pa}; in the image scene route {routeStr rb} (obstacle-free={!(routeHits (F.actScene sc) rb)}), vertex path {routeStr pb}"
          if orth && isOrth ra != isOrth rb then
            return { verdict := .specfail s!"route-symmetry-params: axis-parallelism changes under the symmetry; {ctx ()}" }
          if F.actRoute ra != rb then otherRoute := otherRoute + 1
          -- the tie between the reported vertex path and the route (a search that found no path reports none)
          if pa.isEmpty != pb.isEmpty then
            return { verdict := .specfail s!"route-symmetry-params: a path is found in one frame only; {ctx ()}" }
          if pa.isEmpty then
            noPath := noPath + 1
            continue
          for (r, p0, which) in [(ra, pa, "original"), (rb, pb, "image")] do
            let p := if pc.isSome then p0.drop 1 else p0
            if p.head? != r.head? || p.getLast? != r.getLast? || bends p != bends r
                || (orth && isOrth r && manhattanLen p != manhattanLen r) then
              -- crossing-penalty stage: the search may return a path with a loop which the library then cuts out of the route
              if crossStage then xDiffers := xDiffers + 1 else
              return { verdict := .diverge s!"route-symmetry-params: the A* vertex path reported through the DebugHandler is not the route ({which} frame); {ctx ()}" }
          if orth then
            if !(isOrth ra) then continue
            let ca := orthPathCost seg rev s d pa + extraA
            let cb := orthPathCost seg rev (F.act s) (F.act d) pb + extraB
            if ca != cb then
              if crossStage then xDiffers := xDiffers + 1 else
              return { verdict := .specfail s!"route-symmetry-params: the cost of the route changes under the symmetry: {ratToString ca} (length {ratToString (manhattanLen pa)}, bends {bends pa}, charged reversing edges {revEdges s d pa.dropLast}) vs {ratToString cb} (length {ratToString (manhattanLen pb)}, bends {bends pb}, charged reversing edges {revEdges (F.act s) (F.act d) pb.dropLast}); {ctx ()}" }
          else
            let chargeBends := decide (ang > 0) || decide (seg > 0)
            -- polyline: the target itself is the only cost target, every edge is charged
            let qa := if chargeBends then penalties seg rev s d pa else rev * ((revEdges s d pa : Nat) : Rat)
            let qb := if chargeBends then penalties seg rev (F.act s) (F.act d) pb else rev * ((revEdges (F.act s) (F.act d) pb : Nat) : Rat)
            let qa := qa + extraA
            let qb := qb + extraB
            let loA := lenLo (sqLens pa) + qa
            let hiA := lenHi (sqLens pa) + qa + ang * angleFactorMax * ((bendVertices pa : Nat) : Rat)
            let loB := lenLo (sqLens pb) + qb
            let hiB := lenHi (sqLens pb) + qb + ang * angleFactorMax * ((bendVertices pb : Nat) : Rat)
            let tol := tolRel * (1 + hiA)
            if loA > hiB + tol || loB > hiA + tol then
              if crossStage then xDiffers := xDiffers + 1
              else if grazesCorner sc buf pa || grazesCorner (F.actScene sc) buf pb then grazing := grazing + 1 else
              return { verdict := .specfail s!"route-symmetry-params: the cost of the polyline route changes under the symmetry: [{ratToString loA}, {ratToString hiA}] vs [{ratToString loB}, {ratToString hiB}] (bends {bends pa} vs {bends pb}, reversing edges {revEdges s d pa} vs {revEdges (F.act s) (F.act d) pb}); {ctx ()}" }
        | _, _ => return { verdict := .specfail s!"route-symmetry-params: sym {symI}: vector {rl}/{pl} missing or non-finite" }
    | _, _ => return { verdict := .specfail s!"route-symmetry-params: vector {rl}/{pl} missing in A or non-finite" }
  return { verdict := .ok, nontrivial := bendy > 0,
           stats := [("sym.routes.compared", compared), ("routes.with.bends", bendy),
                     ("sym.other.route.same.cost", otherRoute),
                     ("params.conns.aligned", aligned), ("params.conns.aligned.with.reverse-penalty", alignedRev),
                     ("params.conns.charged.reverse-penalty", revCharged), ("params.no-path", noPath),
                     ("pins.connectors", pinned), ("pins.chosen.penalised", pinPenalised), ("pins.same.choice.up.to.frame", pinSame), ("pins.other.choice.same.cost", pinOther),
                     ("params.crossing-stage.cost-differs", xDiffers), ("finding.params.polyline-corner-grazing.cost-differs", grazing),
                     ("params.set", (c.get "param").size), ("params.options.set", (c.get "opt").size),
                     ("finding.lib-assert", libAsserts c)] }

/-! ### VPSC -/

def maxAbs (v : Array Rat) : Rat := v.foldl (fun m x => if absRat x > m then absRat x else m) 1

def checkVpscFrame (c : Case) (translate : Bool) : CaseResult := Id.run do
  let t := if translate then numOf c "shift" 0 else 0
  let d := ((c.get1 "d").bind nums?).getD #[]
  let scale := maxAbs d + absRat t
  let a := runVecs c "A"
  let b := runVecs c "B"
  let what := if translate then "vpsc-translate" else "vpsc-permute"
  if a.size != b.size then return { verdict := .specfail s!"{what}: {a.size} vectors in A, {b.size} in B" }
  let mut n := 0
  let mut rounded := 0
  let mut moved := 0
  for (lab, av) in a do
    match findLabel b lab, nums? av with
    | some bv, some ar =>
      match nums? bv with
      | none => return { verdict := .specfail s!"{what}: non-finite position in B {lab}" }
      | some br =>
        if ar.size != br.size then return { verdict := .specfail s!"{what}: {lab} sizes differ" }
        for i in [0:ar.size] do
          n := n + 1
          if i < d.size && ar[i]! != d[i]! then moved := moved + 1
          let want := ar[i]! + t
          if br[i]! != want then
            if absRat (br[i]! - want) > tolRel * scale then
              return { verdict := .specfail s!"{what}: {lab} variable {i}: {ratToString br[i]!} but expected {ratToString want} (= result of the original problem{if translate then " + shift" else ""}); scale {ratToString scale}" }
            rounded := rounded + 1
    | _, _ => return { verdict := .specfail s!"{what}: vector {lab} missing in B or non-finite in A" }
  return { verdict := .ok, nontrivial := moved > 0,
           stats := [("values.compared", n), (what ++ ".rounded", rounded), ("vpsc.vars.moved.by.constraints", moved)] }


/-! ### comparators (class `cmp`): the real `operator<` / `operator()` vs the comparator GENERATED from the same
source by cpp2lean (Gen/Comparators.lean; proved strict weak orders in Props/C20Tie, C11Tie, C06Tie) -/

open AdaptaVerif.Gen.Comparators AdaptaVerif.Model.CmpKeys in
def checkCmp (c : Case) : CaseResult := Id.run do
  let mut n := 0
  let mut ties := 0
  let mut kinds : List (String × Nat) := []
  for l in c.get "cmp" do
    if l.size < 2 then return { verdict := .diverge "cmp: short line" }
    let kind := l[0]!
    let res := l[l.size - 1]! == "1"
    let args := l.extract 1 (l.size - 1)
    let q (i : Nat) : Rat := (num? (args[i]?.getD "0")).getD 0
    let u (i : Nat) : Nat := nat! (args[i]?.getD "0")
    let z (i : Nat) : Int := int! (args[i]?.getD "0")
    let bad := args.any (fun t => (num? t).isNone)
    if bad then return { verdict := .diverge s!"cmp {kind}: non-finite or malformed key {args}" }
    -- (a < b) and (b < a) as the generated comparator computes them
    let (model, rev) : Bool × Bool :=
      if kind == "pt" then
        let a : Pt := ⟨q 0, q 1⟩; let b : Pt := ⟨q 2, q 3⟩
        (pointLt b a, pointLt a b)
      else if kind == "vid" then
        let a : VertIdKey := ⟨u 0, u 1⟩; let b : VertIdKey := ⟨u 2, u 3⟩
        (vertIdLt b a, vertIdLt a b)
      else if kind == "sp" then
        let a : ShapePairKey := ⟨u 0, u 1⟩; let b : ShapePairKey := ⟨u 2, u 3⟩
        (shapePairLt b a, shapePairLt a b)
      else if kind == "pin" then
        let a : PinKey := ⟨u 0, u 1, u 2, q 3, q 4, q 5, 0⟩; let b : PinKey := ⟨u 6, u 7, u 8, q 9, q 10, q 11, 0⟩
        (pinLt b a, pinLt a b)
      else if kind == "act" then
        let a : ActKey := ⟨u 0, 0, u 1, u 1⟩; let b : ActKey := ⟨u 2, 0, u 3, u 3⟩
        (actionLt b a, actionLt a b)
      else if kind == "cc" then
        -- `left->block == right->block` is transmitted as a flag: equal addresses 1/1, different 1/2
        let a : ConKey := ⟨z 0, z 1, 1, if u 2 == 1 then 1 else 2, q 3, z 4, z 5⟩
        let b : ConKey := ⟨z 6, z 7, 1, if u 8 == 1 then 1 else 2, q 9, z 10, z 11⟩
        (compareConstraints a b, compareConstraints b a)
      else (res, false)
    if !(["pt", "vid", "sp", "pin", "act", "cc"].contains kind) then
      return { verdict := .diverge s!"cmp: unknown kind {kind}" }
    if model != res then
      return { verdict := .specfail s!"comparator {kind}: the C++ returns {res} on keys {args} but the comparator generated from the source returns {model}" }
    if model && rev then
      return { verdict := .specfail s!"comparator {kind}: not asymmetric on keys {args}" }
    n := n + 1
    if !model && !rev then ties := ties + 1
    kinds := bumpStats kinds ("cmp." ++ kind) 1
  return { verdict := .ok, nontrivial := n > 0 && ties > 0,
           stats := [("cmp.comparisons", n), ("cmp.ties", ties)] ++ kinds }

def run (_args : List String) : IO UInt32 :=
  runCases (fun c =>
    if c.tag == "route-twice" then checkTwice c "not reproducible (route)"
    else if c.tag == "vpsc-twice" then checkTwice c "not reproducible (vpsc)"
    else if c.tag == "removeoverlaps-twice" then checkTwice c "not reproducible (removeoverlaps, distinct centres)"
    else if c.tag == "removeoverlaps-coincident" then checkTwice c "not reproducible (removeoverlaps, coincident centres)"
    else if c.tag == "layout-twice" then checkLayoutTwice c
    else if c.tag == "route-translate" || c.tag == "route-translate-orth" then checkRouteTranslate c
    else if c.tag == "route-symmetry-params" then checkRouteSymmetryParams c false
    else if c.tag == "route-symmetry-params-x" then checkRouteSymmetryParams c true
    else if c.tag == "route-symmetry" || c.tag == "route-symmetry-dirs" then checkRouteSymmetry c
    else if c.tag == "route-symmetry-dirs-any" then
      -- arbitrary direction restrictions: the unchanged library is not symmetric there (U-turns at restricted ends,
      -- several pins at one position, restricted ends in line with shape edges …); asymmetries are
      -- reported as SPECFAIL with the kind in front (known finding C20-restricted-ends-asymmetric) and counted by kind
      let r := checkRouteSymmetry c
      match r.verdict with
      | .specfail m =>
        let kind := if (m.splitOn "does not join the image endpoints").length > 1 then "finding.dirs-any.no-path-in-one-frame"
                    else if (m.splitOn "axis-parallelism").length > 1 then "finding.dirs-any.axis-parallelism"
                    else "finding.dirs-any.cost-asymmetry"
        -- which connector: "… sym <n> route<i> …"; is its restricted end a pin or a free end?
        let ci := match (m.splitOn "sym ")[1]? with
          | some rest => nat! (((rest.splitOn " ")[1]?.getD "route0").drop 5).toString
          | none => 0
        let cd := (c.get "cdir").find? (fun l => l.size ≥ 5 && nat! l[0]! == ci)
        let what := match cd with
          | some l => if l[3]! != "-1" || l[4]! != "-1" then ".pin" else ".free-end"
          | none => ".unrestricted-connector"
        let short := (kind.drop "finding.dirs-any.".length).toString
        { verdict := .specfail s!"route-symmetry[dirs-any] {short}{what}: {m}", nontrivial := true,
          stats := [(kind ++ what, 1), ("finding.dirs-any", 1)] }
      | _ => r
    else if c.tag == "vpsc-translate" then checkVpscFrame c true
    else if c.tag == "vpsc-permute" then checkVpscFrame c false
    else if c.tag == "cmp" then checkCmp c
    else { verdict := .diverge s!"unknown case tag {c.tag}" }) (maxSamples := 4)

end Driver.C20
