import Driver.C09

def main (args : List String) : IO UInt32 := Driver.C09.run args
