/-
Hand-written key records for the cpp2lean job `compound` (NOT generated): what the eight
`generateSeparationConstraints` methods of cola/libcola/compound_constraints.cpp read of `this` and of the
`SubConstraintInfo` objects they iterate over.  Modelling decisions (as in Model/Compound.lean):
`vpsc::Variable*` = the variable's index in `vars` (libcola keeps `vars[i]->id == i`; a null pointer = `none`),
`vpsc::Variables& vars` = its size (`IdArray`), `new vpsc::Constraint(l, r, gap, eq)` = a `Sep` record,
`AlignmentConstraint*` = the only thing read through it, its guideline variable.  Core Lean only.
-/
import AdaptaVerif.Model.Compound
namespace AdaptaVerif.Gen.KeysCompound
open AdaptaVerif.Model.Compound

/-- BoundaryConstraint / AlignmentConstraint: `_primaryDim`, `variable`, `_subConstraintInfo` (`Offset`: varIndex, distOffset) -/
structure OffsetCC where
  primaryDim : Dim
  var : Option Nat
  offs : List (Nat × Rat)
  deriving Inhabited

/-- `AlignmentConstraint *` as seen from other constraints -/
structure AlignK where
  var : Option Nat
  deriving Inhabited

/-- `VarIndexPair` of SeparationConstraint -/
structure VarIndexPairK where
  lConstraint : Option AlignK
  rConstraint : Option AlignK
  varIndex : Nat
  varIndex2 : Nat
  deriving Inhabited

structure SepCC where
  primaryDim : Dim
  info : List VarIndexPairK
  gap : Rat
  equality : Bool
  deriving Inhabited

structure OrthCC where
  primaryDim : Dim
  left : Nat
  right : Nat
  deriving Inhabited

/-- MultiSeparationConstraint / DistributionConstraint (`AlignmentPair`: alignment1, alignment2) -/
structure MultiCC where
  primaryDim : Dim
  pairs : List (AlignK × AlignK)
  sep : Rat
  equality : Bool
  deriving Inhabited

structure FixedRelCC where
  rel : List RelOff
  deriving Inhabited

/-- `PageBoundaryShapeOffsets`: `halfDim[2]` indexed by the dimension -/
structure PageShapeK where
  varIndex : Nat
  halfDim : Dim → Rat

instance : Inhabited PageShapeK := ⟨⟨0, fun _ => 0⟩⟩

structure PageCC where
  vl : Dim → Option Nat
  vr : Dim → Option Nat
  shapes : List PageShapeK

instance : Inhabited PageCC := ⟨⟨fun _ => none, fun _ => none, []⟩⟩

end AdaptaVerif.Gen.KeysCompound
