/-
Fixed prelude (part 2) for the cpp2lean-generated kernels: containers and loops.
Core Lean only (generated kernels may be linked into a compiled driver).

* `aget` / `aset`   — `a[i]` read and `a[i] = x` on `std::vector` / `T*` modelled as `Array`; the
                      translator adds `i < a.size` to `f_pre` at every access, so the totalisation
                      (`default` / no-op) is never what a theorem under `f_pre` talks about.
* `forRange`        — `for (unsigned i = i0; i < bound; ++i) body` without `return` in the body:
                      fuel = bound − i0, the state `σ` = the variables the body assigns.
* `forRangePre`     — every assertion / bounds obligation reached in any iteration holds.
* `forEach`         — `for (it = c.begin(); it != c.end(); ++it) body` over a container modelled as a
                      `List` (the body does not change the container).
* `forEachPre`
* `whileLoop` / `whileLoopPre` — `while (cond) body` on fuel.
-/
namespace AdaptaVerif.Gen

/-- a `std::vector<T*>` whose element `i` is the object with id `i` (so that a pointer is modelled by its index):
    only its size is left; `v[i]` = `i` with the obligation `i < v` -/
abbrev IdArray := Nat

/-- `a[i]` (read) -/
def aget {α : Type} [Inhabited α] (a : Array α) (i : Nat) : α := a.getD i default
/-- `a[i] = x` -/
def aset {α : Type} (a : Array α) (i : Nat) (x : α) : Array α := a.setIfInBounds i x

/-- `for (i = i0; i < i0 + fuel; ++i) s = body i s` -/
def forRange {σ : Type} (body : Nat → σ → σ) : Nat → Nat → σ → σ
  | 0, _, s => s
  | fuel + 1, i, s => forRange body fuel (i + 1) (body i s)

/-- the obligations of every iteration of `forRange body`, evaluated on the state that iteration sees -/
def forRangePre {σ : Type} (pre : Nat → σ → Bool) (body : Nat → σ → σ) : Nat → Nat → σ → Bool
  | 0, _, _ => true
  | fuel + 1, i, s => pre i s && forRangePre pre body fuel (i + 1) (body i s)

/-- `while (cond) body` on fuel: the generated function has an extra parameter `fuel_` -/
def whileLoop {σ : Type} (cond : σ → Bool) (body : σ → σ) : Nat → σ → σ
  | 0, s => s
  | fuel + 1, s => if cond s then whileLoop cond body fuel (body s) else s

/-- obligations of every evaluated condition and executed body; when the fuel is used up the loop must be over
    (`cond` false), so `_pre` also says that the fuel was sufficient -/
def whileLoopPre {σ : Type} (condPre cond bodyPre : σ → Bool) (body : σ → σ) : Nat → σ → Bool
  | 0, s => condPre s && !cond s
  | fuel + 1, s => condPre s && (if cond s then bodyPre s && whileLoopPre condPre cond bodyPre body fuel (body s) else true)

/-- iterator loop over a container (in order), state `σ` -/
def forEach {α σ : Type} (body : α → σ → σ) : List α → σ → σ
  | [], s => s
  | x :: xs, s => forEach body xs (body x s)

def forEachPre {α σ : Type} (pre : α → σ → Bool) (body : α → σ → σ) : List α → σ → Bool
  | [], _ => true
  | x :: xs, s => pre x s && forEachPre pre body xs (body x s)

end AdaptaVerif.Gen
