/-
Hand-written key record for the cpp2lean job `pinpos` (NOT generated): `Avoid::Box` (two corner points).
Core Lean only.
-/
import AdaptaVerif.Gen.Prelude
namespace AdaptaVerif.Gen.KeysPins
open AdaptaVerif.Gen (Pt)

/-- `Avoid::Box { Point min; Point max; }` -/
structure BoxK where
  min : Pt
  max : Pt
  deriving Repr, Inhabited

end AdaptaVerif.Gen.KeysPins
