/-
Hand-written key record for the cpp2lean job `shortest` (NOT generated): what `dijkstra_init` and the relax
loop of `dijkstra` read and write of `shortest_paths::Node<T>` — the adjacency vectors and the tentative distance `d`. `Node<T>*` pointers into the vector `vs`
are modelled by the index of the element (`&vs[v]` = `v`; `vs` is never resized while they are alive).
Core Lean only.
-/
import AdaptaVerif.Model.ShortestPaths
namespace AdaptaVerif.Gen.KeysShortest
open AdaptaVerif.Model.ShortestPaths (Dist)

structure NodeK where
  neighbours : List Nat      -- `std::vector<Node<T>*> neighbours`
  nweights : List Dist       -- `std::vector<T> nweights`
  id : Nat := 0              -- `unsigned id` (set to the index by `dijkstra`)
  d : Dist := none           -- `T d` (tentative distance; read and written by the relax loop of `dijkstra`)
  deriving Repr, Inhabited

/-- the operations of `PairingHeap<Node<T>*, CompareNodes<T>>` that `dijkstra` uses, uninterpreted (the heap type `H` is
    abstract). The comparator reads keys through the node pointers (`u->d < v->d`), so `insert` and `decreaseKey` receive
    the node array; `extractMin` returns the extracted node (index) and the new heap. -/
structure HeapOps (H : Type) where
  empty : H
  isEmpty : H → Bool
  insert : H → Nat → Array NodeK → H
  extractMin : H → Nat × H
  decreaseKey : H → Nat → Array NodeK → H

open AdaptaVerif.Model.PairingHeap in
/-- the model's `decreaseKey`, reading the new key from the node as the C++ comparator does (`v->d`) -/
def decKeyM (h : PTree Dist) (v : Nat) (vs : Array NodeK) : PTree Dist := decreaseKey ltDist h v (vs.getD v default).d

open AdaptaVerif.Model.PairingHeap in
/-- the model's pairing heap (Model/PairingHeap.lean) as the heap of the generated `dijkstra` -/
def modelOps : HeapOps (PTree Dist) where
  empty := .nil
  isEmpty h := (findMin h).isNone
  insert h i vs := insert ltDist h (vs.getD i default).d i
  extractMin h := (((findMin h).map (·.2)).getD 0, deleteMin ltDist h)
  decreaseKey := decKeyM

end AdaptaVerif.Gen.KeysShortest
