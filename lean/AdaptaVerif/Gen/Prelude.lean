/-
Fixed prelude for the cpp2lean-generated kernels: the few library functions the translator maps
C++ library calls to. Core Lean only.
-/
import AdaptaVerif.Model.Geometry
namespace AdaptaVerif.Gen
export AdaptaVerif.Model.Geometry (Pt)

/-- `fabs` -/
def absR (r : Rat) : Rat := if r < 0 then -r else r
/-- `std::min`, `std::max` (C++ returns the first argument on ties) -/
def minR (a b : Rat) : Rat := if b < a then b else a
def maxR (a b : Rat) : Rat := if a < b then b else a
/-- `std::numeric_limits<double>::epsilon()` = 2^-52 -/
def dblEpsilon : Rat := 1 / 4503599627370496

/-- early `return` inside an `if` both of whose branches may fall through:
    `some r` = returned r, `none` = fell through to the rest of the function -/
def earlyExit {α : Type} (o : Option α) (rest : α) : α :=
  match o with
  | some r => r
  | none => rest
def earlyExitPre {α : Type} (o : Option α) (restPre : Bool) : Bool :=
  match o with
  | some _ => true
  | none => restPre

/-- result of a translated `for` loop: `some r` = the body executed `return r`; `none` = the loop
    ran to completion with the carried variables in the second component -/
def loopExit {α σ : Type} (r : Option α × σ) (k : σ → α) : α :=
  match r with
  | (some x, _) => x
  | (none, s) => k s
def loopExitPre {α σ : Type} (r : Option α × σ) (k : σ → Bool) : Bool :=
  match r with
  | (some _, _) => true
  | (none, s) => k s

end AdaptaVerif.Gen
