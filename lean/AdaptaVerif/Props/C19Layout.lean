/-
C19 — "symmetric tree layout places no two tree nodes on top of each other": property theorems about the
executable model of `dialect::Tree::symmetricLayout` (only theorems + non-vacuity examples).

  Model  : Model/TreeLayout.lean — `symmetricLayout cfg convex id w h kids` (flip, translate, getBounds, the
           isomorphism-class ordering and the alternating placement, all as coded; Rat for double)
  Tie    : Driver/C19.lean `tieLayout` — every run, the real `Tree::symmetricLayout` is run on generated trees
           (classes layout-*, layoutx-*) and every centre coordinate, every `m_boundsByRank[r]`, `m_lb/m_ub`
           and `isSymmetrical()` must equal the model's value exactly.
  Proofs : Lemmas/TreeLayout.lean, TreeLayoutInv.lean, TreeLayoutSym.lean

All theorems quantify over every rooted ordered tree (`Forest`, any number of nodes, any shape), every node
size, every separation and all four growth directions.  The theorems named `layoutWith_…` hold for an
arbitrary ordering of the c-trees (`ord`), i.e. they do not depend on how `computeIsomString` and the
class sort behave; `symmetricLayout_…` are the instances for the ordering as coded.

The claim "no two nodes overlap" is FALSE without a hypothesis on the node extents along the growth
direction (known finding C14-tree-rank-distance): `tall_root_overlaps_child`.
-/
import AdaptaVerif.Lemmas.TreeLayoutSym
import AdaptaVerif.Lemmas.TreeLayoutPerm
import AdaptaVerif.Lemmas.TreeLayoutRot
import AdaptaVerif.Lemmas.TreeLayoutDepth
import AdaptaVerif.Lemmas.TreeLayoutTight
import AdaptaVerif.Lemmas.TreeLayoutSort
namespace AdaptaVerif.Props.C19Layout
open AdaptaVerif.Model.TreeLayout AdaptaVerif.Lemmas.TreeLayout

/-- hypothesis on one node size: non-negative, and the extent along the growth direction ≤ rankSep -/
def SizeHyp (cfg : Cfg) (w h : Rat) : Prop :=
  0 ≤ w ∧ 0 ≤ h ∧ (if cfg.dir.isVertical then h else w) ≤ cfg.rankSep

/-- strict variant: extent along the growth direction < rankSep -/
def SizeHypStrict (cfg : Cfg) (w h : Rat) : Prop :=
  0 ≤ w ∧ 0 ≤ h ∧ (if cfg.dir.isVertical then h else w) < cfg.rankSep

/-- only non-negative sizes -/
def SizeNonneg (w h : Rat) : Prop := 0 ≤ w ∧ 0 ≤ h

/-! ### (1) rank bounds enclose the nodes, also after `flip` / `translate` -/

/-- Every node of rank `r` of the laid-out tree lies, on the transverse axis, within `m_boundsByRank[r]`
    (for every ordering of the c-trees; sizes and nodeSep non-negative). -/
theorem rank_bounds_enclose (ord : Order) (cfg : Cfg) (convex : Bool) (id : Nat) (w h : Rat) (kids : Forest)
    (hns : 0 ≤ cfg.nodeSep) (hroot : SizeNonneg w h) (hkids : ForestAll SizeNonneg kids) :
    ∀ l ∈ (layoutWith ord cfg convex id w h kids).levels, ∀ n ∈ l.nodes,
      l.lo ≤ tr cfg.dir n.c - ht cfg.dir n ∧ tr cfg.dir n.c + ht cfg.dir n ≤ l.hi :=
  (layoutWith_ok ord hns (fun _ _ h => h) convex id w h kids hroot hkids).encloses

/-- … and `Tree::flip` keeps that (any tree state, no hypothesis) -/
theorem rank_bounds_enclose_flip (d : Dir) (t : Lay) (h : Encloses d t) : Encloses d (t.flip d) := h.flip

/-- … and so does `Tree::translate` by any vector -/
theorem rank_bounds_enclose_translate (d : Dir) (v : Pt) (t : Lay) (h : Encloses d t) :
    Encloses d (t.translate d v) := h.translate v

/-- lower bound ≤ upper bound on every rank -/
theorem rank_bounds_ordered (ord : Order) (cfg : Cfg) (convex : Bool) (id : Nat) (w h : Rat) (kids : Forest)
    (hns : 0 ≤ cfg.nodeSep) (hroot : SizeNonneg w h) (hkids : ForestAll SizeNonneg kids) :
    ∀ l ∈ (layoutWith ord cfg convex id w h kids).levels, l.lo ≤ l.hi :=
  fun l hl => ((layoutWith_ok ord hns (fun _ _ h => h) convex id w h kids hroot hkids).lv l hl).le

/-! ### (2) subtrees placed side by side are separated on every common rank -/

/-- The side branch of the placement loop, on every common rank: the rank bound of the subtree being
    placed lies `2·nodeSep` beyond the bound of everything placed before on that side
    (positive side: above the upper bound; negative side: below the lower bound). No hypothesis. -/
theorem siblings_separated (cfg : Cfg) (st : St) (t : Lay) :
    ∀ x ∈ (sideMoved cfg st t).levels.zip st.rest,
      (st.positiveNext = true → x.2.hi + 2 * cfg.nodeSep ≤ x.1.lo) ∧
      (st.positiveNext = false → x.1.hi + 2 * cfg.nodeSep ≤ x.2.lo) :=
  sideMoved_sep cfg st t

/-- … and the placement is tight: unless the start value of the running max (`DBL_MIN`) resp. min (`DBL_MAX`)
    wins, some common rank has a gap of exactly `2·nodeSep` (the subtree is pushed against what is there). -/
theorem siblings_tight (cfg : Cfg) (st : St) (t : Lay) :
    (st.positiveNext = true →
      sideRootPos cfg st t = dblMin ∨
      ∃ x ∈ (sideMoved cfg st t).levels.zip st.rest, x.2.hi + 2 * cfg.nodeSep = x.1.lo) ∧
    (st.positiveNext = false →
      sideRootPos cfg st t = dblMax ∨
      ∃ x ∈ (sideMoved cfg st t).levels.zip st.rest, x.1.hi + 2 * cfg.nodeSep = x.2.lo) :=
  sideMoved_tight cfg st t

/-- Node form: in any loop state satisfying the invariant, every node `m` already placed on a rank and every
    node `n` of the subtree now placed on that rank are `2·nodeSep` apart (`≥ nodeSep` as `nodeSep ≥ 0`). -/
theorem siblings_separated_nodes (cfg : Cfg) (P : Rat → Rat → Prop) (st : St) (t : Lay)
    (hst : StOK cfg P st) (ht : LayOK cfg.dir (2 * cfg.nodeSep) (gstep cfg) P t) :
    ∀ x ∈ (sideMoved cfg st t).levels.zip st.rest, ∀ n ∈ x.1.nodes, ∀ m ∈ x.2.nodes,
      (st.positiveNext = true → rgt cfg.dir m + 2 * cfg.nodeSep ≤ lft cfg.dir n) ∧
      (st.positiveNext = false → rgt cfg.dir n + 2 * cfg.nodeSep ≤ lft cfg.dir m) := by
  intro x hx n hn m hm
  have hz := List.of_mem_zip hx
  have h1 := (sideMoved_ok (st := st) ht x.1 hz.1).enc n hn
  have h2 := (hst.rest x.2 hz.2).enc m hm
  have h3 := sideMoved_sep cfg st t x hx
  exact ⟨fun hp => by linarith [h3.1 hp, h1.1, h2.2], fun hp => by linarith [h3.2 hp, h1.2, h2.1]⟩

/-- In the finished layout, any two nodes of the same rank are `2·nodeSep` apart on the transverse axis. -/
theorem same_rank_separated (ord : Order) (cfg : Cfg) (convex : Bool) (id : Nat) (w h : Rat) (kids : Forest)
    (hns : 0 ≤ cfg.nodeSep) (hroot : SizeNonneg w h) (hkids : ForestAll SizeNonneg kids) :
    ∀ l ∈ (layoutWith ord cfg convex id w h kids).levels,
      l.nodes.Pairwise (fun m n => rgt cfg.dir m + 2 * cfg.nodeSep ≤ lft cfg.dir n ∨
                                   rgt cfg.dir n + 2 * cfg.nodeSep ≤ lft cfg.dir m) :=
  fun l hl => ((layoutWith_ok ord hns (fun _ _ h => h) convex id w h kids hroot hkids).lv l hl).sep

/-- Rank `r` sits at growth coordinate `r · (±rankSep)`: for every level index `i` and node `n` of that
    level, the coordinate along the growth axis is `i * gstep` with `gstep = ±rankSep`. -/
theorem rank_coordinate (ord : Order) (cfg : Cfg) (convex : Bool) (id : Nat) (w h : Rat) (kids : Forest)
    (hns : 0 ≤ cfg.nodeSep) (hroot : SizeNonneg w h) (hkids : ForestAll SizeNonneg kids) :
    ∀ n ∈ (layoutWith ord cfg convex id w h kids).nodes, ∃ k : Nat, gr cfg.dir n.c = k * gstep cfg := by
  intro n hn
  obtain ⟨k, hk⟩ := growAt_exists (layoutWith_ok ord hns (fun _ _ h => h) convex id w h kids hroot hkids).grow n hn
  exact ⟨k, by rw [hk, zero_add]⟩

/-! ### (3) no two boxes overlap -/

/-- **No overlap, any ordering of the c-trees**: if every node's extent along the growth direction is
    ≤ rankSep, sizes are non-negative and nodeSep ≥ 0, then no two distinct nodes (distinct positions of the
    output list) have boxes overlapping with positive area. -/
theorem layoutWith_no_overlap (ord : Order) (cfg : Cfg) (convex : Bool) (id : Nat) (w h : Rat) (kids : Forest)
    (hns : 0 ≤ cfg.nodeSep) (hroot : SizeHyp cfg w h) (hkids : ForestAll (SizeHyp cfg) kids) :
    (layoutWith ord cfg convex id w h kids).nodes.Pairwise noOverlap := by
  have hok := layoutWith_ok ord hns (fun _ _ h => ⟨h.1, h.2.1⟩) convex id w h kids hroot hkids
  have hrs : 0 ≤ cfg.rankSep := by
    obtain ⟨h1, h2, h3⟩ := hroot
    split at h3 <;> linarith
  have hP : ∀ n : PNode, SizeHyp cfg n.w n.h → hg cfg.dir n ≤ cfg.rankSep / 2 := by
    intro n hn
    obtain ⟨_, _, h3⟩ := hn
    unfold hg
    split at h3 <;> simp_all <;> linarith
  have hgap : (0 : Rat) ≤ 2 * cfg.nodeSep := by linarith
  refine (nodes_pairwise (gstep_abs cfg) hrs hP _ 0 hok.lv hok.grow).imp ?_
  intro m n h
  refine noOverlap_of (d := cfg.dir) ?_
  rcases h with h | h
  · left
    unfold sepT at *
    rcases h with h | h
    · left; linarith
    · right; linarith
  · exact Or.inr h

/-- **No overlap for `Tree::symmetricLayout` as coded** (ordering by isomorphism classes, breadth, depth). -/
theorem symmetricLayout_no_overlap (cfg : Cfg) (convex : Bool) (id : Nat) (w h : Rat) (kids : Forest)
    (hns : 0 ≤ cfg.nodeSep) (hroot : SizeHyp cfg w h) (hkids : ForestAll (SizeHyp cfg) kids) :
    (symmetricLayout cfg convex id w h kids).nodes.Pairwise noOverlap :=
  layoutWith_no_overlap isomOrder cfg convex id w h kids hns hroot hkids

/-- Strict form: nodeSep > 0 and extents along the growth direction < rankSep ⇒ the closed boxes are
    pairwise disjoint (they do not even touch). -/
theorem symmetricLayout_disjoint_strict (cfg : Cfg) (convex : Bool) (id : Nat) (w h : Rat) (kids : Forest)
    (hns : 0 < cfg.nodeSep) (hroot : SizeHypStrict cfg w h) (hkids : ForestAll (SizeHypStrict cfg) kids) :
    (symmetricLayout cfg convex id w h kids).nodes.Pairwise disjointBoxes := by
  have hok := layoutWith_ok isomOrder (le_of_lt hns) (fun _ _ h => ⟨h.1, h.2.1⟩) convex id w h kids hroot hkids
  have hrs : 0 ≤ cfg.rankSep := by
    obtain ⟨h1, h2, h3⟩ := hroot
    split at h3 <;> linarith
  have hP : ∀ n : PNode, SizeHypStrict cfg n.w n.h → hg cfg.dir n < cfg.rankSep / 2 := by
    intro n hn
    obtain ⟨_, _, h3⟩ := hn
    unfold hg
    split at h3 <;> simp_all <;> linarith
  have hgap : (0 : Rat) < 2 * cfg.nodeSep := by linarith
  exact (nodes_pairwise_strict hgap (gstep_abs cfg) hrs hP _ 0 hok.lv hok.grow).imp
    (fun h => disjointBoxes_of (d := cfg.dir) h)

/-! ### (3b) completeness: every node of the tree is placed exactly once -/

/-- The ordering as coded (classes by `computeIsomString`, class sort, odd class to the front) returns every
    c-tree index exactly once, for any list of c-tree keys — so no c-tree is dropped or placed twice. -/
theorem isomOrder_is_permutation (convex : Bool) (ks : List Key) :
    (isomOrder convex ks).1.Perm (List.range ks.length) := isomOrder_perm convex ks

/-- The output of `symmetricLayout` contains exactly the nodes of the input tree (id and size), each once:
    the labels of the output nodes are a permutation of the labels of the tree in preorder.  Together with
    `symmetricLayout_no_overlap` (which speaks about all pairs of positions of the output list) this makes
    the no-overlap statement a statement about all pairs of distinct nodes of the input. -/
theorem symmetricLayout_nodes_perm (cfg : Cfg) (convex : Bool) (id : Nat) (w h : Rat) (kids : Forest) :
    ((symmetricLayout cfg convex id w h kids).nodes.map label).Perm ((id, w, h) :: forestLabels kids) :=
  layoutWith_labels isomOrder_perm cfg convex id w h kids

/-! ### (4) the hypothesis on the extents is necessary (known finding C14-tree-rank-distance) -/

/-- the witness: a 10×100 root with one 10×10 child, growth SOUTH, nodeSep 5, rankSep 20 -/
def tallKids : Forest := .cons 1 10 10 .nil .nil
def tallCfg : Cfg := ⟨.south, 5, 20⟩

/-- The child is put at (0, 20): inside the root's box [-5,5] × [-50,50]. Adjacent ranks are a fixed
    distance `rankSep` apart regardless of the node extent along the growth direction. -/
theorem tall_root_overlaps_child :
    ¬ (symmetricLayout tallCfg true 0 10 100 tallKids).nodes.Pairwise noOverlap := by
  decide +kernel

/-- the witness violates exactly the extent hypothesis (root height 100 > rankSep 20), nothing else -/
example : ¬ SizeHyp tallCfg 10 100 ∧ SizeNonneg 10 100 ∧ ForestAll (SizeHyp tallCfg) tallKids ∧
    0 ≤ tallCfg.nodeSep := by
  simp [SizeHyp, SizeNonneg, ForestAll, tallKids, tallCfg, Dir.isVertical]; norm_num

/-! ### (5) `flip` / `translate` algebra -/

theorem flip_involutive (d : Dir) (t : Lay) : (t.flip d).flip d = t := Lay.flip_flip d t

/-- translating twice = translating by the sum -/
theorem translate_additive (d : Dir) (u v : Pt) (t : Lay) :
    (t.translate d u).translate d v = t.translate d ⟨u.x + v.x, u.y + v.y⟩ := Lay.translate_translate d u v t

/-- `flip` and `translate` commute up to mirroring the vector -/
theorem translate_equivariant (d : Dir) (v : Pt) (t : Lay) :
    (t.translate d v).flip d = (t.flip d).translate d (flipPt d v) := Lay.flip_translate d v t

/-- anisotropic example tree used below -/
def exKidsA : Forest :=
  .cons 1 4 10 .nil (.cons 2 10 6 (.cons 4 6 2 .nil .nil) (.cons 3 12 10 .nil .nil))

/-! ### (6) the four growth directions are images of each other

`Frame.mapLay F` applies the point map `F.φ` to every centre and the size map `F.σ` to every node size and
leaves the rank bounds, `m_lb`, `m_ub` unchanged.  These equalities hold for the model as coded; a change
that treats one direction differently (seeded C14-2: the transverse half extent for EAST/WEST) breaks the
exact tie on the classes with EAST/WEST growth and non-square nodes. -/

/-- NORTH layout = SOUTH layout mirrored in the x-axis (`(x, y) ↦ (x, −y)`), any ordering function. -/
theorem layout_north_eq_mirror_south (ord : Order) (ns rs : Rat) (convex : Bool) (id : Nat) (w h : Rat)
    (kids : Forest) :
    layoutWith ord ⟨.north, ns, rs⟩ convex id w h kids =
      southNorth.mapLay (layoutWith ord ⟨.south, ns, rs⟩ convex id w h kids) := by
  have := southNorth.layoutWith_map ord ns rs convex id w h kids
  rw [southNorth_mapForest] at this
  exact this

/-- WEST layout = EAST layout mirrored in the y-axis (`(x, y) ↦ (−x, y)`). -/
theorem layout_west_eq_mirror_east (ord : Order) (ns rs : Rat) (convex : Bool) (id : Nat) (w h : Rat)
    (kids : Forest) :
    layoutWith ord ⟨.west, ns, rs⟩ convex id w h kids =
      eastWest.mapLay (layoutWith ord ⟨.east, ns, rs⟩ convex id w h kids) := by
  have := eastWest.layoutWith_map ord ns rs convex id w h kids
  rw [eastWest_mapForest] at this
  exact this

/-- EAST layout of the tree with every node's width and height exchanged = transpose (`(x, y) ↦ (y, x)`) of
    the SOUTH layout of the tree. -/
theorem layout_east_eq_transpose_south (ord : Order) (ns rs : Rat) (convex : Bool) (id : Nat) (w h : Rat)
    (kids : Forest) :
    layoutWith ord ⟨.east, ns, rs⟩ convex id h w (southEast.mapForest kids) =
      southEast.mapLay (layoutWith ord ⟨.south, ns, rs⟩ convex id w h kids) :=
  southEast.layoutWith_map ord ns rs convex id w h kids

/-- … in particular for `symmetricLayout` as coded -/
theorem symmetricLayout_east_eq_transpose_south (ns rs : Rat) (convex : Bool) (id : Nat) (w h : Rat)
    (kids : Forest) :
    symmetricLayout ⟨.east, ns, rs⟩ convex id h w (southEast.mapForest kids) =
      southEast.mapLay (symmetricLayout ⟨.south, ns, rs⟩ convex id w h kids) :=
  southEast.layoutWith_map isomOrder ns rs convex id w h kids

/-- the transposition really exchanges the coordinates (closed instance, 5 nodes, anisotropic sizes) -/
example : (symmetricLayout ⟨.east, 5, 20⟩ true 0 8 10 (southEast.mapForest exKidsA)).nodes.map (fun n => (n.id, n.c.x, n.c.y))
    = (symmetricLayout ⟨.south, 5, 20⟩ true 0 10 8 exKidsA).nodes.map (fun n => (n.id, n.c.y, n.c.x)) := by
  decide +kernel

/-! ### (6b) the totalised equation of `overlay` is never used

`overlay` keeps a subtree's deeper ranks when the parent has no rank for them (instead of dropping nodes or
indexing out of bounds like the C++ would).  That equation is dead: the parent pre-allocates
`m_depth = 1 + max c-tree depth` ranks and every step keeps that number. -/

theorem rank_count (cfg : Cfg) (id : Nat) (w h : Rat) (ordered : List Lay) (c : Bool) :
    (placeAll cfg id w h ordered c).levels.length = maxDepth ordered + 1 :=
  placeAll_levels_length cfg id w h ordered c

/-- The number of rank bounds of the finished layout equals `m_depth` as the `Tree` constructor's BFS computes
    it (`Key.depth`, tied to the C++ value on every subtree by the `isomv` lines of the harness). -/
theorem symmetricLayout_rank_count_eq_depth (cfg : Cfg) (convex : Bool) (id : Nat) (w h : Rat) (kids : Forest) :
    (symmetricLayout cfg convex id w h kids).levels.length = (mkKey (keys kids)).depth :=
  layoutWith_depth isomOrder_perm cfg convex id w h kids

/-- at the moment any c-tree `t` of the placement sequence `pre ++ t :: post` is placed, the parent state has
    at least as many ranks below the root as `t` has ranks -/
theorem overlay_second_equation_unused (cfg : Cfg) (id : Nat) (w h : Rat) (c : Bool) (pre post : List Lay) (t : Lay) :
    t.levels.length ≤
      (pre.foldl (place cfg) (initSt cfg id w h (maxDepth (pre ++ t :: post)) c)).rest.length :=
  placeAll_overlay_total cfg id w h c pre post t

/-! ### (6c) the two `std::sort` calls are modelled without loss

The model sorts by insertion; `std::sort` only promises a sorted permutation.  Both comparators are strict
total orders on what they sort, so any sorted permutation is the model's result. -/

/-- class strings (`isomStrings`): any permutation `out` of them in which no later string is `classLt` an
    earlier one equals the model's `isort (classLt …)` — for every `rep` (breadth/depth lookup). -/
theorem class_sort_is_determined (convex : Bool) (rep : String → Nat × Nat) (l out : List String)
    (hperm : out.Perm l) (hsorted : out.Pairwise (fun a b => classLt convex rep b a = false)) :
    out = isort (classLt convex rep) l :=
  class_sort_unique convex rep l out hperm hsorted

/-- tuple strings of a level (`std::sort(N…)` by `isomTupleString`): any sorted permutation is `sortStr` -/
theorem tuple_sort_is_determined (l out : List String) (hperm : out.Perm l)
    (hsorted : out.Pairwise (fun a b => ¬ b < a)) : out = sortStr l :=
  sortStr_unique l out hperm hsorted

/-! ### (7) a quirk of the code as coded (outside the C19 property text; recorded because the model has it)

`computeIsomString` never increments its class counter, so its string does not determine the isomorphism
class.  Two non-isomorphic subtrees with the same string form one class of even order and `symmetricLayout`
reports `isSymmetrical() = true` for a drawing that is not mirror symmetric.  The harness replays this tree
against the C++ (`layoutx-quirk-witness`) and the exact tie confirms the flag and all positions. -/

def lf (i : Nat) (rest : Forest) : Forest := .cons i 30 30 .nil rest
def nd (i : Nat) (kids rest : Forest) : Forest := .cons i 30 30 kids rest
/-- T1 = {x:{p₁,q₂}, y:{p₁,q₂}} and T2 = {x:{p₁,p₁}, y:{q₂,q₂}} (pₐ = node with a leaves) under one root -/
def quirkKids : Forest :=
  nd 1 (nd 2 (nd 3 (lf 4 .nil) (nd 5 (lf 6 (lf 7 .nil)) .nil))
             (nd 8 (nd 9 (lf 10 .nil) (nd 11 (lf 12 (lf 13 .nil)) .nil)) .nil))
  (nd 14 (nd 15 (nd 16 (lf 17 .nil) (nd 18 (lf 19 .nil) .nil))
               (nd 20 (nd 21 (lf 22 (lf 23 .nil)) (nd 24 (lf 25 (lf 26 .nil)) .nil)) .nil)) .nil)

theorem isSymmetrical_flag_unsound :
    isSymmetrical quirkKids = true ∧
    ∃ n ∈ (symmetricLayout ⟨.south, 10, 50⟩ true 0 30 30 quirkKids).nodes,
      ∀ m ∈ (symmetricLayout ⟨.south, 10, 50⟩ true 0 30 30 quirkKids).nodes,
        ¬ (m.c.x = -n.c.x ∧ m.c.y = n.c.y) := by
  decide +kernel

/-! ### non-vacuity -/

/-- a 5-node tree with an asymmetric subtree: three c-trees of the root, one placed centrally, one on each
    side; the hypotheses of `symmetricLayout_no_overlap` hold … -/
def exKids : Forest :=
  .cons 1 10 10 .nil (.cons 2 10 10 (.cons 4 6 6 .nil .nil) (.cons 3 10 10 .nil .nil))
def exCfg : Cfg := ⟨.south, 5, 20⟩

example : 0 ≤ exCfg.nodeSep ∧ SizeHyp exCfg 10 10 ∧ ForestAll (SizeHyp exCfg) exKids := by
  simp [SizeHyp, ForestAll, exKids, exCfg, Dir.isVertical]; norm_num

/-- … the model really places all five nodes (central c-tree 2 with its child 4, c-tree 1 on the positive
    side at x = 20, c-tree 3 flipped to the negative side at x = −20) … -/
example : (symmetricLayout exCfg true 0 10 10 exKids).nodes.map (fun n => (n.id, n.c.x, n.c.y)) =
    [(0, 0, 0), (2, 0, 20), (1, 20, 20), (3, -20, 20), (4, 0, 40)] := by decide +kernel

/-- … and the conclusion holds there (checked by evaluation, independently of the theorem). -/
example : (symmetricLayout exCfg true 0 10 10 exKids).nodes.Pairwise noOverlap := by decide +kernel

/-- strict hypotheses are satisfiable as well -/
example : 0 < exCfg.nodeSep ∧ SizeHypStrict exCfg 10 10 ∧ ForestAll (SizeHypStrict exCfg) exKids := by
  simp [SizeHypStrict, ForestAll, exKids, exCfg, Dir.isVertical]; norm_num

/-- a reachable loop state for `siblings_separated`: after the root's `initSt`, the first side placement -/
example : (sideMoved exCfg (initSt exCfg 0 10 10 1 false) ⟨[⟨-5, 5, [⟨1, ⟨0, 0⟩, 10, 10⟩]⟩], -5, 5⟩).levels.map
    (fun l => (l.lo, l.hi)) = [(10, 20)] := by decide +kernel

/-- a loop state with one c-tree already placed on the positive side, and a second leaf c-tree to be placed -/
def exLeaf (i : Nat) : Lay := layoutWith isomOrder exCfg true i 10 10 .nil
def exSt1 : St := place exCfg (initSt exCfg 0 10 10 1 false) (exLeaf 1)

-- non-vacuity of siblings_separated_nodes: both invariants hold jointly (P := SizeNonneg) in a state where the common
-- rank carries a node on either side (node 1 already placed at x = 15, node 2 now placed at x = −15)
example : StOK exCfg SizeNonneg exSt1 ∧
    LayOK exCfg.dir (2 * exCfg.nodeSep) (gstep exCfg) SizeNonneg (exLeaf 2) ∧
    ((sideMoved exCfg exSt1 (exLeaf 2)).levels.zip exSt1.rest).map
      (fun x => (x.1.nodes.map (fun n => (n.id, n.c.x)), x.2.nodes.map (fun n => (n.id, n.c.x))))
      = [([(2, -15)], [(1, 15)])] := by
  have hns : (0 : Rat) ≤ exCfg.nodeSep := by norm_num [exCfg]
  have hsz : SizeNonneg 10 10 := by norm_num [SizeNonneg]
  have hl : ∀ i, LayOK exCfg.dir (2 * exCfg.nodeSep) (gstep exCfg) SizeNonneg (exLeaf i) :=
    fun i => layoutWith_ok isomOrder hns (fun _ _ h => h) true i 10 10 .nil hsz trivial
  exact ⟨place_ok hns (initSt_ok exCfg SizeNonneg 0 10 10 1 false hsz (by norm_num) (by norm_num)) (hl 1), hl 2,
    by decide +kernel⟩

-- siblings_tight in that state is not met through its escape disjunct (`sideRootPos = dblMax`): the placed subtree's rank
-- bound [−20, −10] is pushed against the bound [0, 20] of what is there, gap exactly 2·nodeSep = 10
example : exSt1.positiveNext = false ∧ sideRootPos exCfg exSt1 (exLeaf 2) ≠ dblMax ∧
    exSt1.rest.map (fun l => (l.lo, l.hi)) = [(0, 20)] ∧
    (sideMoved exCfg exSt1 (exLeaf 2)).levels.map (fun l => (l.lo, l.hi)) = [(-20, -10)] := by decide +kernel

-- non-vacuity of tuple_sort_is_determined: a two-element sorted permutation
example : ["a", "b"].Perm ["b", "a"] ∧ ["a", "b"].Pairwise (fun a b => ¬ b < a) :=
  ⟨List.Perm.swap _ _ _, by decide⟩

end AdaptaVerif.Props.C19Layout
