/-
C05 — tie theorems: the estimator kernels generated from /repo's makepath.cpp by cpp2lean on every
run (AdaptaVerif.Gen.Makepath) are the hand model AdaptaVerif.Model.Bends that the estimator theorems
of Props/C05.lean are about. A failed COLA_ASSERT in the C++ (`f_pre = false`) is the model's `none`.
-/
import AdaptaVerif.Lemmas.BendsBridge
namespace AdaptaVerif.Props.C05Tie
open AdaptaVerif.Model.Geometry (Pt)
open AdaptaVerif.Lemmas.BendsBridge

theorem gen_direction_kernels_are_model :
    (∀ x, G.dimDirection x = M.dimDirection x) ∧
    (∀ d, G.orthogonalDirectionsCount d = M.orthogonalDirectionsCount d) ∧
    (∀ a b, G.orthogonalDirection a b = M.orthogonalDirection a b) ∧
    (∀ d, M.dirRight d = if G.dirRight_pre d then some (G.dirRight d) else none) ∧
    (∀ d, M.dirLeft d = if G.dirLeft_pre d then some (G.dirLeft d) else none) ∧
    (∀ d, M.dirReverse d = if G.dirReverse_pre d then some (G.dirReverse d) else none) :=
  ⟨dimDirection_eq, orthogonalDirectionsCount_eq, orthogonalDirection_eq, dirRight_eq, dirLeft_eq, dirReverse_eq⟩

/-- `bends()` as generated from the C++ is the model's `bends`: same value whenever every assertion
    on the path holds, and the model's `none` exactly when one fails -/
theorem gen_bends_is_model (c : Pt) (cd : Nat) (d : Pt) (dd : Nat) :
    M.bends c cd d dd = if G.bends_pre c cd d dd then some (G.bends c cd d dd).toNat else none :=
  bends_eq c cd d dd

end AdaptaVerif.Props.C05Tie
