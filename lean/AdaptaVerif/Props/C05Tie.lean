/-
C05 — tie theorems: the estimator kernels generated from /repo's makepath.cpp by cpp2lean on every
run (AdaptaVerif.Gen.Makepath) are the hand model AdaptaVerif.Model.Bends that the estimator theorems
of Props/C05.lean are about. A failed COLA_ASSERT in the C++ (`f_pre = false`) is the model's `none`.
-/
import AdaptaVerif.Lemmas.BendsBridge
import AdaptaVerif.Lemmas.EstimateBridge
namespace AdaptaVerif.Props.C05Tie
open AdaptaVerif.Model.Geometry (Pt)
open AdaptaVerif.Lemmas.BendsBridge

theorem gen_direction_kernels_are_model :
    (∀ x, G.dimDirection x = M.dimDirection x) ∧
    (∀ d, G.orthogonalDirectionsCount d = M.orthogonalDirectionsCount d) ∧
    (∀ a b, G.orthogonalDirection a b = M.orthogonalDirection a b) ∧
    (∀ d, M.dirRight d = if G.dirRight_pre d then some (G.dirRight d) else none) ∧
    (∀ d, M.dirLeft d = if G.dirLeft_pre d then some (G.dirLeft d) else none) ∧
    (∀ d, M.dirReverse d = if G.dirReverse_pre d then some (G.dirReverse d) else none) :=
  ⟨dimDirection_eq, orthogonalDirectionsCount_eq, orthogonalDirection_eq, dirRight_eq, dirLeft_eq, dirReverse_eq⟩

/-- `bends()` as generated from the C++ is the model's `bends`: same value whenever every assertion
    on the path holds, and the model's `none` exactly when one fails -/
theorem gen_bends_is_model (c : Pt) (cd : Nat) (d : Pt) (dd : Nat) :
    M.bends c cd d dd = if G.bends_pre c cd d dd then some (G.bends c cd d dd).toNat else none :=
  bends_eq c cd d dd

/-- `manhattanDist` (geometry.cpp) as generated is the model's -/
theorem gen_manhattanDist_is_model (a b : Pt) :
    AdaptaVerif.Gen.Makepath.manhattanDist a b = AdaptaVerif.Model.Bends.manhattanDist a b := rfl

/-- the orthogonal branch of `estimatedCostSpecific` — the A* heuristic whose admissibility
    (`estimate_le*` in Props/C05) makes the search optimal — as generated from makepath.cpp is the
    model's: same value whenever every reached assertion holds (`segmentPenalty > 0`, those inside
    `bends`), the model's `none` exactly when one fails.  `k.connType ≠ 1`: not ConnType_PolyLine
    (that branch returns the Euclidean distance, left uninterpreted as `euclid`); `last = none` is
    the C++ `last == nullptr`. -/
theorem gen_estimatedCostSpecific_is_model (k : AdaptaVerif.Model.EstimateKeys.ConnK) (hk : k.connType ≠ 1)
    (last : Option Pt) (curr tar : Pt) (dirs : Nat) (euclid : Pt → Pt → Rat) :
    AdaptaVerif.Model.Bends.estimatedCostSpecific last curr tar dirs k.segmentPenalty =
      if AdaptaVerif.Gen.Makepath.estimatedCostSpecific_pre k last curr tar dirs euclid
      then some (AdaptaVerif.Gen.Makepath.estimatedCostSpecific k last curr tar dirs euclid) else none :=
  AdaptaVerif.Lemmas.EstimateBridge.estimatedCostSpecific_eq k hk last curr tar dirs euclid

/-- the polyline branch is the (uninterpreted) Euclidean distance and contains no assertion -/
theorem gen_estimatedCostSpecific_polyline (k : AdaptaVerif.Model.EstimateKeys.ConnK) (hk : k.connType = 1)
    (last : Option Pt) (curr tar : Pt) (dirs : Nat) (euclid : Pt → Pt → Rat) :
    AdaptaVerif.Gen.Makepath.estimatedCostSpecific k last curr tar dirs euclid = euclid curr tar ∧
    AdaptaVerif.Gen.Makepath.estimatedCostSpecific_pre k last curr tar dirs euclid = true := by
  simp [AdaptaVerif.Gen.Makepath.estimatedCostSpecific, AdaptaVerif.Gen.Makepath.estimatedCostSpecific_pre, hk]

end AdaptaVerif.Props.C05Tie
