import AdaptaVerif.Lemmas.Compound
/-
C07 — libcola: layout output satisfies every compound constraint or reports it unsatisfiable.

Theorems (all parameters, all list sizes, both dimensions):
* `gen_sound_<type>`   : any assignment of (node + auxiliary) variables satisfying the vpsc
                         constraints generated for the type satisfies the documented meaning;
* `gen_complete_<type>`: any node placement with the documented meaning extends to the auxiliary
                         variables so that the generated constraints hold (an "unsatisfiable" report
                         is never an artefact of the encoding);
* `convex_step`        : the feasible set of a set of separation constraints is convex — the
                         line-search update `old − stepsize·(old − projected)`, stepsize ∈ [0,1],
                         of `applyForcesAndConstraints` / the `beta` step of GradientProjection stay feasible;
* `check_*`            : the executable checkers used on the implementation's final rectangles
                         decide exactly the `…Tol` specifications, and those imply the documented
                         meaning up to the tolerance;
* `runItems_*`         : the model's exception-aware generation loop yields exactly the per-type
                         constraint lists when no index is invalid.
The generated lists themselves are tied to the C++ by exact comparison (Driver/C07.lean, gen-* cases).
-/
namespace AdaptaVerif.Props.C07
open AdaptaVerif.Model.Compound AdaptaVerif.Spec.Compound AdaptaVerif.Check.Layout
open AdaptaVerif.Lemmas.Compound

/-! ### BoundaryConstraint -/

theorem gen_sound_boundary (v : Nat) (offs : List (Nat × Rat)) (a : Asg)
    (h : AllHold (boundarySeps v offs) a) : BoundaryMeaning offs a := by
  refine ⟨a v, fun p hp => ?_⟩
  have hp' := (allHold_map _ offs a).mp h p hp
  constructor
  · intro hneg
    simp only [hneg, if_true, Holds] at hp'
    simp at hp'
    linarith
  · intro hneg
    simp only [hneg, if_false, Holds] at hp'
    simpa using hp'

example : AllHold (boundarySeps 2 [(0, -3), (1, 4)]) (fun i => if i = 0 then 0 else if i = 1 then 10 else 5) := by
  intro c hc; simp [boundarySeps] at hc; rcases hc with rfl | rfl <;> simp [Holds] <;> norm_num

theorem gen_complete_boundary (v : Nat) (offs : List (Nat × Rat)) (x : Asg)
    (hv : ∀ p ∈ offs, p.1 ≠ v) (h : BoundaryMeaning offs x) :
    ∃ a : Asg, AgreeOff [v] a x ∧ AllHold (boundarySeps v offs) a := by
  obtain ⟨b, hb⟩ := h
  refine ⟨update x v b, ?_, ?_⟩
  · intro i hi
    exact update_other x v b i (by simpa using hi)
  · refine (allHold_map _ offs _).mpr (fun p hp => ?_)
    have h1 := hb p hp
    have hne := hv p hp
    by_cases hneg : p.2 < 0
    · simp only [hneg, if_true, Holds]
      simp only [Bool.false_eq_true, if_false, update_same, update_other x v b p.1 hne]
      have := h1.1 hneg; linarith
    · simp only [hneg, if_false, Holds]
      simp only [Bool.false_eq_true, if_false, update_same, update_other x v b p.1 hne]
      exact h1.2 hneg

example : BoundaryMeaning [(0, -3), (1, 4)] (fun i => if i = 0 then 0 else 10) := by
  refine ⟨5, fun p hp => ?_⟩
  simp at hp; rcases hp with rfl | rfl <;> simp <;> norm_num

/-- aux-free form of the boundary meaning (what the checker decides), with tolerance:
    the pairwise condition yields a separating line -/
theorem boundaryTol_line (tol : Rat) (x : Asg) (offs : List (Nat × Rat)) (h : BoundaryTol tol x offs) :
    ∃ b : Rat, ∀ p ∈ offs, (p.2 < 0 → x p.1 - p.2 ≤ b) ∧ (¬ p.2 < 0 → b + p.2 ≤ x p.1 + tol) := by
  obtain ⟨b, hb1, hb2⟩ := exists_between
    ((offs.filter fun p => decide (p.2 < 0)).map fun p => x p.1 - p.2)
    ((offs.filter fun p => !decide (p.2 < 0)).map fun p => x p.1 - p.2) tol
    (by
      intro l hl r hr
      simp only [List.mem_map, List.mem_filter] at hl hr
      obtain ⟨p, ⟨hp, hpn⟩, rfl⟩ := hl
      obtain ⟨q, ⟨hq, hqn⟩, rfl⟩ := hr
      have := h p hp q hq (by simpa using hpn) (by simpa using hqn)
      linarith)
  refine ⟨b, fun p hp => ⟨fun hneg => ?_, fun hneg => ?_⟩⟩
  · apply hb1
    simp only [List.mem_map, List.mem_filter]
    exact ⟨p, ⟨hp, by simpa using hneg⟩, rfl⟩
  · have := hb2 (x p.1 - p.2) (by
      simp only [List.mem_map, List.mem_filter]
      exact ⟨p, ⟨hp, by simpa using hneg⟩, rfl⟩)
    linarith

theorem boundary_pairwise (x : Asg) (offs : List (Nat × Rat)) :
    BoundaryMeaning offs x ↔ BoundaryTol 0 x offs := by
  constructor
  · rintro ⟨b, hb⟩ p hp q hq hpn hqn
    have h1 := (hb p hp).1 hpn
    have h2 := (hb q hq).2 hqn
    linarith
  · intro h
    obtain ⟨b, hb⟩ := boundaryTol_line 0 x offs h
    refine ⟨b, fun p hp => ⟨fun hneg => ?_, fun hneg => ?_⟩⟩
    · have := (hb p hp).1 hneg; linarith
    · have := (hb p hp).2 hneg; linarith

/-! ### AlignmentConstraint -/

theorem gen_sound_alignment (v : Nat) (offs : List (Nat × Rat)) (a : Asg)
    (h : AllHold (alignmentSeps v offs) a) : IsGuide offs a (a v) ∧ AlignmentMeaning offs a := by
  have hg : IsGuide offs a (a v) := by
    intro p hp
    have hp' := (allHold_map _ offs a).mp h p hp
    simp only [Holds, if_true] at hp'
    exact hp'.symm
  exact ⟨hg, a v, hg⟩

theorem gen_complete_alignment (v : Nat) (offs : List (Nat × Rat)) (x : Asg)
    (hv : ∀ p ∈ offs, p.1 ≠ v) (g : Rat) (h : IsGuide offs x g) :
    ∃ a : Asg, AgreeOff [v] a x ∧ a v = g ∧ AllHold (alignmentSeps v offs) a := by
  refine ⟨update x v g, ?_, update_same x v g, ?_⟩
  · intro i hi
    exact update_other x v g i (by simpa using hi)
  · refine (allHold_map _ offs _).mpr (fun p hp => ?_)
    simp only [Holds, if_true, update_same, update_other x v g p.1 (hv p hp)]
    exact (h p hp).symm

example : IsGuide [(0, 1), (1, 2)] (fun i => if i = 0 then 4 else 5) 3 := by
  intro p hp; simp at hp; rcases hp with rfl | rfl <;> simp <;> norm_num

theorem alignment_pairwise (x : Asg) (offs : List (Nat × Rat)) :
    AlignmentMeaning offs x ↔ AlignmentTol 0 x offs := by
  constructor
  · rintro ⟨g, hg⟩ p hp q hq
    have h1 := hg p hp
    have h2 := hg q hq
    constructor <;> linarith
  · intro h
    cases offs with
    | nil => exact ⟨0, by simp⟩
    | cons p0 t =>
      refine ⟨x p0.1 - p0.2, fun p hp => ?_⟩
      have := h p hp p0 List.mem_cons_self
      obtain ⟨h1, h2⟩ := this
      linarith

/-- within a tolerance: every shape is within `tol` of the guideline read off the first shape -/
theorem alignmentTol_guide (tol : Rat) (x : Asg) (p0 : Nat × Rat) (t : List (Nat × Rat))
    (h : AlignmentTol tol x (p0 :: t)) :
    ∀ p ∈ p0 :: t, NearEq tol (x p.1) ((x p0.1 - p0.2) + p.2) := by
  intro p hp
  obtain ⟨h1, h2⟩ := h p hp p0 List.mem_cons_self
  constructor <;> linarith

/-! ### SeparationConstraint (two shapes; or two guidelines) -/

theorem gen_sound_separation (l r : Nat) (gap : Rat) (eq : Bool) (a : Asg) :
    AllHold (separationSeps l r gap eq) a ↔ GapMeaning eq (a l) gap (a r) := by
  simp [AllHold, separationSeps, Holds, GapMeaning]

/-- no auxiliary variable is involved, so completeness is the converse direction -/
theorem gen_complete_separation (l r : Nat) (gap : Rat) (eq : Bool) (x : Asg)
    (h : GapMeaning eq (x l) gap (x r)) : AllHold (separationSeps l r gap eq) x :=
  (gen_sound_separation l r gap eq x).mpr h

/-- separation between two alignments: the three generated groups together force the gap between
    the guideline positions read off any two shapes -/
theorem gen_sound_sepAlign (vl vr : Nat) (offsL offsR : List (Nat × Rat)) (gap : Rat) (eq : Bool) (a : Asg)
    (hL : AllHold (alignmentSeps vl offsL) a) (hR : AllHold (alignmentSeps vr offsR) a)
    (hS : AllHold (separationSeps vl vr gap eq) a) :
    GapMeaning eq (a vl) gap (a vr) ∧ GuidesTol 0 a offsL offsR gap eq := by
  have hs := (gen_sound_separation vl vr gap eq a).mp hS
  refine ⟨hs, fun p hp q hq => ?_⟩
  have h1 := (gen_sound_alignment vl offsL a hL).1 p hp
  have h2 := (gen_sound_alignment vr offsR a hR).1 q hq
  unfold GapMeaning at hs
  unfold GapTol NearEq
  cases eq
  · simp only [Bool.false_eq_true, if_false] at hs ⊢; linarith
  · simp only [if_true] at hs ⊢; constructor <;> linarith

theorem gen_complete_sepAlign (vl vr : Nat) (offsL offsR : List (Nat × Rat)) (gap : Rat) (eq : Bool)
    (x : Asg) (gl gr : Rat) (hne : vl ≠ vr)
    (hvl : ∀ p ∈ offsL ++ offsR, p.1 ≠ vl) (hvr : ∀ p ∈ offsL ++ offsR, p.1 ≠ vr)
    (hL : IsGuide offsL x gl) (hR : IsGuide offsR x gr) (hS : GapMeaning eq gl gap gr) :
    ∃ a : Asg, AgreeOff [vl, vr] a x ∧ AllHold (alignmentSeps vl offsL) a ∧
      AllHold (alignmentSeps vr offsR) a ∧ AllHold (separationSeps vl vr gap eq) a := by
  let a : Asg := update (update x vl gl) vr gr
  have avl : a vl = gl := by
    show update (update x vl gl) vr gr vl = gl
    rw [update_other _ _ _ _ hne, update_same]
  have avr : a vr = gr := update_same _ _ _
  have anode : ∀ i, i ≠ vl → i ≠ vr → a i = x i := by
    intro i h1 h2
    show update (update x vl gl) vr gr i = x i
    rw [update_other _ _ _ _ h2, update_other _ _ _ _ h1]
  refine ⟨a, ?_, ?_, ?_, ?_⟩
  · intro i hi
    simp only [List.mem_cons, List.mem_nil_iff, or_false, not_or] at hi
    exact anode i hi.1 hi.2
  · refine (allHold_map _ offsL _).mpr (fun p hp => ?_)
    have hp' : p ∈ offsL ++ offsR := List.mem_append_left _ hp
    simp only [Holds, if_true, avl, anode p.1 (hvl p hp') (hvr p hp')]
    exact (hL p hp).symm
  · refine (allHold_map _ offsR _).mpr (fun p hp => ?_)
    have hp' : p ∈ offsL ++ offsR := List.mem_append_right _ hp
    simp only [Holds, if_true, avr, anode p.1 (hvl p hp') (hvr p hp')]
    exact (hR p hp).symm
  · rw [gen_sound_separation, avl, avr]; exact hS

/-! ### MultiSeparationConstraint / DistributionConstraint (over guideline variables) -/

theorem gen_sound_multiSep (ids : List (Nat × Nat)) (sep : Rat) (eq : Bool) (a : Asg) :
    AllHold (multiSeps ids sep eq) a ↔ PairsMeaning ids sep eq a := by
  unfold multiSeps PairsMeaning
  rw [allHold_map]
  simp [Holds, GapMeaning]

theorem gen_complete_multiSep (ids : List (Nat × Nat)) (sep : Rat) (eq : Bool) (g : Asg)
    (h : PairsMeaning ids sep eq g) : AllHold (multiSeps ids sep eq) g :=
  (gen_sound_multiSep ids sep eq g).mpr h

/-- DistributionConstraint = multi-separation with equality: consecutive guidelines exactly `sep` apart -/
theorem gen_sound_distribution (ids : List (Nat × Nat)) (sep : Rat) (a : Asg) :
    AllHold (multiSeps ids sep true) a ↔ ∀ p ∈ ids, a p.2 = a p.1 + sep := by
  rw [gen_sound_multiSep]
  unfold PairsMeaning GapMeaning
  simp only [if_true]
  constructor
  · intro h p hp; exact (h p hp).symm
  · intro h p hp; exact (h p hp).symm

theorem gen_complete_distribution (ids : List (Nat × Nat)) (sep : Rat) (g : Asg)
    (h : ∀ p ∈ ids, g p.2 = g p.1 + sep) : AllHold (multiSeps ids sep true) g :=
  (gen_sound_distribution ids sep g).mpr h

/-! ### FixedRelativeConstraint -/

theorem gen_sound_fixedRelative (dim : Dim) (rel : List RelOff) (a : Asg) :
    AllHold (fixedRelSeps dim rel) a ↔ FixedRelMeaning dim rel a := by
  unfold fixedRelSeps FixedRelMeaning
  rw [allHold_map]
  simp only [List.mem_filter, decide_eq_true_eq, Holds, if_true]
  constructor
  · intro h o ho hd; exact (h o ⟨ho, hd⟩).symm
  · rintro h o ⟨ho, hd⟩; exact (h o ho hd).symm

theorem gen_complete_fixedRelative (dim : Dim) (rel : List RelOff) (x : Asg)
    (h : FixedRelMeaning dim rel x) : AllHold (fixedRelSeps dim rel) x :=
  (gen_sound_fixedRelative dim rel x).mpr h

/-- the constructor captures the current centre differences, so the start placement satisfies it -/
theorem fixedRel_initially_satisfied (rs : Array Rect) (ids : List Nat) (dim : Dim) :
    FixedRelMeaning dim (fixedRelOffsets rs ids) (fun i => (rs.getD i default).centre dim) := by
  unfold FixedRelMeaning fixedRelOffsets
  cases sortDedup ids with
  | nil => simp
  | cons f rest =>
    intro o ho hd
    simp only [List.mem_flatMap, List.mem_cons, List.mem_nil_iff, or_false] at ho
    obtain ⟨t, _, h | h⟩ := ho
    · subst h; simp only at hd ⊢; subst hd; linarith
    · subst h; simp only at hd ⊢; subst hd; linarith

/-! ### PageBoundaryConstraints -/

theorem gen_sound_pageBoundary (dim : Dim) (l r : Nat) (shapes : List (Nat × Rat × Rat)) (a : Asg) :
    AllHold (pageSeps dim (some l) (some r) shapes) a ↔ PageMeaning dim shapes a (a l) (a r) := by
  unfold pageSeps PageMeaning
  rw [allHold_flatMap]
  constructor
  · intro h s hs
    have := h s hs
    simp only [List.cons_append, List.nil_append, AllHold, List.mem_cons, List.mem_nil_iff, or_false] at this
    have h1 := this _ (Or.inl rfl)
    have h2 := this _ (Or.inr rfl)
    simp only [Holds, Bool.false_eq_true, if_false] at h1 h2
    exact ⟨h1, h2⟩
  · intro h s hs c hc
    simp only [List.cons_append, List.nil_append, List.mem_cons, List.mem_nil_iff, or_false] at hc
    have := h s hs
    rcases hc with rfl | rfl
    · simp only [Holds, Bool.false_eq_true, if_false]; exact this.1
    · simp only [Holds, Bool.false_eq_true, if_false]; exact this.2

/-- the page boundary never makes a placement infeasible: for *every* placement of the shapes the
    two boundary variables can be chosen so that all generated constraints hold -/
theorem gen_complete_pageBoundary (dim : Dim) (l r : Nat) (shapes : List (Nat × Rat × Rat)) (x : Asg)
    (hne : l ≠ r) (hl : ∀ s ∈ shapes, s.1 ≠ l) (hr : ∀ s ∈ shapes, s.1 ≠ r) :
    ∃ a : Asg, AgreeOff [l, r] a x ∧ AllHold (pageSeps dim (some l) (some r) shapes) a := by
  let half : (Nat × Rat × Rat) → Rat := fun s => match dim with | .x => s.2.1 | .y => s.2.2
  obtain ⟨lo, hlo⟩ := exists_lower (shapes.map fun s => x s.1 - half s) 0
  obtain ⟨hi, hhi, _⟩ := exists_between (shapes.map fun s => x s.1 + half s) [] 0 (by simp)
  let a : Asg := update (update x l lo) r hi
  have al : a l = lo := by
    show update (update x l lo) r hi l = lo
    rw [update_other _ _ _ _ hne, update_same]
  have ar : a r = hi := update_same _ _ _
  have anode : ∀ i, i ≠ l → i ≠ r → a i = x i := by
    intro i h1 h2
    show update (update x l lo) r hi i = x i
    rw [update_other _ _ _ _ h2, update_other _ _ _ _ h1]
  refine ⟨a, ?_, ?_⟩
  · intro i hi'
    simp only [List.mem_cons, List.mem_nil_iff, or_false, not_or] at hi'
    exact anode i hi'.1 hi'.2
  · rw [gen_sound_pageBoundary, al, ar]
    intro s hs
    rw [anode s.1 (hl s hs) (hr s hs)]
    have h1 := hlo (x s.1 - half s) (List.mem_map.mpr ⟨s, hs, rfl⟩)
    have h2 := hhi (x s.1 + half s) (List.mem_map.mpr ⟨s, hs, rfl⟩)
    constructor
    · show lo + half s ≤ x s.1; linarith
    · show x s.1 + half s ≤ hi; exact h2

/-! ### convexity of the feasible region (descent steps) -/

theorem convex_step (cs : List Sep) (old proj : Asg) (t : Rat) (h0 : 0 ≤ t) (h1 : t ≤ 1)
    (hOld : AllHold cs old) (hProj : AllHold cs proj) : AllHold cs (step old proj t) := by
  intro c hc
  have ho := hOld c hc
  have hp := hProj c hc
  unfold Holds step at *
  cases hce : c.eq
  · simp only [hce, Bool.false_eq_true, if_false] at ho hp ⊢
    nlinarith [mul_nonneg h0 (sub_nonneg.mpr hp), mul_nonneg (sub_nonneg.mpr h1) (sub_nonneg.mpr ho)]
  · simp only [hce, if_true] at ho hp ⊢
    have : old c.right - proj c.right = old c.left - proj c.left := by linarith
    rw [this]; linarith

example : AllHold [⟨0, 1, 2, false⟩] (step (fun i => if i = 0 then 0 else 5) (fun i => if i = 0 then 1 else 3) (1/2)) :=
  convex_step _ _ _ _ (by norm_num) (by norm_num)
    (by intro c hc; simp at hc; subst hc; simp [Holds]; norm_num)
    (by intro c hc; simp at hc; subst hc; simp [Holds]; norm_num)

/-! ### the generation loop of the model -/

theorem runItems_ok (nvars cc : Nat) (items : List Item) (acc res : List Sep)
    (h : runItems nvars cc items acc = (res, none)) : res = acc ++ items.flatMap Item.seps := by
  induction items generalizing acc with
  | nil => simp [runItems] at h; simp [h]
  | cons it rest ih =>
    cases it with
    | bad => simp [runItems] at h
    | ok ids seps =>
      simp only [runItems] at h
      split at h
      · simp at h
      · have := ih _ h
        simp [this, Item.seps, List.append_assoc]

theorem runItems_valid (nvars cc : Nat) (items : List Item) (acc : List Sep)
    (hv : ∀ it ∈ items, ∃ ids seps, it = .ok ids seps ∧ ∀ i ∈ ids, i < nvars) :
    runItems nvars cc items acc = (acc ++ items.flatMap Item.seps, none) := by
  induction items generalizing acc with
  | nil => simp [runItems]
  | cons it rest ih =>
    obtain ⟨ids, seps, rfl, hids⟩ := hv it List.mem_cons_self
    have hnone : firstInvalid nvars ids = none := by
      unfold firstInvalid
      rw [List.find?_eq_none]
      intro i hi
      simp only [decide_eq_true_eq, not_le]
      exact hids i hi
    simp only [runItems, hnone]
    rw [ih _ (fun it hit => hv it (List.mem_cons_of_mem _ hit))]
    simp [Item.seps, List.append_assoc]

/-- without an exception, the dispatcher `itemsOf` yields exactly the per-type constraint lists
    the `gen_sound_*` / `gen_complete_*` theorems are about -/
theorem itemsOf_boundary (d : Dim) (aux : List Aux) (idx v : Nat) (pos : Rat) (offs : List (Nat × Rat))
    (h : guideOf aux idx = some v) :
    (itemsOf d aux idx (.boundary d pos offs)).map (fun l => l.flatMap Item.seps) = some (boundarySeps v offs) := by
  simp only [itemsOf, h, boundarySeps, Item.seps, List.flatMap_map, if_true, Option.map_some, List.map_cons, List.map_nil]
  rw [flatMap_single]

theorem itemsOf_alignment (d : Dim) (aux : List Aux) (idx v : Nat) (pos : Rat) (f : Bool) (offs : List (Nat × Rat))
    (h : guideOf aux idx = some v) :
    (itemsOf d aux idx (.alignment d pos f offs)).map (fun l => l.flatMap Item.seps) = some (alignmentSeps v offs) := by
  simp only [itemsOf, h, alignmentSeps, Item.seps, List.flatMap_map, if_true, Option.map_some, List.map_cons, List.map_nil]
  rw [flatMap_single]

theorem itemsOf_separation (d : Dim) (aux : List Aux) (idx l r : Nat) (gap : Rat) (eq : Bool) :
    (itemsOf d aux idx (.separation d l r gap eq)).map (fun l => l.flatMap Item.seps) = some (separationSeps l r gap eq) := by
  simp [itemsOf, Item.seps]

theorem itemsOf_sepAlign (d : Dim) (aux : List Aux) (idx l r vl vr : Nat) (gap : Rat) (eq : Bool)
    (hl : guideOf aux l = some vl) (hr : guideOf aux r = some vr) :
    (itemsOf d aux idx (.sepAlign d l r gap eq)).map (fun l => l.flatMap Item.seps) = some (separationSeps vl vr gap eq) := by
  simp [itemsOf, hl, hr, Item.seps]

theorem itemsOf_fixedRel (d : Dim) (aux : List Aux) (idx : Nat) (fp : Bool) (sv : List Nat) (rel : List RelOff) :
    (itemsOf d aux idx (.fixedRel fp sv rel)).map (fun l => l.flatMap Item.seps) = some (fixedRelSeps d rel) := by
  simp only [itemsOf, Option.map_some, Option.some.injEq, List.flatMap_map, Item.seps]
  unfold fixedRelSeps
  induction rel with
  | nil => simp
  | cons o t ih =>
    by_cases ho : o.dim = d
    · simp [List.filter_cons, ho] at ih ⊢; exact ih
    · simp [List.filter_cons, ho] at ih ⊢; exact ih

theorem itemsOf_pageBounds (d : Dim) (aux : List Aux) (idx : Nat) (a b c e w : Rat) (shapes : List (Nat × Rat × Rat)) :
    (itemsOf d aux idx (.pageBounds a b c e w shapes)).map (fun l => l.flatMap Item.seps)
      = some (pageSeps d (aux.getD idx {}).pageL (aux.getD idx {}).pageR shapes) := by
  simp only [itemsOf, Option.map_some, Option.some.injEq, List.flatMap_map, Item.seps]
  unfold pageSeps
  simp

/-! ### checkers on the final rectangles -/

theorem check_boundary_iff (tol : Rat) (x : Asg) (offs : List (Nat × Rat)) :
    checkBoundary tol x offs = true ↔ BoundaryTol tol x offs := by
  unfold checkBoundary BoundaryTol
  simp only [List.all_eq_true]
  constructor
  · intro h p hp q hq hpn hqn
    have := h p hp q hq
    simpa [hpn, hqn] using this
  · intro h p hp q hq
    by_cases hc : p.2 < 0 ∧ ¬ q.2 < 0
    · simp only [hc, not_false_eq_true, and_self, if_true, decide_eq_true_eq]
      exact h p hp q hq hc.1 hc.2
    · rw [if_neg hc]

theorem check_alignment_iff (tol : Rat) (x : Asg) (offs : List (Nat × Rat)) :
    checkAlignment tol x offs = true ↔ AlignmentTol tol x offs := by
  unfold checkAlignment AlignmentTol NearEq
  simp only [List.all_eq_true, decide_eq_true_eq, absR_le_iff]
  constructor
  · intro h p hp q hq
    have := h p hp q hq
    constructor <;> linarith [this.1, this.2]
  · intro h p hp q hq
    have := h p hp q hq
    constructor <;> linarith [this.1, this.2]

theorem check_separation_iff (tol : Rat) (x : Asg) (l r : Nat) (gap : Rat) (eq : Bool) :
    checkSeparation tol x l r gap eq = true ↔ GapTol tol eq (x l) gap (x r) :=
  sepOk_iff tol eq (x l) gap (x r)

theorem check_guides_iff (tol : Rat) (x : Asg) (offsL offsR : List (Nat × Rat)) (gap : Rat) (eq : Bool) :
    checkGuides tol x offsL offsR gap eq = true ↔ GuidesTol tol x offsL offsR gap eq := by
  unfold checkGuides GuidesTol
  simp only [List.all_eq_true, sepOk_iff]

theorem check_fixedRel_iff (tol : Rat) (pos : Dim → Asg) (rel : List RelOff) :
    checkFixedRel tol pos rel = true ↔ FixedRelTol tol pos rel := by
  unfold checkFixedRel FixedRelTol NearEq
  simp only [List.all_eq_true, decide_eq_true_eq, absR_le_iff]
  constructor
  · intro h o ho; have := h o ho; constructor <;> linarith [this.1, this.2]
  · intro h o ho; have := h o ho; constructor <;> linarith [this.1, this.2]

/-- with zero tolerance the checked statements are the exact meanings -/
theorem gapTol_zero (eq : Bool) (l gap r : Rat) : GapTol 0 eq l gap r ↔ GapMeaning eq l gap r := by
  unfold GapTol GapMeaning NearEq
  cases eq
  · simp
  · simp only [if_true]
    constructor
    · rintro ⟨h1, h2⟩; linarith
    · intro h; constructor <;> linarith

theorem fixedRelTol_zero (pos : Dim → Asg) (rel : List RelOff) :
    FixedRelTol 0 pos rel ↔ ∀ d, FixedRelMeaning d rel (pos d) := by
  unfold FixedRelTol FixedRelMeaning NearEq
  constructor
  · intro h d o ho hd
    obtain ⟨h1, h2⟩ := h o ho
    subst hd; linarith
  · intro h o ho
    have := h o.dim o ho rfl
    constructor <;> linarith

/-- the driver's verdict: an empty `violated` list means that every compound constraint which is
    not reported (itself or through an alignment it refers to) passes its checker -/
theorem violated_nil (tol : Rat) (ccs : List CC) (pos : Dim → Asg) (reported : List Nat)
    (h : violated tol ccs pos reported = []) (j : Nat) (cc : CC) (hj : ccs[j]? = some cc)
    (hr : reported.contains j = false) (hrefs : (ccRefs cc).any reported.contains = false) :
    checkCC tol ccs pos cc = true := by
  unfold violated at h
  rw [List.filter_eq_nil_iff] at h
  have hlt : j < ccs.length := by
    rcases Nat.lt_or_ge j ccs.length with h' | h'
    · exact h'
    · rw [List.getElem?_eq_none h'] at hj; cases hj
  have := h j (List.mem_range.mpr hlt)
  simp only [hj, hr, hrefs, Bool.not_false, Bool.true_and, Bool.not_eq_true', Bool.not_eq_false] at this
  simpa using this

theorem sizesSame_iff (b a : List (Rat × Rat)) : sizesSame b a = true ↔ b = a := by
  unfold sizesSame; simp

end AdaptaVerif.Props.C07
