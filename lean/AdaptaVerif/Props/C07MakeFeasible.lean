/-
C07 / C08 — the control flow of `ConstrainedFDLayout::makeFeasible` (Model/MakeFeasible.lean).

Theorems only.  They quantify over ALL work lists (any number of compound constraints, sub-constraints,
alternatives, any data) — the model is the priority loop of makeFeasible over the IncSolver model of
Model/Vpsc.lean.  The model is tied to the C++ on every run by the C07 harness/driver: the `satisfied`
flags of every sub-constraint, the final rectangles and (with tools/briefs/hook_c07.patch) the whole trial
log are compared exactly whenever every solver decision was clear of rounding noise.

What is shown
  * `makeFeasible_accepted_hold` — every constraint makeFeasible keeps (`valid[dim]`) holds to the solver's
    tolerance at a position vector that agrees with the returned node positions (work lists whose combined
    items raise no flag);
  * `accepted_trial_kept`, `marked_satisfied_has_accepted_trial` — a sub-constraint is marked satisfied only
    through an accepted trial whose constraint is kept (or it belongs to a combined item);
  * `trial_accepted_iff`, `makeFeasible_dropped_only_if_flagged` — a sub-constraint is dropped only if every
    one of its alternatives was tried and each trial ended with an `unsatisfiable` flag somewhere in
    `valid[dim]` (or `satisfy()` threw);
  * `violated_unreported_iff_dropped` — the characterisation that narrows the known finding
    `C07-makeFeasible-no-report`: in the model, "violated after makeFeasible" happens ONLY to dropped
    sub-constraints (and to what a combined, unchecked FixedRelativeConstraint solve flagged);
  * closed witnesses (kernel-evaluated, and replayed against the real library by the harness classes
    `mfwit-*`): a SATISFIABLE two-node scene in which makeFeasible drops a constraint
    (`satisfiable_scene_dropped`), that the same scene in the other order is accepted
    (`drop_depends_on_order`), that the drop is the SOLVER's flag on a consistent equality
    (`solver_flags_consistent_equality`), and that a combined item silently breaks an accepted constraint
    while everything is marked satisfied (`combined_breaks_accepted`).
-/
import AdaptaVerif.Lemmas.MakeFeasibleLog
import AdaptaVerif.Lemmas.MakeFeasibleInv
import AdaptaVerif.Lemmas.MakeFeasibleDrop
import AdaptaVerif.Lemmas.MakeFeasibleNoc
import AdaptaVerif.Lemmas.MakeFeasibleEq
namespace AdaptaVerif.Props.C07MakeFeasible
open AdaptaVerif.Model.MakeFeasible AdaptaVerif.Model.Vpsc
open AdaptaVerif.Model.Compound (Dim Rect CC mkFixedRel)
open AdaptaVerif.Lemmas.MakeFeasibleLog AdaptaVerif.Lemmas.MakeFeasibleInv
open AdaptaVerif.Lemmas.MakeFeasibleDrop AdaptaVerif.Lemmas.MakeFeasibleNoc AdaptaVerif.Lemmas.MakeFeasibleEq
open AdaptaVerif.Spec.Vpsc (Feasible PosCycle)
open AdaptaVerif.Lemmas.VpscFlag (toC)

/-! ## (1) accepted constraints hold -/

/-- **makeFeasible_accepted_hold**: for every well-formed work list, if no combined (unchecked) solve left an
    `unsatisfiable` flag behind and the run neither escaped nor ran out of fuel, then in each dimension there
    is a position vector `g` that agrees with the returned positions of the `n` node variables and at which
    EVERY constraint kept in `valid[dim]` has slack ≥ ZERO_UPPERBOUND (= −1e-10).  (`g` is existential
    because a rejected trial restores the node variables only: the auxiliary variables of alignments and
    boundaries keep the values of the failed solve, `g` is the vector of the last kept solve.) -/
theorem makeFeasible_accepted_hold (n : Nat) (vx vy : Array (Rat × Rat × Rat)) (items : List Item)
    (hwf : itemsWf vx.size vy.size items = true)
    (hclean : (makeFeasible n vx vy items).combineFlags = #[])
    (hesc : (makeFeasible n vx vy items).escaped = false)
    (hfuel : (makeFeasible n vx vy items).fuelOut = false) (d : Dim) :
    ∃ g : Array Rat, (∀ i : Nat, i < n → g[i]! = (makeFeasible n vx vy items).nodePos d i) ∧
      ∀ c ∈ ((makeFeasible n vx vy items).dim d).valid,
        ZERO_UPPERBOUND ≤ slackOf ((makeFeasible n vx vy items).dim d).vars g c := by
  have h := makeFeasible_good n vx vy items hwf hclean hesc hfuel
  cases d with
  | x =>
    obtain ⟨g, _, hg, hc⟩ := h.1.wit
    exact ⟨g, fun i hi => by rw [hg i (by rw [h.2.2.2.2] at *; exact hi)]; rfl, hc⟩
  | y =>
    obtain ⟨g, _, hg, hc⟩ := h.2.1.wit
    exact ⟨g, fun i hi => by rw [hg i (by rw [h.2.2.2.2] at *; exact hi)]; rfl, hc⟩

/-- **kept_equalities_exact**: with non-zero scales (they are all 1 in makeFeasible) the SAME witness vector
    satisfies every kept inequality to −1e-10 and every kept EQUALITY exactly (`slack = 0`): accepted alignment,
    distribution, equality-separation and fixed-relative constraints hold exactly at the returned node positions
    (through `Hist`, `Final`, `final_eq` of the IncSolver model, applied at in-range indices only). -/
theorem kept_equalities_exact (n : Nat) (vx vy : Array (Rat × Rat × Rat)) (items : List Item)
    (hwf : itemsWf vx.size vy.size items = true)
    (hsx : ∀ i : Nat, i < vx.size → (vx[i]!).2.2 ≠ 0) (hsy : ∀ i : Nat, i < vy.size → (vy[i]!).2.2 ≠ 0)
    (hclean : (makeFeasible n vx vy items).combineFlags = #[])
    (hesc : (makeFeasible n vx vy items).escaped = false)
    (hfuel : (makeFeasible n vx vy items).fuelOut = false) (d : Dim) :
    ∃ g : Array Rat, (∀ i : Nat, i < n → g[i]! = (makeFeasible n vx vy items).nodePos d i) ∧
      ∀ c ∈ ((makeFeasible n vx vy items).dim d).valid,
        ZERO_UPPERBOUND ≤ slackOf ((makeFeasible n vx vy items).dim d).vars g c ∧
        (c.eq = true → slackOf ((makeFeasible n vx vy items).dim d).vars g c = 0) :=
  makeFeasible_good_eq n vx vy items hwf hsx hsy hclean hesc hfuel d

/-- the constraint of every accepted trial is kept in `valid` of its dimension until the end
    (`valid[dim]` is popped only for the constraint just rejected) -/
theorem accepted_trial_kept (n : Nat) (vx vy : Array (Rat × Rat × Rat)) (items : List Item) :
    ∀ t ∈ (makeFeasible n vx vy items).log, t.accepted = true →
      t.con ∈ ((makeFeasible n vx vy items).dim t.dim).valid :=
  (makeFeasible_logOk n vx vy items).kept

/-- a sub-constraint is marked satisfied (`_subConstraintInfo[i]->satisfied = true`) only through an accepted
    trial of that sub-constraint — or because it belongs to a combined item, which is marked without trial -/
theorem marked_satisfied_has_accepted_trial (n : Nat) (vx vy : Array (Rat × Rat × Rat)) (items : List Item) :
    ∀ m ∈ (makeFeasible n vx vy items).marks, m.2.2 = true →
      (∃ t ∈ (makeFeasible n vx vy items).log, t.cc = m.1 ∧ t.sub = m.2.1 ∧ t.accepted = true) ∨
      m.1 ∈ combinedCCs items :=
  makeFeasible_marks_true n vx vy items

/-! ## (2) dropped only if flagged -/

/-- one trial is accepted iff `satisfy()` returned normally and NO constraint of `valid[dim]` (the new one
    included) carries the `unsatisfiable` flag afterwards -/
theorem trial_accepted_iff (n : Nat) (ds : DimSt) (c : Con) (own : Nat × Nat) :
    (ds.tryCon n c own).accepted = true ↔
      (∃ pos ret, ((ds.solverFor c).satisfy).2 = .ok pos ret) ∧
      ((ds.solverFor c).satisfy).1.cons.any (·.unsat) = false :=
  tryCon_accept_iff n ds c own

/-- **makeFeasible_dropped_only_if_flagged**: a sub-constraint ends up dropped (marked unsatisfied) only if
    a trial of it was rejected, and every rejected trial of the whole run saw an `unsatisfiable` flag in
    `valid[dim]` after the solve, or `satisfy()` did not return (threw) -/
theorem makeFeasible_dropped_only_if_flagged (n : Nat) (vx vy : Array (Rat × Rat × Rat)) (items : List Item) :
    (∀ p ∈ (makeFeasible n vx vy items).dropped,
      ∃ t ∈ (makeFeasible n vx vy items).log, t.cc = p.1 ∧ t.sub = p.2 ∧ t.accepted = false) ∧
    (∀ t ∈ (makeFeasible n vx vy items).log, t.accepted = false → t.flagged = true ∨ t.returned = false) ∧
    (∀ t ∈ (makeFeasible n vx vy items).log, t.accepted = true → t.flagged = false ∧ t.returned = true) :=
  ⟨makeFeasible_dropped n vx vy items,
   fun t ht => ((makeFeasible_logOk n vx vy items).fields t ht).2,
   fun t ht => ((makeFeasible_logOk n vx vy items).fields t ht).1⟩

/-- the alternatives loop of one sub-constraint: if it ends with `subConstraintSatisfiable = false`, EVERY
    alternative was tried, in order, and rejected (all states `mf`, all alternative lists) -/
theorem alternatives_exhausted (mf : MF) (cc sub : Nat) (alts : List Alt)
    (h : (mf.tryAlts cc sub 0 alts).2 = false) (j : Nat) (hj : j < alts.length) :
    ∃ t ∈ (mf.tryAlts cc sub 0 alts).1.log,
      t.cc = cc ∧ t.sub = sub ∧ t.alt = j ∧ t.con = alts[j].con ∧ t.dim = alts[j].dim ∧ t.accepted = false := by
  obtain ⟨t, ht, h1, h2, h3, h4⟩ := tryAlts_false cc sub alts mf 0 h j hj
  exact ⟨t, ht, h1, h2, by omega, h4⟩

/-! ## (2b) in an inequality-only dimension every drop is justified -/

/-- **rejected_inequality_infeasible**: in any state satisfying the invariant `Good` (every reachable state of
    a run without combined flags, `makeFeasible_good`), if everything kept so far in a dimension and the tried
    constraint are INEQUALITIES and the trial is rejected after `satisfy()` returned, then the kept constraints
    together with the tried one contain a positive-gap cycle: no placement satisfies them, for any non-zero
    scales.  So silent drops in SATISFIABLE scenes can only come from equalities (alignments, equality
    separations, distributions, fixed-relative offsets) — cf. `solver_flags_consistent_equality` — or from the
    unchecked combined branch (`combined_breaks_accepted`). -/
theorem rejected_inequality_infeasible (n : Nat) (ds : DimSt) (c : Con) (own : Nat × Nat) (h : Good n ds)
    (hc : c.l < ds.vars.size ∧ c.r < ds.vars.size ∧ c.unsat = false)
    (hineq : ∀ c' ∈ ds.valid, c'.eq = false) (hceq : c.eq = false)
    (hrej : (ds.tryCon n c own).accepted = false) (hret : (ds.tryCon n c own).returned = true)
    (scale : Nat → Rat) (hscale : ∀ i, scale i ≠ 0) :
    PosCycle ((ds.valid.push c).toList.map toC) ∧ ¬ Feasible scale ((ds.valid.push c).toList.map toC) :=
  ⟨tryCon_reject_posCycle n ds c own h hc hineq hceq hrej hret,
   tryCon_reject_infeasible n ds c own h hc hineq hceq hrej hret scale hscale⟩

/-- … in particular after any work list (any prefix of a run): the next inequality alternative is rejected
    only if it is infeasible together with what makeFeasible holds in that dimension -/
theorem drop_justified_ineq (n : Nat) (vx vy : Array (Rat × Rat × Rat)) (items : List Item)
    (hwf : itemsWf vx.size vy.size items = true)
    (hclean : (makeFeasible n vx vy items).combineFlags = #[])
    (hesc : (makeFeasible n vx vy items).escaped = false)
    (hfuel : (makeFeasible n vx vy items).fuelOut = false)
    (a : Alt) (own : Nat × Nat) (ha : Alt.wf vx.size vy.size a = true) (hceq : a.con.eq = false)
    (hineq : ∀ c' ∈ ((makeFeasible n vx vy items).dim a.dim).valid, c'.eq = false)
    (hrej : (((makeFeasible n vx vy items).dim a.dim).tryCon n a.con own).accepted = false)
    (hret : (((makeFeasible n vx vy items).dim a.dim).tryCon n a.con own).returned = true)
    (scale : Nat → Rat) (hscale : ∀ i, scale i ≠ 0) :
    ¬ Feasible scale ((((makeFeasible n vx vy items).dim a.dim).valid.push a.con).toList.map toC) :=
  makeFeasible_drop_justified n vx vy items hwf hclean hesc hfuel a own ha hceq hineq hrej hret scale hscale

/-! ## (3) the characterisation -/

/-- **violated_unreported_iff_dropped** (the model's makeFeasible, work lists whose combined items raise no
    flag): there are position vectors `gx`, `gy` agreeing with the returned node positions such that
    every constraint of every ACCEPTED trial holds (slack ≥ −1e-10) — so a sub-constraint whose tried
    constraint is violated at the returned positions was not accepted; and a sub-constraint that is
    marked satisfied outside combined items has an accepted trial.  "violated ∧ marked satisfied" therefore
    never happens to a constraint that went through the trial loop: violated ⇒ dropped. -/
theorem violated_unreported_iff_dropped (n : Nat) (vx vy : Array (Rat × Rat × Rat)) (items : List Item)
    (hwf : itemsWf vx.size vy.size items = true)
    (hclean : (makeFeasible n vx vy items).combineFlags = #[])
    (hesc : (makeFeasible n vx vy items).escaped = false)
    (hfuel : (makeFeasible n vx vy items).fuelOut = false) :
    ∃ g : Dim → Array Rat,
      (∀ d i, i < n → (g d)[i]! = (makeFeasible n vx vy items).nodePos d i) ∧
      (∀ t ∈ (makeFeasible n vx vy items).log, t.accepted = true →
          ZERO_UPPERBOUND ≤ slackOf ((makeFeasible n vx vy items).dim t.dim).vars (g t.dim) t.con) ∧
      (∀ t ∈ (makeFeasible n vx vy items).log,
          slackOf ((makeFeasible n vx vy items).dim t.dim).vars (g t.dim) t.con < ZERO_UPPERBOUND →
          t.accepted = false) := by
  have hx := makeFeasible_accepted_hold n vx vy items hwf hclean hesc hfuel .x
  have hy := makeFeasible_accepted_hold n vx vy items hwf hclean hesc hfuel .y
  obtain ⟨gx, hgx, hcx⟩ := hx
  obtain ⟨gy, hgy, hcy⟩ := hy
  let g : Dim → Array Rat := fun d => match d with | .x => gx | .y => gy
  have hacc : ∀ t ∈ (makeFeasible n vx vy items).log, t.accepted = true →
      ZERO_UPPERBOUND ≤ slackOf ((makeFeasible n vx vy items).dim t.dim).vars (g t.dim) t.con := by
    intro t ht ha
    have hk := accepted_trial_kept n vx vy items t ht ha
    cases hd : t.dim with
    | x => rw [hd] at hk; exact hcx _ hk
    | y => rw [hd] at hk; exact hcy _ hk
  refine ⟨g, ?_, hacc, ?_⟩
  · intro d i hi
    cases d with
    | x => exact hgx i hi
    | y => exact hgy i hi
  · intro t ht hlt
    cases ha : t.accepted with
    | false => rfl
    | true =>
      have := hacc t ht ha
      exact absurd (lt_of_lt_of_le hlt this) (lt_irrefl _)

/-! ## (3b) the lazily generated non-overlap constraints (C08's half of makeFeasible) -/

/-- **nonoverlap_phase_accepted_hold**: the non-overlap item (`MF.runNoc`: pairs sorted by live overlap, four
    alternatives by cost, the same trial as for user constraints, pairs re-queued at the back) preserves the
    invariant: if the loop terminates (`some`; `none` is the known livelock of a rigidly overlapping pair), then
    every constraint kept in `valid[dim]` — user constraints AND the accepted separations `x_a + (w_a+w_b)/2 +
    1e-9 ≤ x_b` — holds at a vector agreeing with the returned node positions; all sizes of scenes, all data. -/
theorem nonoverlap_phase_accepted_hold (n : Nat) (vx vy : Array (Rat × Rat × Rat)) (items : List Item)
    (half : Array (Rat × Rat)) (cc fuel : Nat) (mf' : MF) (noc' : Noc)
    (hwf : itemsWf vx.size vy.size items = true) (hn : half.size ≤ vx.size ∧ half.size ≤ vy.size)
    (hrun : MF.runNoc cc fuel (makeFeasible n vx vy items) (Noc.ofSizes half) = some (mf', noc'))
    (hclean : mf'.combineFlags = #[]) (hesc : mf'.escaped = false) (hfuel : mf'.fuelOut = false) (d : Dim) :
    ∃ g : Array Rat, (∀ i : Nat, i < n → g[i]! = mf'.nodePos d i) ∧
      ∀ c ∈ (mf'.dim d).valid, ZERO_UPPERBOUND ≤ slackOf (mf'.dim d).vars g c := by
  have h := makeFeasible_noc_good n vx vy items half cc fuel mf' noc' hwf hn hrun hclean hesc hfuel
  cases d with
  | x =>
    obtain ⟨g, _, hg, hc⟩ := h.1.wit
    exact ⟨g, fun i hi => by rw [hg i hi]; rfl, hc⟩
  | y =>
    obtain ⟨g, _, hg, hc⟩ := h.2.1.wit
    exact ⟨g, fun i hi => by rw [hg i hi]; rfl, hc⟩

/-- two coincident 10×10 nodes under makeFeasible's default borders (half sizes 6): the four alternatives cost the
    same, the stable sort keeps `left` first, it is accepted: node 1 ends up 12 + 1e-9 to the left of node 0 -/
theorem nonoverlap_two_coincident :
    (MF.runNoc 0 100 (makeFeasible 2 #[(0, 1, 1), (0, 1, 1)] #[(0, 1, 1), (0, 1, 1)] [])
        (Noc.ofSizes #[(6, 6), (6, 6)])).map (fun r => (r.1.nodePos .x 0 - r.1.nodePos .x 1, r.1.nodePos .y 0, r.1.log.size, r.2.done)) =
      some (12 + 1 / 1000000000, 0, 1, true) := by
  decide +kernel

/-! ## (4) closed witnesses — evaluated by the kernel, replayed on the real library (`mfwit-*`) -/

def sq (cx cy : Rat) : Rect := { minX := cx - 5, maxX := cx + 5, minY := cy - 5, maxY := cy + 5 }

/-- makeFeasible of the model on a scene of user constraints, as the driver runs it -/
def runScene (rects : Array Rect) (ccs : List CC) (order : List Nat) : Option MF :=
  (mkScene rects ccs order).map fun s => makeFeasible s.n s.vx s.vy s.items

/-- two coincident 10×10 nodes; cc0: `x1 − 3 = x0` (equality), cc1: `x0 + 1 ≤ x1`.  Satisfiable: x = (0, 3). -/
def satScene : Option MF :=
  runScene #[sq 0 0, sq 0 0] [.separation .x 1 0 (-3) true, .separation .x 0 1 1 false] [0, 1]
/-- the same two constraints in the other list order -/
def satSceneSwapped : Option MF :=
  runScene #[sq 0 0, sq 0 0] [.separation .x 0 1 1 false, .separation .x 1 0 (-3) true] [0, 1]

/-- **satisfiable_scene_dropped**: a satisfiable scene (x0 = 0, x1 = 3 satisfies both constraints exactly)
    from which makeFeasible DROPS cc0: it processes cc1 first (back of the list), x becomes (−1/2, 1/2), then
    the equality cc0 is rejected; the returned positions violate it. -/
theorem satisfiable_scene_dropped :
    satScene.map (fun m => (m.dropped, m.nodePos .x 0, m.nodePos .x 1)) = some ([(0, 0)], -1/2, 1/2) ∧
    ((3 : Rat) - 3 = 0 ∧ (0 : Rat) + 1 ≤ 3) := by
  refine ⟨by decide +kernel, by decide +kernel⟩

/-- **drop_depends_on_order**: with the two constraints swapped in the list, both are accepted (x = (−3/2, 3/2)):
    the drop is an artefact of the incremental solve order, not of the constraint set -/
theorem drop_depends_on_order :
    satSceneSwapped.map (fun m => (m.dropped, m.nodePos .x 0, m.nodePos .x 1)) = some ([], -3/2, 3/2) := by
  decide +kernel

/-- **solver_flags_consistent_equality**: WHY the drop happens — it is the solver's flagging, not the greedy
    order of makeFeasible.  The incremental solver, holding `x0 + 1 ≤ x1` active in one block, is handed the
    consistent equality `x1 − 3 = x0`; `satisfy()` finds both ends in one block and a directed active path from
    the equality's right end to its left end, takes that for a cycle and flags the EQUALITY unsatisfiable
    (`nFlagPath = 1`): an equality is treated as the inequality `left + gap ≤ right` only.  The flagged
    constraint is the new one itself, the inequality stays unflagged; a fresh solver given both constraints at
    once flags nothing. -/
theorem solver_flags_consistent_equality :
    let s1 := (St.init #[(0, 1, 1), (0, 1, 1)] #[mkCon 0 1 1 false]).satisfy.1
    let s2 := (s1.addConstraint (mkCon 1 0 (-3) true)).satisfy.1
    (s2.cons.map (·.unsat)) = #[false, true] ∧ s2.nFlagPath = 1 ∧
    ((St.init #[(0, 1, 1), (0, 1, 1)] #[mkCon 0 1 1 false, mkCon 1 0 (-3) true]).satisfy.1.cons.map (·.unsat))
      = #[false, false] := by
  decide +kernel

/-- nodes at x = 0 and x = −5; cc0 = FixedRelativeConstraint{0,1} (keeps x1 − x0 = −5), cc1: `x0 + 10 ≤ x1` -/
def combinedScene : Option MF :=
  runScene #[sq 0 0, sq (-5) 0]
    [mkFixedRel #[sq 0 0, sq (-5) 0] [0, 1] false, .separation .x 0 1 10 false] [0, 1]

/-- **combined_breaks_accepted**: the second mechanism behind the finding.  cc1 is tried and ACCEPTED; then
    the FixedRelativeConstraint — a combined item — is added without a trial and solved; the solver flags cc1's
    constraint, nobody looks at the flag: nothing is dropped, every sub-constraint is marked satisfied, and the
    returned positions (0, −5) violate the accepted cc1 by 15.  (So `makeFeasible_accepted_hold` needs its
    hypothesis `combineFlags = #[]`; the model records the flagged owner: `brokenCCs = [1]`.) -/
theorem combined_breaks_accepted :
    combinedScene.map (fun m => (m.dropped, m.nodePos .x 0, m.nodePos .x 1)) = some ([], 0, -5) ∧
    combinedScene.map (fun m => m.marks.toList) = some [(1, 0, true), (0, 0, true), (0, 1, true)] ∧
    combinedScene.map (fun m => m.brokenCCs) = some [1] ∧
    ¬ ((0 : Rat) + 10 ≤ -5) := by
  refine ⟨by decide +kernel, by decide +kernel, by decide +kernel, by decide +kernel⟩

-- non-vacuity of the hypotheses of (1)/(3): a scene with a drop and no combined flag, well-formed work list
example : (satScene.map fun m => (m.combineFlags.size, m.escaped, m.fuelOut)) = some (0, false, false) := by
  decide +kernel
example : itemsWf 2 2 [{ cc := 1, subs := [[{ dim := .x, con := mkCon 0 1 1 false }]] },
                        { cc := 0, subs := [[{ dim := .x, con := mkCon 1 0 (-3) true }]] }] = true := by
  decide +kernel

-- non-vacuity of (2b): x0 + 1 ≤ x1 kept, then x1 + 1 ≤ x0 tried: rejected, satisfy() returned, all inequalities
example :
    let ds := ((MF.init 2 #[(0, 1, 1), (0, 1, 1)] #[(0, 1, 1), (0, 1, 1)]).x.tryCon 2 (mkCon 0 1 1 false)).ds
    ((ds.tryCon 2 (mkCon 1 0 1 false)).accepted, (ds.tryCon 2 (mkCon 1 0 1 false)).returned,
      ds.valid.all (fun c => !c.eq)) = (false, true, true) := by
  decide +kernel

end AdaptaVerif.Props.C07MakeFeasible
