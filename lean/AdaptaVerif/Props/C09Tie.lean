/-
C09 (and C08, C20) — tie theorem: the `vpsc::Rectangle` kernels the scan-line model is built on
(getters that add the process-global border, width/height, centres, overlapX/overlapY, moveMinX/
moveMinY/moveCentreX/moveCentreY) as regenerated from /repo's libvpsc/rectangle.h by cpp2lean on
every run ARE the hand model `Model.Scanline.Rect.*` that Props/C09's theorems are about.

`this` is one struct value: member writes are struct updates and the assertion
`COLA_ASSERT(fabs(width()-w)<1e-9)` of moveMinX/moveMinY is evaluated on the UPDATED rectangle, as in
the C++.  The static members `Rectangle::xBorder/yBorder` are explicit parameters.
-/
import AdaptaVerif.Gen.RectK
import AdaptaVerif.Model.Scanline
namespace AdaptaVerif.Props.C09Tie
open AdaptaVerif.Model.Scanline
open AdaptaVerif.Gen

theorem gen_rect_getters_are_model (r : Rect) (bx b : Rat) :
    RectK.getMinX r bx b = r.getMinX bx ∧ RectK.getMaxX r bx b = r.getMaxX bx ∧
    RectK.getMinY r bx b = r.getMinY b ∧ RectK.getMaxY r bx b = r.getMaxY b ∧
    RectK.width r bx b = r.width bx ∧ RectK.height r bx b = r.height b ∧
    RectK.getCentreX r bx b = r.centreX bx ∧ RectK.getCentreY r bx b = r.centreY b := by
  refine ⟨rfl, rfl, rfl, rfl, rfl, rfl, rfl, rfl⟩

theorem gen_rect_moves_are_model (r : Rect) (bx b p : Rat) :
    RectK.moveMinX p r bx b = r.moveMinX bx p ∧ RectK.moveMinY p r bx b = r.moveMinY b p ∧
    RectK.moveCentreX p r bx b = r.moveCentreX bx p ∧ RectK.moveCentreY p r bx b = r.moveCentreY b p := by
  refine ⟨rfl, rfl, rfl, rfl⟩

/-- `u->overlapX(v)`: the generated function takes the argument first, the receiver second -/
theorem gen_rect_overlap_is_model (u v : Rect) (bx b : Rat) :
    RectK.overlapX v u bx b = u.overlapX v bx ∧ RectK.overlapY v u bx b = u.overlapY v b := by
  have e1 : ∀ r : Rect, RectK.getCentreX r bx b = r.centreX bx := fun _ => rfl
  have e2 : ∀ r : Rect, RectK.getMinX r bx b = r.getMinX bx := fun _ => rfl
  have e3 : ∀ r : Rect, RectK.getMaxX r bx b = r.getMaxX bx := fun _ => rfl
  have f1 : ∀ r : Rect, RectK.getCentreY r bx b = r.centreY b := fun _ => rfl
  have f2 : ∀ r : Rect, RectK.getMinY r bx b = r.getMinY b := fun _ => rfl
  have f3 : ∀ r : Rect, RectK.getMaxY r bx b = r.getMaxY b := fun _ => rfl
  constructor
  · simp only [RectK.overlapX, Rect.overlapX, e1, e2, e3, Bool.and_eq_true, decide_eq_true_eq]
  · simp only [RectK.overlapY, Rect.overlapY, f1, f2, f3, Bool.and_eq_true, decide_eq_true_eq]

/-- no getter / overlap kernel contains an assertion -/
theorem gen_rect_no_assertion (u v : Rect) (bx b : Rat) :
    RectK.overlapX_pre v u bx b = true ∧ RectK.overlapY_pre v u bx b = true := by
  constructor
  · simp [RectK.overlapX_pre, RectK.getCentreX_pre, RectK.getMinX_pre, RectK.getMaxX_pre, RectK.width_pre]
  · simp [RectK.overlapY_pre, RectK.getCentreY_pre, RectK.getMinY_pre, RectK.getMaxY_pre, RectK.height_pre]

/-- in exact arithmetic a move keeps the width exactly, so `COLA_ASSERT(fabs(width()-w)<1e-9)` holds
    for every rectangle, border and target (in doubles it bounds the rounding of `x+w-xBorder`) -/
theorem moveMin_assertion_holds_exactly (r : Rect) (bx b p : Rat) :
    RectK.moveMinX_pre p r bx b = true ∧ RectK.moveMinY_pre p r bx b = true := by
  have hx : (p + (r.maxX + bx - (r.minX - bx)) - bx + bx - (p + bx - bx)) - (r.maxX + bx - (r.minX - bx)) = 0 := by grind
  have hy : (p + (r.maxY + b - (r.minY - b)) - b + b - (p + b - b)) - (r.maxY + b - (r.minY - b)) = 0 := by grind
  constructor
  · simp only [RectK.moveMinX_pre, RectK.width_pre, RectK.getMaxX_pre, RectK.getMinX_pre, RectK.width, RectK.getMaxX, RectK.getMinX,
      Bool.and_true, Bool.true_and, hx, absR]
    simp; grind
  · simp only [RectK.moveMinY_pre, RectK.height_pre, RectK.getMaxY_pre, RectK.getMinY_pre, RectK.height, RectK.getMaxY, RectK.getMinY,
      Bool.and_true, Bool.true_and, hy, absR]
    simp; grind

/-- …and the width/height the getters report after a move is the one before -/
theorem move_keeps_size (r : Rect) (bx b p : Rat) :
    RectK.width (RectK.moveMinX p r bx b) bx b = RectK.width r bx b ∧
    RectK.height (RectK.moveMinY p r bx b) bx b = RectK.height r bx b := by
  constructor
  · simp only [RectK.width, RectK.moveMinX, RectK.getMaxX, RectK.getMinX]; grind
  · simp only [RectK.height, RectK.moveMinY, RectK.getMaxY, RectK.getMinY]; grind

/-- moving the centre puts the centre there -/
theorem moveCentre_sets_centre (r : Rect) (bx b p : Rat) :
    RectK.getCentreX (RectK.moveCentreX p r bx b) bx b = p ∧ RectK.getCentreY (RectK.moveCentreY p r bx b) bx b = p := by
  constructor
  · simp only [RectK.getCentreX, RectK.moveCentreX, RectK.moveMinX, RectK.width, RectK.getMaxX, RectK.getMinX]; grind
  · simp only [RectK.getCentreY, RectK.moveCentreY, RectK.moveMinY, RectK.height, RectK.getMaxY, RectK.getMinY]; grind

#guard RectK.overlapX ⟨1, 3, 0, 1⟩ ⟨0, 2, 0, 1⟩ 0 0 = 1
#guard RectK.moveMinX_pre 5 ⟨1, 3, 0, 1⟩ (1/2) 0 = true

end AdaptaVerif.Props.C09Tie
