/-
C13 — libtopology: layout steps never pull an edge through a node.

Part 1 (this section): theorems about the model of `TriConstraint::slack` / `maxSafeAlpha` and of
the move phase of `TopologyConstraints::solve()` (Model/Tri.lean), for all rational data.
Part 2: soundness of the executable checkers the driver runs on the real library's states
(Check/TopoRect.lean, Check/Topo.lean).
Only property theorems live here; helper lemmas are in Lemmas/Tri.lean, Lemmas/Topo*.lean.
-/
import AdaptaVerif.Model.Tri
import AdaptaVerif.Spec.Tri
import AdaptaVerif.Lemmas.Tri
import AdaptaVerif.Check.Topo
import AdaptaVerif.Lemmas.Topo
import AdaptaVerif.Lemmas.RouteRect
import Mathlib.Tactic.Linarith
import Mathlib.Tactic.Ring
import Mathlib.Tactic.FieldSimp
import Mathlib.Algebra.Order.Field.Basic
namespace AdaptaVerif.Props.C13
open AdaptaVerif.Model.Tri AdaptaVerif.Spec.Tri AdaptaVerif.Lemmas.Tri

/-! ## Part 1: TriConstraint -/

/-- `TriConstraint::slack` is an affine function of the three positions (u,v,w). -/
theorem slack_affine (p g : Rat) (l : Bool) : IsAffine3 (slack p g l) := by
  refine ⟨sgn l * (1 - p), sgn l * p, - sgn l, sgn l * g, ?_⟩
  intro u v w; rw [slack_eq]; ring

example : slack (1/2) 3 true 0 4 1 = 4 := by norm_num [slack]
example : slack (1/2) 3 false 0 4 1 = -4 := by norm_num [slack]

/-- Along the straight move initial → final of *all* nodes the slack of a constraint is the
    affine interpolation of its end values. -/
theorem slack_affine_on_line (c : TriConstraint) (ini fin : Pos) (α : Rat) :
    c.slackAt (posOnLine ini fin α) = c.slackAt ini + α * (c.slackAt fin - c.slackAt ini) := by
  unfold TriConstraint.slackAt posOnLine
  exact slack_line _ _ _ _ _ _ _ _ _ _

/-- `numerator/denominator` of `maxSafeAlpha` is the root of the slack along the segment
    initial → final, for both values of `leftOf` (the only hypotheses are the code's own guards:
    the constraint is violated at the final positions and the denominator is non-zero). -/
theorem maxSafeAlpha_formula (p g : Rat) (l : Bool) (u1 u2 v1 v2 w1 w2 : Rat)
    (hden : msaDen p u1 u2 v1 v2 w1 w2 ≠ 0) :
    let α := msaNum p g u1 v1 w1 / msaDen p u1 u2 v1 v2 w1 w2
    slack p g l (u1 + α * (u2 - u1)) (v1 + α * (v2 - v1)) (w1 + α * (w2 - w1)) = 0 := by
  intro α
  have hne : slack p g l u1 v1 w1 - slack p g l u2 v2 w2 ≠ 0 := by
    intro h; apply hden; rw [den_eq_zero_iff p g l]; linarith
  rw [slack_line]
  show _ + (msaNum p g u1 v1 w1 / msaDen p u1 u2 v1 v2 w1 w2) * _ = 0
  rw [num_div_den p g l]
  field_simp
  ring

/-- …and that root is what `maxSafeAlpha` returns whenever the final positions violate the
    constraint, the denominator is non-zero and the quotient is not negative. -/
theorem maxSafeAlpha_returns_root (p g : Rat) (l : Bool) (u1 u2 v1 v2 w1 w2 : Rat)
    (hviol : slack p g l u2 v2 w2 < 0) (hden : msaDen p u1 u2 v1 v2 w1 w2 ≠ 0)
    (hpos : 0 ≤ msaNum p g u1 v1 w1 / msaDen p u1 u2 v1 v2 w1 w2) :
    maxSafeAlpha p g l u1 u2 v1 v2 w1 w2 = msaNum p g u1 v1 w1 / msaDen p u1 u2 v1 v2 w1 w2 := by
  unfold maxSafeAlpha
  simp only []
  rw [if_neg (by simpa using hviol), if_neg hden, if_neg (not_lt.mpr hpos)]

-- non-vacuity: u,v fixed at 0 and 4, p=1/2, w moves from 1 to 5 across the point 2 (leftOf)
example : maxSafeAlpha (1/2) 0 true 0 0 4 4 1 5 = 1/4 := by
  norm_num [maxSafeAlpha, slack, msaNum, msaDen]
example : slack (1/2) 0 true 0 4 (1 + (1/4) * (5 - 1)) = 0 := by norm_num [slack]
example : maxSafeAlpha (1/2) 0 false 0 0 4 4 3 (-1) = 1/4 := by
  norm_num [maxSafeAlpha, slack, msaNum, msaDen]

/-- A constraint that is feasible initially and violated finally makes `maxSafeAlpha` return a
    value in `[0,1)`; in particular the `msa<0` branch (and its assertion) is not reached in exact
    arithmetic. -/
theorem maxSafeAlpha_range (p g : Rat) (l : Bool) (u1 u2 v1 v2 w1 w2 : Rat)
    (h1 : 0 ≤ slack p g l u1 v1 w1) (h2 : slack p g l u2 v2 w2 < 0) :
    0 ≤ maxSafeAlpha p g l u1 u2 v1 v2 w1 w2 ∧ maxSafeAlpha p g l u1 u2 v1 v2 w1 w2 < 1
      ∧ maxSafeAlphaAssertOk p g l u1 u2 v1 v2 w1 w2 = true := by
  have hd : 0 < slack p g l u1 v1 w1 - slack p g l u2 v2 w2 := by linarith
  rw [msa_of_violated p g l _ _ _ _ _ _ h1 h2]
  refine ⟨div_nonneg h1 (le_of_lt hd), ?_, ?_⟩
  · rw [div_lt_one hd]; linarith
  · unfold maxSafeAlphaAssertOk
    simp only []
    rw [if_neg (by simpa using h2)]
    split
    · rfl
    · rw [num_div_den p g l, if_neg (not_lt.mpr (div_nonneg h1 (le_of_lt hd)))]

/-- **The reason the move phase of `solve()` cannot push a node across a segment.**
    If every constraint has slack ≥ 0 at the initial positions and `0 ≤ α ≤ 1` does not exceed
    `maxSafeAlpha` of any constraint that is violated at the final positions, then every constraint
    has slack ≥ 0 at `initial + α (final − initial)`. -/
theorem maxSafeAlpha_safe (cs : List TriConstraint) (ini fin : Pos) (α : Rat)
    (hini : Feasible cs ini) (h0 : 0 ≤ α) (h1 : α ≤ 1)
    (hα : ∀ c ∈ cs, c.slackAt fin < 0 → α ≤ c.msa ini fin) :
    SafeStep cs ini fin α := by
  intro c hc
  unfold TriConstraint.slackAt posOnLine
  exact single_safe c.p c.g c.leftOf _ _ _ _ _ _ α (hini c hc) h0 h1 (hα c hc)

-- non-vacuity: two constraints on nodes 0,1,2 (w must stay left of the midpoint of u,v and right
-- of u); w wants to go from 1 to 5; α = 1/4 is admitted and keeps both feasible
example :
    let cs := [({ u := 0, v := 1, w := 2, p := 1/2, g := 0, leftOf := true } : TriConstraint),
               { u := 0, v := 0, w := 2, p := 0, g := 0, leftOf := false }]
    let ini : Pos := fun i => if i = 1 then 4 else if i = 2 then 1 else 0
    let fin : Pos := fun i => if i = 1 then 4 else if i = 2 then 5 else 0
    (∀ c ∈ cs, 0 ≤ c.slackAt ini) ∧ minAlpha cs ini fin = 1/4 := by
  norm_num [minAlpha, minAlphaFrom, TriConstraint.msa, TriConstraint.slackAt, maxSafeAlpha, slack,
    msaNum, msaDen]

/-- `maxSafeAlpha` is the *largest* safe step of a constraint violated at the final positions. -/
theorem maxSafeAlpha_maximal (p g : Rat) (l : Bool) (u1 u2 v1 v2 w1 w2 α : Rat)
    (h1 : 0 ≤ slack p g l u1 v1 w1) (h2 : slack p g l u2 v2 w2 < 0)
    (hα : maxSafeAlpha p g l u1 u2 v1 v2 w1 w2 < α) :
    slack p g l (u1 + α * (u2 - u1)) (v1 + α * (v2 - v1)) (w1 + α * (w2 - w1)) < 0 := by
  have hd : 0 < slack p g l u1 v1 w1 - slack p g l u2 v2 w2 := by linarith
  rw [msa_of_violated p g l _ _ _ _ _ _ h1 h2, div_lt_iff₀ hd] at hα
  rw [slack_line]; linarith

-- joint non-vacuity of `maxSafeAlpha_formula`, `maxSafeAlpha_returns_root`, `maxSafeAlpha_range`, `maxSafeAlpha_maximal`:
-- u, v fixed at 0 and 4, p = 1/2, w moves from 1 to 5 (feasible initially, violated finally, denominator ≠ 0, root 1/4 ≥ 0);
-- α = 1/2 exceeds the root, and the theorem gives a violated constraint there
example :
    (0 : Rat) ≤ slack (1/2) 0 true 0 4 1 ∧ slack (1/2) 0 true 0 4 5 < 0 ∧
    msaDen (1/2) 0 0 4 4 1 5 ≠ 0 ∧ (0 : Rat) ≤ msaNum (1/2) 0 0 4 1 / msaDen (1/2) 0 0 4 4 1 5 ∧
    maxSafeAlpha (1/2) 0 true 0 0 4 4 1 5 < 1/2 := by
  norm_num [maxSafeAlpha, slack, msaNum, msaDen]
example : slack (1/2) 0 true (0 + 1/2 * (0 - 0)) (4 + 1/2 * (4 - 4)) (1 + 1/2 * (5 - 1)) < 0 :=
  maxSafeAlpha_maximal (1/2) 0 true 0 0 4 4 1 5 (1/2) (by norm_num [slack]) (by norm_num [slack])
    (by norm_num [maxSafeAlpha, slack, msaNum, msaDen])

/-- The minimum computed by the loop in `solve()` is at most 1 and at most every `maxSafeAlpha`. -/
theorem minAlpha_le (cs : List TriConstraint) (ini fin : Pos) :
    minAlpha cs ini fin ≤ 1 ∧ ∀ c ∈ cs, minAlpha cs ini fin ≤ c.msa ini fin :=
  ⟨minAlphaFrom_le_init 1 cs ini fin, fun c hc => minAlphaFrom_le_mem 1 cs ini fin c hc⟩

/-- Move phase of `solve()`: from a feasible configuration the nodes are moved to a feasible
    configuration, whatever the solver's final positions are. -/
theorem solve_move_safe (cs : List TriConstraint) (ini fin : Pos) (hini : Feasible cs ini) :
    Feasible cs (moveStep cs ini fin) := by
  unfold moveStep
  simp only []
  split
  · rename_i hpos
    have hle := minAlpha_le cs ini fin
    exact maxSafeAlpha_safe cs ini fin _ hini (le_of_lt hpos) hle.1 (fun c hc _ => hle.2 c hc)
  · exact hini

/-- When the move is cut short (`minTAlpha < 1`), the constraint that attains the minimum — the
    `minT` that `solve()` then satisfies by splitting / merging — is exactly tight (slack 0) at the
    positions reached: segments are split and bends removed only in the collinear configuration. -/
theorem solve_move_stops_tight (cs : List TriConstraint) (ini fin : Pos) (hini : Feasible cs ini)
    (hlt : minAlpha cs ini fin < 1) :
    ∃ c ∈ cs, c.msa ini fin = minAlpha cs ini fin ∧ c.slackAt (moveStep cs ini fin) = 0 := by
  rcases minAlphaFrom_mem 1 cs ini fin with h | ⟨c, hc, h⟩
  · exact absurd hlt (by unfold minAlpha; rw [h]; exact lt_irrefl _)
  · refine ⟨c, hc, h.symm, ?_⟩
    have hmsa : c.msa ini fin < 1 := by unfold minAlpha at hlt; rw [h] at hlt; exact hlt
    have hviol : c.slackAt fin < 0 := by
      by_contra hn
      have := msa_of_final_feasible c.p c.g c.leftOf (ini c.u) (fin c.u) (ini c.v) (fin c.v)
        (ini c.w) (fin c.w) (not_lt.mp hn)
      unfold TriConstraint.msa at hmsa; rw [this] at hmsa; exact lt_irrefl _ hmsa
    have h1 := hini c hc
    have hd : 0 < c.slackAt ini - c.slackAt fin := by linarith
    have hval : minAlpha cs ini fin = c.slackAt ini / (c.slackAt ini - c.slackAt fin) := by
      unfold minAlpha; rw [h]; unfold TriConstraint.msa
      exact msa_of_violated c.p c.g c.leftOf _ _ _ _ _ _ h1 hviol
    unfold moveStep
    simp only []
    split
    · rw [slack_affine_on_line, hval]; field_simp; ring
    · rename_i hnp
      have hz : c.slackAt ini / (c.slackAt ini - c.slackAt fin) ≤ 0 := by
        rw [← hval]; exact not_lt.mp hnp
      have := div_nonneg h1 (le_of_lt hd)
      have h0 : c.slackAt ini / (c.slackAt ini - c.slackAt fin) = 0 := le_antisymm hz this
      rcases div_eq_zero_iff.mp h0 with h' | h'
      · exact h'
      · linarith

-- non-vacuity of `solve_move_stops_tight` (and `solve_move_safe`): the two-constraint system of the example after
-- `maxSafeAlpha_safe` is feasible initially and has minAlpha = 1/4 < 1; the theorem instantiated on it
example :
    let cs := [({ u := 0, v := 1, w := 2, p := 1/2, g := 0, leftOf := true } : TriConstraint),
               { u := 0, v := 0, w := 2, p := 0, g := 0, leftOf := false }]
    let ini : Pos := fun i => if i = 1 then 4 else if i = 2 then 1 else 0
    let fin : Pos := fun i => if i = 1 then 4 else if i = 2 then 5 else 0
    ∃ c ∈ cs, c.msa ini fin = minAlpha cs ini fin ∧ c.slackAt (moveStep cs ini fin) = 0 := by
  intro cs ini fin
  refine solve_move_stops_tight cs ini fin ?_ ?_
  · intro c hc
    simp only [cs, List.mem_cons, List.not_mem_nil, or_false] at hc
    rcases hc with rfl | rfl <;> norm_num [TriConstraint.slackAt, slack, ini]
  · norm_num [cs, ini, fin, minAlpha, minAlphaFrom, TriConstraint.msa, maxSafeAlpha, slack, msaNum, msaDen]

/-! ## Part 2: soundness (and completeness) of the state checkers run on the real library -/

section Checkers
open AdaptaVerif.Check.RouteRect AdaptaVerif.Check.Topo AdaptaVerif.Lemmas.RouteRect
open AdaptaVerif.Lemmas.Topo

/-- some point of some segment of the path lies strictly inside the rectangle (shrunk by 1e-6) of
    a node that is not one of the two end nodes of the path -/
def SegThroughNode (nodes : List NodeRect) (path : List PathPt) : Prop :=
  ∃ ab ∈ legs path, ∃ nk ∈ nodes.zipIdx, nk.2 ≠ srcNode path ∧ nk.2 ≠ dstNode path ∧
    ∃ t : Rat, 0 ≤ t ∧ t ≤ 1 ∧ StrictlyInside (nk.1.toRect.shrink eps) (lerp ab.1.pt ab.2.pt t)

/-- `noSegmentThroughNode` decides exactly "no segment of the path meets the interior of a
    non-end node": an accepted state has no such point, a rejected state has one. -/
theorem noSegmentThroughNode_iff (nodes : List NodeRect) (path : List PathPt) :
    noSegmentThroughNode nodes path = true ↔ ¬ SegThroughNode nodes path := by
  unfold noSegmentThroughNode SegThroughNode legHitsNode
  simp only [List.all_eq_true, Bool.or_eq_true, decide_eq_true_eq, Bool.not_eq_true']
  constructor
  · rintro h ⟨ab, hab, nk, hnk, hs, hd, t, h0, h1, hin⟩
    rcases h ab hab nk hnk with (hh | hh) | hh
    · exact hs hh
    · exact hd hh
    · exact segHitsOpenRect_sound _ _ _ hh t h0 h1 hin
  · intro h ab hab nk hnk
    by_cases hs : nk.2 = srcNode path
    · exact Or.inl (Or.inl hs)
    by_cases hd : nk.2 = dstNode path
    · exact Or.inl (Or.inr hd)
    right
    by_contra hne
    have ht : segHitsOpenRect (nk.1.toRect.shrink eps) ab.1.pt ab.2.pt = true := by
      cases hb : segHitsOpenRect (nk.1.toRect.shrink eps) ab.1.pt ab.2.pt
      · exact absurd hb hne
      · rfl
    obtain ⟨t, h0, h1, hin⟩ := (segHitsOpenRect_iff _ _ _).mp ht
    exact h ⟨ab, hab, nk, hnk, hs, hd, t, h0, h1, hin⟩

-- non-vacuity: a path 0 → 2 whose straight segment crosses node 1 is rejected, the detour around
-- node 1's top-right corner is accepted
example :
    let nodes : List NodeRect := [⟨0, 2, 0, 2⟩, ⟨4, 6, 0, 2⟩, ⟨8, 10, 0, 2⟩]
    noSegmentThroughNode nodes [⟨0, 4, 1, 1⟩, ⟨2, 4, 9, 1⟩] = false ∧
    noSegmentThroughNode nodes [⟨0, 4, 1, 1⟩, ⟨1, 3, 4, 2⟩, ⟨1, 0, 6, 2⟩, ⟨2, 4, 9, 1⟩] = true := by
  decide +kernel

/-- two node rectangles overlap by more than 1e-6 in both axes: their interiors, each shrunk by
    half the tolerance on every side, have a common point -/
def OverlapBy (a b : NodeRect) : Prop :=
  Overlap1 a.minX a.maxX b.minX b.maxX ∧ Overlap1 a.minY a.maxY b.minY b.maxY

theorem overlapBoth_iff (a b : NodeRect) : overlapBoth a b = true ↔ OverlapBy a b := by
  unfold overlapBoth OverlapBy
  rw [Bool.and_eq_true, overlap1_iff, overlap1_iff]

/-- `noNodeOverlap` accepts exactly the node lists in which no two rectangles overlap. -/
theorem noNodeOverlap_iff (nodes : List NodeRect) :
    noNodeOverlap nodes = true ↔ nodes.Pairwise (fun a b => ¬ OverlapBy a b) := by
  induction nodes with
  | nil => simp [noNodeOverlap]
  | cons a rest ih =>
    simp only [noNodeOverlap, Bool.and_eq_true, List.all_eq_true, Bool.not_eq_true',
      List.pairwise_cons, ih]
    constructor
    · rintro ⟨h, hp⟩
      refine ⟨fun b hb hov => ?_, hp⟩
      have := h b hb
      rw [(overlapBoth_iff a b).mpr hov] at this
      exact Bool.noConfusion this
    · rintro ⟨h, hp⟩
      refine ⟨fun b hb => ?_, hp⟩
      cases hv : overlapBoth a b
      · rfl
      · exact absurd ((overlapBoth_iff a b).mp hv) (h b hb)

example : noNodeOverlap [⟨0, 2, 0, 2⟩, ⟨2, 4, 0, 2⟩, ⟨1, 3, 2, 4⟩] = true ∧
    noNodeOverlap [⟨0, 2, 0, 2⟩, ⟨1, 3, 1, 3⟩] = false := by decide +kernel

/-- the path has at least two points, starts at the CENTRE point of node `src`, ends at the CENTRE
    point of node `dst`, and those points coincide (1e-6) with the centres of the rectangles -/
def EndsAt (nodes : List NodeRect) (src dst : Nat) (path : List PathPt) : Prop :=
  2 ≤ path.length ∧
    (∃ a, path.head? = some a ∧ isCentreOf nodes src a = true) ∧
    (∃ a, path.getLast? = some a ∧ isCentreOf nodes dst a = true)

theorem endsUnchanged_iff (nodes : List NodeRect) (src dst : Nat) (path : List PathPt) :
    endsUnchanged nodes src dst path = true ↔ EndsAt nodes src dst path := by
  unfold endsUnchanged EndsAt
  simp only [Bool.and_eq_true, decide_eq_true_eq]
  constructor
  · rintro ⟨⟨h1, h2⟩, h3⟩
    refine ⟨h1, ?_, ?_⟩
    · cases hh : path.head? with
      | none => rw [hh] at h2; exact Bool.noConfusion h2
      | some a => rw [hh] at h2; exact ⟨a, rfl, h2⟩
    · cases hl : path.getLast? with
      | none => rw [hl] at h3; exact Bool.noConfusion h3
      | some a => rw [hl] at h3; exact ⟨a, rfl, h3⟩
  · rintro ⟨h1, ⟨a, ha, hca⟩, ⟨b, hb, hcb⟩⟩
    rw [ha, hb]; exact ⟨⟨h1, hca⟩, hcb⟩

/-- an end point accepted by `isCentreOf` is pinned to node `k` as CENTRE and lies within 1e-6 of
    the centre of that node's rectangle -/
theorem isCentreOf_sound (nodes : List NodeRect) (k : Nat) (a : PathPt)
    (h : isCentreOf nodes k a = true) :
    a.node = k ∧ a.ri = 4 ∧ ∃ n, nodes[k]? = some n ∧
      absR (a.x - n.cx) ≤ eps ∧ absR (a.y - n.cy) ≤ eps := by
  unfold isCentreOf at h
  simp only [Bool.and_eq_true, decide_eq_true_eq] at h
  obtain ⟨⟨h1, h2⟩, h3⟩ := h
  refine ⟨h1, h2, ?_⟩
  cases hn : nodes[k]? with
  | none => rw [hn] at h3; exact Bool.noConfusion h3
  | some n =>
    rw [hn] at h3
    unfold nearPt at h3
    simp only [Bool.and_eq_true, decide_eq_true_eq] at h3
    exact ⟨n, rfl, h3.1, h3.2⟩

/-- the bend `v` between `u` and `w` is pinned to a corner (not CENTRE) of an existing node, lies
    within 1e-6 of that corner of the node's rectangle, and the turn u→v→w is around the node:
    the turn direction and the sides of the node centre w.r.t. both segments are never clearly
    opposite (`turnsAround`) -/
def BendOK (nodes : List NodeRect) (u v w : PathPt) : Prop :=
  v.ri < 4 ∧ ∃ n, nodes[v.node]? = some n ∧
    absR (v.x - cornerX n v.ri) ≤ eps ∧ absR (v.y - cornerY n v.ri) ≤ eps ∧
    turnsAround u v w n.cx n.cy = true

theorem bendOk_iff (nodes : List NodeRect) (uvw : PathPt × PathPt × PathPt) :
    bendOk nodes uvw = true ↔ BendOK nodes uvw.1 uvw.2.1 uvw.2.2 := by
  unfold bendOk BendOK
  simp only [Bool.and_eq_true, decide_eq_true_eq]
  constructor
  · rintro ⟨h1, h2⟩
    refine ⟨h1, ?_⟩
    cases hn : nodes[uvw.2.1.node]? with
    | none => rw [hn] at h2; exact Bool.noConfusion h2
    | some n =>
      rw [hn] at h2
      unfold nearPt at h2
      simp only [Bool.and_eq_true, decide_eq_true_eq] at h2
      exact ⟨n, rfl, h2.1.1, h2.1.2, h2.2⟩
  · rintro ⟨h1, n, hn, hx, hy, ht⟩
    refine ⟨h1, ?_⟩
    rw [hn]
    unfold nearPt
    simp only [Bool.and_eq_true, decide_eq_true_eq]
    exact ⟨⟨hx, hy⟩, ht⟩

/-- `bendsAtCorners` accepts exactly the paths all of whose interior points are good bends. -/
theorem bendsAtCorners_iff (nodes : List NodeRect) (path : List PathPt) :
    bendsAtCorners nodes path = true ↔
      ∀ uvw ∈ triples path, BendOK nodes uvw.1 uvw.2.1 uvw.2.2 := by
  unfold bendsAtCorners
  simp only [List.all_eq_true]
  constructor
  · intro h uvw hm; exact (bendOk_iff nodes uvw).mp (h uvw hm)
  · intro h uvw hm; exact (bendOk_iff nodes uvw).mpr (h uvw hm)

/-- What `turnsAround` excludes: with exact data (tolerance aside) a left turn (`s > τ`) whose
    node centre is clearly to the right of either segment, or a right turn with the centre clearly
    to the left, is rejected. -/
theorem turnsAround_excludes_wrong_side (u v w : PathPt) (cx cy : Rat)
    (h : turnsAround u v w cx cy = true) :
    let s := cross u.x u.y v.x v.y w.x w.y
    let a := cross u.x u.y v.x v.y cx cy
    let b := cross v.x v.y w.x w.y cx cy
    let τ := 4 * eps * (l1 u.x u.y v.x v.y + l1 v.x v.y w.x w.y + l1 v.x v.y cx cy + eps)
    (τ < s → ¬ a < -τ ∧ ¬ b < -τ) ∧ (s < -τ → ¬ τ < a ∧ ¬ τ < b) := by
  unfold turnsAround notOpposite at h
  simp only [Bool.and_eq_true, Bool.not_eq_true', Bool.and_eq_false_iff, decide_eq_false_iff_not] at h
  obtain ⟨⟨_, h2⟩, h3⟩ := h
  intro s a b τ
  constructor
  · intro hs
    exact ⟨fun ha => by rcases h2.1 with h' | h' <;> [exact h' hs; exact h' ha],
           fun hb => by rcases h3.1 with h' | h' <;> [exact h' hs; exact h' hb]⟩
  · intro hs
    exact ⟨fun ha => by rcases h2.2 with h' | h' <;> [exact h' hs; exact h' ha],
           fun hb => by rcases h3.2 with h' | h' <;> [exact h' hs; exact h' hb]⟩

-- non-vacuity: the detour around node 1 = [4,6]x[0,2] over its top corners is accepted, the same
-- polyline pinned to the bottom corners (bending away from the node) is rejected
example :
    let nodes : List NodeRect := [⟨0, 2, 0, 2⟩, ⟨4, 6, 0, 2⟩, ⟨8, 10, 0, 2⟩]
    bendsAtCorners nodes [⟨0, 4, 1, 1⟩, ⟨1, 3, 4, 2⟩, ⟨1, 0, 6, 2⟩, ⟨2, 4, 9, 1⟩] = true ∧
    bendsAtCorners nodes [⟨0, 4, 1, 1⟩, ⟨1, 2, 4, 2⟩, ⟨1, 1, 6, 2⟩, ⟨2, 4, 9, 1⟩] = false := by
  decide +kernel

/-- The crossing count used by `sideSignature` does not depend on how the path is subdivided:
    inserting (bend split) or deleting (bend merge) a vertex `v` whose conj-coordinate lies between
    those of its neighbours — which `assertConvexBend`'s monotonicity and our `turnsAround` state —
    replaces one crossing of the scan line by exactly one crossing. -/
theorem sideSignature_split_invariant (ac vc bc c : Rat)
    (hmono : (ac ≤ vc ∧ vc ≤ bc) ∨ (bc ≤ vc ∧ vc ≤ ac)) :
    (crossesLine ac bc c = true ↔ (crossesLine ac vc c = true ∨ crossesLine vc bc c = true)) ∧
      ¬ (crossesLine ac vc c = true ∧ crossesLine vc bc c = true) :=
  ⟨crossesLine_split ac vc bc c hmono, crossesLine_split_excl ac vc bc c hmono⟩

/-- Where a crossing happens is where the segment is: the reported position is the scan
    coordinate of the point of the segment whose conj-coordinate is `c`. -/
theorem crossingAt_on_segment (as ac bs bc c : Rat) (h : bc ≠ ac) :
    let t := (c - ac) / (bc - ac)
    crossingAt as ac bs bc c = as + t * (bs - as) ∧ ac + t * (bc - ac) = c := by
  intro t
  have h' : bc - ac ≠ 0 := sub_ne_zero.mpr h
  refine ⟨rfl, ?_⟩
  show ac + (c - ac) / (bc - ac) * (bc - ac) = c
  rw [div_mul_cancel₀ _ h']; ring

/-- Basis of the side check across a two-pass (x then y) resize step: with the half-open rule a
    segment crosses a scan line iff exactly one of its two ends is "low" (≤ the line).  Hence along
    a path the crossings contributed by an interior vertex that changes its low status appear or
    vanish in pairs at that vertex, and the parity of the crossings before a node centre can change
    only when an *end point* of the path passes over the ray (`endFlip`, computed from the node
    rectangles) or the path passes over the centre. -/
theorem crossesLine_iff_exactly_one_end_low (ac bc c : Rat) :
    crossesLine ac bc c = (decide (ac ≤ c) != decide (bc ≤ c)) :=
  crossesLine_eq_low_xor ac bc c

/-- A closed boundary path accepted by `cycleClosed` has at least two segments and ends at the
    point (node, corner) it starts from. -/
theorem cycleClosed_sound (path : List PathPt) (h : cycleClosed path = true) :
    3 ≤ path.length ∧ ∃ a b, path.head? = some a ∧ path.getLast? = some b ∧
      a.node = b.node ∧ a.ri = b.ri := by
  unfold cycleClosed at h
  simp only [Bool.and_eq_true, decide_eq_true_eq] at h
  refine ⟨h.1, ?_⟩
  cases ha : path.head? with
  | none => rw [ha] at h; exact absurd h.2 (by simp)
  | some a =>
    cases hb : path.getLast? with
    | none => rw [ha, hb] at h; exact absurd h.2 (by simp)
    | some b =>
      rw [ha, hb] at h
      simp only [Bool.and_eq_true, decide_eq_true_eq] at h
      exact ⟨a, b, rfl, rfl, h.2.1, h.2.2⟩

/-- The list dump accepted by `cycleListConsistent` says: walking firstSegment → lastSegment meets
    exactly `nSegments` segments, lastSegment ends where firstSegment starts, the `outSegment` ring
    from the first point closes after `nSegments` steps, and the printed path has `nSegments+1`
    points. -/
theorem cycleListConsistent_sound (info : List Nat) (path : List PathPt)
    (h : cycleListConsistent info path = true) :
    ∃ n, info = [n, n, 1, 1, n, 1] ∧ path.length = n + 1 := by
  unfold cycleListConsistent at h
  match info, h with
  | [nSeg, walked, reachedLast, closed, ring, ringClosed], h =>
    simp only [Bool.and_eq_true, decide_eq_true_eq] at h
    obtain ⟨⟨⟨⟨⟨h1, h2⟩, h3⟩, h4⟩, h5⟩, h6⟩ := h
    exact ⟨nSeg, by rw [h1, h2, h3, h4, h5], h6⟩

-- non-vacuity of `cycleClosed_sound`, `cycleListConsistent_sound`: a closed three-segment boundary path
example :
    cycleClosed [⟨0, 0, 2, 2⟩, ⟨1, 3, 4, 2⟩, ⟨2, 1, 3, 0⟩, ⟨0, 0, 2, 2⟩] = true ∧
    cycleListConsistent [3, 3, 1, 1, 3, 1] [⟨0, 0, 2, 2⟩, ⟨1, 3, 4, 2⟩, ⟨2, 1, 3, 0⟩, ⟨0, 0, 2, 2⟩] = true := by
  decide +kernel

/-- All four state invariants at once (`stateOk` bundles the component checkers the driver's `firstViolation`
    evaluates, edge by edge, after every layout step).  `stateOk` pairs paths with `ends` by `List.zip`, which silently
    drops the paths beyond `ends.length`; the last clause says that with enough `ends` EVERY path is covered. -/
theorem stateOk_sound (ends : List (Nat × Nat)) (s : State) (h : stateOk ends s = true) :
    s.nodes.Pairwise (fun a b => ¬ OverlapBy a b) ∧
    (∀ pe ∈ s.paths.zip ends,
      ¬ SegThroughNode s.nodes pe.1 ∧ EndsAt s.nodes pe.2.1 pe.2.2 pe.1 ∧
      ∀ uvw ∈ triples pe.1, BendOK s.nodes uvw.1 uvw.2.1 uvw.2.2) ∧
    (s.paths.length ≤ ends.length → ∀ (i : Nat) (path : List PathPt), s.paths[i]? = some path → ∃ e : Nat × Nat, ends[i]? = some e ∧
      ¬ SegThroughNode s.nodes path ∧ EndsAt s.nodes e.1 e.2 path ∧
      ∀ uvw ∈ triples path, BendOK s.nodes uvw.1 uvw.2.1 uvw.2.2) := by
  unfold stateOk at h
  simp only [Bool.and_eq_true, List.all_eq_true] at h
  have main : ∀ pe ∈ s.paths.zip ends,
      ¬ SegThroughNode s.nodes pe.1 ∧ EndsAt s.nodes pe.2.1 pe.2.2 pe.1 ∧
      ∀ uvw ∈ triples pe.1, BendOK s.nodes uvw.1 uvw.2.1 uvw.2.2 := fun pe hpe => by
    obtain ⟨⟨h1, h2⟩, h3⟩ := h.2 pe hpe
    exact ⟨(noSegmentThroughNode_iff _ _).mp h1, (endsUnchanged_iff _ _ _ _).mp h2,
           (bendsAtCorners_iff _ _).mp h3⟩
  refine ⟨(noNodeOverlap_iff _).mp h.1, main, fun hlen i path hp => ?_⟩
  obtain ⟨hi, rfl⟩ := List.getElem?_eq_some_iff.mp hp
  have hi' : i < ends.length := Nat.lt_of_lt_of_le hi hlen
  have hz : (s.paths.zip ends)[i]? = some (s.paths[i], ends[i]) := by
    rw [List.getElem?_zip_eq_some]
    exact ⟨List.getElem?_eq_getElem hi, List.getElem?_eq_getElem hi'⟩
  exact ⟨ends[i], List.getElem?_eq_getElem hi', main _ (List.mem_of_getElem? hz)⟩

-- non-vacuity of `stateOk_sound`, `isCentreOf_sound`, `turnsAround_excludes_wrong_side` (and the accepting side of
-- `endsUnchanged_iff`): the detour state of the examples above is accepted as a whole, with one (path, ends) pair actually
-- checked; its first bend is a strict right turn (s = -2 < -τ) around node 1's centre (5,1)
example :
    let nodes : List NodeRect := [⟨0, 2, 0, 2⟩, ⟨4, 6, 0, 2⟩, ⟨8, 10, 0, 2⟩]
    let path : List PathPt := [⟨0, 4, 1, 1⟩, ⟨1, 3, 4, 2⟩, ⟨1, 0, 6, 2⟩, ⟨2, 4, 9, 1⟩]
    isCentreOf nodes 0 ⟨0, 4, 1, 1⟩ = true ∧ endsUnchanged nodes 0 2 path = true ∧
    turnsAround ⟨0, 4, 1, 1⟩ ⟨1, 3, 4, 2⟩ ⟨1, 0, 6, 2⟩ 5 1 = true ∧
    stateOk [(0, 2)] ⟨nodes, [path]⟩ = true ∧
    (([path] : List (List PathPt)).zip [((0 : Nat), (2 : Nat))]).length = 1 := by
  decide +kernel

end Checkers

end AdaptaVerif.Props.C13
