/-
C12 — the hyperedge tree and its rewriting operations (cola/libavoid/hyperedgetree.cpp, the structural
steps of hyperedgeimprover.cpp) as modelled in `AdaptaVerif.Model.HyperTree`.

Every theorem is for ALL heaps `t` satisfying `Tree t` = `WF t ∧ IsTree t.graphV t.graphE`:
* `WF` — object numbers distinct, every edge object has two live ends, every node's edge list has no
  repetition and lists exactly the live edges that end at the node (nothing dangles, the two
  directions of the doubly linked C++ structure agree);
* `IsTree` (Spec.Tree) — the abstract multigraph is connected and every edge is a bridge — the very
  predicate that `Check.Tree.isTree` decides (`Props.C12.isTree_iff`).
The operations are the as-coded ones (which node survives, order of the edge lists, first/second end,
junction and connector pointers); the driver replays them against the real code (harness `--mode ops`,
and the stage dumps of the guarded hook inside `HyperedgeImprover::execute`).
-/
import AdaptaVerif.Lemmas.HyperTree
import AdaptaVerif.Lemmas.HyperTreeRzle
import AdaptaVerif.Lemmas.HyperTreeWfb
import AdaptaVerif.Lemmas.HyperTreeJunctions
import AdaptaVerif.Lemmas.HyperTreeMove
import AdaptaVerif.Lemmas.HyperTreeJBridge
import AdaptaVerif.Lemmas.HyperTreeCompose
import AdaptaVerif.Lemmas.HyperTreeTerminalsB
import AdaptaVerif.Lemmas.HyperTreeMoveTerminals
import AdaptaVerif.Lemmas.HyperTreeAttrs
import AdaptaVerif.Lemmas.HyperTreeWitness
import AdaptaVerif.Props.C12
namespace AdaptaVerif.Props.C12Ops
open AdaptaVerif.Model.HyperTree AdaptaVerif.Check.Tree AdaptaVerif.Spec.Tree
open AdaptaVerif.Lemmas.HyperTree AdaptaVerif.Lemmas.HyperTreeGraph AdaptaVerif.Lemmas.HyperTreeRzle
open AdaptaVerif.Lemmas.HyperTreeWfb AdaptaVerif.Lemmas.HyperTreeWitness AdaptaVerif.Lemmas.HyperTreeJunctions
open AdaptaVerif.Lemmas.HyperTreeCompose AdaptaVerif.Lemmas.HyperTreeTerminals

/-! ### the executable structure check is sound; the example trees satisfy the hypotheses -/

/-- `wfb` (evaluated by the driver on every heap state the real code produced, and on the model's)
    implies the structural invariant `WF` of all theorems below. -/
theorem wfb_sound {t : HTree} (h : wfb t = true) : WF t := AdaptaVerif.Lemmas.HyperTreeWfb.wfb_sound h

/-- the two executable checks together establish the hypothesis `Tree` -/
theorem tree_of_checks {t : HTree} (h1 : wfb t = true) (h2 : isTree t.graphV t.graphE = true) : Tree t :=
  ⟨wfb_sound h1, AdaptaVerif.Props.C12.isTree_sound _ _ h2⟩

-- non-vacuity: concrete trees (Lemmas/HyperTreeWitness) satisfy `Tree`
example : Tree exStar := tree_of_checks (by decide) (by decide)
example : Tree exZeroTail := tree_of_checks (by decide) (by decide)
example : Tree exOverTerminal := tree_of_checks (by decide) (by decide)
example : Tree exTwoJunctions := tree_of_checks (by decide) (by decide)
example : Tree exCommon := tree_of_checks (by decide) (by decide)

/-! ### contraction of an edge (`disconnectEdge; delete edge; spliceEdgesFrom; delete source`) -/

/-- The contraction sequence used by `removeZeroLengthEdges` succeeds on every tree for every edge and
    either choice of the surviving end, and gives a well-formed tree whose vertices are the old ones
    without `src`. -/
theorem contract_preserves_tree {t : HTree} (h : Tree t) {e : HEdge} (he : e ∈ t.edges) {tg src : Nat}
    (hj : Joins e tg src) :
    ∃ t', contract t e.id tg src = some t' ∧ Tree t' ∧
      t'.graphV = t.graphV.filter (fun v => v != src) := by
  obtain ⟨t', hc, ht, hs⟩ := contract_tree h he hj
  exact ⟨t', hc, ht, hs.graphV⟩

/-- degrees after an identification step (`x` = the end of the removed edge that is not `src`;
    `x = tg` for a contraction) -/
theorem identify_deg {t t' : HTree} {e : HEdge} {x tg src : Nat} (hs : IdentifySpec t e x tg src t')
    (hts : tg ≠ src) (hxs : x ≠ src) (v : Nat) :
    deg t'.graphE v =
      if v = src then 0
      else if v = tg then (deg t.graphE tg - (if x = tg then 1 else 0)) + (deg t.graphE src - 1)
      else deg t.graphE v - (if x = v then 1 else 0) := by
  have key : ∀ w, deg t.graphE w =
      deg (restE t e.id) w + (if x = w then 1 else 0) + (if src = w then 1 else 0) := by
    intro w
    rcases hs.perm with hp | hp
    · rw [deg_perm hp w, deg_cons]
    · rw [deg_perm hp w, deg_cons]; omega
  rw [hs.graphE, deg_map_ren (Ne.symm hts)]
  have k1 := key tg
  have k2 := key src
  have k3 := key v
  by_cases h1 : v = src
  · simp [h1]
  · by_cases h2 : v = tg
    · subst h2
      simp only [h1, if_false, if_true]
      have : ¬ src = v := fun h => h1 h.symm
      simp only [this, if_false, if_true] at k1 k2
      simp only [hxs, if_false] at k2
      by_cases hx : x = v
      · simp only [hx, if_true] at k1 ⊢
        omega
      · simp only [hx, if_false] at k1 ⊢
        omega
    · simp only [h1, h2, if_false]
      have : ¬ src = v := fun h => h1 h.symm
      simp only [this, if_false] at k3
      by_cases hx : x = v <;> simp only [hx, if_true, if_false] at k3 ⊢ <;> omega

/-- Contraction and the terminal set.  If neither end of the contracted edge is a leaf, the leaves of
    the result are exactly the leaves before (as a set of node objects): "same terminal set". -/
theorem contract_same_terminals {t : HTree} (h : Tree t) {e : HEdge} (he : e ∈ t.edges) {tg src : Nat}
    (hj : Joins e tg src) (h1 : 2 ≤ deg t.graphE tg) (h2 : 2 ≤ deg t.graphE src) (T : List Nat)
    (hT : LeavesAre t.graphV t.graphE T) :
    ∃ t', contract t e.id tg src = some t' ∧ LeavesAre t'.graphV t'.graphE T := by
  obtain ⟨t', hc, _, hs⟩ := contract_tree h he hj
  have hts : tg ≠ src := h.ne_of_joins he hj
  refine ⟨t', hc, ?_, ?_⟩
  · intro x hx
    rw [hs.graphV, mem_filter_ne]
    refine ⟨hT.1 x hx, ?_⟩
    rintro rfl
    have := (hT.2 x (hT.1 x hx)).mpr hx
    omega
  · intro v hv
    rw [hs.graphV, mem_filter_ne] at hv
    rw [identify_deg hs hts hts v, ← hT.2 v hv.1]
    simp only [hv.2, if_false, if_true]
    by_cases hvt : v = tg
    · subst hvt
      simp only [if_true]
      omega
    · have : ¬ tg = v := fun h => hvt h.symm
      simp only [hvt, this, if_false]
      omega

/-- The case the traversal produces at a terminal: the leaf `src` is merged into its neighbour `tg` of
    degree 2 — the merged node is the (only new) leaf: the terminal set is the old one with `src`
    replaced by `tg`. -/
theorem contract_leaf_shift {t : HTree} (h : Tree t) {e : HEdge} (he : e ∈ t.edges) {tg src : Nat}
    (hj : Joins e tg src) (h1 : deg t.graphE tg = 2) (h2 : deg t.graphE src = 1) :
    ∃ t', contract t e.id tg src = some t' ∧
      ∀ v ∈ t'.graphV, (deg t'.graphE v = 1 ↔ (v = tg ∨ (v ≠ src ∧ deg t.graphE v = 1))) := by
  obtain ⟨t', hc, _, hs⟩ := contract_tree h he hj
  have hts : tg ≠ src := h.ne_of_joins he hj
  refine ⟨t', hc, ?_⟩
  intro v hv
  rw [hs.graphV, mem_filter_ne] at hv
  rw [identify_deg hs hts hts v]
  simp only [hv.2, if_false, if_true]
  by_cases hvt : v = tg
  · subst hvt
    simp only [if_true, true_or, iff_true]
    omega
  · have : ¬ tg = v := fun h => hvt h.symm
    simp only [hvt, this, if_false, false_or, hv.2, ne_eq, not_false_eq_true, true_and]
    omega

/-! ### `splitFromNodeAtPoint` -/

/-- Splitting an edge at a point succeeds on every tree for every edge and either end as `source`; the
    result is a well-formed tree with exactly one more vertex (the next object number). -/
theorem split_preserves_tree {t : HTree} (h : Tree t) {e : HEdge} (he : e ∈ t.edges) {source target : Nat}
    (hj : Joins e source target) (p : AdaptaVerif.Model.Geometry.Pt) :
    ∃ t', splitFromNodeAtPoint t e.id source p = some (t', t.next, t.next + 1) ∧ Tree t' ∧
      t'.graphV = t.graphV ++ [t.next] := by
  obtain ⟨t', hc, ht, hs⟩ := split_tree h he hj p
  exact ⟨t', hc, ht, hs.graphV⟩

/-- … and the same terminals: the new node has degree 2, all other degrees are unchanged. -/
theorem split_same_terminals {t : HTree} (h : Tree t) {e : HEdge} (he : e ∈ t.edges) {source target : Nat}
    (hj : Joins e source target) (p : AdaptaVerif.Model.Geometry.Pt) (T : List Nat)
    (hT : LeavesAre t.graphV t.graphE T) :
    ∃ t', splitFromNodeAtPoint t e.id source p = some (t', t.next, t.next + 1) ∧
      LeavesAre t'.graphV t'.graphE T := by
  obtain ⟨t', hc, _, hs⟩ := split_tree h he hj p
  have hN : t.next ∉ t.graphV := by
    intro hm
    obtain ⟨n, hn, hid⟩ := WF.node_of_mem_graphV hm
    have := h.1.fresh.1 n hn
    omega
  have hsrc : source ≠ t.next := fun hh => hN (hh ▸ (joins_mem_graphV h.1 he hj).1)
  have htgt : target ≠ t.next := fun hh => hN (hh ▸ (joins_mem_graphV h.1 he hj).2)
  have key : ∀ w, deg t.graphE w =
      deg (restE t e.id) w + (if source = w then 1 else 0) + (if target = w then 1 else 0) := by
    intro w
    rcases hj with ⟨a, b⟩ | ⟨a, b⟩
    · rw [deg_perm (graphE_perm h.1 he a b) w, deg_cons]
    · rw [deg_perm (graphE_perm h.1 he a b) w, deg_cons]; omega
  have key' : ∀ w, deg t'.graphE w =
      deg (restE t e.id) w + (if source = w then 1 else 0) + (if target = w then 1 else 0) +
        (if t.next = w then 2 else 0) := by
    intro w
    rw [deg_perm hs.graphE w, deg_cons, deg_cons]
    by_cases hw : t.next = w <;> simp only [hw, if_true, if_false] <;> omega
  refine ⟨t', hc, ?_, ?_⟩
  · intro x hx
    rw [hs.graphV]
    exact List.mem_append_left _ (hT.1 x hx)
  · intro v hv
    rw [hs.graphV, List.mem_append, List.mem_singleton] at hv
    rcases hv with hv | hv
    · have hne : ¬ t.next = v := fun hh => hN (hh ▸ hv)
      rw [key' v, ← hT.2 v hv, key v]
      simp only [hne, if_false]
      omega
    · subst hv
      have hnT : t.next ∉ T := fun hh => hN (hT.1 _ hh)
      rw [key' t.next]
      simp only [if_true, hnT, iff_false]
      omega


/-! ### merging the far end of a further common edge (`moveJunctionAlongCommonEdge`) -/

/-- One iteration of the merge loop: `e` joins `self` and `src`, the first common edge `e0` joins `self`
    and `tg`; `src` is glued onto `tg` and `e` disappears.  Succeeds on every tree, gives a tree. -/
theorem mergeStep_preserves_tree {t : HTree} (h : Tree t) {e e0 : HEdge} (he : e ∈ t.edges)
    {self tg src : Nat} (hj : Joins e self src) (he0 : e0 ∈ t.edges) (hne : e0.id ≠ e.id)
    (hj0 : Joins e0 self tg) :
    ∃ t', mergeStep t e.id tg src = some t' ∧ Tree t' ∧
      t'.graphV = t.graphV.filter (fun v => v != src) := by
  obtain ⟨t', hc, ht, hs⟩ := mergeStep_tree h he hj he0 hne hj0
  exact ⟨t', hc, ht, hs.graphV⟩

/-- … with the same terminals, provided the two merged nodes are not leaves and `self` keeps at least
    two edges. -/
theorem mergeStep_same_terminals {t : HTree} (h : Tree t) {e e0 : HEdge} (he : e ∈ t.edges)
    {self tg src : Nat} (hj : Joins e self src) (he0 : e0 ∈ t.edges) (hne : e0.id ≠ e.id)
    (hj0 : Joins e0 self tg) (h1 : 2 ≤ deg t.graphE tg) (h2 : 2 ≤ deg t.graphE src)
    (h3 : 3 ≤ deg t.graphE self) (T : List Nat) (hT : LeavesAre t.graphV t.graphE T) :
    ∃ t', mergeStep t e.id tg src = some t' ∧ LeavesAre t'.graphV t'.graphE T := by
  obtain ⟨t', hc, ht, hs⟩ := mergeStep_tree h he hj he0 hne hj0
  have hxs : self ≠ src := h.ne_of_joins he hj
  have hts : tg ≠ src := by
    intro hh
    subst hh
    exact h.no_parallel he he0 hne hj hj0
  have hst : self ≠ tg := h.ne_of_joins he0 hj0
  refine ⟨t', hc, ?_, ?_⟩
  · intro x hx
    rw [hs.graphV, mem_filter_ne]
    refine ⟨hT.1 x hx, ?_⟩
    rintro rfl
    have := (hT.2 x (hT.1 x hx)).mpr hx
    omega
  · intro v hv
    rw [hs.graphV, mem_filter_ne] at hv
    rw [identify_deg hs hts hxs v, ← hT.2 v hv.1]
    simp only [hv.2, if_false, hst]
    by_cases hvt : v = tg
    · subst hvt
      simp only [if_true]
      omega
    · simp only [hvt, if_false]
      by_cases hvs : self = v
      · subst hvs
        simp only [if_true]
        omega
      · simp only [hvs, if_false]
        omega

/-! ### the traversals -/

/-- `HyperedgeImprover::removeZeroLengthEdges(node, ignored)`: whatever the fuel, the start node and
    the ignored edge, if the traversal returns, the heap is again a well-formed tree. -/
theorem removeZeroLengthEdges_preserves_tree {f : Nat} {s : Imp} {self : Nat} {ign : Option Nat} {s' : Imp}
    (ht : Tree s.t) (h : rzleNode f s self ign = some s') : Tree s'.t := rzleNode_tree ht h

/-- Junction bookkeeping of `removeZeroLengthEdges`.  If the junction map lists exactly the junction
    nodes, no junction is attached twice and no junction reported deleted is attached (`JInv`), then the
    same holds after the traversal; a junction is attached to a surviving node or reported deleted
    afterwards iff it was before (so: a junction newly reported deleted is attached to nothing that
    survives, and survivors ∪ deleted = the junctions of the start); no junction is reported new. -/
theorem removeZeroLengthEdges_junction_bookkeeping {f : Nat} {s : Imp} {self : Nat} {ign : Option Nat}
    {s' : Imp} (ht : Tree s.t) (hi : JInv s) (h : rzleNode f s self ign = some s') :
    JInv s' ∧ (∀ j, (Carried s'.t j ∨ j ∈ s'.delJ) ↔ (Carried s.t j ∨ j ∈ s.delJ)) ∧
      (∀ j ∈ s'.delJ, ¬ Carried s'.t j) ∧ s'.newJ = s.newJ := by
  obtain ⟨_, hJ, hC, hN⟩ := rzleNode_jinv ht hi h
  exact ⟨hJ, hC, hJ.deleted, hN⟩

/-- `removeZeroLengthEdges` keeps the TERMINAL SET.  Side condition `NoLeafZero`: no zero-length edge with
    a non-fixed route ends at a leaf (i.e. no junction / bend sits exactly on a terminal).  It has to hold
    only at the start: every contraction preserves it.  Then for every fuel, start node and ignored edge
    the leaves of the result are exactly the leaves before (`LeavesAre … T` for the same `T`). -/
theorem removeZeroLengthEdges_same_terminals {f : Nat} {s : Imp} {self : Nat} {ign : Option Nat} {s' : Imp}
    (ht : Tree s.t) (hz : NoLeafZero s.t) (T : List Nat) (hT : LeavesAre s.t.graphV s.t.graphE T)
    (h : rzleNode f s self ign = some s') :
    Tree s'.t ∧ NoLeafZero s'.t ∧ LeavesAre s'.t.graphV s'.t.graphE T :=
  rzleNode_terminals ht hz T hT h

/-- The REPAIRED `removeZeroLengthEdges` (fix 6964517; `keepAttrs = true`) keeps the terminal attributes,
    for all trees, every fuel, start node and ignored edge: every terminal (leaf) of the result carries
    the `isConnectorSource` / `isPinDummyEndpoint` / `finalVertex` — and the position — of a terminal of
    the tree before the rewrite.  (False for the code as found: `rzle_drops_isConnectorSource_witness`.) -/
theorem removeZeroLengthEdges_keeps_terminal_attrs {f : Nat} {s : Imp} {self : Nat} {ign : Option Nat}
    {s' : Imp} (ht : Tree s.t) (hk : s.keepAttrs = true) (h : rzleNode f s self ign = some s') :
    ∀ n' ∈ s'.t.nodes, n'.edges.length = 1 →
      ∃ n ∈ s.t.nodes, n.edges.length = 1 ∧
        AdaptaVerif.Lemmas.HyperTreeAttrs.TermAttrs n = AdaptaVerif.Lemmas.HyperTreeAttrs.TermAttrs n' ∧
        n.point = n'.point :=
  AdaptaVerif.Lemmas.HyperTreeAttrs.rzleNode_keeps_terminal_attrs ht hk h

/-- the executable form of the side condition (evaluated by the driver on the real states) is sound -/
theorem noLeafZerob_sound {t : HTree} (hw : WF t) (h : noLeafZerob t = true) : NoLeafZero t :=
  AdaptaVerif.Lemmas.HyperTreeTerminals.noLeafZerob_sound hw h

-- non-vacuity: two junctions joined by a zero-length connector, four terminals: the side condition holds
-- (the traversal merges the junctions, the leaves stay [2,3,4,5]) …
example : NoLeafZero exTwoJunctions := noLeafZerob_sound (wfb_sound (by decide)) (by decide +kernel)
example : LeavesAre exTwoJunctions.graphV exTwoJunctions.graphE [2, 3, 4, 5] :=
  (AdaptaVerif.Props.C12.leavesAre_iff _ _ _).mp (by decide)
-- … and it fails on the witness `exStar` (junction on a terminal)
example : noLeafZerob exStar = false := by decide +kernel

/-- the executable bookkeeping check of the driver implies `JInv` -/
theorem jinvb_sound {s : Imp} (h : jinvb s = true) : JInv s := AdaptaVerif.Lemmas.HyperTreeJunctions.jinvb_sound h

example : JInv (mkImp exTwoJunctions [(1, 0), (2, 1)] [1] true) := jinvb_sound (by decide)

-- non-vacuity: the traversal returns on the examples (and contracts something)
example : ((rzleNode 100 (mkImp exStar [(1, 0)] [1] false) 0 none).map (fun s => s.t.nodes.length)) = some 3 := by
  decide +kernel
example : ((rzleNode 100 (mkImp exTwoJunctions [(1, 0), (2, 1)] [1] true) 0 none).map
    (fun s => [[s.t.nodes.length], s.delJ, s.delC, s.junctions.map (·.1), s.roots])) = some [[5], [2], [1], [1], [1]] := by
  decide +kernel

/-- `HyperedgeImprover::moveJunctionAlongCommonEdge` (with the caller's rewrite of the junction map),
    all branches — nothing to move, common edges split, junction moved (old node kept or freed),
    junction split in two: the heap is again a well-formed tree. -/
theorem moveJunction_preserves_tree {s : Imp} {j : Nat} {r : MoveResult} (ht : Tree s.t)
    (h : moveJunctionStep s j = some r) : Tree r.s.t :=
  AdaptaVerif.Lemmas.HyperTreeMove.moveJunctionStep_tree ht h

/-- the caller's `while ((node = moveJunctionAlongCommonEdge(node, changed)))` loop for one junction -/
theorem moveJunctionFully_preserves_tree {f : Nat} {s : Imp} {j : Nat} {s' : Imp} (ht : Tree s.t)
    (h : moveJunctionFully f s j = some s') : Tree s'.t :=
  AdaptaVerif.Lemmas.HyperTreeMove.moveJunctionFully_tree f s j s' ht h

-- non-vacuity: the junction of `exCommon` moves along the common first segment (one split, one merge)
example : (moveJunctionStep (mkImp exCommon [(1, 0)] [1] false) 1).map
    (fun r => (r.s.t.nodes.length, r.newSelf, r.s.t.leaves)) = some (6, some 1, [3, 4, 5]) := by
  decide +kernel

/-- The junction move keeps the TERMINAL SET.  Side condition `MoveSafe` on the junction node (fixed-route
    edges aside): no leaf neighbour shares its position with another neighbour or lies strictly inside
    the segment to another neighbour (`pointOnLine`).  Then — all branches, in-scan splits included — the
    leaves of the result are exactly the leaves before. -/
theorem moveJunction_same_terminals {s : Imp} {j : Nat} {r : MoveResult} {T : List Nat} (ht : Tree s.t)
    (hsafe : ∀ self, s.junctions.find? (fun p => p.1 == j) = some (j, self) →
      AdaptaVerif.Lemmas.HyperTreeMoveTerminals.MoveSafe s.t self)
    (hT : LeavesAre s.t.graphV s.t.graphE T) (h : moveJunctionStep s j = some r) :
    LeavesAre r.s.t.graphV r.s.t.graphE T :=
  AdaptaVerif.Lemmas.HyperTreeMoveTerminals.moveJunctionStep_terminals ht hsafe hT h

-- non-vacuity: the side condition holds at the junction of `exCommon` (whose junction does move) and
-- fails on the witness `exOverTerminal`
instance (e : HEdge) (a b : Nat) : Decidable (Joins e a b) := by unfold Joins; infer_instance
example : AdaptaVerif.Lemmas.HyperTreeMoveTerminals.MoveSafe exCommon 0 := by
  unfold AdaptaVerif.Lemmas.HyperTreeMoveTerminals.MoveSafe
  decide +kernel
example : ¬ AdaptaVerif.Lemmas.HyperTreeMoveTerminals.MoveSafe exOverTerminal 0 := by
  unfold AdaptaVerif.Lemmas.HyperTreeMoveTerminals.MoveSafe
  decide +kernel

/-- Junction bookkeeping of the junction move (one call + the caller's map rewrite), all branches.  With
    fresh junction numbers (`JFresh`: every attached or deleted junction is below the counter the next
    `new JunctionRef` gets; `NewJFresh`: likewise the reported-new ones): the bookkeeping is consistent
    again, the junctions attached to nodes of the result are exactly the old ones plus the ones newly
    reported in the new-junction list, nothing is reported deleted. -/
theorem moveJunction_junction_bookkeeping {s : Imp} {j : Nat} {r : MoveResult} (ht : Tree s.t) (hi : JInv s)
    (hF : AdaptaVerif.Lemmas.HyperTreeMove.JFresh s) (hN : AdaptaVerif.Lemmas.HyperTreeMove.NewJFresh s)
    (h : moveJunctionStep s j = some r) :
    JInv r.s ∧ AdaptaVerif.Lemmas.HyperTreeMove.JFresh r.s ∧ AdaptaVerif.Lemmas.HyperTreeMove.NewJFresh r.s ∧
      (∀ j, Carried r.s.t j ↔ (Carried s.t j ∨ (j ∈ r.s.newJ ∧ j ∉ s.newJ))) ∧
      r.s.delJ = s.delJ ∧ (∃ L, r.s.newJ = s.newJ ++ L) := by
  have hk := AdaptaVerif.Lemmas.HyperTreeMove.moveJunctionStep_fullyKeeps ht
    ((AdaptaVerif.Lemmas.HyperTreeJBridge.jinv_iff ht.1).mp hi) hF hN h
  refine ⟨(AdaptaVerif.Lemmas.HyperTreeJBridge.jinv_iff hk.tree.1).mpr hk.jinv, hk.jfresh, hk.newJFresh,
    ?_, hk.delJ, hk.newJ⟩
  intro j
  rw [AdaptaVerif.Lemmas.HyperTreeJBridge.carried_iff, AdaptaVerif.Lemmas.HyperTreeJBridge.carried_iff]
  exact hk.junctions j

-- non-vacuity of the freshness hypotheses
example : AdaptaVerif.Lemmas.HyperTreeMove.JFresh (mkImp exCommon [(1, 0)] [1] true) :=
  ⟨by decide, by decide⟩
example : AdaptaVerif.Lemmas.HyperTreeMove.NewJFresh (mkImp exCommon [(1, 0)] [1] true) := by
  intro j hj; cases hj

/-! ### composition -/

/-- the rewriting steps of `HyperedgeImprover::execute` that act on the tree structure, plus the
    coordinate changes of the shift-segment moves (which do not touch the structure) -/
inductive Rewrite : Imp → Imp → Prop
  | rzle {f : Nat} {s : Imp} {n : Nat} {ign : Option Nat} {s' : Imp} :
      rzleNode f s n ign = some s' → Rewrite s s'
  | move {s : Imp} {j : Nat} {r : MoveResult} : moveJunctionStep s j = some r → Rewrite s r.s
  | shift {s : Imp} (n : Nat) (p : AdaptaVerif.Model.Geometry.Pt) :
      Rewrite s { s with t := s.t.modNode n (fun x => { x with point := p }) }

/-- any finite sequence of rewrites -/
inductive Rewrites : Imp → Imp → Prop
  | refl (s : Imp) : Rewrites s s
  | step {s s' s'' : Imp} : Rewrites s s' → Rewrite s' s'' → Rewrites s s''

/-- The modelled rewrites compose: from a tree, any finite sequence of zero-length-edge removals,
    junction moves and coordinate shifts — in any order, from any nodes, with any fuel — gives a
    well-formed tree. -/
theorem improve_preserves_tree {s s' : Imp} (ht : Tree s.t) (h : Rewrites s s') : Tree s'.t := by
  induction h with
  | refl => exact ht
  | step _ hr ih =>
    cases hr with
    | rzle h1 => exact removeZeroLengthEdges_preserves_tree ih h1
    | move h1 => exact moveJunction_preserves_tree ih h1
    | shift n p => exact modNode_Tree _ _ _ (fun _ => rfl) (fun _ => rfl) ih

/-- Composition with the junction bookkeeping.  `Good` = well-formed tree ∧ consistent bookkeeping (`JInv`)
    ∧ fresh junction numbers.  Along any finite sequence of modelled rewrites `Good` is kept, and the
    junctions are conserved (`Conserved`): a junction is attached to a node of the result or reported
    deleted iff it was attached or reported deleted at the start or is newly reported in the new-junction
    list; with `JInv.deleted` of the result: what is reported deleted is attached to nothing that survives,
    and new-junction list ∪ survivors = the junctions attached to nodes of the result. -/
theorem improve_junction_bookkeeping {s s' : Imp} (hg : Good s) (h : Rewrites s s') :
    Good s' ∧ Conserved s s' := by
  induction h with
  | refl => exact ⟨hg, Conserved.refl _⟩
  | step _ hr ih =>
    obtain ⟨hg', hc'⟩ := ih
    cases hr with
    | rzle h1 =>
      obtain ⟨a, b⟩ := rzleNode_good hg' h1
      exact ⟨a, hc'.trans b⟩
    | move h1 =>
      obtain ⟨a, b⟩ := moveJunctionStep_good hg' h1
      exact ⟨a, hc'.trans b⟩
    | shift n p =>
      obtain ⟨a, b⟩ := shift_good hg' n p
      exact ⟨a, hc'.trans b⟩

example : Good (mkImp exTwoJunctions [(1, 0), (2, 1)] [1] true) :=
  ⟨tree_of_checks (by decide) (by decide), jinvb_sound (by decide), ⟨by decide, by decide⟩,
   fun j hj => by cases hj⟩

/-! ### side conditions: closed witnesses

The as-coded rewrites do NOT keep the set of leaves without the side conditions of
`contract_same_terminals` / `mergeStep_same_terminals`; the C++ callers do not establish them. -/

/-- `removeZeroLengthEdges`, junction sitting on a terminal (zero-length connector between a junction
    node and a leaf): the leaf is spliced into the junction node — the tree loses the terminal. -/
theorem rzle_drops_leaf_at_junction_witness :
    exStar.leaves = [1, 2, 3] ∧
    (rzleNode 100 (mkImp exStar [(1, 0)] [1] false) 0 none).map (fun s => s.t.leaves) = some [2, 3] := by
  decide +kernel

/-- `removeZeroLengthEdges` AS FOUND (`rzleNodeOld`, before fix 6964517), zero-length LAST segment of a
    connector whose source is the terminal: the far node (the leaf, `other`) is the one deleted, so its
    `isConnectorSource` flag is lost — the surviving leaf is not marked as a connector source any more
    (`writeEdgesToConns` then does not reverse that connector's route: defect F1 of report bF). -/
theorem rzle_drops_isConnectorSource_witness :
    (exZeroTail.nodes.filter (·.isConnectorSource)).map (·.id) = [2] ∧
    (rzleNodeOld 100 (mkImp exZeroTail [(1, 0)] [1] false) 0 none).map
      (fun s => (s.t.leaves, (s.t.nodes.filter (·.isConnectorSource)).map (·.id))) = some ([1, 3, 4], []) := by
  decide +kernel

-- … and the repaired traversal (the model since 6964517) hands the flag to the surviving leaf 1
example : (rzleNode 100 (mkImp exZeroTail [(1, 0)] [1] false) 0 none).map
    (fun s => (s.t.leaves, (s.t.nodes.filter (·.isConnectorSource)).map (·.id))) = some ([1, 3, 4], [1]) := by
  decide +kernel

/-- `moveJunctionAlongCommonEdge`, a second connector running over a terminal's end point: the terminal
    node becomes the junction node (degree 2), the tree loses the terminal. -/
theorem move_turns_terminal_into_junction_witness :
    exOverTerminal.leaves = [1, 3, 4] ∧
    (moveJunctionStep (mkImp exOverTerminal [(1, 0)] [1] false) 1).map
      (fun r => (r.s.t.leaves, r.newSelf, r.s.t.junctionsOf)) = some ([3, 4], some 1, [1]) := by
  decide +kernel

/-! ### joint non-vacuity: ALL hypotheses of a theorem on one instance, and the theorem instantiated on it -/

-- non-vacuity (joint) of `contract_preserves_tree`, `contract_same_terminals`, `identify_deg`: the edge between the two
-- junction nodes of `exTwoJunctions` (both of degree 3)
example :
    let e : HEdge := { id := 6, e1 := some 0, e2 := some 1, conn := some 1, hasFixedRoute := false }
    Tree exTwoJunctions ∧ e ∈ exTwoJunctions.edges ∧ Joins e 0 1 ∧ 2 ≤ deg exTwoJunctions.graphE 0 ∧
    2 ≤ deg exTwoJunctions.graphE 1 ∧ LeavesAre exTwoJunctions.graphV exTwoJunctions.graphE [2, 3, 4, 5] ∧
    (∃ t', contract exTwoJunctions e.id 0 1 = some t' ∧ LeavesAre t'.graphV t'.graphE [2, 3, 4, 5]) ∧
    (∃ t', IdentifySpec exTwoJunctions e 0 0 1 t' ∧ deg t'.graphE 0 = 4) := by
  intro e
  have ht : Tree exTwoJunctions := tree_of_checks (by decide) (by decide)
  have he : e ∈ exTwoJunctions.edges := List.Mem.head _
  have hj : Joins e 0 1 := Or.inl ⟨rfl, rfl⟩
  have h0 : 2 ≤ deg exTwoJunctions.graphE 0 := by decide
  have h1 : 2 ≤ deg exTwoJunctions.graphE 1 := by decide
  have hT : LeavesAre exTwoJunctions.graphV exTwoJunctions.graphE [2, 3, 4, 5] :=
    (AdaptaVerif.Props.C12.leavesAre_iff _ _ _).mp (by decide)
  refine ⟨ht, he, hj, h0, h1, hT, contract_same_terminals ht he hj h0 h1 _ hT, ?_⟩
  obtain ⟨t', _, _, hs⟩ := contract_tree ht he hj
  refine ⟨t', hs, ?_⟩
  rw [identify_deg hs (by decide) (by decide) 0]
  decide

-- non-vacuity (joint) of `contract_leaf_shift`: the leaf 2 of `exZeroTail` and its neighbour 1 of degree 2
example :
    let e : HEdge := { id := 6, e1 := some 1, e2 := some 2, conn := some 1, hasFixedRoute := false }
    Tree exZeroTail ∧ e ∈ exZeroTail.edges ∧ Joins e 1 2 ∧ deg exZeroTail.graphE 1 = 2 ∧ deg exZeroTail.graphE 2 = 1 ∧
    ∃ t', contract exZeroTail e.id 1 2 = some t' ∧ 1 ∈ t'.graphV ∧ deg t'.graphE 1 = 1 := by
  intro e
  have ht : Tree exZeroTail := tree_of_checks (by decide) (by decide)
  have he : e ∈ exZeroTail.edges := List.Mem.tail _ (List.Mem.head _)
  have hj : Joins e 1 2 := Or.inl ⟨rfl, rfl⟩
  have h1 : deg exZeroTail.graphE 1 = 2 := by decide
  have h2 : deg exZeroTail.graphE 2 = 1 := by decide
  refine ⟨ht, he, hj, h1, h2, ?_⟩
  obtain ⟨t', hc, hV⟩ := contract_preserves_tree ht he hj
  obtain ⟨t'', hc', hl⟩ := contract_leaf_shift ht he hj h1 h2
  rw [hc] at hc'; cases hc'
  have hm : 1 ∈ t'.graphV := by rw [hV.2]; decide
  exact ⟨t', hc, hm, (hl 1 hm).mpr (Or.inl rfl)⟩

-- non-vacuity (joint) of `split_preserves_tree`, `split_same_terminals`
example :
    let e : HEdge := { id := 5, e1 := some 0, e2 := some 2, conn := some 2, hasFixedRoute := false }
    Tree exStar ∧ e ∈ exStar.edges ∧ Joins e 0 2 ∧ LeavesAre exStar.graphV exStar.graphE [1, 2, 3] ∧
    ∃ t', splitFromNodeAtPoint exStar e.id 0 ⟨5, 0⟩ = some (t', exStar.next, exStar.next + 1) ∧
      LeavesAre t'.graphV t'.graphE [1, 2, 3] := by
  intro e
  have ht : Tree exStar := tree_of_checks (by decide) (by decide)
  have he : e ∈ exStar.edges := List.Mem.tail _ (List.Mem.head _)
  have hj : Joins e 0 2 := Or.inl ⟨rfl, rfl⟩
  have hT : LeavesAre exStar.graphV exStar.graphE [1, 2, 3] := (AdaptaVerif.Props.C12.leavesAre_iff _ _ _).mp (by decide)
  exact ⟨ht, he, hj, hT, split_same_terminals ht he hj ⟨5, 0⟩ _ hT⟩

-- non-vacuity (joint) of `mergeStep_preserves_tree`, `mergeStep_same_terminals`: `exCommon`, self = the junction node 0
-- (degree 3), e = 8 to the bend 2, e0 = 7 to the bend 1 (both of degree 2)
example :
    let e : HEdge := { id := 8, e1 := some 0, e2 := some 2, conn := some 2, hasFixedRoute := false }
    let e0 : HEdge := { id := 7, e1 := some 0, e2 := some 1, conn := some 1, hasFixedRoute := false }
    Tree exCommon ∧ e ∈ exCommon.edges ∧ Joins e 0 2 ∧ e0 ∈ exCommon.edges ∧ e0.id ≠ e.id ∧ Joins e0 0 1 ∧
    2 ≤ deg exCommon.graphE 1 ∧ 2 ≤ deg exCommon.graphE 2 ∧ 3 ≤ deg exCommon.graphE 0 ∧
    LeavesAre exCommon.graphV exCommon.graphE [3, 4, 5] ∧
    ∃ t', mergeStep exCommon e.id 1 2 = some t' ∧ LeavesAre t'.graphV t'.graphE [3, 4, 5] := by
  intro e e0
  have ht : Tree exCommon := tree_of_checks (by decide) (by decide)
  have he : e ∈ exCommon.edges := List.Mem.tail _ (List.Mem.head _)
  have hj : Joins e 0 2 := Or.inl ⟨rfl, rfl⟩
  have he0 : e0 ∈ exCommon.edges := List.Mem.head _
  have hne : e0.id ≠ e.id := by decide
  have hj0 : Joins e0 0 1 := Or.inl ⟨rfl, rfl⟩
  have h1 : 2 ≤ deg exCommon.graphE 1 := by decide
  have h2 : 2 ≤ deg exCommon.graphE 2 := by decide
  have h3 : 3 ≤ deg exCommon.graphE 0 := by decide
  have hT : LeavesAre exCommon.graphV exCommon.graphE [3, 4, 5] := (AdaptaVerif.Props.C12.leavesAre_iff _ _ _).mp (by decide)
  exact ⟨ht, he, hj, he0, hne, hj0, h1, h2, h3, hT, mergeStep_same_terminals ht he hj he0 hne hj0 h1 h2 h3 _ hT⟩

-- non-vacuity (joint) of the `removeZeroLengthEdges_*` theorems: ALL hypotheses on `exTwoJunctions`, a traversal that
-- returns and does contract (6 nodes → 5), the theorems instantiated on it
example :
    let s : Imp := mkImp exTwoJunctions [(1, 0), (2, 1)] [1] true
    Tree s.t ∧ NoLeafZero s.t ∧ JInv s ∧ s.keepAttrs = true ∧ LeavesAre s.t.graphV s.t.graphE [2, 3, 4, 5] ∧
    ∃ s', rzleNode 100 s 0 none = some s' ∧ s'.t.nodes.length = 5 ∧ Tree s'.t ∧
      LeavesAre s'.t.graphV s'.t.graphE [2, 3, 4, 5] ∧ JInv s' ∧ s'.delJ = [2] ∧ ¬ Carried s'.t 2 ∧
      (∀ n' ∈ s'.t.nodes, n'.edges.length = 1 → ∃ n ∈ s.t.nodes, n.edges.length = 1 ∧ n.point = n'.point) := by
  intro s
  have ht : Tree s.t := tree_of_checks (by decide) (by decide)
  have hz : NoLeafZero s.t := noLeafZerob_sound ht.1 (by decide +kernel)
  have hi : JInv s := jinvb_sound (by decide)
  have hT : LeavesAre s.t.graphV s.t.graphE [2, 3, 4, 5] := (AdaptaVerif.Props.C12.leavesAre_iff _ _ _).mp (by decide)
  have hd : (rzleNode 100 s 0 none).map (fun s' => (s'.t.nodes.length, s'.delJ)) = some (5, [2]) := by decide +kernel
  refine ⟨ht, hz, hi, rfl, hT, ?_⟩
  match h : rzleNode 100 s 0 none with
  | none => rw [h] at hd; cases hd
  | some s' =>
    rw [h] at hd
    simp only [Option.map_some, Option.some.injEq, Prod.mk.injEq] at hd
    have hb := removeZeroLengthEdges_junction_bookkeeping ht hi h
    have ha := removeZeroLengthEdges_keeps_terminal_attrs ht rfl h
    refine ⟨s', rfl, hd.1, removeZeroLengthEdges_preserves_tree ht h,
      (removeZeroLengthEdges_same_terminals ht hz _ hT h).2.2, hb.1, hd.2, hb.2.2.1 2 (by rw [hd.2]; exact List.Mem.head _), ?_⟩
    intro n' hn' hl
    obtain ⟨n, hn, h1, _, h3⟩ := ha n' hn' hl
    exact ⟨n, hn, h1, h3⟩

-- non-vacuity (joint) of the `moveJunction_*` theorems: ALL hypotheses on `exCommon` (junction 1 at node 0), a move that
-- does happen (6 nodes stay 6: one split, one merge; `newSelf = some 1`), the theorems instantiated on it
example :
    let s : Imp := mkImp exCommon [(1, 0)] [1] false
    Good s ∧ LeavesAre s.t.graphV s.t.graphE [3, 4, 5] ∧
    (∀ self, s.junctions.find? (fun p => p.1 == 1) = some (1, self) →
      AdaptaVerif.Lemmas.HyperTreeMoveTerminals.MoveSafe s.t self) ∧
    ∃ r, moveJunctionStep s 1 = some r ∧ r.newSelf = some 1 ∧ Tree r.s.t ∧ LeavesAre r.s.t.graphV r.s.t.graphE [3, 4, 5] ∧
      JInv r.s ∧ r.s.delJ = s.delJ ∧ Rewrites s r.s ∧ Good r.s := by
  intro s
  have ht : Tree s.t := tree_of_checks (by decide) (by decide)
  have hi : JInv s := jinvb_sound (by decide)
  have hF : AdaptaVerif.Lemmas.HyperTreeMove.JFresh s := ⟨by decide, by decide⟩
  have hN : AdaptaVerif.Lemmas.HyperTreeMove.NewJFresh s := fun j hj => by cases hj
  have hg : Good s := ⟨ht, hi, hF, hN⟩
  have hT : LeavesAre s.t.graphV s.t.graphE [3, 4, 5] := (AdaptaVerif.Props.C12.leavesAre_iff _ _ _).mp (by decide)
  have hsafe : ∀ self, s.junctions.find? (fun p => p.1 == 1) = some (1, self) →
      AdaptaVerif.Lemmas.HyperTreeMoveTerminals.MoveSafe s.t self := by
    intro self hf
    have : self = 0 := by
      have h0 : s.junctions.find? (fun p => p.1 == 1) = some (1, 0) := by decide
      rw [h0] at hf; simp at hf; exact hf.symm
    subst this
    show AdaptaVerif.Lemmas.HyperTreeMoveTerminals.MoveSafe exCommon 0
    unfold AdaptaVerif.Lemmas.HyperTreeMoveTerminals.MoveSafe
    decide +kernel
  have hd : (moveJunctionStep s 1).map (fun r => r.newSelf) = some (some 1) := by decide +kernel
  refine ⟨hg, hT, hsafe, ?_⟩
  match h : moveJunctionStep s 1 with
  | none => rw [h] at hd; cases hd
  | some r =>
    rw [h] at hd
    simp only [Option.map_some, Option.some.injEq] at hd
    have hb := moveJunction_junction_bookkeeping ht hi hF hN h
    have hrw : Rewrites s r.s := Rewrites.step (Rewrites.refl s) (Rewrite.move h)
    exact ⟨r, rfl, hd, moveJunction_preserves_tree ht h, moveJunction_same_terminals ht hsafe hT h, hb.1, hb.2.2.2.2.1,
      hrw, (improve_junction_bookkeeping hg hrw).1⟩

-- non-vacuity of `moveJunctionFully_preserves_tree`: the caller's loop returns on `exCommon` (junction ends at node 1)
example : (moveJunctionFully 10 (mkImp exCommon [(1, 0)] [1] false) 1).map (fun s => (s.t.nodes.length, s.t.leaves, s.junctions)) =
    some (6, [3, 4, 5], [(1, 1)]) := by
  decide +kernel

end AdaptaVerif.Props.C12Ops
