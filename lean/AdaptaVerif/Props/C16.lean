/-
C16 — libavoid geometry predicates agree with exact arithmetic.
Property theorems only. `Model.Geometry` is the hand model over ℚ; `Gen.Geometry` is regenerated
from /repo's C++ by cpp2lean on every run and proved equal to the model (tie theorems below).
-/
import AdaptaVerif.Lemmas.GeometryBridge
import AdaptaVerif.Lemmas.GeometrySpec
import AdaptaVerif.Lemmas.InPolyBridge
namespace AdaptaVerif.Props.C16
open AdaptaVerif.Model.Geometry AdaptaVerif.Lemmas
open AdaptaVerif.Lemmas.GeometryBridge

/-! ## Tie: the kernels generated from the current C++ are the model -/

theorem gen_kernels_are_model :
    (∀ a b c z, Gen.vecDir a b c z = M.vecDir a b c z) ∧
    (∀ a b c, Gen.inBetween a b c = M.inBetween a b c) ∧
    (∀ a b c t, Gen.colinear a b c t = M.colinear a b c t) ∧
    (∀ a b c t, Gen.pointOnLine a b c t = M.pointOnLine a b c t) ∧
    (∀ a b c d, Gen.segmentIntersect a b c d = M.segmentIntersect a b c d) ∧
    (∀ i a0 a1 a2 b, Gen.inValidRegion i a0 a1 a2 b = M.inValidRegion i a0 a1 a2 b) ∧
    (∀ c1 c2 c3 p, Gen.cornerSide c1 c2 c3 p = M.cornerSide c1 c2 c3 p) ∧
    (∀ a1 a2 b1 b2, Gen.segmentIntersectPoint a1 a2 b1 b2 = M.segmentIntersectPoint a1 a2 b1 b2) ∧
    (∀ a1 a2 b1 b2, Gen.rayIntersectPoint a1 a2 b1 b2 = M.rayIntersectPoint a1 a2 b1 b2) :=
  ⟨GeometryBridge.vecDir_eq, GeometryBridge.inBetween_eq, GeometryBridge.colinear_eq,
   GeometryBridge.pointOnLine_eq, GeometryBridge.segmentIntersect_eq, GeometryBridge.inValidRegion_eq,
   GeometryBridge.cornerSide_eq, GeometryBridge.segmentIntersectPoint_eq, GeometryBridge.rayIntersectPoint_eq⟩

/-- none of the assertions inside the kernels can fire with the default (zero) tolerance -/
theorem gen_kernels_assertions_hold :
    (∀ a b c z, 0 ≤ z → Gen.vecDir_pre a b c z = true) ∧
    (∀ a b c d, Gen.segmentIntersect_pre a b c d = true) ∧
    (∀ a b c, Gen.pointOnLine_pre a b c 0 = true) ∧
    (∀ a b c t, 0 ≤ t → Gen.colinear_pre a b c t = true) ∧
    (∀ i a0 a1 a2 b, Gen.inValidRegion_pre i a0 a1 a2 b = true) ∧
    (∀ c1 c2 c3 p, Gen.cornerSide_pre c1 c2 c3 p = true) :=
  ⟨GeometryBridge.vecDir_pre_of_nonneg, GeometryBridge.segmentIntersect_pre_true,
   GeometryBridge.pointOnLine_pre_zero, GeometryBridge.colinear_pre_of_nonneg,
   GeometryBridge.inValidRegion_pre_true, GeometryBridge.cornerSide_pre_true⟩

/-- the loop kernel `inPoly` generated from the C++ (indexed `for` loop with early return) is the
    list-based model, and all its vector accesses are in bounds -/
theorem gen_inPoly_is_model (poly : List Pt) (q : Pt) (cb : Bool) :
    AdaptaVerif.Gen.Geometry.inPoly poly q cb = inPoly poly q cb ∧
    AdaptaVerif.Gen.Geometry.inPoly_pre poly q cb = true :=
  ⟨InPolyBridge.inPoly_eq poly q cb, InPolyBridge.inPoly_pre_true poly q cb⟩

/-! ## Orientation -/

/-- `vecDir` is the sign of the cross product (b−a)×(c−a) -/
theorem vecDir_is_orientation (a b c : Pt) :
    (vecDir a b c = 1 ↔ 0 < area2 a b c) ∧ (vecDir a b c = -1 ↔ area2 a b c < 0) ∧
    (vecDir a b c = 0 ↔ area2 a b c = 0) := GeometrySpec.vecDir_sign a b c

theorem vecDir_swap (a b c : Pt) : vecDir a b c = - vecDir b a c := GeometrySpec.vecDir_swap a b c
theorem vecDir_cyclic (a b c : Pt) : vecDir a b c = vecDir b c a := GeometrySpec.vecDir_cyclic a b c
theorem vecDir_translate (a b c t : Pt) :
    vecDir (GeometrySpec.addPt a t) (GeometrySpec.addPt b t) (GeometrySpec.addPt c t) = vecDir a b c :=
  GeometrySpec.vecDir_translate a b c t

/-- `colinear` (zero tolerance) ⇔ the three points are collinear -/
theorem colinear_iff (a b c : Pt) : colinear a b c = true ↔ area2 a b c = 0 := GeometrySpec.colinear_iff a b c

/-! ## Segment intersection -/

/-- `segmentIntersect` ⇔ the two segments cross properly: a single common point interior to both
    (and the segments are not parallel) -/
theorem segmentIntersect_iff_proper_crossing (a b c d : Pt) :
    segmentIntersect a b c d = true ↔
      ∃ s t : Rat, 0 < s ∧ s < 1 ∧ 0 < t ∧ t < 1 ∧
        a.x + s * (b.x - a.x) = c.x + t * (d.x - c.x) ∧ a.y + s * (b.y - a.y) = c.y + t * (d.y - c.y) ∧
        (b.x - a.x) * (d.y - c.y) - (b.y - a.y) * (d.x - c.x) ≠ 0 :=
  GeometrySpec.segmentIntersect_iff a b c d

theorem segmentIntersect_symm (a b c d : Pt) :
    segmentIntersect a b c d = segmentIntersect b a c d ∧
    segmentIntersect a b c d = segmentIntersect a b d c ∧
    segmentIntersect a b c d = segmentIntersect c d a b := GeometrySpec.segmentIntersect_symm a b c d

/-- `pointOnLine` (zero tolerance) ⇔ c lies in the *open* segment ab (the code is strict although its
    comment says "closed") -/
theorem pointOnLine_iff_open_segment (a b c : Pt) :
    pointOnLine a b c = true ↔ ∃ t : Rat, 0 < t ∧ t < 1 ∧ c.x = a.x + t * (b.x - a.x) ∧ c.y = a.y + t * (b.y - a.y) ∧ a ≠ b :=
  GeometrySpec.pointOnLine_iff a b c

theorem pointOnLine_symm (a b c : Pt) : pointOnLine a b c = pointOnLine b a c := GeometrySpec.pointOnLine_symm a b c

/-! ## Point in convex polygon -/

/-- `inPoly` ⇔ q is on the non-negative side of every edge (strictly positive when the border does not count) -/
theorem inPoly_iff (poly : List Pt) (q : Pt) :
    (inPoly poly q true = true ↔ ∀ e ∈ edges poly, 0 ≤ area2 e.1 e.2 q) ∧
    (inPoly poly q false = true ↔ ∀ e ∈ edges poly, 0 < area2 e.1 e.2 q) := GeometrySpec.inPoly_iff poly q

/-! ## Segment intersection point -/

/-- when `segmentIntersectPoint` answers DO_INTERSECT, the returned point lies on both closed
    segments; PARALLEL is answered only for parallel directions; -/
theorem segmentIntersectPoint_sound (a1 a2 b1 b2 : Pt) :
    (∀ x y, segmentIntersectPoint a1 a2 b1 b2 = (DO_INTERSECT, x, y) →
      ∃ s t : Rat, 0 ≤ s ∧ s ≤ 1 ∧ 0 ≤ t ∧ t ≤ 1 ∧
        x = a1.x + s * (a2.x - a1.x) ∧ y = a1.y + s * (a2.y - a1.y) ∧
        x = b1.x + t * (b2.x - b1.x) ∧ y = b1.y + t * (b2.y - b1.y)) ∧
    (∀ x y, segmentIntersectPoint a1 a2 b1 b2 = (PARALLEL, x, y) →
      (a2.y - a1.y) * (b1.x - b2.x) - (a2.x - a1.x) * (b1.y - b2.y) = 0) :=
  GeometrySpec.segmentIntersectPoint_sound a1 a2 b1 b2

/-! ## Exactness on small integers (why the double computation equals the ℚ model) -/

/-- for integer coordinates bounded by B, the only intermediate products are integers bounded by
    8·B²; with B = 2^20 that is 2^43 < 2^53, so IEEE double arithmetic computes `area2` exactly -/
theorem area2_integer_bounded (B : Int) (ax ay bx by' cx cy : Int)
    (h : |ax| ≤ B ∧ |ay| ≤ B ∧ |bx| ≤ B ∧ |by'| ≤ B ∧ |cx| ≤ B ∧ |cy| ≤ B) :
    ∃ n : Int, area2 ⟨ax, ay⟩ ⟨bx, by'⟩ ⟨cx, cy⟩ = (n : Rat) ∧ |n| ≤ 8 * B * B ∧
      |(bx - ax) * (cy - ay)| ≤ 4 * B * B ∧ |(cx - ax) * (by' - ay)| ≤ 4 * B * B :=
  GeometrySpec.area2_integer_bounded B ax ay bx by' cx cy h

example : (8 : Int) * 2^20 * 2^20 < 2^53 := by decide
example : segmentIntersect ⟨0,0⟩ ⟨2,2⟩ ⟨0,2⟩ ⟨2,0⟩ = true := by norm_num [segmentIntersect, vecDir, area2]
example : pointOnLine ⟨0,0⟩ ⟨2,2⟩ ⟨1,1⟩ = true := by norm_num [pointOnLine, inBetween, strictBetween, vecDir, area2, absR, eps]

-- non-vacuity of segmentIntersectPoint_sound: both premises (DO_INTERSECT, PARALLEL) occur
example : segmentIntersectPoint ⟨0,0⟩ ⟨2,2⟩ ⟨0,2⟩ ⟨2,0⟩ = (DO_INTERSECT, 1, 1) := by decide +kernel
example : segmentIntersectPoint ⟨0,0⟩ ⟨2,0⟩ ⟨1,0⟩ ⟨3,0⟩ = (PARALLEL, 0, 0) := by decide +kernel
-- non-vacuity of inPoly_iff: a square has 4 edges (the `∀ e ∈ edges poly` is not over the empty list);
-- interior / border / exterior point
example : (edges [⟨0,0⟩, ⟨2,0⟩, ⟨2,2⟩, ⟨0,2⟩]).length = 4 ∧
    inPoly [⟨0,0⟩, ⟨2,0⟩, ⟨2,2⟩, ⟨0,2⟩] ⟨1,1⟩ false = true ∧
    inPoly [⟨0,0⟩, ⟨2,0⟩, ⟨2,2⟩, ⟨0,2⟩] ⟨0,1⟩ true = true ∧
    inPoly [⟨0,0⟩, ⟨2,0⟩, ⟨2,2⟩, ⟨0,2⟩] ⟨0,1⟩ false = false ∧
    inPoly [⟨0,0⟩, ⟨2,0⟩, ⟨2,2⟩, ⟨0,2⟩] ⟨3,1⟩ true = false := by
  norm_num [inPoly, edges, prevs, vecDir, area2]
-- `vecDir` takes all three values; `colinear` both
example : vecDir ⟨0,0⟩ ⟨1,0⟩ ⟨0,1⟩ = 1 ∧ vecDir ⟨0,0⟩ ⟨0,1⟩ ⟨1,0⟩ = -1 ∧ vecDir ⟨0,0⟩ ⟨1,1⟩ ⟨2,2⟩ = 0 ∧
    colinear ⟨0,0⟩ ⟨1,2⟩ ⟨2,4⟩ = true ∧ colinear ⟨0,0⟩ ⟨1,2⟩ ⟨2,5⟩ = false := by decide +kernel

end AdaptaVerif.Props.C16
