import AdaptaVerif.Model.Geometry
import Mathlib.Tactic.Linarith
import Mathlib.Tactic.Ring
namespace AdaptaVerif.Props.C16
open AdaptaVerif.Model.Geometry

/-- orientation is antisymmetric under swapping the first two points -/
theorem vecDir_swap (a b c : Pt) : vecDir a b c = - vecDir b a c := by
  have h : area2 a b c = - area2 b a c := by unfold area2; ring
  unfold vecDir
  simp only [h]
  split_ifs <;> first | rfl | (exfalso; linarith)

end AdaptaVerif.Props.C16
