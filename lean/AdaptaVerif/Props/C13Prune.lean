/-
C13 — the pruning pass of the `TopologyConstraints` constructor (`PruneDegenerate::operator()` with
`validTurn`, cola/libtopology/topology_constraints_constructor.cpp), model `Model/TopoPrune`.
What the pass guarantees for a coincident pair of bend points (the corner of one node lying exactly
on the corner of another): end points stay, a surviving point of the pair turns around its own node,
and in the diagonal-touch configuration exactly the geometry decides — not both can stay.  The two
zero-length branches of the C++ are mirror images (`pruned_reverse`, `markAt_reverse`,
`prune_reverse`); a change to one of them alone breaks these.
-/
import AdaptaVerif.Model.TopoPrune
import AdaptaVerif.Lemmas.TopoPrune
import Mathlib.Tactic.Linarith
import Mathlib.Tactic.Ring
import Mathlib.Algebra.Order.Field.Rat
namespace AdaptaVerif.Props.C13Prune
open AdaptaVerif.Model.TopoPrune AdaptaVerif.Lemmas.TopoPrune

/-! ### 1. `validTurn` spelled out -/

/-- the turn is straight, or the centre of `v`'s node is strictly on the inner side of both legs -/
theorem validTurn_iff (u v w : BPt) :
    validTurn u v w = true ↔
      (cross u.x u.y v.x v.y w.x w.y = 0 ∨
        (0 < cross u.x u.y v.x v.y w.x w.y * cross u.x u.y v.x v.y v.cx v.cy ∧
         0 < cross u.x u.y v.x v.y w.x w.y * cross v.x v.y w.x w.y v.cx v.cy)) := by
  unfold validTurn
  by_cases h : cross u.x u.y v.x v.y w.x w.y = 0
  · simp [h]
  · simp [h]

/-! ### 2. end points, sublist -/

/-- pruning only removes points -/
theorem prune_sublist (dim : Nat) (path : List BPt) : (prune dim path).Sublist path := by
  unfold prune
  have h := (List.filter_sublist (l := path.zipIdx) (p := fun pi => !markAt dim path pi.2)).map (·.1)
  simpa [List.zipIdx_map_fst] using h

theorem markAt_zero (dim : Nat) (path : List BPt) : markAt dim path 0 = false := by
  simp [markAt]

theorem markAt_last (dim : Nat) (path : List BPt) : markAt dim path (path.length - 1) = false := by
  unfold markAt
  have h : path[path.length - 1 + 1]? = none := by
    apply List.getElem?_eq_none; omega
  rw [h]
  split <;> simp_all

/-- the first point of a path is never pruned (any path) -/
theorem prune_head? (dim : Nat) (path : List BPt) : (prune dim path).head? = path.head? := by
  rw [prune_eq_keepBy]
  cases path with
  | nil => rfl
  | cons a l =>
    rw [keepBy_cons]
    simp [markAt_zero]

/-- the last point of a path is never pruned (any path) -/
theorem prune_getLast? (dim : Nat) (path : List BPt) : (prune dim path).getLast? = path.getLast? := by
  rw [prune_eq_keepBy]
  rcases List.eq_nil_or_concat path with h | ⟨l, b, h⟩
  · subst h; rfl
  · have hm := markAt_last dim path
    rw [List.concat_eq_append] at h
    have hl : path.length - 1 = l.length := by rw [h]; simp
    rw [hl] at hm
    have key : ∀ (f : Nat → Bool), f l.length = true →
        (keepBy f (l ++ [b]) 0).getLast? = (l ++ [b]).getLast? := by
      intro f hf
      rw [keepBy_append, keepBy_cons, keepBy_nil, Nat.zero_add, hf]
      simp
    have := key (fun i => !markAt dim path i) (by simp [hm])
    rw [← h] at this
    exact this

/-- the path's end points are unchanged -/
theorem prune_head_last (dim : Nat) (path : List BPt) (_h : 2 ≤ path.length) :
    (prune dim path).head? = path.head? ∧ (prune dim path).getLast? = path.getLast? :=
  ⟨prune_head? dim path, prune_getLast? dim path⟩

/-! ### 3. coincident pairs -/

/-- A point of a coincident pair that survives the pruning pass turns — judged from the point
    BEFORE the pair to the point AFTER the pair — around its own node, or is straight. -/
theorem kept_of_pair_turns_around_own_node (dim : Nat) (path : List BPt) (i : Nat) (n o p q : BPt)
    (hi : 1 ≤ i) (hn : path[i - 1]? = some n) (ho : path[i]? = some o)
    (hp : path[i + 1]? = some p) (hq : path[i + 2]? = some q) (hz : samePos o p = true) :
    (markAt dim path i = false → validTurn n o q = true) ∧
    (markAt dim path (i + 1) = false → validTurn n p q = true) := by
  obtain ⟨m1, m2⟩ := markAt_pair dim path i n o p q hi hn ho hp hq
  rw [m1, m2]
  constructor
  · intro h
    simp only [pruned, outRule, hz, Bool.or_eq_false_iff, Bool.true_and] at h
    simpa using h.2
  · intro h
    simp only [pruned, inRule, hz, Bool.or_eq_false_iff, Bool.true_and] at h
    simpa using h.1.2

/-- For an isolated coincident pair (the segments before and after it have positive length) the
    marks are exactly the negated turn tests: the collinear rule cannot fire (one incident segment
    has length 0), and the other zero-length branch needs the neighbouring segment to be
    degenerate too. -/
theorem mark_of_isolated_pair (dim : Nat) (path : List BPt) (i : Nat) (n o p q : BPt)
    (hi : 1 ≤ i) (hn : path[i - 1]? = some n) (ho : path[i]? = some o)
    (hp : path[i + 1]? = some p) (hq : path[i + 2]? = some q) (hz : samePos o p = true)
    (hno : samePos n o = false) (hpq : samePos p q = false) :
    markAt dim path i = !validTurn n o q ∧ markAt dim path (i + 1) = !validTurn n p q := by
  obtain ⟨m1, m2⟩ := markAt_pair dim path i n o p q hi hn ho hp hq
  rw [m1, m2]
  constructor
  · simp [pruned, collinearRule, inRule, outRule, hz, hno]
  · simp [pruned, collinearRule, inRule, outRule, hz, hpq]

/-! ### 4. diagonal touch: not both points of the pair can stay -/

/-- Two nodes touch diagonally at `X = (o.x,o.y) = (p.x,p.y)` (their centres lie in opposite open
    quadrants seen from `X`), the incoming leg `n → X` runs inside neither of the two quadrants, and
    the turn `n → X → q` is strict.  Then the turn cannot be valid around both nodes. -/
theorem coincident_pair_not_both_valid (n o p q : BPt) (hz : samePos o p = true)
    (hcx : (o.cx - o.x) * (p.cx - p.x) < 0) (hcy : (o.cy - o.y) * (p.cy - p.y) < 0)
    (hno : ¬ (0 < (n.x - o.x) * (o.cx - o.x) ∧ 0 < (n.y - o.y) * (o.cy - o.y)))
    (hnp : ¬ (0 < (n.x - p.x) * (p.cx - p.x) ∧ 0 < (n.y - p.y) * (p.cy - p.y)))
    (hc : cross n.x n.y o.x o.y q.x q.y ≠ 0) :
    ¬ (validTurn n o q = true ∧ validTurn n p q = true) := by
  obtain ⟨hx, hy⟩ := (samePos_iff o p).mp hz
  rintro ⟨h1, h2⟩
  rw [validTurn_iff] at h1 h2
  rw [← hx, ← hy] at h2 hnp
  rw [← hx] at hcx
  rw [← hy] at hcy
  have a1 := (h1.resolve_left hc).1
  have a2 := (h2.resolve_left hc).1
  have hpos := mul_pos_of_same_sign a1 a2
  rw [cross_in_leg, cross_in_leg, neg_mul_neg] at hpos
  have hle := cross_opposite_quadrants (n.x - o.x) (n.y - o.y) (o.cx - o.x) (o.cy - o.y)
    (p.cx - o.x) (p.cy - o.y) hcx hcy hno hnp
  exact absurd hpos (not_lt.mpr hle)

/-- the same with the OUTGOING leg `X → q` running inside neither quadrant -/
theorem coincident_pair_not_both_valid_out (n o p q : BPt) (hz : samePos o p = true)
    (hcx : (o.cx - o.x) * (p.cx - p.x) < 0) (hcy : (o.cy - o.y) * (p.cy - p.y) < 0)
    (hqo : ¬ (0 < (q.x - o.x) * (o.cx - o.x) ∧ 0 < (q.y - o.y) * (o.cy - o.y)))
    (hqp : ¬ (0 < (q.x - p.x) * (p.cx - p.x) ∧ 0 < (q.y - p.y) * (p.cy - p.y)))
    (hc : cross n.x n.y o.x o.y q.x q.y ≠ 0) :
    ¬ (validTurn n o q = true ∧ validTurn n p q = true) := by
  obtain ⟨hx, hy⟩ := (samePos_iff o p).mp hz
  rintro ⟨h1, h2⟩
  rw [validTurn_iff] at h1 h2
  rw [← hx, ← hy] at h2 hqp
  rw [← hx] at hcx
  rw [← hy] at hcy
  have a1 := (h1.resolve_left hc).2
  have a2 := (h2.resolve_left hc).2
  have hpos := mul_pos_of_same_sign a1 a2
  rw [cross_out_leg, cross_out_leg] at hpos
  have hle := cross_opposite_quadrants (q.x - o.x) (q.y - o.y) (o.cx - o.x) (o.cy - o.y)
    (p.cx - o.x) (p.cy - o.y) hcx hcy hqo hqp
  exact absurd hpos (not_lt.mpr hle)

/-- After the constructor's pass no zero-length segment is left at a diagonal-touch pair. -/
theorem coincident_pair_one_is_pruned (dim : Nat) (path : List BPt) (i : Nat) (n o p q : BPt)
    (hi : 1 ≤ i) (hn : path[i - 1]? = some n) (ho : path[i]? = some o)
    (hp : path[i + 1]? = some p) (hq : path[i + 2]? = some q) (hz : samePos o p = true)
    (hcx : (o.cx - o.x) * (p.cx - p.x) < 0) (hcy : (o.cy - o.y) * (p.cy - p.y) < 0)
    (hno : ¬ (0 < (n.x - o.x) * (o.cx - o.x) ∧ 0 < (n.y - o.y) * (o.cy - o.y)))
    (hnp : ¬ (0 < (n.x - p.x) * (p.cx - p.x) ∧ 0 < (n.y - p.y) * (p.cy - p.y)))
    (hc : cross n.x n.y o.x o.y q.x q.y ≠ 0) :
    markAt dim path i = true ∨ markAt dim path (i + 1) = true := by
  have hk := kept_of_pair_turns_around_own_node dim path i n o p q hi hn ho hp hq hz
  have hnb := coincident_pair_not_both_valid n o p q hz hcx hcy hno hnp hc
  cases h1 : markAt dim path i with
  | true => exact Or.inl rfl
  | false =>
    cases h2 : markAt dim path (i + 1) with
    | true => exact Or.inr rfl
    | false => exact absurd ⟨hk.1 h1, hk.2 h2⟩ hnb

/-- the same from the outgoing leg -/
theorem coincident_pair_one_is_pruned_out (dim : Nat) (path : List BPt) (i : Nat) (n o p q : BPt)
    (hi : 1 ≤ i) (hn : path[i - 1]? = some n) (ho : path[i]? = some o)
    (hp : path[i + 1]? = some p) (hq : path[i + 2]? = some q) (hz : samePos o p = true)
    (hcx : (o.cx - o.x) * (p.cx - p.x) < 0) (hcy : (o.cy - o.y) * (p.cy - p.y) < 0)
    (hqo : ¬ (0 < (q.x - o.x) * (o.cx - o.x) ∧ 0 < (q.y - o.y) * (o.cy - o.y)))
    (hqp : ¬ (0 < (q.x - p.x) * (p.cx - p.x) ∧ 0 < (q.y - p.y) * (p.cy - p.y)))
    (hc : cross n.x n.y o.x o.y q.x q.y ≠ 0) :
    markAt dim path i = true ∨ markAt dim path (i + 1) = true := by
  have hk := kept_of_pair_turns_around_own_node dim path i n o p q hi hn ho hp hq hz
  have hnb := coincident_pair_not_both_valid_out n o p q hz hcx hcy hqo hqp hc
  cases h1 : markAt dim path i with
  | true => exact Or.inl rfl
  | false =>
    cases h2 : markAt dim path (i + 1) with
    | true => exact Or.inr rfl
    | false => exact absurd ⟨hk.1 h1, hk.2 h2⟩ hnb

/-! ### 5. symmetry of the rule -/

/-- walking the path backwards does not change the verdict on a turn -/
theorem validTurn_reverse (u v w : BPt) : validTurn u v w = validTurn w v u := validTurn_rev u v w

/-- swapping the axes (x ↔ y, cx ↔ cy in all three points) does not change the verdict -/
theorem validTurn_transpose (u v w : BPt) :
    validTurn ⟨u.y, u.x, u.cy, u.cx⟩ ⟨v.y, v.x, v.cy, v.cx⟩ ⟨w.y, w.x, w.cy, w.cx⟩
      = validTurn u v w := validTurn_tr u v w

/-- mirroring in the y axis (negate x and cx in all three points) does not change the verdict -/
theorem validTurn_mirror (u v w : BPt) :
    validTurn ⟨-u.x, u.y, -u.cx, u.cy⟩ ⟨-v.x, v.y, -v.cx, v.cy⟩ ⟨-w.x, w.y, -w.cx, w.cy⟩
      = validTurn u v w := validTurn_mir u v w

/-- The rule read backwards is the rule: the zero-length `if` branch (`inRule`) and the `else if`
    branch (`outRule`) are mirror images of each other. -/
theorem pruned_reverse (dim : Nat) (n? : Option BPt) (o p q : BPt) (r? : Option BPt) :
    pruned dim n? o p q r? = pruned dim r? q p o n? := pruned_rev dim n? o p q r?

theorem markAt_reverse (dim : Nat) (path : List BPt) (i : Nat) (hi : i < path.length) :
    markAt dim path.reverse i = markAt dim path (path.length - 1 - i) := markAt_rev dim path i hi

/-- pruning the reversed path gives the reversed pruned path -/
theorem prune_reverse (dim : Nat) (path : List BPt) :
    prune dim path.reverse = (prune dim path).reverse := by
  rw [prune_eq_keepBy, prune_eq_keepBy]
  apply keepBy_reverse
  intro i hi
  simp only [Nat.zero_add]
  rw [markAt_rev dim path i hi]

/-- XDIM and YDIM are each other's transpose: pruning the transposed path in the other scan
    dimension gives the transposed result -/
theorem prune_transpose (dim : Nat) (hd : dim < 2) (path : List BPt) :
    prune (1 - dim) (path.map fun a => ⟨a.y, a.x, a.cy, a.cx⟩)
      = (prune dim path).map fun a => ⟨a.y, a.x, a.cy, a.cx⟩ :=
  (pruneSymm_transpose dim hd).prune_eq path

theorem markAt_transpose (dim : Nat) (hd : dim < 2) (path : List BPt) (i : Nat) :
    markAt (1 - dim) (path.map fun a => ⟨a.y, a.x, a.cy, a.cx⟩) i = markAt dim path i :=
  (pruneSymm_transpose dim hd).markAt_eq path i

/-- pruning commutes with mirroring the picture in the y axis -/
theorem prune_mirror (dim : Nat) (path : List BPt) :
    prune dim (path.map fun a => ⟨-a.x, a.y, -a.cx, a.cy⟩)
      = (prune dim path).map fun a => ⟨-a.x, a.y, -a.cx, a.cy⟩ :=
  (pruneSymm_mirror dim).prune_eq path

theorem markAt_mirror (dim : Nat) (path : List BPt) (i : Nat) :
    markAt dim (path.map fun a => ⟨-a.x, a.y, -a.cx, a.cy⟩) i = markAt dim path i :=
  (pruneSymm_mirror dim).markAt_eq path i

/-! ### 6. non-vacuity: the diagonal-touch witness (corner of MTL on the corner of NBR) -/

/-- forward: the second point of the pair (NBR) is pruned, MTL stays -/
example : marks 0 [⟨60,-45,60,-45⟩, ⟨100,30,125,15⟩, ⟨100,30,75,45⟩, ⟨200,100,200,100⟩]
    = [false, false, true, false] := by decide +kernel

/-- backward: again NBR (now the first point of the pair) is pruned -/
example : marks 0 [⟨200,100,200,100⟩, ⟨100,30,75,45⟩, ⟨100,30,125,15⟩, ⟨60,-45,60,-45⟩]
    = [false, true, false, false] := by decide +kernel

example : prune 0 [⟨60,-45,60,-45⟩, ⟨100,30,125,15⟩, ⟨100,30,75,45⟩, ⟨200,100,200,100⟩]
    = [⟨60,-45,60,-45⟩, ⟨100,30,125,15⟩, ⟨200,100,200,100⟩] := by decide +kernel

/-- the hypotheses of `coincident_pair_one_is_pruned` (both legs) are satisfiable: n = A, o = MTL,
    p = NBR, q = B at index 1 of that path -/
example :
    let n : BPt := ⟨60,-45,60,-45⟩
    let o : BPt := ⟨100,30,125,15⟩
    let p : BPt := ⟨100,30,75,45⟩
    let q : BPt := ⟨200,100,200,100⟩
    let path := [n, o, p, q]
    path[1 - 1]? = some n ∧ path[1]? = some o ∧ path[1 + 1]? = some p ∧ path[1 + 2]? = some q ∧
    samePos o p = true ∧ samePos n o = false ∧ samePos p q = false ∧
    (o.cx - o.x) * (p.cx - p.x) < 0 ∧ (o.cy - o.y) * (p.cy - p.y) < 0 ∧
    ¬ (0 < (n.x - o.x) * (o.cx - o.x) ∧ 0 < (n.y - o.y) * (o.cy - o.y)) ∧
    ¬ (0 < (n.x - p.x) * (p.cx - p.x) ∧ 0 < (n.y - p.y) * (p.cy - p.y)) ∧
    ¬ (0 < (q.x - o.x) * (o.cx - o.x) ∧ 0 < (q.y - o.y) * (o.cy - o.y)) ∧
    ¬ (0 < (q.x - p.x) * (p.cx - p.x) ∧ 0 < (q.y - p.y) * (p.cy - p.y)) ∧
    cross n.x n.y o.x o.y q.x q.y ≠ 0 ∧
    validTurn n o q = true ∧ validTurn n p q = false := by decide +kernel

/-- the corollary applied to the witness -/
example :
    markAt 0 [⟨60,-45,60,-45⟩, ⟨100,30,125,15⟩, ⟨100,30,75,45⟩, ⟨200,100,200,100⟩] 1 = true ∨
    markAt 0 [⟨60,-45,60,-45⟩, ⟨100,30,125,15⟩, ⟨100,30,75,45⟩, ⟨200,100,200,100⟩] (1 + 1) = true :=
  coincident_pair_one_is_pruned 0 _ 1 ⟨60,-45,60,-45⟩ ⟨100,30,125,15⟩ ⟨100,30,75,45⟩
    ⟨200,100,200,100⟩ (Nat.le_refl 1) rfl rfl rfl rfl (by decide +kernel) (by decide +kernel)
    (by decide +kernel) (by decide +kernel) (by decide +kernel) (by decide +kernel)

end AdaptaVerif.Props.C13Prune
