/-
C15 (A) — object-lifetime logic of `Avoid::Router`: property theorems over the executable model
`Model/Lifecycle.lean` (spec predicates in `Spec/Lifecycle.lean`, helper lemmas in
`Lemmas/Lifecycle*.lean`).
-/
import AdaptaVerif.Lemmas.LifecycleFault
import AdaptaVerif.Lemmas.LifecycleCheckpoints
import AdaptaVerif.Lemmas.LifecycleClusterRefs
import AdaptaVerif.Lemmas.LifecycleOld
namespace AdaptaVerif.Props.C15
open AdaptaVerif.Model.Lifecycle AdaptaVerif.Spec.Lifecycle AdaptaVerif.Lemmas.Lifecycle

/-! ### P0 — negative witnesses: documented-legal histories that hit a defect class (K1, K2, K4).
The former classes K3 (re-entrant `processTransaction` with transactions off) and K5 (3-argument
`ConnRef` constructor with transactions off) were repaired upstream (/repo 448bcee, f871b2f, 3650d5c,
e0e5881): their witnesses are now legal and fault-free, see
`formerly_excluded_transactions_off_histories_are_legal_and_fault_free`. -/

/-- K1: `~Router` only frees active objects; a queued, never processed addition leaks. -/
theorem k1_destroy_with_queued_add_leaks :
    LegalDocHist [.newShape 1, .deleteRouter] = true ∧
    LegalHist [.newShape 1, .deleteRouter] = false ∧
    (run [.newShape 1, .deleteRouter]).leaked = [1] := by decide

/-- K2: deleteShape asserts while the shape's addition is still queued. -/
theorem k2_delete_with_queued_add_asserts :
    LegalDocHist [.newShape 1, .deleteShape 1] = true ∧
    LegalHist [.newShape 1, .deleteShape 1] = false ∧
    (run [.newShape 1, .deleteShape 1]).faults = [.assertPendingAdd 1] := by decide

/-- K4: a queued connector-end change names a shape that is deleted in the same transaction. -/
theorem k4_queued_end_names_deleted_shape :
    LegalDocHist [.newShape 1, .newPin 2 1 1, .newConn 3 none none true, .processTransaction,
      .setEndpoint 3 false (some ⟨1, 1⟩), .deleteShape 1, .processTransaction] = true ∧
    LegalHist [.newShape 1, .newPin 2 1 1, .newConn 3 none none true, .processTransaction,
      .setEndpoint 3 false (some ⟨1, 1⟩), .deleteShape 1, .processTransaction] = false ∧
    (run [.newShape 1, .newPin 2 1 1, .newConn 3 none none true, .processTransaction,
      .setEndpoint 3 false (some ⟨1, 1⟩), .deleteShape 1, .processTransaction]).faults
      = [.useAfterFree 1] := by
  decide

/-- The four transactions-off histories that `Legal` used to exclude (former K3: deleting a junction
    that owns a pin, moving a shape with an attached connector, a pin constructor on a shape with an
    attached connector; former K5: `ConnRef(router, src, dst)`), each extended to an orderly end, are
    now strictly legal, raise no fault and leak nothing. -/
theorem formerly_excluded_transactions_off_histories_are_legal_and_fault_free :
    (LegalHist [.setTransactionUse false, .newJunction 1 2, .deleteJunction 1, .deleteRouter] = true ∧
     (run [.setTransactionUse false, .newJunction 1 2, .deleteJunction 1, .deleteRouter]).faults = [] ∧
     (run [.setTransactionUse false, .newJunction 1 2, .deleteJunction 1, .deleteRouter]).leaked = []) ∧
    (LegalHist [.setTransactionUse false, .newShape 1, .newPin 2 1 1,
       .newConn 3 (some ⟨1, 1⟩) none false, .moveShape 1, .deleteRouter] = true ∧
     (run [.setTransactionUse false, .newShape 1, .newPin 2 1 1,
       .newConn 3 (some ⟨1, 1⟩) none false, .moveShape 1, .deleteRouter]).faults = [] ∧
     (run [.setTransactionUse false, .newShape 1, .newPin 2 1 1,
       .newConn 3 (some ⟨1, 1⟩) none false, .moveShape 1, .deleteRouter]).leaked = []) ∧
    (LegalHist [.setTransactionUse false, .newShape 1, .newPin 2 1 1,
       .newConn 3 (some ⟨1, 1⟩) none false, .newPin 4 1 1, .deleteRouter] = true ∧
     (run [.setTransactionUse false, .newShape 1, .newPin 2 1 1,
       .newConn 3 (some ⟨1, 1⟩) none false, .newPin 4 1 1, .deleteRouter]).faults = [] ∧
     (run [.setTransactionUse false, .newShape 1, .newPin 2 1 1,
       .newConn 3 (some ⟨1, 1⟩) none false, .newPin 4 1 1, .deleteRouter]).leaked = []) ∧
    (LegalHist [.setTransactionUse false, .newConn 1 none none true, .deleteRouter] = true ∧
     (run [.setTransactionUse false, .newConn 1 none none true, .deleteRouter]).faults = [] ∧
     (run [.setTransactionUse false, .newConn 1 none none true, .deleteRouter]).leaked = []) := by
  decide

/-- The junction-move refresh (`JunctionRef::moveAttachedConns` → `modifyConnector(…,
    connPinMoveUpdate = true)`, /repo e0e5881) does not overwrite a queued user change: connector 3's
    source is attached to junction 1; the user queues "source := free point", then moves the junction
    in the same transaction; afterwards the source is the free point — the user change wins.  Control:
    without the queued user change the same move re-attaches the source to the junction. -/
theorem junction_move_keeps_queued_user_endpoint :
    LegalHist [.newJunction 1 2, .newConn 3 (some ⟨1, 0⟩) none true, .processTransaction,
      .setEndpoint 3 false none, .moveJunction 1, .processTransaction] = true ∧
    ((run [.newJunction 1 2, .newConn 3 (some ⟨1, 0⟩) none true, .processTransaction]).conns.find?
      (·.id == 3)).map (·.src) = some (some { anchor := 1, cls := 0, pin := some 2 }) ∧
    ((run [.newJunction 1 2, .newConn 3 (some ⟨1, 0⟩) none true, .processTransaction,
      .setEndpoint 3 false none, .moveJunction 1, .processTransaction]).conns.find?
      (·.id == 3)).map (·.src) = some none ∧
    ((run [.newJunction 1 2, .newConn 3 (some ⟨1, 0⟩) none true, .processTransaction,
      .moveJunction 1, .processTransaction]).conns.find?
      (·.id == 3)).map (·.src) = some (some { anchor := 1, cls := 0, pin := some 2 }) := by
  decide

/-- A strictly legal history after which the queue holds a ConnectionPinChange entry whose pin has
    been freed (the code never dereferences these entries; `NoDanglingAction` excludes them). -/
theorem pinChange_entry_may_dangle :
    LegalHist [.newShape 1, .newPin 2 1 1, .processTransaction, .deletePin 2] = true ∧
    (run [.newShape 1, .newPin 2 1 1, .processTransaction, .deletePin 2]).actions.any
      (fun a => a.type == .pinChange &&
        (run [.newShape 1, .newPin 2 1 1, .processTransaction, .deletePin 2]).freed.contains a.obj)
      = true := by
  decide

/-! ### P1 — strict legality implies documented legality -/

theorem legal_implies_legalDoc (h : List Op) (hl : LegalHist h = true) : LegalDocHist h = true :=
  legalFrom_mono init h hl

example : LegalHist [.newShape 1, .newPin 2 1 1, .newJunction 4 5,
    .newConn 3 (some ⟨1, 1⟩) (some ⟨4, 0⟩) true, .processTransaction, .moveShape 1, .deleteShape 1,
    .processTransaction, .deleteRouter] = true := by decide

example : LegalHist [.setTransactionUse false, .newShape 1, .newConn 2 none none false, .moveShape 1,
    .deleteShape 1, .deleteRouter] = true := by decide

/-! ### P2 — layer 1: after every documented-legal history the live sets are exactly
"created minus freed", nothing is freed twice, and no connector end or pin refers to a freed
obstacle / pin.  (Holds for all documented-legal histories, including those that hit K1, K2, K4:
the defects are about *when* things are dereferenced, not about the bookkeeping.) -/

theorem live_sets_refine (h : List Op) (hl : LegalDocHist h = true) : LiveSetsRefine (run h) :=
  core_liveSetsRefine (core_run h hl)

theorem freed_once (h : List Op) (hl : LegalDocHist h = true) : FreedOnce (run h) :=
  core_freedOnce (core_run h hl)

theorem conn_ends_valid (h : List Op) (hl : LegalDocHist h = true) : ConnEndsValid (run h) :=
  core_connEndsValid (core_run h hl)

example : LegalDocHist [.newShape 1, .newPin 2 1 1, .newJunction 4 5,
    .newConn 3 (some ⟨1, 1⟩) (some ⟨4, 0⟩) true, .processTransaction, .moveShape 1, .deleteShape 1,
    .processTransaction, .deleteRouter] = true := by decide

example : LegalDocHist [.setTransactionUse false, .newShape 1, .newPin 2 1 1,
    .newConn 3 (some ⟨1, 1⟩) none false, .deletePin 2, .deleteShape 1, .deleteRouter] = true := by decide

/-! ### P3 — between operations no queued action that `processActions` dereferences names a freed
object (ConnectionPinChange entries excepted, see `pinChange_entry_may_dangle`) -/

theorem no_dangling_action (h : List Op) (hl : LegalDocHist h = true) : NoDanglingAction (run h) :=
  nd_run h hl

/-- non-vacuity: a documented-legal history that ends with a non-empty queue holding obstacle and
    connector actions -/
example : LegalDocHist [.newShape 1, .newPin 2 1 1, .newJunction 4 5, .processTransaction,
      .newConn 3 (some ⟨1, 1⟩) (some ⟨4, 0⟩) false, .moveShape 1, .deleteJunction 4] = true ∧
    (run [.newShape 1, .newPin 2 1 1, .newJunction 4 5, .processTransaction,
      .newConn 3 (some ⟨1, 1⟩) (some ⟨4, 0⟩) false, .moveShape 1, .deleteJunction 4]).actions.length = 3 := by
  decide

/-! ### P4 — `~Router` after a strictly legal history releases everything that was ever created
(with `freed_once`: exactly once).  Fails for documented-legal histories: `k1_…_leaks`. -/

theorem all_released (h : List Op) (hl : LegalHist (h ++ [Op.deleteRouter]) = true) :
    AllReleased (run (h ++ [.deleteRouter])) := by
  have hdoc := legal_implies_legalDoc _ hl
  have hcore := core_run _ hdoc
  unfold LegalHist at hl
  rw [legalFrom_append, Bool.and_eq_true] at hl
  have hpre : Core [] (h.foldl step init) := core_run h (legalFrom_mono init h hl.1)
  have := allocated_deleteRouter hpre hl.2
  unfold run at hcore ⊢
  rw [List.foldl_append] at hcore ⊢
  exact allReleased_of hcore this.1 this.2

example : LegalHist ([.newShape 1, .newPin 2 1 1, .newJunction 4 5,
    .newConn 3 (some ⟨1, 1⟩) (some ⟨4, 0⟩) true, .processTransaction, .moveShape 1, .deleteShape 1,
    .processTransaction] ++ [Op.deleteRouter]) = true := by decide

example : LegalHist ([.setTransactionUse false, .newShape 1, .newConn 2 none none false, .moveShape 1,
    .deleteShape 1] ++ [Op.deleteRouter]) = true := by decide

/-- general form: in a strictly legal history, a dead router holds nothing -/
theorem no_leak (h : List Op) (hl : LegalHist h = true) (hdead : (run h).alive = false) :
    (run h).leaked = [] := by
  have := released_run_from core_init (fun hh => by cases hh) h hl hdead
  unfold St.leaked
  rw [if_neg (by simp [hdead])]
  exact this

example : LegalHist [.newShape 1, .newConn 2 none none true, .processTransaction, .deleteRouter] = true ∧
    (run [.newShape 1, .newConn 2 none none true, .processTransaction, .deleteRouter]).alive = false := by
  decide

/-! ### P5 — a strictly legal history never reaches a point where the C++ would dereference a freed
object or trip one of the internal assertions.  (`Legal` = documented preconditions + the
restrictions that avoid K1, K2, K4; each restriction is necessary: `k1_…`, `k2_…`, `k4_…`.  Transaction
use may be switched at any time, also with work queued: the next mutator then processes the whole
queue.)

Invariant carried between operations (`Lemmas.Lifecycle.FOk`): `Core []`, `NoDanglingAction`,
(a) an obstacle with a queued removal has no other queued obstacle action (pairwise, `RS`), (b) no
queued `ConnEnd` names an obstacle with a queued removal (`QC`), and `faults = []`.
`processActions_faults` shows that the three passes of `Router::processActions` raise no fault on
such a queue, whether transactions are on or off. -/

theorem no_fault (h : List Op) (hl : LegalHist h = true) : NoFault (run h) :=
  (fok_run h hl).nofault

example : LegalHist [.newShape 1, .newPin 2 1 1, .newJunction 4 5,
    .newConn 3 (some ⟨1, 1⟩) (some ⟨4, 0⟩) true, .processTransaction, .moveShape 1, .deleteShape 1,
    .processTransaction, .deleteRouter] = true := by decide

example : LegalHist [.setTransactionUse false, .newShape 1, .newConn 2 none none false, .moveShape 1,
    .deleteShape 1, .deleteRouter] = true := by decide

/-- non-vacuity: transactions switched off while obstacle, pin and connector actions are queued; the
    next mutator (a junction constructor, i.e. two `processTransaction` calls) processes them -/
example : LegalHist [.newShape 1, .newPin 2 1 1, .newJunction 4 5, .newJunction 8 9, .processTransaction,
      .newConn 3 (some ⟨1, 1⟩) (some ⟨4, 0⟩) true, .moveShape 1, .deleteJunction 8,
      .setTransactionUse false, .newJunction 6 7, .moveShape 1, .deleteRouter] = true ∧
    (run [.newShape 1, .newPin 2 1 1, .newJunction 4 5, .newJunction 8 9, .processTransaction,
      .newConn 3 (some ⟨1, 1⟩) (some ⟨4, 0⟩) true, .moveShape 1, .deleteJunction 8,
      .setTransactionUse false]).actions.length = 3 := by decide

/-! ### P6 — checkpoint vertices (`ConnRef::m_checkpoint_vertices`, a separate id space with its own
`vcreated` / `vfreed` logs).  `setRoutingCheckpoints` deletes the connector's old vertices and creates
one per new checkpoint (it queues nothing); `~ConnRef` deletes the connector's vertices.

Invariant carried between operations (`Lemmas.Lifecycle.CpOk`): `CheckpointsOwned` plus "freed ⊆
created".  Every connector rewrite of the model (`detachAnchor`, `unpin`, `setEnd`, `reroute`) keeps
`id` and `cps`, so only `addConn` (owns nothing), `freeConn` (frees exactly what it owns) and
`setCheckpoints` (frees what it owns, then owns the fresh vertices; the connector ids are pairwise
different by `Core []`, so exactly one connector is rewritten) matter. -/

/-- after every documented-legal history the vertices owned by the connectors are exactly the
    checkpoint vertices created and not freed; none is owned twice, none is freed twice -/
theorem checkpoints_owned (h : List Op) (hl : LegalDocHist h = true) : CheckpointsOwned (run h) :=
  cpOk_owned (cpOk_run h hl)

/-- `~Router` after a strictly legal history has freed every checkpoint vertex ever created (with
    `checkpoints_owned`: exactly once).  Strict legality matters as in P4: an inactive connector is
    not freed by `~Router`, and its checkpoint vertices go with it. -/
theorem checkpoints_released (h : List Op) (hl : LegalHist (h ++ [Op.deleteRouter]) = true) :
    CheckpointsReleased (run (h ++ [.deleteRouter])) := by
  have hcp := cpOk_run _ (legal_implies_legalDoc _ hl)
  unfold LegalHist at hl
  rw [legalFrom_append, Bool.and_eq_true] at hl
  have hpre : Core [] (h.foldl step init) := core_run h (legalFrom_mono init h hl.1)
  have := allocated_deleteRouter hpre hl.2
  unfold run at hcp ⊢
  rw [List.foldl_append] at hcp ⊢
  exact checkpointsReleased_of hcp this.1 this.2

/-- non-vacuity: checkpoints set before and after the connector becomes active, replaced, cleared and
    set again; all five vertices are created once and freed once -/
example : LegalHist [.newConn 1 none none true, .setRoutingCheckpoints 1 [10, 11], .processTransaction,
      .setRoutingCheckpoints 1 [12], .setRoutingCheckpoints 1 [], .setRoutingCheckpoints 1 [13, 14],
      .deleteRouter] = true ∧
    (run [.newConn 1 none none true, .setRoutingCheckpoints 1 [10, 11], .processTransaction,
      .setRoutingCheckpoints 1 [12], .setRoutingCheckpoints 1 [], .setRoutingCheckpoints 1 [13, 14],
      .deleteRouter]).vcreated = [10, 11, 12, 13, 14] ∧
    (run [.newConn 1 none none true, .setRoutingCheckpoints 1 [10, 11], .processTransaction,
      .setRoutingCheckpoints 1 [12], .setRoutingCheckpoints 1 [], .setRoutingCheckpoints 1 [13, 14],
      .deleteRouter]).vfreed = [10, 11, 12, 13, 14] := by decide

/-- non-vacuity of `checkpoints_owned` mid-history: two connectors own disjoint vertex lists -/
example : LegalDocHist [.newConn 1 none none true, .newConn 2 none none false,
      .setRoutingCheckpoints 1 [10, 11], .setRoutingCheckpoints 2 [12], .setRoutingCheckpoints 1 [13]] = true ∧
    (run [.newConn 1 none none true, .newConn 2 none none false,
      .setRoutingCheckpoints 1 [10, 11], .setRoutingCheckpoints 2 [12], .setRoutingCheckpoints 1 [13]]).allCps
      = [13, 12] ∧
    (run [.newConn 1 none none true, .newConn 2 none none false,
      .setRoutingCheckpoints 1 [10, 11], .setRoutingCheckpoints 2 [12], .setRoutingCheckpoints 1 [13]]).vfreed
      = [10, 11] := by decide

/-! ### P7 — clusters (`Avoid::ClusterRef`).  Clusters take their ids from the router's common id space and
are part of `allocated` / `created` / `freed`, so `live_sets_refine`, `freed_once`, `all_released` and
`no_leak` above already speak about them.  What is specific to clusters: they never go through the
action queue — the constructor links the cluster into `Router::clusterRefs` at once, `deleteCluster`
unlinks and frees it at once — and `~Router` frees the ones still linked (/repo def6b3d). -/

/-- after every documented-legal history every allocated cluster is linked in `clusterRefs`: the public
    list is exactly the set of live clusters (what the harness prints as `ok` is all there is) -/
theorem clusters_linked (h : List Op) (hl : LegalDocHist h = true) : ClustersLinked (run h) :=
  (core_run h hl).clActive

/-- `~Router` leaves no cluster behind — for every DOCUMENTED-legal history (no strictness needed:
    clusters are never "queued", so the K1 restriction does not concern them) -/
theorem clusters_released (h : List Op) (hl : LegalDocHist h = true) (hdead : (run h).alive = false) :
    ClustersReleased (run h) :=
  ⟨hdead, clusters_nil_of_dead core_init (fun hh => by cases hh) h hl hdead⟩

/-- non-vacuity: clusters created before and after shapes, one re-polygonised, one deleted in the middle,
    two alive at `~Router`; all three ids are created once and freed once, and the history is even
    strictly legal, so `no_leak` / `all_released` apply to it -/
example : LegalHist [.newCluster 1 [], .newShape 2, .newCluster 3 [], .processTransaction, .setClusterPoly 1 [],
      .newCluster 4 [], .deleteCluster 3, .deleteShape 2, .deleteRouter] = true ∧
    (run [.newCluster 1 [], .newShape 2, .newCluster 3 [], .processTransaction, .setClusterPoly 1 [],
      .newCluster 4 [], .deleteCluster 3, .deleteShape 2]).clusters.map (·.id) = [1, 4] ∧
    (run [.newCluster 1 [], .newShape 2, .newCluster 3 [], .processTransaction, .setClusterPoly 1 [],
      .newCluster 4 [], .deleteCluster 3, .deleteShape 2, .deleteRouter]).freed = [3, 2, 1, 4] ∧
    (run [.newCluster 1 [], .newShape 2, .newCluster 3 [], .processTransaction, .setClusterPoly 1 [],
      .newCluster 4 [], .deleteCluster 3, .deleteShape 2, .deleteRouter]).leaked = [] := by decide

-- non-vacuity of clusters_released: both hypotheses jointly (documented-legal, router dead), two clusters alive at `~Router`
example : ClustersReleased (run [.newCluster 1 [], .newShape 2, .processTransaction, .newCluster 4 [2], .deleteRouter]) :=
  clusters_released _ (by decide) (by decide)

/-- a cluster id cannot be reused while the router lives, and a deleted cluster cannot be used again -/
example : LegalDocHist [.newCluster 1 [], .newShape 1] = false ∧
    LegalDocHist [.newCluster 1 [], .deleteCluster 1, .setClusterPoly 1 []] = false ∧
    LegalDocHist [.newCluster 1 [], .deleteCluster 1, .deleteCluster 1] = false := by decide

/-- **The machine as the code was before /repo def6b3d (`stepOld`: `deleteCluster` only unlinks, `~Router`
    ignores `clusterRefs`) violates `no_leak`, `all_released`, `clusters_linked` and `clusters_released`**
    on strictly legal histories: a cluster alive at `~Router` leaks, and a cluster handed to
    `deleteCluster` leaks as well (it is unlinked but stays allocated — and `~ClusterRef` aborts when the
    user calls it, so nobody can free it).  The same histories are strictly legal and leak-free for the
    current machine `step`.  Reverting def6b3d therefore turns the proved `no_leak` into a statement about
    the wrong machine; the machine that matches the reverted code is refuted here by evaluation. -/
theorem pre_fix_router_leaks_clusters :
    -- (a) cluster alive at ~Router
    (LegalHistOld [.newCluster 1 [], .deleteRouter] = true ∧
     (runOld [.newCluster 1 [], .deleteRouter]).alive = false ∧
     (runOld [.newCluster 1 [], .deleteRouter]).leaked = [1] ∧
     ¬ AllReleased (runOld [.newCluster 1 [], .deleteRouter]) ∧
     ¬ ClustersReleased (runOld [.newCluster 1 [], .deleteRouter])) ∧
    -- (b) cluster deleted with Router::deleteCluster, then ~Router
    (LegalHistOld [.newCluster 1 [], .deleteCluster 1, .deleteRouter] = true ∧
     (runOld [.newCluster 1 [], .deleteCluster 1, .deleteRouter]).leaked = [1] ∧
     (runOld [.newCluster 1 [], .deleteCluster 1, .deleteRouter]).freed = [] ∧
     ¬ ClustersLinked (runOld [.newCluster 1 [], .deleteCluster 1])) ∧
    -- (c) the current machine on the same histories
    (LegalHist [.newCluster 1 [], .deleteRouter] = true ∧
     (run [.newCluster 1 [], .deleteRouter]).leaked = [] ∧
     LegalHist [.newCluster 1 [], .deleteCluster 1, .deleteRouter] = true ∧
     (run [.newCluster 1 [], .deleteCluster 1, .deleteRouter]).leaked = [] ∧
     (run [.newCluster 1 [], .deleteCluster 1, .deleteRouter]).freed = [1]) := by
  refine ⟨⟨by decide, by decide, by decide, ?_, ?_⟩, ⟨by decide, by decide, by decide, ?_⟩, by decide⟩
  · intro h; have := h.2 1 (by decide); revert this; decide
  · intro h; have := h.2; revert this; decide
  · intro h; have := h ⟨1, false, []⟩ (by decide); revert this; decide

/-- **Universal form**: the pre-def6b3d machine never releases a cluster, in ANY history (legal or not, whatever
    else happens, including `deleteCluster` of that very cluster): once `new ClusterRef` has run on a live router
    its id stays allocated, so every history that ends with a dead router has leaked every cluster it created.
    (For the current machine `no_leak` proves the opposite for all strictly legal histories.) -/
theorem pre_fix_router_leaks_every_cluster (h1 h2 : List Op) (k : Id) (refs : List Id)
    (hal : (runOld h1).alive = true)
    (hdead : (runOld (h1 ++ Op.newCluster k refs :: h2)).alive = false) :
    k ∈ (runOld (h1 ++ Op.newCluster k refs :: h2)).leaked := by
  have hk : k ∈ kids (runOld (h1 ++ Op.newCluster k refs :: h2)) := by
    unfold runOld
    rw [List.foldl_append, List.foldl_cons]
    apply kids_runOld_mono
    exact kids_stepOld_newCluster _ hal k refs
  unfold St.leaked
  rw [if_neg (by simp [hdead])]
  rw [allocated_eq]
  exact List.mem_append_right _ hk

/-- non-vacuity: the hypotheses are satisfiable, with the cluster deleted by `Router::deleteCluster` before `~Router` -/
example : (runOld [.newShape 1]).alive = true ∧
    (runOld ([.newShape 1] ++ Op.newCluster 2 [] :: [.deleteCluster 2, .deleteRouter])).alive = false := by decide

/-! ### P8 — API calls without lifetime effect, and `ConnRef::setRoutingType`.  `apiRouter` / `apiConn` /
`apiObst` are the identity of the model on a legal call (`setClusterPoly` only replaces the cluster's references); all theorems above quantify
over histories that contain them anywhere.  `touchConn` queues a bare ConnChange through
`Router::modifyConnector(conn)`: it is processed like every other queue entry and changes no live set. -/

/-- calls without lifetime effect leave the whole state alone when they are documented-legal -/
theorem api_calls_are_identity (s : St) :
    (LegalDoc s .apiRouter = true → step s .apiRouter = s) ∧
    (∀ c, LegalDoc s (.apiConn c) = true → step s (.apiConn c) = s) ∧
    (∀ o, LegalDoc s (.apiObst o) = true → step s (.apiObst o) = s) := by
  refine ⟨?_, ?_, ?_⟩
  · intro h
    simp only [LegalDoc, Bool.and_true] at h
    simp [step, h]
  · intro c h
    simp only [LegalDoc, Bool.and_eq_true] at h
    simp [step, h.1, h.2]
  · intro o h
    simp only [LegalDoc, Bool.and_eq_true] at h
    simp [step, h.1, h.2.1]

-- non-vacuity of api_calls_are_identity: the three premises hold in a reachable, non-initial state
example : LegalDoc (run [.newShape 1, .newConn 2 none none true, .processTransaction]) .apiRouter = true ∧
    LegalDoc (run [.newShape 1, .newConn 2 none none true, .processTransaction]) (.apiConn 2) = true ∧
    LegalDoc (run [.newShape 1, .newConn 2 none none true, .processTransaction]) (.apiObst 1) = true := by decide

/-- non-vacuity, and `touchConn` in both transaction modes: the bare ConnChange stays queued with
    transactions on and is processed at once with transactions off; a connector deleted while its bare
    ConnChange is queued takes the entry with it (`removeObjectFromQueuedActions`) -/
example : LegalHist [.newShape 1, .newConn 2 none none true, .processTransaction, .apiRouter, .apiConn 2,
      .apiObst 1, .touchConn 2, .touchConn 2, .deleteConn 2, .deleteRouter] = true ∧
    (run [.newShape 1, .newConn 2 none none true, .processTransaction, .touchConn 2, .touchConn 2]).actions
      = [{ type := .connChange, obj := 2 }] ∧
    (run [.newShape 1, .newConn 2 none none true, .processTransaction, .touchConn 2, .deleteConn 2]).actions = [] ∧
    (run [.setTransactionUse false, .newConn 2 none none true, .touchConn 2]).actions = [] := by decide

/-! ### P9 — cluster boundaries that reference obstacle vertices (`Avoid::ReferencingPolygon`: a boundary point
that carries an obstacle id is stored as a pointer to that obstacle's polygon plus a vertex number, so that the
boundary follows the shape).  `Cluster.refs` are the referenced obstacles; `St.routeClusters` — part of every
transaction that does something — records in `refFaults` each reference of a linked cluster that points into a freed
obstacle at the moment the router reads the boundary.

Invariant carried between operations (`Lemmas.Lifecycle.RcOk`): while the router lives every reference names an
allocated obstacle that has no removal queued; a transaction only frees obstacles with a queued removal
(`hasObst_processActions`), so nothing dangles when `routeClusters` runs.  Strict legality adds restriction K6 to
`deleteShape` / `deleteJunction` (no cluster boundary references the obstacle); documented legality already demands
that a new boundary only references obstacles the caller may still use. -/

/-- K6: a documented-legal history in which a cluster boundary references the corners of a shape that is then
    deleted: the next transaction reads the freed polygon.  Deleting (or re-polygonising) the cluster first is
    strictly legal and clean. -/
theorem k6_cluster_boundary_references_deleted_shape :
    LegalDocHist [.newShape 1, .processTransaction, .newCluster 2 [1], .deleteShape 1, .processTransaction] = true ∧
    LegalHist [.newShape 1, .processTransaction, .newCluster 2 [1], .deleteShape 1, .processTransaction] = false ∧
    (run [.newShape 1, .processTransaction, .newCluster 2 [1], .deleteShape 1, .processTransaction]).refFaults = [1] ∧
    LegalHist [.newShape 1, .processTransaction, .newCluster 2 [1], .deleteCluster 2, .deleteShape 1,
      .processTransaction, .deleteRouter] = true ∧
    (run [.newShape 1, .processTransaction, .newCluster 2 [1], .deleteCluster 2, .deleteShape 1,
      .processTransaction, .deleteRouter]).refFaults = [] ∧
    LegalHist [.newShape 1, .newShape 3, .processTransaction, .newCluster 2 [1], .setClusterPoly 2 [3],
      .deleteShape 1, .processTransaction, .deleteRouter] = true ∧
    (run [.newShape 1, .newShape 3, .processTransaction, .newCluster 2 [1], .setClusterPoly 2 [3],
      .deleteShape 1, .processTransaction, .deleteRouter]).refFaults = [] := by decide

/-- a boundary cannot reference a shape whose addition is still queued (`ReferencingPolygon`'s constructor asserts
    that it finds the id in `m_obstacles`) or one already handed to `deleteShape` -/
example : LegalDocHist [.newShape 1, .newCluster 2 [1]] = false ∧
    LegalDocHist [.newShape 1, .processTransaction, .deleteShape 1, .newCluster 2 [1]] = false ∧
    LegalDocHist [.newShape 1, .processTransaction, .moveShape 1, .newCluster 2 [1]] = true := by decide

/-- in a strictly legal history the router never reads a cluster-boundary reference into a freed obstacle -/
theorem no_dangling_cluster_ref (h : List Op) (hl : LegalHist h = true) : NoDanglingClusterRef (run h) :=
  (rcOk_run h hl).nofault

/-- … because, while the router lives, every referenced obstacle is allocated and has no removal queued -/
theorem cluster_refs_valid (h : List Op) (hl : LegalHist h = true) : ClusterRefsValid (run h) := by
  intro hal k hk r hr
  obtain ⟨h1, h2⟩ := (rcOk_run h hl).rc hal k hk r hr
  refine ⟨h1, ?_, ?_⟩
  · simp only [St.hasAction, List.any_eq_false, Bool.and_eq_true, beq_iff_eq, not_and]
    intro a ha hty e
    exact h2 a ha (by simp [isRemove, hty]) e
  · simp only [St.hasAction, List.any_eq_false, Bool.and_eq_true, beq_iff_eq, not_and]
    intro a ha hty e
    exact h2 a ha (by simp [isRemove, hty]) e

/-- non-vacuity: references held across moves of the referenced shapes, a queued removal of an unreferenced
    shape, transactions switched off, the cluster alive at `~Router` -/
example : LegalHist [.newShape 1, .newShape 3, .newShape 5, .processTransaction, .newCluster 2 [1, 3], .moveShape 1,
      .deleteShape 5, .setTransactionUse false, .moveShape 3, .newCluster 4 [3], .deleteCluster 2, .deleteRouter] = true ∧
    ((run [.newShape 1, .newShape 3, .newShape 5, .processTransaction, .newCluster 2 [1, 3], .moveShape 1,
      .deleteShape 5, .setTransactionUse false, .moveShape 3, .newCluster 4 [3]]).clusters.map (·.refs))
      = [[1, 3], [3]] := by decide

end AdaptaVerif.Props.C15
