/-
C04 — libavoid polyline routes are Euclidean shortest paths.
Property theorems about the certificate machinery (all inputs).  The oracle of the property is the
shortest path in the *spec visibility graph* (all shape corners + endpoints, edge iff the segment
enters no shape); that "a Euclidean shortest path among polygonal obstacles bends only at obstacle
vertices" is taken as the oracle's definition (DESIGN section 5), not proved.
True edge weights are elements of an arbitrary ordered field K (K = ℝ, weight = Euclidean length);
the checker only sees rational enclosures.
-/
import AdaptaVerif.Lemmas.Potential
import AdaptaVerif.Lemmas.SpecGraph
namespace AdaptaVerif.Props.C04
open AdaptaVerif.Model.Geometry (Pt)
open AdaptaVerif.Check.Route AdaptaVerif.Check.Potential AdaptaVerif.Spec.Route AdaptaVerif.Num
open AdaptaVerif.Lemmas.Potential AdaptaVerif.Lemmas.SpecGraph

variable {K : Type} [Field K] [LinearOrder K] [IsStrictOrderedRing K]

/-- (5) weak duality, all finite weighted digraphs (edge lists), all weights (no sign condition is
    needed): if π(v) ≤ π(u) + w(u,v) on every edge then every walk a → b costs at least π(b) − π(a).
    With π(s) = 0: every s–t path costs ≥ π(t).  Proof: induction on the walk. -/
theorem potential_lower_bound (E : List WEdge) (w : WEdge → K) (π : Nat → K)
    (hfeas : ∀ e ∈ E, π e.v ≤ π e.u + w e) (s t : Nat) (hs : π s = 0) (c : K)
    (hwalk : Walk E w s t c) : π t ≤ c := by
  have := potential_bound E w π hfeas s t c hwalk
  rw [hs, zero_add] at this
  exact this

-- non-vacuity: a two-edge graph, a feasible potential, a walk
example : (2 : Rat) ≤ 1 + 1 := by
  let e1 : WEdge := ⟨0, 1, 1, 1⟩
  let e2 : WEdge := ⟨1, 2, 1, 1⟩
  have hw : Walk (K := Rat) [e1, e2] (fun e => e.wlo) 0 2 (1 + (1 + 0)) :=
    Walk.cons e1 2 (1 + 0) (by simp) (Walk.cons e2 2 0 (by simp) (Walk.nil 2))
  have := potential_lower_bound (K := Rat) [e1, e2] (fun e => e.wlo) (fun v => (v : Rat))
    (by intro e he; simp at he; rcases he with rfl | rfl <;> simp [e1, e2] <;> norm_num) 0 2 (by simp) _ hw
  simpa using this

/-- (6) soundness of the certificate checker: if `checkCert` returns [lo, hi] then, for every
    assignment of true weights inside the edges' enclosures, every s–t walk costs ≥ lo and some s–t walk
    costs ≤ hi — the optimal s–t cost lies in [lo, hi]. -/
theorem checkCert_sound (E : List WEdge) (pot : List Rat) (s t : Nat) (path : List Nat) (lo hi : Rat)
    (h : checkCert E pot s t path = some (lo, hi))
    (w : WEdge → K) (hw : ∀ e ∈ E, (e.wlo : K) ≤ w e ∧ w e ≤ (e.whi : K)) :
    (∀ c, Walk E w s t c → (lo : K) ≤ c) ∧ (∃ c, Walk E w s t c ∧ c ≤ (hi : K)) :=
  checkCert_sound_aux E pot s t path lo hi h w hw

example : ∃ lo hi, checkCert [⟨0, 1, 1, 2⟩, ⟨1, 2, 1, 2⟩, ⟨0, 2, 3, 4⟩] [0, 1, 2] 0 2 [0, 1, 2] = some (lo, hi) :=
  ⟨2, 4, by decide +kernel⟩

-- non-vacuity of `checkCert_sound`, all hypotheses jointly (certificate accepted AND true weights inside the
-- enclosures; K = ℚ, true weight = lower end), and the theorem instantiated
example : (∀ c, Walk [⟨0, 1, 1, 2⟩, ⟨1, 2, 1, 2⟩, ⟨0, 2, 3, 4⟩] (fun e => e.wlo) 0 2 c → (2 : Rat) ≤ c) ∧
    ∃ c, Walk [⟨0, 1, 1, 2⟩, ⟨1, 2, 1, 2⟩, ⟨0, 2, 3, 4⟩] (fun e => e.wlo) 0 2 c ∧ c ≤ (4 : Rat) :=
  checkCert_sound (K := Rat) [⟨0, 1, 1, 2⟩, ⟨1, 2, 1, 2⟩, ⟨0, 2, 3, 4⟩] [0, 1, 2] 0 2 [0, 1, 2] 2 4 (by decide +kernel)
    (fun e => e.wlo) (by
      intro e he
      simp only [List.mem_cons, List.not_mem_nil, or_false] at he
      rcases he with rfl | rfl | rfl <;> norm_num)

/-- a witness path alone certifies an upper bound (used for penalty > 0) -/
theorem witness_upper_bound (E : List WEdge) (w : WEdge → K) (hw : ∀ e ∈ E, w e ≤ (e.whi : K))
    (path : List Nat) (s t : Nat) (hi : Rat) (hh : path.head? = some s) (hl : path.getLast? = some t)
    (hp : pathHi E path = some hi) : ∃ c, Walk E w s t c ∧ c ≤ (hi : K) :=
  pathHi_walk E w hw path s t hi hh hl hp

-- non-vacuity of `witness_upper_bound`
example : ∃ c, Walk [⟨0, 1, 1, 2⟩, ⟨1, 2, 1, 2⟩, ⟨0, 2, 3, 4⟩] (fun e => e.whi) 0 2 c ∧ c ≤ (4 : Rat) :=
  witness_upper_bound (K := Rat) _ (fun e => e.whi) (fun _ _ => le_refl _) [0, 1, 2] 0 2 4 rfl rfl (by decide +kernel)

/-- (7) certified square-root enclosure: for x ≥ 0, 0 ≤ lo, lo² ≤ x ≤ hi², 0 < hi -/
theorem sqrt_enclosure (x : Rat) (hx : 0 ≤ x) (k : Nat) :
    0 ≤ sqrtLo x k ∧ sqrtLo x k * sqrtLo x k ≤ x ∧ x ≤ sqrtHi x k * sqrtHi x k ∧ 0 < sqrtHi x k :=
  AdaptaVerif.Lemmas.Sqrt.sqrt_enclosure x hx k

/-- … hence the square root itself (any d ≥ 0 with d² = x, in any ordered field) is enclosed -/
theorem sqrt_enclosed (x : Rat) (hx : 0 ≤ x) (d : K) (hd : 0 ≤ d) (hdx : d * d = (x : K)) (k : Nat) :
    ((sqrtLo x k : Rat) : K) ≤ d ∧ d ≤ ((sqrtHi x k : Rat) : K) :=
  AdaptaVerif.Lemmas.Sqrt.sqrt_between_field x hx d hd hdx k

example : sqrtLo 2 10 * sqrtLo 2 10 ≤ 2 ∧ 2 ≤ sqrtHi 2 10 * sqrtHi 2 10 ∧ sqrtHi 2 10 - sqrtLo 2 10 = 1 / 1024 := by
  decide +kernel

-- non-vacuity of `sqrt_enclosed` (K = ℚ, x = 4, d = 2)
example : (sqrtLo 4 3 : Rat) ≤ 2 ∧ (2 : Rat) ≤ (sqrtHi 4 3 : Rat) :=
  sqrt_enclosed (K := Rat) 4 (by norm_num) 2 (by norm_num) (by norm_num) 3

/-- every edge of the explicit graph the driver builds stands for a spec-unblocked segment between two
    of the given points — the points its indices `e.u ≠ e.v` name —, with a certified enclosure of its Euclidean
    length: taking the Euclidean lengths as true weights satisfies the hypothesis of `checkCert_sound`. -/
theorem specGraph_edges_ok (shapes : List Poly) (excl : List Nat) (k : Nat) (pts : List Pt) (e : WEdge)
    (he : e ∈ specGraph shapes excl k pts) :
    ∃ p ∈ pts, ∃ q ∈ pts, pts[e.u]? = some p ∧ pts[e.v]? = some q ∧ e.u ≠ e.v ∧ Unblocked shapes excl p q ∧
      ∀ d : K, 0 ≤ d → d * d = ((sqDist p q : Rat) : K) → (e.wlo : K) ≤ d ∧ d ≤ (e.whi : K) := by
  obtain ⟨hne, m, p, q, hp, hu, hq, hub, hlo, hhi⟩ := specGraphFrom_index shapes excl k pts pts 0 e he
  have hpu : pts[e.u]? = some p := by rw [hu, Nat.zero_add]; exact hp
  refine ⟨p, List.mem_of_getElem? hpu, q, List.mem_of_getElem? hq, hpu, hq, hne, hub, fun d hd hdx => ?_⟩
  rw [hlo, hhi]
  exact AdaptaVerif.Lemmas.Sqrt.sqrt_between_field _ (sqDist_nonneg p q) d hd hdx k

-- `specGraph_edges_ok` is not hollow: the spec graph of the witness scene (rectangle [1,2]², points (0,0), (3,0),
-- (3,3)) has edges; the blocked diagonal (0,0)–(3,3) is not among them
example : (specGraph [[⟨2, 1⟩, ⟨2, 2⟩, ⟨1, 2⟩, ⟨1, 1⟩]] [] 4 [⟨0, 0⟩, ⟨3, 0⟩, ⟨3, 3⟩]).map (fun e => (e.u, e.v)) =
    [(0, 1), (1, 0), (1, 2), (2, 1)] := by decide +kernel

end AdaptaVerif.Props.C04
