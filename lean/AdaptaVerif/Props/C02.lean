/-
Property C02 — VPSC solve() returns the unique weighted least-squares optimum; order independence.

The theorems are universal (all n, all constraint lists, all rational data); they are about the
mathematical problem `Spec/Qp.lean` and about the executable certificate checker
`Check.Kkt.checkKkt` that the driver runs on the exact oracle optimum of every test case. That
the floating-point C++ returns (an approximation of) this optimum is decided per run by the
certified oracle (translation validation), not proved.
-/
import AdaptaVerif.Lemmas.QpExample

namespace AdaptaVerif.Props.C02
open AdaptaVerif.Spec.Qp AdaptaVerif.Check.Kkt AdaptaVerif.Lemmas.Qp

/-- **KKT sufficiency.** A feasible placement with multipliers (`≥ 0` on inequalities, free on
    equalities) satisfying stationarity and complementary slackness minimises the cost over all
    feasible placements. -/
theorem kkt_sufficient (P : Problem) (hWF : WF P) (x : Nat → Rat) (lam : List Rat)
    (h : KKT P x lam) : ∀ y, Feasible P y → cost P x ≤ cost P y :=
  (kkt_optimal P x lam hWF h).2

example : ∀ y, Feasible exP y → cost exP exX ≤ cost exP y := kkt_sufficient exP ex_wf exX [1] ex_kkt

/-- **ε-version** (what a solver that only splits when `lm < -ε` can promise): multipliers
    `≥ -ε` give optimality up to `ε · (total inequality slack of the competitor)`. -/
theorem kkt_sufficient_eps (eps : Rat) (P : Problem) (hWF : WF P) (x : Nat → Rat) (lam : List Rat)
    (h : KKTeps eps P x lam) :
    ∀ y, Feasible P y → cost P x ≤ cost P y + eps * ineqSlackSum P y :=
  kktEps_bound eps P x lam hWF h

example : ∀ y, Feasible exP y → cost exP exX ≤ cost exP y + (1/10000) * ineqSlackSum exP y :=
  kkt_sufficient_eps (1/10000) exP ex_wf exX [1] (by
    obtain ⟨h1, h2, h3, h4⟩ := ex_kkt
    refine ⟨h1, h2, h3, fun p hp => ⟨?_, (h4 p hp).2⟩⟩
    rcases (h4 p hp).1 with h | h
    · exact Or.inl h
    · exact Or.inr (by linarith))

/-- **How far an ε-KKT point can be from the optimum.** If `xs` is the exact optimum (with its
    multipliers) and `x` satisfies the KKT conditions with multipliers `≥ -ε` — the fixed points
    of a solver that splits only when `lm < -ε`, ε = 1e-4 in libvpsc — then
    `Σ w_i (x_i - xs_i)^2 ≤ ε · Σ_{inequalities} slack_c(xs)`: an *absolute* ε bounds the
    *weighted* distance, so small weights allow large deviations. -/
theorem eps_kkt_distance (eps : Rat) (P : Problem) (hWF : WF P) (xs : Nat → Rat) (lams : List Rat)
    (hs : KKT P xs lams) (x : Nat → Rat) (lam : List Rat) (h : KKTeps eps P x lam) :
    sumTo P.n (fun i => P.w i * ((x i - xs i) * (x i - xs i))) ≤ eps * ineqSlackSum P xs :=
  kktEps_distance eps P hWF xs lams hs x lam h

example : sumTo 2 (fun i => exP.w i * ((exX i - exX i) * (exX i - exX i))) ≤ (1/10000) * ineqSlackSum exP exX :=
  eps_kkt_distance (1/10000) exP ex_wf exX [1] ex_kkt exX [1] (by
    obtain ⟨h1, h2, h3, h4⟩ := ex_kkt
    refine ⟨h1, h2, h3, fun p hp => ⟨?_, (h4 p hp).2⟩⟩
    rcases (h4 p hp).1 with h | h
    · exact Or.inl h
    · exact Or.inr (by linarith))

/-- **Uniqueness.** Two optimal placements agree on every variable (strict convexity: `w > 0`). -/
theorem kkt_unique (P : Problem) (hWF : WF P) (x y : Nat → Rat)
    (hx : IsOptimum P x) (hy : IsOptimum P y) : ∀ i, i < P.n → x i = y i :=
  optimum_unique P hWF x y hx hy

example : ∀ y, IsOptimum exP y → ∀ i, i < 2 → exX i = y i :=
  fun y hy => kkt_unique exP ex_wf exX y (kkt_optimal exP exX [1] ex_wf ex_kkt) hy

/-- **Soundness of the certificate checker** used by the driver: if `checkKkt` accepts
    `(x, lam)` then the problem is well formed, `x` is an optimum, and every optimum equals `x`. -/
theorem checkKkt_sound (P : Problem) (x : Nat → Rat) (lam : List Rat)
    (h : checkKkt P x lam = true) :
    WF P ∧ IsOptimum P x ∧ ∀ y, IsOptimum P y → ∀ i, i < P.n → y i = x i := by
  obtain ⟨hWF, hk⟩ := checkKkt_kkt P x lam h
  have hopt := kkt_optimal P x lam hWF hk
  exact ⟨hWF, hopt, fun y hy i hi => optimum_unique P hWF y x hy hopt i hi⟩

example : IsOptimum exP exX := (checkKkt_sound exP exX [1] ex_check).2.1

/-- **Order independence.** Rename the variables by a permutation `σ` of `{0..n-1}` (inverse
    `τ`) and list the (renamed) constraints in any order `cons'`: the optimum of the permuted
    problem is the permuted optimum. -/
theorem order_independent (P : Problem) (hWF : WF P) (σ τ : Nat → Nat) (cons' : List Con)
    (hp : IsPerm P.n σ τ) (hc : cons'.Perm (P.cons.map (Con.rename σ)))
    (x x' : Nat → Rat) (hx : IsOptimum P x) (hx' : IsOptimum (P.permute τ cons') x') :
    ∀ i, i < P.n → x' (σ i) = x i :=
  optimum_unique P hWF _ x (optimum_pull P σ τ cons' hWF hp hc x' hx') hx

example : ∀ x', IsOptimum (exP.permute exSwap [{ l := 1, r := 0, gap := 0, eq := false }]) x' →
    ∀ i, i < 2 → x' (exSwap i) = exX i :=
  fun x' hx' => order_independent exP ex_wf exSwap exSwap _ exSwap_perm (by simp [exP, Con.rename, exSwap])
    exX x' (kkt_optimal exP exX [1] ex_wf ex_kkt) hx'

/-- **Translation equivariance.** If both ends of every constraint have the same scale (in
    particular if all scales are 1), shifting every desired position by `t` shifts the optimum
    by `t`. -/
theorem translation_equivariant (P : Problem) (t : Rat)
    (hs : ∀ c ∈ P.cons, P.s c.l = P.s c.r) (x : Nat → Rat) (hx : IsOptimum P x) :
    IsOptimum (P.shift t) (fun i => x i + t) :=
  optimum_shift P t hs x hx

example : IsOptimum (exP.shift 5) (fun i => exX i + 5) :=
  translation_equivariant exP 5 (by simp [exP]) exX (kkt_optimal exP exX [1] ex_wf ex_kkt)

/-- **Block position.** For a rigid block whose member `k` sits at `a k * p + b k`, the position
    `(AD - AB) / A2` computed by `Block::updateWeightedPosition` minimises the block's cost. -/
theorem block_posn_opt (m : Nat) (w a b d : Nat → Rat)
    (hA : 0 < sumTo m (fun k => w k * a k * a k)) (p : Rat) :
    blockCost m w a b d (blockPosn m w a b d) ≤ blockCost m w a b d p :=
  blockPosn_optimal m w a b d hA p

example : ∀ p : Rat, blockCost 2 (fun _ => 1) (fun _ => 1) (fun _ => 0) (fun i => if i = 0 then 1 else 0)
      (blockPosn 2 (fun _ => 1) (fun _ => 1) (fun _ => 0) (fun i => if i = 0 then 1 else 0)) ≤
    blockCost 2 (fun _ => 1) (fun _ => 1) (fun _ => 0) (fun i => if i = 0 then 1 else 0) p :=
  block_posn_opt 2 _ _ _ _ (by norm_num [sumTo])

end AdaptaVerif.Props.C02
