/-
C03 — the decision rule of Lee's rotational sweep (`sweepVisible()` / `onBorderIDs` in
cola/libavoid/visibility.cpp, model: Model/LeeSweep.lean) against the route specification of Props/C03.

The sweep decides "is the swept-to point visible from the centre" from the CLOSEST edge of the sorted
status list that does not end at the point: blocked iff that edge is strictly nearer than the point, or
passes exactly through the point while the centre lies on the border of the same shape (`onBorderIDs`).

* `sweepVisible_blocked_of_witness` / `sweepVisible_visible_of_all_farther`: the rule, for ALL sorted
  status lists, relative to the status invariant "some edge not ending at the point is not farther than
  the point" (what the sweep maintains; the tie checks the whole sweep against the C++ on every run).
* `touch_segment_hits_rect`: on an axis-parallel rectangle a segment from the middle of a vertical side
  to any other point of the closed rectangle off that side passes through the interior (spec side).
* `border_recorded_on_vertical_side`: in exactly that situation the initialisation loop records the
  rectangle in `onBorderIDs`;  `touch_rule_agrees_with_spec_rect`: hence rule and spec agree ("blocked")
  for touching axis-parallel rectangles — the case a change of the id looked up in `onBorderIDs` breaks.
* `border_not_recorded_on_horizontal_side`: the loop NEVER records a rectangle whose HORIZONTAL side
  carries the centre (only edges with one end strictly above the initial ray are examined): the rule is
  blind there — one of the known weaknesses (known finding C03-lee-collinear), now a theorem about the code.
-/
import AdaptaVerif.Lemmas.LeeSweep
namespace AdaptaVerif.Props.C03Lee
open AdaptaVerif.Model.Geometry (Pt area2 vecDir pointOnLine strictBetween)
open AdaptaVerif.Check.Route AdaptaVerif.Spec.Route AdaptaVerif.Lemmas.Route
open AdaptaVerif.Model.LeeSweep AdaptaVerif.Lemmas.LeeSweep

/-! ### the rule on sorted status lists -/

/-- **The rule blocks** whenever the sorted status list holds a witness: an edge that does not end at the
    (shape-vertex) point and meets the ray not farther than the point, provided every such edge that passes
    exactly THROUGH the point belongs to a shape on whose border the centre lies. -/
theorem sweepVisible_blocked_of_witness (T : List EP) (p : PP) (onB : List Nat)
    (hconn : p.v.conn = false) (hs : SortedStatus T)
    (e : EP) (he : e ∈ T) (hne : NonEnd p.v.pt e) (hd : e.adist ≤ p.dist)
    (hthrough : ∀ f ∈ T, NonEnd p.v.pt f → f.adist = p.dist → f.obj1 ∈ onB) :
    sweepVisible T p onB = false := by
  obtain ⟨f, rest, h1, h2, h3, h4⟩ := skipEnds_of_mem p.v.pt T e he hne hs
  unfold sweepVisible
  rw [h1]
  simp only [hconn, Bool.false_eq_true, if_false]
  unfold closestBlocks
  by_cases hlt : f.adist < p.dist
  · simp [hlt]
  · have heq : f.adist = p.dist := le_antisymm (le_trans h4 hd) (not_lt.mp hlt)
    have hm := hthrough f h3 h2 heq
    simp [heq, hm]

/-- **The rule lets through** exactly when nothing is in the way: if every edge of the status list that
    does not end at the point meets the ray strictly farther than the point, the point is visible. -/
theorem sweepVisible_visible_of_all_farther (T : List EP) (p : PP) (onB : List Nat)
    (hconn : p.v.conn = false)
    (hfar : ∀ f ∈ T, NonEnd p.v.pt f → p.dist < f.adist) :
    sweepVisible T p onB = true := by
  unfold sweepVisible
  have key : ∀ (T : List EP), (∀ f ∈ T, NonEnd p.v.pt f → p.dist < f.adist) →
      ∀ f rest, skipEnds p.v.pt T = f :: rest → p.dist < f.adist := by
    intro T
    induction T with
    | nil => intro _ f rest h; simp [skipEnds] at h
    | cons g gs ih =>
      intro hall f rest h
      unfold skipEnds at h
      by_cases hc : (decide (p.v.pt = g.p1) || decide (p.v.pt = g.p2)) = true
      · rw [if_pos hc] at h
        exact ih (fun f hf => hall f (List.mem_cons_of_mem _ hf)) f rest h
      · rw [if_neg hc] at h
        have hfg : g = f := (List.cons.inj h).1
        subst hfg
        apply hall _ List.mem_cons_self
        intro hh
        apply hc
        rcases hh with h1 | h1
        · simp [h1]
        · simp [h1]
  cases hsk : skipEnds p.v.pt T with
  | nil => rfl
  | cons f rest =>
    have hf := key T hfar f rest hsk
    simp only [hconn, Bool.false_eq_true, if_false]
    unfold closestBlocks
    have h1 : ¬ f.adist < p.dist := not_lt.mpr (le_of_lt hf)
    have h2 : ¬ p.dist = f.adist := ne_of_lt hf
    simp [h1, h2]

/-- The hypothesis `SortedStatus` of the rule theorems holds in the model (and in the C++: `e.sort()` precedes
    every call of `sweepVisible`): the status list handed to the rule is `sortBy epLt …`, which is sorted by
    the distance at which the current ray meets the edges — for every status list and every swept-to point. -/
theorem model_status_sorted (c : Pt) (T : List EP) (t : PP) :
    SortedStatus (sortBy epLt (T.map (fun e => e.setCurr c t))) :=
  sortBy_epLt_sorted _

/-- One step of the modelled sweep (`sweepStep`, the loop body of `vertexSweep()`): if the sorted status holds a
    witness edge for the swept-to shape vertex `t` (as in `sweepVisible_blocked_of_witness`), the step never
    makes the edge centre–`t` visible (`setDist`): its decision is `addBlocker` or nothing — whatever the
    valid-region cones say. -/
theorem sweepStep_not_visible_of_witness (ign invisG : Bool) (c : SV) (onB : List Nat)
    (st : List EP × List (Nat × Dec)) (t : PP) (hconn : t.v.conn = false)
    (e : EP) (he : e ∈ sortBy epLt (st.1.map (fun e => e.setCurr c.pt t)))
    (hne : NonEnd t.v.pt e) (hd : e.adist ≤ t.dist)
    (hthrough : ∀ f ∈ sortBy epLt (st.1.map (fun e => e.setCurr c.pt t)), NonEnd t.v.pt f → f.adist = t.dist → f.obj1 ∈ onB) :
    ∃ d : Dec, (sweepStep ign invisG c onB st t).2 = (t.v.idx, d) :: st.2 ∧ d ≠ some true := by
  have hv := sweepVisible_blocked_of_witness _ t onB hconn (model_status_sorted c.pt st.1 t) e he hne hd hthrough
  unfold sweepStep
  simp only [hv]
  refine ⟨_, rfl, ?_⟩
  split
  · split <;> simp
  · simp only [Bool.false_eq_true, if_false]
    split <;> simp

/-! ### touching axis-parallel rectangles -/

/-- Spec side: from the middle of a vertical side of the rectangle to any other point of the closed
    rectangle that is not on that side's line, the segment passes through the open rectangle. -/
theorem touch_segment_hits_rect (x0 y0 x1 y1 : Rat) (hx : x0 < x1) (hy : y0 < y1) (c p : Pt)
    (hcx : c.x = x0 ∨ c.x = x1) (hcy0 : y0 < c.y) (hcy1 : c.y < y1)
    (hpx0 : x0 ≤ p.x) (hpx1 : p.x ≤ x1) (hpy0 : y0 ≤ p.y) (hpy1 : p.y ≤ y1) (hoff : p.x ≠ c.x) :
    segHitsInterior (rectPoly x0 y0 x1 y1) c p = true := by
  rw [segHitsInterior_iff]
  refine ⟨1 / 2, by norm_num, by norm_num, ?_⟩
  rw [strictlyInside_rect_iff x0 y0 x1 y1 hx hy]
  unfold lerp
  simp only
  rcases hcx with h | h
  · have : x0 < p.x := lt_of_le_of_ne hpx0 (by rw [← h]; exact fun hh => hoff hh.symm)
    refine ⟨by rw [h]; linarith, by rw [h]; linarith, by linarith, by linarith⟩
  · have : p.x < x1 := lt_of_le_of_ne hpx1 (by rw [← h]; exact hoff)
    refine ⟨by rw [h]; linarith, by rw [h]; linarith, by linarith, by linarith⟩

example : segHitsInterior (rectPoly 100 0 200 100) ⟨100, 50⟩ ⟨200, 50⟩ = true :=
  touch_segment_hits_rect 100 0 200 100 (by norm_num) (by norm_num) _ _ (Or.inl rfl)
    (by norm_num) (by norm_num) (by norm_num) (by norm_num) (by norm_num) (by norm_num) (by norm_num)

/-- **`onBorderIDs` records the rectangle** when the sweep centre (a vertex of another shape or a connector
    end) lies strictly inside one of its VERTICAL sides. -/
theorem border_recorded_on_vertical_side (base obj : Nat) (x0 y0 x1 y1 : Rat)
    (c : SV) (hidx : c.idx < base ∨ base + 4 ≤ c.idx) (hfin : c.pt.x < dblMax)
    (hcx : c.pt.x = x0 ∨ c.pt.x = x1) (hcy0 : y0 < c.pt.y) (hcy1 : c.pt.y < y1)
    (vs : List SV) (hsub : ∀ k ∈ shapeVerts base obj (rectPoly x0 y0 x1 y1), k ∈ vs) :
    obj ∈ onBorderIDs c vs := by
  have hA1 : ahead c.pt ⟨x1, y1⟩ = true := (ahead_iff _ _ hfin).mpr hcy1
  have hA2 : ahead c.pt ⟨x0, y1⟩ = true := (ahead_iff _ _ hfin).mpr hcy1
  have hB1 : ahead c.pt ⟨x0, y0⟩ = false := by
    rw [Bool.eq_false_iff]; intro h; have := (ahead_iff _ _ hfin).mp h; simp at this; linarith
  unfold onBorderIDs
  rw [List.mem_map]
  rw [shapeVerts_rect] at hsub
  rcases hcx with h | h
  · -- left side: the vertex (x0,y0), whose shPrev (x0,y1) is AHEAD
    refine ⟨_, List.mem_filter.mpr ⟨hsub { idx := base + 3, obj := obj, vn := 3, conn := false, pt := ⟨x0, y0⟩, prev := some (base + 2, ⟨x0, y1⟩), next := some (base + 0, ⟨x1, y0⟩) } (by simp), ?_⟩, rfl⟩
    have hne : (base + 2 != c.idx) = true := by
      simp only [bne_iff_ne, ne_eq]; omega
    simp only [recordsBorder, initNbr, hne, hA2, Bool.and_self, if_true]
    unfold pointOnLine strictBetween
    simp [h, hcy0, hcy1]
  · -- right side: the vertex (x1,y0): shPrev (x0,y0) is not AHEAD, shNext (x1,y1) is
    refine ⟨_, List.mem_filter.mpr ⟨hsub { idx := base + 0, obj := obj, vn := 0, conn := false, pt := ⟨x1, y0⟩, prev := some (base + 3, ⟨x0, y0⟩), next := some (base + 1, ⟨x1, y1⟩) } (by simp), ?_⟩, rfl⟩
    have hne : (base + 1 != c.idx) = true := by
      simp only [bne_iff_ne, ne_eq]; omega
    simp only [recordsBorder, initNbr, hB1, Bool.and_false, Bool.false_eq_true, if_false, hne, hA1, Bool.and_self, if_true]
    unfold pointOnLine strictBetween
    simp [h, hcy0, hcy1]

set_option linter.unusedSimpArgs false in
/-- **The blind spot**: a rectangle is NEVER recorded when the centre lies strictly inside one of its
    HORIZONTAL sides — the initialisation loop only examines edges with one end strictly above the
    initial ray.  (Known weakness of the sweep; the model and the C++ agree on it.) -/
theorem border_not_recorded_on_horizontal_side (base obj : Nat) (x0 y0 x1 y1 : Rat) (hx : x0 < x1) (hy : y0 < y1)
    (c : SV) (hidx : c.idx < base ∨ base + 4 ≤ c.idx) (hfin : c.pt.x < dblMax)
    (hcy : c.pt.y = y0 ∨ c.pt.y = y1) (hcx0 : x0 < c.pt.x) (hcx1 : c.pt.x < x1) :
    ∀ k ∈ shapeVerts base obj (rectPoly x0 y0 x1 y1), recordsBorder c k = false := by
  have hne0 : ¬ x0 = c.pt.x := ne_of_lt hcx0
  have hne1 : ¬ x1 = c.pt.x := fun h => by rw [h] at hcx1; exact lt_irrefl _ hcx1
  have hxx : ¬ x1 = x0 := fun h => by rw [h] at hx; exact lt_irrefl _ hx
  have hxx' : ¬ x0 = x1 := fun h => hxx h.symm
  have hi0 : ¬ base = c.idx := by omega
  have hi1 : ¬ base + 1 = c.idx := by omega
  have hi2 : ¬ base + 2 = c.idx := by omega
  have hi3 : ¬ base + 3 = c.idx := by omega
  rw [shapeVerts_rect]
  intro k hk
  simp only [List.mem_cons, List.not_mem_nil, or_false] at hk
  rcases hcy with h | h
  · -- bottom side: (·,y1) is AHEAD, (·,y0) is not
    have hy1 : ¬ y1 = c.pt.y := fun hh => by rw [h] at hh; rw [hh] at hy; exact lt_irrefl _ hy
    have hA : ∀ x, ahead c.pt ⟨x, y1⟩ = true := fun x => (ahead_iff _ _ hfin).mpr (by simp [h, hy])
    have hB : ∀ x, ahead c.pt ⟨x, y0⟩ = false := fun x => by
      rw [Bool.eq_false_iff]; intro hh; have := (ahead_iff _ _ hfin).mp hh; simp [h] at this
    rcases hk with rfl | rfl | rfl | rfl <;>
      simp [recordsBorder, initNbr, hA, hB, pointOnLine, hne0, hne1, hxx, hxx', hy1, hi0, hi1, hi2, hi3]
  · -- top side: nothing is AHEAD
    have hB1 : ∀ x, ahead c.pt ⟨x, y1⟩ = false := fun x => by
      rw [Bool.eq_false_iff]; intro hh; have := (ahead_iff _ _ hfin).mp hh; simp [h] at this
    have hB0 : ∀ x, ahead c.pt ⟨x, y0⟩ = false := fun x => by
      rw [Bool.eq_false_iff]; intro hh; have := (ahead_iff _ _ hfin).mp hh; simp [h] at this; linarith
    rcases hk with rfl | rfl | rfl | rfl <;>
      simp [recordsBorder, initNbr, hB1, hB0]

/-- **Rule = spec on touching axis-parallel rectangles.**  Rectangle B = [x0,x1]×[y0,y1] (shape id `obj`);
    the sweep centre `c` (a vertex of another shape, or a connector end) lies strictly inside a vertical side
    of B; the swept-to shape vertex `p` lies on the closed rectangle, off that side's line (e.g. it is a corner
    of a third shape touching B).  If the sorted status list contains an edge of B that does not end at `p` and
    meets the ray not beyond `p`, and only B's edges pass exactly through `p`, then
    the specification says the segment c–p is blocked by B, and the rule says so too. -/
theorem touch_rule_agrees_with_spec_rect (base obj : Nat) (x0 y0 x1 y1 : Rat) (hx : x0 < x1) (hy : y0 < y1)
    (c : SV) (hidx : c.idx < base ∨ base + 4 ≤ c.idx) (hfin : c.pt.x < dblMax)
    (hcx : c.pt.x = x0 ∨ c.pt.x = x1) (hcy0 : y0 < c.pt.y) (hcy1 : c.pt.y < y1)
    (p : PP) (hconn : p.v.conn = false)
    (hpx0 : x0 ≤ p.v.pt.x) (hpx1 : p.v.pt.x ≤ x1) (hpy0 : y0 ≤ p.v.pt.y) (hpy1 : p.v.pt.y ≤ y1)
    (hoff : p.v.pt.x ≠ c.pt.x)
    (vs : List SV) (hsub : ∀ k ∈ shapeVerts base obj (rectPoly x0 y0 x1 y1), k ∈ vs)
    (T : List EP) (hs : SortedStatus T)
    (e : EP) (he : e ∈ T) (hne : NonEnd p.v.pt e) (hd : e.adist ≤ p.dist)
    (honly : ∀ f ∈ T, NonEnd p.v.pt f → f.adist = p.dist → f.obj1 = obj) :
    segHitsInterior (rectPoly x0 y0 x1 y1) c.pt p.v.pt = true ∧
      sweepVisible T p (onBorderIDs c vs) = false := by
  refine ⟨touch_segment_hits_rect x0 y0 x1 y1 hx hy c.pt p.v.pt hcx hcy0 hcy1 hpx0 hpx1 hpy0 hpy1 hoff, ?_⟩
  apply sweepVisible_blocked_of_witness T p _ hconn hs e he hne hd
  intro f hf hnf hfd
  rw [honly f hf hnf hfd]
  exact border_recorded_on_vertical_side base obj x0 y0 x1 y1 c hidx hfin hcx hcy0 hcy1 vs hsub

/-! ### non-vacuity and the scene of the seeded change -/

namespace Demo
/-- three touching rectangles: A's corner C = (100,50) lies in the middle of B's left side, D's corner
    P = (200,50) in the middle of B's right side; A's top edge, the segment C–P and D's bottom edge are collinear -/
def A : List Pt := rectPoly 40 50 100 110
def B : List Pt := rectPoly 100 0 200 100
def D : List Pt := rectPoly 200 (-10) 260 50
/-- sweep centre: A's vertex C (global index 4, shape id 2) -/
def c : SV := { idx := 4, obj := 2, vn := 0, conn := false, pt := ⟨100, 50⟩, prev := some (7, ⟨40, 50⟩), next := some (5, ⟨100, 110⟩) }
/-- swept-to point: D's vertex P -/
def p : PP := mkPP c.pt { idx := 10, obj := 3, vn := 2, conn := false, pt := ⟨200, 50⟩, prev := some (9, ⟨260, 50⟩), next := some (11, ⟨200, -10⟩) }
/-- B's right side in the status list when the ray reaches P -/
def e : EP := { i1 := 0, p1 := ⟨200, 0⟩, obj1 := 1, i2 := 1, p2 := ⟨200, 100⟩, dist1 := 12500, dist2 := 12500, ang := some ⟨100, 0⟩, adist := 10000 }
end Demo

/-- the hypotheses of `touch_rule_agrees_with_spec_rect` are satisfiable (the seeded scene) -/
example : segHitsInterior Demo.B Demo.c.pt Demo.p.v.pt = true ∧
    sweepVisible [Demo.e] Demo.p (onBorderIDs Demo.c (shapeVerts 0 1 Demo.B)) = false :=
  touch_rule_agrees_with_spec_rect 0 1 100 0 200 100 (by norm_num) (by norm_num) Demo.c (Or.inr (by decide))
    (by decide +kernel) (Or.inl rfl) (by decide +kernel) (by decide +kernel) Demo.p rfl
    (by decide +kernel) (by decide +kernel) (by decide +kernel) (by decide +kernel) (by decide +kernel)
    (shapeVerts 0 1 Demo.B) (fun _ h => h) [Demo.e] (List.pairwise_singleton _ _)
    Demo.e List.mem_cons_self (by unfold NonEnd; decide +kernel) (by decide +kernel)
    (by intro f hf _ _; rw [List.mem_singleton.mp hf]; rfl)

-- non-vacuity of `sweepVisible_visible_of_all_farther` on a non-empty status list: B's right side moved
-- beyond P (squared distance 20000 > 10000)
example : sweepVisible [{ Demo.e with adist := 20000 }] Demo.p [1] = true :=
  sweepVisible_visible_of_all_farther _ Demo.p [1] rfl (by
    intro f hf _; rw [List.mem_singleton.mp hf]; decide +kernel)

-- non-vacuity of `sweepStep_not_visible_of_witness` (all hypotheses jointly): the sweep centred at C reaches P
-- with B's right side in the status list; the step's decision is not "visible"
example : ∃ d : Dec, (sweepStep true true Demo.c [1] ([Demo.e], []) Demo.p).2 = (Demo.p.v.idx, d) :: [] ∧
    d ≠ some true := by
  have h1 : Demo.e.setCurr Demo.c.pt Demo.p = Demo.e := by
    unfold EP.setCurr
    rw [if_neg (by decide +kernel), if_neg (by decide +kernel), if_neg (by decide +kernel)]
  have hT : sortBy epLt ([Demo.e].map (fun e => e.setCurr Demo.c.pt Demo.p)) = [Demo.e] := by
    simp [sortBy, insertBy, h1]
  exact sweepStep_not_visible_of_witness true true Demo.c [1] ([Demo.e], []) Demo.p rfl Demo.e
    (by rw [hT]; exact List.mem_cons_self) (by unfold NonEnd; decide +kernel) (by decide +kernel)
    (by rw [hT]; intro f hf _ _; rw [List.mem_singleton.mp hf]; decide +kernel)

/-- the blind spot is real: centre in the middle of B's TOP side, nothing recorded -/
example : onBorderIDs { idx := 4, obj := 2, vn := 0, conn := false, pt := ⟨150, 100⟩ } (shapeVerts 0 1 Demo.B) = [] := by
  decide +kernel

/-- **The modelled sweep blocks the edge C–P** (C is vertex 0 of A, P is vertex 2 of D; shape ids = creation
    order), here for the creation order B, A, D — the deciding sweep is centred at P and reaches C: the whole
    executable model (`transactionEdges`: sweeps, status list, `onBorderIDs`, `newBlockingShape`) evaluated in
    the kernel.  (Every other order is compared with the C++ by the driver on each run.) -/
theorem demo_scene_edge_blocked_BAD :
    ((2, 0), (3, 2)) ∉ transactionEdges true true [(1, Demo.B), (2, Demo.A), (3, Demo.D)] [] ∧
    ((3, 2), (2, 0)) ∉ transactionEdges true true [(1, Demo.B), (2, Demo.A), (3, Demo.D)] [] := by
  decide +kernel

/-- the same for the creation order B, D, A — the deciding sweep is centred at C and reaches P.
    `transactionEdges` lists every edge with the end of smaller GLOBAL index first (here D's vertices precede
    A's), so the edge C–P would appear as ((2,2),(3,0)): both orientations are excluded (the orientation
    ((3,0),(2,2)) alone never occurs in the list, whatever the sweep decides). -/
theorem demo_scene_edge_blocked_BDA :
    ((2, 2), (3, 0)) ∉ transactionEdges true true [(1, Demo.B), (2, Demo.D), (3, Demo.A)] [] ∧
    ((3, 0), (2, 2)) ∉ transactionEdges true true [(1, Demo.B), (2, Demo.D), (3, Demo.A)] [] := by
  decide +kernel

-- the two statements are not hollow: the edge lists are not empty, and contain e.g. the edge from B's corner
-- (200,0) to P — in the orientation "smaller global index first"
example : ((1, 0), (3, 2)) ∈ transactionEdges true true [(1, Demo.B), (2, Demo.A), (3, Demo.D)] [] ∧
    ((1, 0), (2, 2)) ∈ transactionEdges true true [(1, Demo.B), (2, Demo.D), (3, Demo.A)] [] := by
  decide +kernel

end AdaptaVerif.Props.C03Lee
