/-
C20 — results are reproducible, and routing / VPSC are independent of the frame.

LOGIC half only (property theorems, all inputs).  Determinism of a run is a property of the
runtime and is *observed* by harness/c20.cpp + Driver/C20.lean; what can be proved is
 (1) every geometry predicate the router's decisions are built from is frame-independent
     (orientation-like ones change sign exactly with the determinant),
 (2) route costs (Manhattan length, squared leg lengths, bend count as charged by `cost()`) and
     obstacle-freeness are frame-independent, so a frame change is a cost-preserving bijection
     between the valid routes of a scene and of its image: the OPTIMAL COST is frame-independent
     (the optimal route need not be, among equal-cost alternatives),
 (3) the VPSC optimum is unique, translates with the desired positions, and is permuted by a
     renaming of variables / reordering of constraints,
 (4) the scan-line comparator of libvpsc (`CmpNodePos`: position, then heap address) is
     independent of the addresses whenever all centre positions are distinct — heap addresses can
     influence removeoverlaps ONLY through coincident centres (and a concrete instance where they do).
A frame is `F : Frame`, `F.act p = S p + t`, `S` one of the 8 symmetries of the square; pure
translations are `Frame.translation t`, pure symmetries `Frame.ofSym S`.
-/
import AdaptaVerif.Spec.Frame
import AdaptaVerif.Lemmas.FrameGeom
import AdaptaVerif.Lemmas.FrameRoute
import AdaptaVerif.Lemmas.FrameCost
import AdaptaVerif.Lemmas.FramePin
import AdaptaVerif.Lemmas.FrameVpsc
import AdaptaVerif.Lemmas.FrameScan
import AdaptaVerif.Lemmas.FrameExample
import AdaptaVerif.Lemmas.FrameScanC09
namespace AdaptaVerif.Props.C20
open AdaptaVerif.Model.Geometry AdaptaVerif.Model.Frame AdaptaVerif.Spec.Frame
open AdaptaVerif.Lemmas
open AdaptaVerif.Lemmas.FrameExample (exP exX)
open AdaptaVerif.Model.RouteCost AdaptaVerif.Model.PinCone

/-! ## (1) geometry predicates -/

/-- `vecDir (F a) (F b) (F c) = det F · vecDir a b c`: unchanged by translations and rotations,
    negated by the four reflections -/
theorem vecDir_oriented : Oriented3 (fun a b c => vecDir a b c) := FrameGeom.vecDir_act

/-- `cornerSide` is orientation-like too -/
theorem cornerSide_oriented : Oriented4 (fun a b c d => cornerSide a b c d) := FrameGeom.cornerSide_act

/-- `colinear`, `pointOnLine`, `segmentIntersect`, `segmentShapeIntersect` (result and updated flag,
    for either value of the flag) and `manhattanDist` are the same in every frame -/
theorem predicates_frame_invariant :
    Invariant3 (fun a b c => colinear a b c) ∧
    Invariant3 (fun a b c => pointOnLine a b c) ∧
    Invariant4 (fun a b c d => segmentIntersect a b c d) ∧
    (∀ seen, Invariant4 (fun a b c d => segmentShapeIntersect a b c d seen)) ∧
    (∀ (F : Frame) (a b : Pt), manhattanDist (F.act a) (F.act b) = manhattanDist a b) :=
  ⟨FrameGeom.colinear_act, FrameGeom.pointOnLine_act, FrameGeom.segmentIntersect_act,
   fun seen F a b c d => FrameGeom.segmentShapeIntersect_act F a b c d seen, FrameGeom.manhattanDist_act⟩

/-- `inValidRegion` (which presupposes a fixed vertex orientation of the shape) is invariant under the
    orientation-preserving frames: all translations and the four rotations -/
theorem inValidRegion_rigid_invariant (F : Frame) (hdet : F.det = 1) (ig : Bool) (a0 a1 a2 b : Pt) :
    inValidRegion ig (F.act a0) (F.act a1) (F.act a2) (F.act b) = inValidRegion ig a0 a1 a2 b :=
  FrameGeom.inValidRegion_act F hdet ig a0 a1 a2 b

example : (Frame.translation ⟨3, -7⟩).det = 1 ∧ (Frame.ofSym Sym.rot90).det = 1 := ⟨rfl, rfl⟩

/-- specialisation to pure translations, in the vocabulary of C16 (`addPt`) -/
theorem translation_invariant (t a b c d : Pt) :
    let T := fun p => GeometrySpec.addPt p t
    vecDir (T a) (T b) (T c) = vecDir a b c ∧ colinear (T a) (T b) (T c) = colinear a b c ∧
    pointOnLine (T a) (T b) (T c) = pointOnLine a b c ∧
    segmentIntersect (T a) (T b) (T c) (T d) = segmentIntersect a b c d ∧
    cornerSide (T a) (T b) (T c) (T d) = cornerSide a b c d := by
  have e : ∀ p, GeometrySpec.addPt p t = (Frame.translation t).act p := fun p => rfl
  have hd : (Frame.translation t).det = 1 := rfl
  simp only [e]
  refine ⟨?_, FrameGeom.colinear_act _ a b c, FrameGeom.pointOnLine_act _ a b c,
    FrameGeom.segmentIntersect_act _ a b c d, ?_⟩
  · rw [FrameGeom.vecDir_act, hd, one_mul]
  · rw [FrameGeom.cornerSide_act, hd, one_mul]

/-- a frame change is a bijection of the plane (inverse `F.inv`) -/
theorem frame_bijective (F : Frame) : (∀ p, F.inv.act (F.act p) = p) ∧ (∀ p, F.act (F.inv.act p) = p) :=
  ⟨FrameGeom.inv_act F, FrameGeom.act_inv F⟩

/-! ## (2) routes -/

/-- Manhattan length, the list of squared Euclidean leg lengths (which determines the Euclidean
    length Σ√·), the bend count as `cost()` charges it, axis-parallelism, and hence the orthogonal
    cost `length + penalty · bends`, are frame-independent -/
theorem route_costs_frame_invariant :
    CostInvariant manhattanLen ∧ CostInvariant sqLens ∧ CostInvariant bends ∧ CostInvariant isOrth ∧
    (∀ pen, CostInvariant (orthCost pen)) :=
  ⟨FrameRoute.manhattanLen_act, FrameRoute.sqLens_act, FrameRoute.bends_act, FrameRoute.isOrth_act,
   fun pen F r => FrameRoute.orthCost_act F pen r⟩

/-- a route is obstacle-free (joins the endpoints, no point of a leg strictly inside a rectangle)
    iff its image is obstacle-free in the image scene -/
theorem route_valid_iff_image_valid (F : Frame) (sc : Scene) (s d : Pt) (r : Route) :
    RouteValid (F.actScene sc) (F.act s) (F.act d) (F.actRoute r) ↔ RouteValid sc s d r :=
  FrameRoute.routeValid_act F sc s d r

-- non-vacuity: a valid 2-bend route around the rectangle [1,3]×[-1,1] and an invalid straight one
example : RouteValid [⟨⟨1, -1⟩, ⟨3, 1⟩⟩] ⟨0, 0⟩ ⟨4, 0⟩ [⟨0, 0⟩, ⟨0, 1⟩, ⟨4, 1⟩, ⟨4, 0⟩] := by
  refine ⟨rfl, rfl, ?_⟩
  intro l hl R hR t h0 h1
  simp only [List.mem_singleton] at hR
  subst hR
  simp only [legs, List.mem_cons, List.not_mem_nil, or_false] at hl
  rcases hl with rfl | rfl | rfl <;>
    simp only [Rect.inside, lerp, strictBetween, Bool.and_eq_false_iff, Bool.or_eq_false_iff,
      Bool.and_eq_false_iff, decide_eq_false_iff_not, not_lt] <;> norm_num <;>
    first
      | (left; constructor <;> intro h <;> linarith)
      | (right; constructor <;> intro h <;> linarith)
example : ¬ RouteValid [⟨⟨1, -1⟩, ⟨3, 1⟩⟩] ⟨0, 0⟩ ⟨4, 0⟩ [⟨0, 0⟩, ⟨4, 0⟩] := by
  rintro ⟨_, _, h⟩
  have := h (⟨0, 0⟩, ⟨4, 0⟩) (by simp [legs]) ⟨⟨1, -1⟩, ⟨3, 1⟩⟩ (by simp) (1/2) (by norm_num) (by norm_num)
  simp [Rect.inside, lerp, strictBetween] at this
  norm_num at this

/-- routing is frame-independent: for polyline connectors (cost data = squared leg lengths and bend
    count) and for orthogonal connectors (cost = Manhattan length + penalty·bends), `r ↦ F r` is a
    bijection between the valid routes of a problem and those of its image that preserves the cost -/
theorem routing_frame_independent :
    RoutingFrameIndependent RouteValid (fun r => (sqLens r, bends r)) ∧
    (∀ pen, RoutingFrameIndependent OrthRouteValid (orthCost pen)) := by
  refine ⟨fun F sc s d => ⟨⟨FrameRoute.actRoute_inv_act F, FrameRoute.actRoute_act_inv F⟩,
      FrameRoute.routeValid_act F sc s d, fun r => ?_⟩,
    fun pen F sc s d => ⟨⟨FrameRoute.actRoute_inv_act F, FrameRoute.actRoute_act_inv F⟩,
      FrameRoute.orthRouteValid_act F sc s d, fun r => FrameRoute.orthCost_act F pen r⟩⟩
  show (sqLens (F.actRoute r), bends (F.actRoute r)) = (sqLens r, bends r)
  rw [FrameRoute.sqLens_act, FrameRoute.bends_act]

/-- hence the OPTIMAL cost of an orthogonal routing problem is the same in every frame -/
theorem optimal_orth_cost_frame_invariant (F : Frame) (pen : Rat) (sc : Scene) (s d : Pt) (c : Rat) :
    IsOptOrthCost pen (F.actScene sc) (F.act s) (F.act d) c ↔ IsOptOrthCost pen sc s d c :=
  FrameRoute.isOptOrthCost_act F pen sc s d c

/-- and for any cost that is a function `g` of (squared leg lengths, bends) — e.g. Euclidean length +
    penalty·bends for polyline connectors — a valid route of cost ≤ every valid route stays so -/
theorem optimal_route_maps_to_optimal {α : Type} [LE α] (g : List Rat × Nat → α)
    (F : Frame) (sc : Scene) (s d : Pt) (r : Route)
    (hv : RouteValid sc s d r)
    (hopt : ∀ r', RouteValid sc s d r' → g (sqLens r, bends r) ≤ g (sqLens r', bends r')) :
    RouteValid (F.actScene sc) (F.act s) (F.act d) (F.actRoute r) ∧
    ∀ r', RouteValid (F.actScene sc) (F.act s) (F.act d) r' →
      g (sqLens (F.actRoute r), bends (F.actRoute r)) ≤ g (sqLens r', bends r') := by
  refine ⟨(FrameRoute.routeValid_act F sc s d r).2 hv, fun r' hv' => ?_⟩
  have hv'' : RouteValid sc s d (F.inv.actRoute r') := by
    rw [← FrameRoute.routeValid_act F, FrameRoute.actRoute_act_inv]; exact hv'
  have := hopt _ hv''
  rw [FrameRoute.sqLens_act, FrameRoute.bends_act]
  rwa [← FrameRoute.sqLens_act F (F.inv.actRoute r'), ← FrameRoute.bends_act F (F.inv.actRoute r'),
    FrameRoute.actRoute_act_inv] at this

-- non-vacuity of the hypotheses: with the constant cost every valid route is optimal
example : ∃ r, RouteValid [] ⟨0, 0⟩ ⟨1, 0⟩ r ∧
    ∀ r', RouteValid [] ⟨0, 0⟩ ⟨1, 0⟩ r' → (fun _ : List Rat × Nat => (0 : Nat)) (sqLens r, bends r) ≤
      (fun _ : List Rat × Nat => (0 : Nat)) (sqLens r', bends r') :=
  ⟨[⟨0, 0⟩, ⟨1, 0⟩], ⟨rfl, rfl, fun _ _ R hR => absurd hR List.not_mem_nil⟩, fun _ _ => Nat.le_refl 0⟩

/-! ## (2b) the cost `cost()` charges an A* vertex path: segment penalty and reverse-direction penalty

`Model/RouteCost.lean` transcribes the `reverseDirectionPenalty` block of `cost()` (cola/libavoid/makepath.cpp): with
`xDir`/`yDir` the signs of the source→destination displacement, an edge `p → q` is penalised iff
`(xDir ≠ 0 ∧ −xDir = sign (q.x − p.x)) ∨ (yDir ≠ 0 ∧ −yDir = sign (q.y − p.y))`.  The driver evaluates this model on the
vertex paths the real search returns in the 8 frames of every `route-symmetry-params` scene and demands equal costs. -/

/-- the reverse-direction rule gives the same verdict in every frame — the 8 symmetries of the square and all
    translations — for EVERY source→destination displacement (zero components included: exactly aligned end
    points) and every edge (zero-length and diagonal ones included) -/
theorem reverse_direction_rule_frame_invariant (F : Frame) (src dst p q : Pt) :
    reverses (F.act src) (F.act dst) (F.act p) (F.act q) = reverses src dst p q :=
  FrameCost.reverses_act F src dst p q

-- the rule is not trivial: with the end points vertically aligned, an edge heading away from the destination is
-- penalised, a sideways one and one heading towards the destination are not
example : reverses ⟨0, 0⟩ ⟨0, 5⟩ ⟨0, 0⟩ ⟨0, -1⟩ = true ∧ reverses ⟨0, 0⟩ ⟨0, 5⟩ ⟨0, 0⟩ ⟨3, 0⟩ = false ∧
    reverses ⟨0, 0⟩ ⟨0, 5⟩ ⟨0, 0⟩ ⟨0, 2⟩ = false := by
  simp [reverses, axisReverses, dimDir]

/-- the guards matter: the variant whose Y test is guarded by the X displacement (`reversesSlip`) is NOT invariant
    under exchanging the axes — vertically aligned end points, an edge heading away from the destination: not
    penalised; the transposed situation: penalised -/
theorem reverse_rule_guard_matters :
    reversesSlip ⟨0, 0⟩ ⟨0, 1⟩ ⟨0, 0⟩ ⟨0, -1⟩ = false ∧
    reversesSlip ((Frame.ofSym Sym.diag).act ⟨0, 0⟩) ((Frame.ofSym Sym.diag).act ⟨0, 1⟩)
      ((Frame.ofSym Sym.diag).act ⟨0, 0⟩) ((Frame.ofSym Sym.diag).act ⟨0, -1⟩) = true := by
  simp [reversesSlip, axisReverses, dimDir, Frame.act, Frame.ofSym, Sym.apply]

/-- number of penalised edges, the penalty sum `segmentPenalty·bends + reverseDirectionPenalty·reversing edges`, and
    the two path costs built from them (every edge charged / orthogonal search: last edge not charged) are
    frame-independent, for all penalty values, end points and vertex paths -/
theorem path_costs_frame_invariant (F : Frame) (seg rev : Rat) (src dst : Pt) (P : Route) :
    revEdges (F.act src) (F.act dst) (F.actRoute P) = revEdges src dst P ∧
    penalties seg rev (F.act src) (F.act dst) (F.actRoute P) = penalties seg rev src dst P ∧
    fullPathCost seg rev (F.act src) (F.act dst) (F.actRoute P) = fullPathCost seg rev src dst P ∧
    orthPathCost seg rev (F.act src) (F.act dst) (F.actRoute P) = orthPathCost seg rev src dst P :=
  ⟨FrameCost.revEdges_act F src dst P, FrameCost.penalties_act F seg rev src dst P,
   FrameCost.fullPathCost_act F seg rev src dst P, FrameCost.orthPathCost_act F seg rev src dst P⟩

/-- for polyline connectors the cost is Σ√(squared leg length) + penalties: its data (squared leg lengths, penalty
    sum) is frame-independent -/
theorem polyline_path_cost_data_frame_invariant (F : Frame) (seg rev : Rat) (src dst : Pt) (P : Route) :
    (sqLens (F.actRoute P), penalties seg rev (F.act src) (F.act dst) (F.actRoute P)) =
      (sqLens P, penalties seg rev src dst P) := by
  rw [FrameRoute.sqLens_act, FrameCost.penalties_act]

/-- hence the OPTIMAL cost of an orthogonal routing problem with segment and reverse-direction penalties is the
    same in every frame: two runs of a correct minimiser on a scene and on its image must return routes of equal
    cost — what the driver checks on the real router's vertex paths -/
theorem optimal_orth_path_cost_frame_invariant (F : Frame) (seg rev : Rat) (sc : Scene) (s d : Pt) (c : Rat) :
    IsOptOrthPathCost seg rev (F.actScene sc) (F.act s) (F.act d) c ↔ IsOptOrthPathCost seg rev sc s d c :=
  FrameCost.isOptOrthPathCost_act F seg rev sc s d c

-- the two sides of optimal_orth_cost_frame_invariant / optimal_orth_path_cost_frame_invariant are not constantly false:
-- `IsOptOrthCost` and `IsOptOrthPathCost` hold on a non-degenerate problem (empty scene, (0,0) → (3,0), optimal cost 3)
example : IsOptOrthCost 2 [] ⟨0, 0⟩ ⟨3, 0⟩ 3 ∧ IsOptOrthPathCost 2 5 [] ⟨0, 0⟩ ⟨3, 0⟩ 3 := by
  have key : ∀ (r : Route) (a b : Pt), r.head? = some a → r.getLast? = some b → b.x - a.x ≤ manhattanLen r := by
    intro r
    induction r with
    | nil => intro a b h; simp at h
    | cons p rest ih =>
      intro a b ha hb
      simp only [List.head?_cons, Option.some.injEq] at ha
      subst ha
      cases rest with
      | nil =>
        simp only [List.getLast?_singleton, Option.some.injEq] at hb
        subst hb; simp [manhattanLen]
      | cons q rest' =>
        have h1 := ih q b rfl (by simpa [List.getLast?_cons_cons] using hb)
        have h2 : q.x - p.x ≤ manhattanDist p q := by
          unfold manhattanDist absR; split <;> split <;> linarith
        simp only [manhattanLen]; linarith
  have hvalid : OrthRouteValid [] ⟨0, 0⟩ ⟨3, 0⟩ [⟨0, 0⟩, ⟨3, 0⟩] :=
    ⟨⟨rfl, rfl, fun _ _ R hR => absurd hR List.not_mem_nil⟩, by decide⟩
  refine ⟨⟨⟨_, hvalid, ?_⟩, fun r hr => ?_⟩, ⟨⟨_, hvalid, ?_⟩, fun r hr => ?_⟩⟩
  · norm_num [orthCost, manhattanLen, manhattanDist, absR, bends]
  · have := key r _ _ hr.1.1 hr.1.2.1
    have hb : (0 : Rat) ≤ ((bends r : Nat) : Rat) := by exact_mod_cast Nat.zero_le _
    simp only [orthCost] at *; norm_num at this; linarith
  · norm_num [orthPathCost, manhattanLen, manhattanDist, absR, bends, revEdges]
  · have := key r _ _ hr.1.1 hr.1.2.1
    have hb : (0 : Rat) ≤ ((bends r : Nat) : Rat) := by exact_mod_cast Nat.zero_le _
    have hc : (0 : Rat) ≤ ((revEdges ⟨0, 0⟩ ⟨3, 0⟩ r.dropLast : Nat) : Rat) := by exact_mod_cast Nat.zero_le _
    simp only [orthPathCost] at *; norm_num at this; linarith

-- the model on a concrete vertex path: source (0,0), destination (0,4) (vertically aligned), path up to (0,-2) in two
-- edges, across to (3,-2), down to (3,4), back to (0,4): the two upward edges are the reversing ones
example : revEdges ⟨0, 0⟩ ⟨0, 4⟩ [⟨0, 0⟩, ⟨0, -1⟩, ⟨0, -2⟩, ⟨3, -2⟩, ⟨3, 4⟩, ⟨0, 4⟩] = 2 := by
  simp [revEdges, reverses, axisReverses, dimDir]
  norm_num

/-! ## (2c) the pin-cone rule of `ConnEnd::assignPinVisibilityTo` (portDirectionPenalty)

`Model/PinCone.lean`: the edge from a connector end attached to a pin CLASS to one of the class's pins costs
`max(0.001, connectionCost + portDirectionPenalty·[the other end lies in none of the 90° cones of the pin's directions])`,
the cone test looking at `target − pinPosition`. -/

/-- translating pin and target together never changes the verdict (the rule is a function of target − pin): all
    positions, all direction flags, no side condition -/
theorem pin_cone_rule_translation_invariant (t : Pt) (d : Dirs) (pin target : Pt) :
    pinSeesTarget d ((Frame.translation t).act pin) ((Frame.translation t).act target) = pinSeesTarget d pin target :=
  FramePin.pinSeesTarget_translate t d pin target

/-- in every frame (8 symmetries, then any translation), with the pin's direction flags transformed by the symmetry, the
    verdict is the same — for every pin position and every target other than the pin position itself (the zero vector
    is assigned to the right cone by `rotationalAngle`, which no symmetry respects) -/
theorem pin_cone_rule_frame_invariant (F : Frame) (d : Dirs) (pin target : Pt) (hne : target ≠ pin) :
    pinSeesTarget (d.act F.sym) (F.act pin) (F.act target) = pinSeesTarget d pin target :=
  FramePin.pinSeesTarget_act F d pin target hne

example : (⟨3, 4⟩ : Pt) ≠ ⟨0, 0⟩ := by decide

/-- hence the cost of the pin edge is frame-independent -/
theorem pin_edge_cost_frame_invariant (F : Frame) (pen cc : Rat) (d : Dirs) (pin target : Pt) (hne : target ≠ pin) :
    pinEdgeExtra pen cc (d.act F.sym) (F.act pin) (F.act target) = pinEdgeExtra pen cc d pin target := by
  unfold pinEdgeExtra
  rw [FramePin.pinSeesTarget_act F d pin target hne]

/-- the subtraction matters: the variant that looks at the target from the ORIGIN (`rotationalAngle(target)`) is not
    translation invariant — a pin at (0,0) looking right, the target at (5,1): seen; both moved by (−10,0): not seen -/
theorem pin_cone_from_origin_not_translation_invariant :
    pinSeesTargetFromOrigin ⟨false, false, false, true⟩ ⟨0, 0⟩ ⟨5, 1⟩ = true ∧
    pinSeesTargetFromOrigin ⟨false, false, false, true⟩ ((Frame.translation ⟨-10, 0⟩).act ⟨0, 0⟩)
      ((Frame.translation ⟨-10, 0⟩).act ⟨5, 1⟩) = false := by
  simp [pinSeesTargetFromOrigin, inCone, coneRight, cone0, Frame.translation, Frame.act, Sym.apply]
  norm_num

/-! ## (3) VPSC -/

/-- two optima of the strictly convex separable quadratic over the convex feasible set coincide -/
theorem optimum_unique (P : VProblem) (hw : P.WF) (x y : Nat → Rat)
    (hx : P.IsOptimum x) (hy : P.IsOptimum y) : ∀ i, i < P.n → x i = y i :=
  FrameVpsc.optimum_unique P hw x y hx hy

-- non-vacuity: two variables wanting to sit at 0, constraint x0 + 2 ≤ x1: the optimum is (-1, 1)
example : ∀ y, exP.IsOptimum y → y 0 = -1 ∧ y 1 = 1 := by
  intro y hy
  have h := optimum_unique exP FrameExample.exP_wf y exX hy FrameExample.exX_optimum
  exact ⟨by simpa [exX] using h 0 (by decide), by simpa [exX] using h 1 (by decide)⟩

/-- desired + t ⇒ optimum + t (scale 1) -/
theorem vpsc_translation_equivariant (P : VProblem) (t : Rat) (x : Nat → Rat) :
    P.IsOptimum x ↔ (P.shift t).IsOptimum (fun i => x i + t) :=
  FrameVpsc.vpsc_translation_equivariant P t x

/-- so ANY optimum of the shifted problem is the shifted optimum of the original one -/
theorem vpsc_shifted_optimum_eq (P : VProblem) (hw : P.WF) (t : Rat) (x x' : Nat → Rat)
    (hx : P.IsOptimum x) (hx' : (P.shift t).IsOptimum x') : ∀ i, i < P.n → x' i = x i + t :=
  FrameVpsc.vpsc_shifted_optimum_eq P hw t x x' hx hx'

-- non-vacuity of vpsc_shifted_optimum_eq: the shifted example problem has an optimum, and every optimum of it is (4, 6)
example : (∃ x', (exP.shift 5).IsOptimum x') ∧ ∀ x', (exP.shift 5).IsOptimum x' → x' 0 = 4 ∧ x' 1 = 6 := by
  refine ⟨⟨_, (vpsc_translation_equivariant exP 5 exX).1 FrameExample.exX_optimum⟩, fun x' hx' => ?_⟩
  have h := vpsc_shifted_optimum_eq exP FrameExample.exP_wf 5 exX x' FrameExample.exX_optimum hx'
  exact ⟨by rw [h 0 (by decide)]; norm_num [exX], by rw [h 1 (by decide)]; norm_num [exX]⟩

/-- renaming the variables by a permutation σ (inverse τ) and listing the renamed constraints in any
    order / multiplicity permutes the optimum -/
theorem vpsc_permutation_invariant (P : VProblem) (hw : P.WF) (σ τ : Nat → Nat) (hp : IsPerm P.n σ τ)
    (cons' : List VCon) (hc : ∀ c, c ∈ cons' ↔ ∃ c0 ∈ P.cons, c = c0.rename σ) (x : Nat → Rat) :
    P.IsOptimum x → (P.permute τ cons').IsOptimum (fun j => x (τ j)) :=
  FrameVpsc.vpsc_permutation_invariant P hw σ τ hp cons' hc x

example : IsPerm exP.n (fun i => 1 - i) (fun i => 1 - i) := by
  refine ⟨fun i hi => ?_, fun j hj => ?_⟩ <;> simp only [exP] at * <;> omega

/-- so ANY optimum of the permuted problem is the permuted optimum of the original one -/
theorem vpsc_permuted_optimum_eq (P : VProblem) (hw : P.WF) (σ τ : Nat → Nat) (hp : IsPerm P.n σ τ)
    (cons' : List VCon) (hc : ∀ c, c ∈ cons' ↔ ∃ c0 ∈ P.cons, c = c0.rename σ) (x x' : Nat → Rat)
    (hx : P.IsOptimum x) (hx' : (P.permute τ cons').IsOptimum x') : ∀ j, j < P.n → x' j = x (τ j) :=
  FrameVpsc.vpsc_permuted_optimum_eq P hw σ τ hp cons' hc x x' hx hx'

-- non-vacuity of vpsc_permutation_invariant and vpsc_permuted_optimum_eq (all hypotheses jointly): the example problem with
-- its two variables exchanged and the renamed constraint list; the permuted problem has an optimum, every optimum is (1, −1)
example :
    (∀ c, c ∈ exP.cons.map (VCon.rename (fun i => 1 - i)) ↔ ∃ c0 ∈ exP.cons, c = c0.rename (fun i => 1 - i)) ∧
    (∃ x', (exP.permute (fun i => 1 - i) (exP.cons.map (VCon.rename (fun i => 1 - i)))).IsOptimum x') ∧
    ∀ x', (exP.permute (fun i => 1 - i) (exP.cons.map (VCon.rename (fun i => 1 - i)))).IsOptimum x' →
      x' 0 = 1 ∧ x' 1 = -1 := by
  have hp : IsPerm exP.n (fun i => 1 - i) (fun i => 1 - i) := by
    refine ⟨fun i hi => ?_, fun j hj => ?_⟩ <;> simp only [exP] at * <;> omega
  have hc : ∀ c, c ∈ exP.cons.map (VCon.rename (fun i => 1 - i)) ↔
      ∃ c0 ∈ exP.cons, c = c0.rename (fun i => 1 - i) := by
    intro c; simp only [List.mem_map]
    exact ⟨fun ⟨a, h1, h2⟩ => ⟨a, h1, h2.symm⟩, fun ⟨a, h1, h2⟩ => ⟨a, h1, h2.symm⟩⟩
  refine ⟨hc, ⟨_, vpsc_permutation_invariant exP FrameExample.exP_wf _ _ hp _ hc exX FrameExample.exX_optimum⟩,
    fun x' hx' => ?_⟩
  have h := vpsc_permuted_optimum_eq exP FrameExample.exP_wf _ _ hp _ hc exX x' FrameExample.exX_optimum hx'
  exact ⟨by rw [h 0 (by decide)]; norm_num [exX], by rw [h 1 (by decide)]; norm_num [exX]⟩

/-! ## (4) where heap addresses can leak into removeoverlaps -/

/-- `CmpNodePos` modelled as `keyLt pos rank` (rank = heap address).  If the centre positions of all
    nodes that ever enter the scan line are pairwise distinct, then for ANY two address assignments
    `r1`, `r2` the sweep sees the same thing: same scan-line contents after every Open/Close and same
    left/right neighbour lists of the node just handled — which is all that generateXConstraints /
    generateYConstraints read from the set. -/
theorem tie_free_deterministic (pos : Nat → Rat) (r1 r2 : Nat → Nat) (ids : List Nat)
    (h : FrameScan.TieFree pos ids) (ops : List ScanOp) (hops : ∀ op ∈ ops, op.2 ∈ ids) :
    scanTrace (keyLt pos r1) [] ops = scanTrace (keyLt pos r2) [] ops :=
  FrameScan.scanTrace_congr _ _ ids (FrameScan.keyLt_tie_free pos r1 r2 ids h) ops []
    (fun _ hu => absurd hu List.not_mem_nil) hops

example : FrameScan.TieFree (fun i => (i : Rat)) [0, 1, 2] := by
  intro u hu v hv huv h
  have h' : (u : Rat) = (v : Rat) := h
  exact huv (by exact_mod_cast h')

-- non-vacuity of tie_free_deterministic (both hypotheses jointly; the theorem instantiated on a 4-operation sweep with two
-- different address assignments)
example : scanTrace (keyLt (fun i => (i : Rat)) (fun i => i)) [] [(true, 2), (true, 0), (true, 1), (false, 0)] =
    scanTrace (keyLt (fun i => (i : Rat)) (fun i => 7 - i)) [] [(true, 2), (true, 0), (true, 1), (false, 0)] :=
  tie_free_deterministic _ _ _ [0, 1, 2]
    (by intro u hu v hv huv h; have h' : (u : Rat) = (v : Rat) := h; exact huv (by exact_mod_cast h'))
    _ (by decide)

/-- the same for the comparator of the C09 scan-line model (`Model.Scanline.keyLt ax rank`, the `lt`
    handed to `scanPtr`/`scanNL`): with pairwise distinct centres in the constraint dimension it does
    not depend on the address ranks -/
theorem c09_comparator_tie_free (ax : AdaptaVerif.Model.Scanline.Axis) (r1 r2 : Nat → Nat) (ids : List Nat)
    (h : FrameScan.TieFree ax.ctr ids) :
    ∀ u ∈ ids, ∀ v ∈ ids, AdaptaVerif.Model.Scanline.keyLt ax r1 u v = AdaptaVerif.Model.Scanline.keyLt ax r2 u v := by
  intro u hu v hv
  rw [FrameScanC09.scanline_keyLt_eq, FrameScanC09.scanline_keyLt_eq]
  exact FrameScan.keyLt_tie_free ax.ctr r1 r2 ids h u hu v hv

-- non-vacuity of c09_comparator_tie_free: an axis with pairwise distinct centres
example : FrameScan.TieFree (⟨fun _ => 0, fun _ => 0, fun i => (i : Rat), fun _ => 0, fun _ _ => 0, fun _ _ => 0⟩ :
    AdaptaVerif.Model.Scanline.Axis).ctr [0, 1, 2] := by
  intro u hu v hv huv h
  have h' : (u : Rat) = (v : Rat) := h
  exact huv (by exact_mod_cast h')

/-- …and the hypothesis is needed: with two coincident centres the scan-line order IS the address order -/
theorem coincident_centres_depend_on_addresses :
    scanTrace (keyLt (fun _ => 0) (fun i => i)) [] [(true, 0), (true, 1)] ≠
    scanTrace (keyLt (fun _ => 0) (fun i => 1 - i)) [] [(true, 0), (true, 1)] := by
  simp [scanTrace, scanStep, insertSorted, keyLt, before, after]

end AdaptaVerif.Props.C20
