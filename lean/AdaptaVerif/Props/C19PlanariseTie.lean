/-
C19 — tie by regeneration for the comparator of the planariser sweep: `dialect::CompareActiveEvents`
(cola/libdialect/planarise.cpp) is translated from the C++ on every run by tools/cpp2lean (job `planarise_cmp`,
Gen/PlanariseCmp.lean, including the values of the `EventType` enumerators read from planarise.h and the function's
local tolerance) and proved equal to `Model.Planarise.compareActive`, the comparator all theorems of
Props/C19Planarise.lean are about.  A change of the tolerance, of its sign, of the comparison on the types or of the
order of the enumerators breaks this file.
-/
import AdaptaVerif.Gen.PlanariseCmp
import AdaptaVerif.Model.Planarise
namespace AdaptaVerif.Props.C19PlanariseTie
open AdaptaVerif.Model.Planarise

/-- the enumerators CLOSE, SUSTAIN, OPEN have the values the model's `EvType.rank` assumes -/
theorem gen_eventType_values :
    AdaptaVerif.Gen.PlanariseCmp.k_CLOSE = EvType.close.rank ∧
    AdaptaVerif.Gen.PlanariseCmp.k_SUSTAIN = EvType.sustain.rank ∧
    AdaptaVerif.Gen.PlanariseCmp.k_OPEN = EvType.opn.rank := by
  decide

/-- the regenerated `CompareActiveEvents` is the model's comparator (for events whose `type` field holds the value of
the enumerator of their model type) -/
theorem gen_compareActiveEvents_is_model (a b : EvKey) (ta tb : EvType) (ha : a.ty = ta.rank) (hb : b.ty = tb.rank) :
    AdaptaVerif.Gen.PlanariseCmp.compareActiveEvents a b = compareActive a.y ta b.y tb := by
  unfold AdaptaVerif.Gen.PlanariseCmp.compareActiveEvents compareActive tolY
  simp only [ha, hb]
  by_cases h1 : b.y - a.y > 1 <;> by_cases h2 : a.y - b.y > 1 <;> simp [h1, h2]

/-- no assertion is reached in the function -/
theorem gen_compareActiveEvents_pre (a b : EvKey) :
    AdaptaVerif.Gen.PlanariseCmp.compareActiveEvents_pre a b = true := by
  unfold AdaptaVerif.Gen.PlanariseCmp.compareActiveEvents_pre
  simp only
  split <;> (try rfl) <;> split <;> rfl

end AdaptaVerif.Props.C19PlanariseTie
