/-
Property C01 — VPSC: every constraint is satisfied on return or is reported unsatisfiable.

Theorems only (helper lemmas live in `Lemmas/Vpsc.lean`, `Lemmas/VpscModel.lean`).
All statements are over unbounded numbers of variables / constraints / arbitrary rational data.

Non-vacuity: hypotheses that are plain `Prop`s get an `example` with a concrete instance.
Hypotheses of the form "the executable checker / model returned X" cannot be evaluated by the kernel
(`Rat` arithmetic does not reduce under `decide`), so they are witnessed by `#guard` lines (evaluated
at every build; the build fails if the instance does not meet the hypothesis) and, at run time, by the
driver's `sys.feasible` / `sys.infeasible` / `model.*` counters in the evidence file.
-/
import AdaptaVerif.Lemmas.Vpsc
import AdaptaVerif.Lemmas.VpscModel
import AdaptaVerif.Lemmas.VpscFeasible
import AdaptaVerif.Lemmas.VpscFlag
import AdaptaVerif.Lemmas.VpscHistory
namespace AdaptaVerif.Props.C01
open AdaptaVerif.Check.Vpsc AdaptaVerif.Spec.Vpsc AdaptaVerif.Model.Vpsc
open AdaptaVerif.Lemmas.Vpsc AdaptaVerif.Lemmas.VpscModel

/-! ## (1) feasibility: certificates, `Check.feasible` -/

/-- **cycle_sum**: a closed walk of positive total gap in the constraint graph (equalities count in
    both directions) makes the system infeasible — for every choice of non-zero scales. -/
theorem cycle_sum (scale : Nat → Rat) (hs : ∀ i, scale i ≠ 0) (cs : List C) (h : PosCycle cs) :
    ¬ Feasible scale cs := by
  obtain ⟨cyc, hsub, hc, hpos⟩ := h
  rw [feasible_iff_edges scale hs]
  exact pos_cycle_infeasible_edges _ cyc hsub hc hpos

example : PosCycle [⟨0, 1, 1, false⟩, ⟨1, 0, 1, false⟩] :=
  ⟨[⟨0, 1, 1⟩, ⟨1, 0, 1⟩], by simp [edgesOf], ⟨_, _, rfl, by simp [walkEnd]⟩, by simp [sumW]⟩

/-- ε-version used for the tolerance of the solver: if every constraint edge of a closed walk holds
    up to `ε` at some scaled placement `u`, its total gap is at most `ε · length`. -/
theorem cycle_sum_eps (u : Nat → Rat) (ε : Rat) (cyc : List Edge) (hc : ClosedWalk cyc)
    (hall : ∀ e ∈ cyc, u e.a + e.w - ε ≤ u e.b) : sumW cyc ≤ ε * (cyc.length : Rat) :=
  closed_walk_sum u ε cyc hc hall

/-- potentials that pass `holdsAll` are a feasible placement (after un-scaling) -/
theorem potentials_feasible (scale : Nat → Rat) (hs : ∀ i, scale i ≠ 0) (cs : List C) (u : Array Rat)
    (h : holdsAll (arrFn u) (edgesOf cs) = true) : Feasible scale cs := by
  rw [feasible_iff_edges scale hs]
  exact ⟨arrFn u, (holdsAll_iff _ _).1 h⟩

example : holdsAll (arrFn #[0, 1]) (edgesOf [⟨0, 1, 1, false⟩]) = true := by
  simp [holdsAll, arrFn, edgesOf]

/-- **`Check.feasible` is sound when it answers "feasible"** (all n, all constraint lists, with
    equalities and arbitrary non-zero scales). -/
theorem feasible_sound (scale : Nat → Rat) (hs : ∀ i, scale i ≠ 0) (n : Nat) (cs : List C)
    (u : Array Rat) (h : feasible n cs = .feasible u) : Feasible scale cs := by
  unfold feasible at h
  simp only at h
  split at h
  · rename_i hh
    simp only [Verdict.feasible.injEq] at h
    subst h
    exact potentials_feasible scale hs cs _ hh
  · split at h
    · split at h <;> simp at h
    · simp at h

#guard (match feasible 3 [⟨0, 1, 1, false⟩, ⟨1, 2, 1, true⟩, ⟨2, 0, -3, false⟩] with
        | .feasible _ => true | _ => false)

/-- **`Check.feasible` is sound when it answers "infeasible"**: the system has a positive-gap cycle
    and no placement satisfies it. -/
theorem infeasible_sound (scale : Nat → Rat) (hs : ∀ i, scale i ≠ 0) (n : Nat) (cs : List C)
    (cyc : List Edge) (h : feasible n cs = .infeasible cyc) :
    PosCycle cs ∧ ¬ Feasible scale cs := by
  unfold feasible at h
  simp only at h
  split at h
  · simp at h
  · split at h
    · split at h
      · rename_i hc
        simp only [Verdict.infeasible.injEq] at h
        subst h
        have := isPosCycle_spec _ _ hc
        have hp : PosCycle cs := ⟨_, this.1, this.2.1, this.2.2⟩
        exact ⟨hp, cycle_sum scale hs cs hp⟩
      · simp at h
    · simp at h

#guard (match feasible 3 [⟨0, 1, 1, false⟩, ⟨1, 2, 1, false⟩, ⟨2, 0, -1, false⟩] with
        | .infeasible _ => true | _ => false)

/-- **The parenthetical of the property, in full**: a system of separation constraints (equalities
    and non-zero scales included, any number of variables and constraints) is feasible iff its
    constraint graph has no closed walk of positive total gap.  (`→` is `cycle_sum`; `←` is proved by
    eliminating one variable at a time, `Lemmas/VpscFeasible.lean`.) -/
theorem feasible_iff_no_pos_cycle (scale : Nat → Rat) (hs : ∀ i, scale i ≠ 0) (cs : List C) :
    Feasible scale cs ↔ ¬ PosCycle cs := by
  constructor
  · exact fun h hp => cycle_sum scale hs cs hp h
  · intro hnp
    rw [feasible_iff_edges scale hs]
    apply AdaptaVerif.Lemmas.VpscFeasible.exists_potential
    intro cyc hmem hc
    by_contra hlt
    exact hnp ⟨cyc, hmem, hc, lt_of_not_ge hlt⟩

example : Feasible (fun _ => 1) [⟨0, 1, 1, false⟩] :=
  ⟨fun i => i, by simp [Holds]⟩

/-- **`Check.feasible` decides feasibility whenever it produces a certificate**: unless it answers
    `unknown`, it answers `infeasible` exactly when no placement exists, exactly when there is a
    positive-gap cycle.  (That it never answers `unknown` — termination of the certificate *search*
    within n+1 Bellman–Ford rounds — is not proved; the driver reports an `unknown` as a broken tie;
    none occurred in any run.) -/
theorem feasible_decides (scale : Nat → Rat) (hs : ∀ i, scale i ≠ 0) (n : Nat) (cs : List C)
    (hk : feasible n cs ≠ .unknown) :
    ((∃ cyc, feasible n cs = .infeasible cyc) ↔ ¬ Feasible scale cs) ∧
    (¬ Feasible scale cs ↔ PosCycle cs) := by
  refine ⟨⟨?_, ?_⟩, ?_⟩
  · rintro ⟨cyc, h⟩
    exact (infeasible_sound scale hs n cs cyc h).2
  · intro hnf
    cases hv : feasible n cs with
    | feasible u => exact absurd (feasible_sound scale hs n cs u hv) hnf
    | infeasible cyc => exact ⟨cyc, rfl⟩
    | unknown => exact absurd hv hk
  · rw [feasible_iff_no_pos_cycle scale hs cs, not_not]

#guard (match feasible 4 [⟨0, 1, 1, false⟩, ⟨1, 2, 1, true⟩, ⟨2, 3, 0, false⟩, ⟨3, 1, -1, false⟩] with
        | .unknown => false | _ => true)

/-! ## (V) the post-condition checker run on the implementation's output -/

/-- **`checkPost` decides exactly** "every constraint not flagged unsatisfiable holds within `tol`
    (inequalities: `slack ≥ −tol`; equalities: `|slack| ≤ tol`) at the given positions". -/
theorem checkPost_sound (tol : Rat) (scale pos : Nat → Rat) (cs : List (C × Bool)) :
    checkPost tol scale pos cs = true ↔
      ∀ p ∈ cs, p.2 = false → HoldsWithin tol scale pos p.1 :=
  checkPost_iff tol scale pos cs

/-! ## (2) the model: post-condition of `satisfy` / `solve` -/

/-- **satisfy_post**: if the model's `IncSolver::satisfy` returns normally, every constraint that is
    not flagged unsatisfiable has `scale_r·pos_r − gap − scale_l·pos_l ≥ ZERO_UPPERBOUND` at the
    reported positions (this is the exit scan of the code; all states, all histories — `st` is
    arbitrary). -/
theorem satisfy_post (st st' : St) (pos : Array Rat) (ret : Bool)
    (h : st.satisfy = (st', .ok pos ret)) :
    pos = st'.positions ∧
    ∀ c ∈ st'.cons, c.unsat = false → ZERO_UPPERBOUND ≤ slackAt st'.vars pos c := by
  have := satisfy_ok st st' pos ret h
  exact ⟨this.1, (scanOk_iff _ _ _).1 this.2⟩

/-- the same for `IncSolver::solve` (satisfy; then satisfy until the cost changes by ≤ 1e-4) -/
theorem solve_post (st st' : St) (pos : Array Rat) (ret : Bool)
    (h : st.solve = (st', .ok pos ret)) :
    pos = st'.positions ∧
    ∀ c ∈ st'.cons, c.unsat = false → ZERO_UPPERBOUND ≤ slackAt st'.vars pos c := by
  have := solve_ok st st' pos ret h
  exact ⟨this.1, (scanOk_iff _ _ _).1 this.2⟩

def exampleSt : St :=
  St.init #[(2, 1, 1), (1, 1, 1), (0, 2, 1)] #[mkCon 0 1 1 false, mkCon 1 2 1 false, mkCon 2 0 1 false]

#guard (match exampleSt.satisfy with | (_, .ok _ _) => true | _ => false)
#guard (match exampleSt.solve with | (_, .ok _ _) => true | _ => false)

/-! ## (3) flag completeness -/

/-- **flag_complete**: if the constraints known to the solver contain a closed walk whose total gap
    exceeds `length · |ZERO_UPPERBOUND|` and `satisfy` returns normally, then some constraint on that
    walk is flagged unsatisfiable (the solver cannot silently return on an infeasible cycle). -/
theorem flag_complete (st st' : St) (pos : Array Rat) (ret : Bool)
    (h : st.satisfy = (st', .ok pos ret))
    (cyc : List Con) (hmem : ∀ c ∈ cyc, c ∈ st'.cons) (hc : ClosedWalk (cyc.map conEdge))
    (hgap : (cyc.length : Rat) * (-ZERO_UPPERBOUND) < sumW (cyc.map conEdge)) :
    ∃ c ∈ cyc, c.unsat = true :=
  scan_flags_cycle st'.vars st'.cons pos (satisfy_ok st st' pos ret h).2 cyc hmem hc hgap

theorem flag_complete_solve (st st' : St) (pos : Array Rat) (ret : Bool)
    (h : st.solve = (st', .ok pos ret))
    (cyc : List Con) (hmem : ∀ c ∈ cyc, c ∈ st'.cons) (hc : ClosedWalk (cyc.map conEdge))
    (hgap : (cyc.length : Rat) * (-ZERO_UPPERBOUND) < sumW (cyc.map conEdge)) :
    ∃ c ∈ cyc, c.unsat = true :=
  scan_flags_cycle st'.vars st'.cons pos (solve_ok st st' pos ret h).2 cyc hmem hc hgap

-- the 3-cycle of `exampleSt` has total gap 3 > 3e-10 and the model does return (and flags one edge)
#guard (match exampleSt.satisfy with
        | (st', .ok _ _) => st'.cons.any (·.unsat) && st'.cons.size == 3 | _ => false)

/-! ## flag soundness (inequality-only "flagged ⇒ infeasible") — the step, invariant assumed

Full statement (DESIGN.md `flag_sound`): for every inequality-only history, a constraint is flagged only
if the system known to the solver is infeasible.  Proved here: the flagging *step* is sound in every
state that satisfies the block invariant (active constraints tight, `out` lists linked) — the
invariant itself is proved preserved only by `merge` (section 4 below), evaluated on every model state by the
driver (`St.invOk`), and the real code's flags are validated per run by the certified checker
(`feasible_sound`: SPECFAIL "flagged but feasible").  The other flagging branch
(`UnsatisfiableException`: no split point) cannot fire without equalities on the path.
-/

open AdaptaVerif.Lemmas.VpscFlag in
/-- directed-path branch of `IncSolver::satisfy`: if `isActiveDirectedPathBetween(v.right, v.left)`
    holds in a state with tight active constraints and `v` is violated, the constraint set has a
    positive-gap cycle and is infeasible for any non-zero scales. -/
theorem flag_sound_path_partial (scale : Nat → Rat) (hs : ∀ i, scale i ≠ 0)
    (st : St) (bid fuel vi : Nat)
    (hlink : OutsLinked st) (htight : TightActive st) (hmem : st.cons[vi]! ∈ st.cons)
    (hpath : (isActiveDirectedPathBetween st bid fuel (st.cons[vi]!).r (st.cons[vi]!).l).1 = true)
    (hviol : st.uval (st.cons[vi]!).r - (st.cons[vi]!).gap - st.uval (st.cons[vi]!).l < 0) :
    PosCycle (st.cons.toList.map toC) ∧ ¬ Feasible scale (st.cons.toList.map toC) := by
  have hp := flag_path_sound st bid fuel vi hlink htight hmem hpath hviol
  exact ⟨hp, cycle_sum scale hs _ hp⟩

-- executable instance of the hypotheses: merge constraints 0 and 1 of `exampleSt`, then constraint 2
-- (v2 + 1 ≤ v0) is violated, lies in one block, and a directed active path runs from v0 to v2
#guard (let st := ((exampleSt.mergeAcross 0).1.mergeAcross 1).1
        let b := (st.vars[0]!).block
        (isActiveDirectedPathBetween st b 4 0 2).1 &&
        decide (st.uval 0 - 1 - st.uval 2 < 0) &&
        st.cons.all (fun c => !c.active || decide (st.uval c.l + c.gap = st.uval c.r)))

/-! ## (4) block invariant — pieces proved so far

Full statement (DESIGN.md `block_inv`), kept for reference:
    in every state reachable by IncSolver operations, for every block the active constraints between
    its variables form a spanning tree and are tight (`offset_r − gap − offset_l = 0`), equalities are
    never split, and hence on return every unflagged equality holds exactly.
Proved: the `merge` step (`Block::merge`) for arbitrary states — it makes the merged constraint tight,
joins the two blocks, and preserves every intra-block offset difference (so constraints that were
tight stay tight); plus the two facts that make "tight" meaningful: the slack of an intra-block
constraint depends on offsets only, and `scale·position` is the block coordinate plus the offset.
Also proved: `split` leaves all offsets unchanged (`block_inv_split_offsets_partial`) and the invariants
hold initially and under addConstraint / desired-position changes (`history_inv_partial`).
Missing: that `split` separates the block exactly along the removed tree edge (the spanning-tree
part), and hence the induction over all solver steps.  The driver compares active sets with the real code instead,
and `checkPost` checks unflagged equalities two-sidedly on every real output.
-/

/-- merge step of `block_inv`: the constraint merged across becomes tight and both ends share a block -/
theorem block_inv_merge_tight_partial (st : St) (ci : Nat)
    (hl : (st.cons[ci]!).l < st.vars.size) (hr : (st.cons[ci]!).r < st.vars.size)
    (hne : (st.vars[(st.cons[ci]!).l]!).block ≠ (st.vars[(st.cons[ci]!).r]!).block) :
    let c := st.cons[ci]!
    let st' := (st.mergeAcross ci).1
    (st'.vars[c.r]!).offset - c.gap - (st'.vars[c.l]!).offset = 0 ∧
    (st'.vars[c.l]!).block = (st'.vars[c.r]!).block :=
  mergeAcross_tight st ci hl hr hne

/-- merge step of `block_inv`: blocks move rigidly — variables that shared a block still do, with the
    same offset difference (tight constraints stay tight), and constraint data is untouched -/
theorem block_inv_merge_rigid_partial (st : St) (ci i j : Nat)
    (hi : i < st.vars.size) (hj : j < st.vars.size)
    (hsame : (st.vars[i]!).block = (st.vars[j]!).block) :
    let st' := (st.mergeAcross ci).1
    ((st'.vars[j]!).offset - (st'.vars[i]!).offset = (st.vars[j]!).offset - (st.vars[i]!).offset ∧
     (st'.vars[i]!).block = (st'.vars[j]!).block) ∧
    st'.cons = st.cons.set! ci { st.cons[ci]! with active := true } :=
  ⟨mergeAcross_preserves st ci i j hi hj hsame, mergeAcross_cons st ci⟩

/-- **merge preserves the offset part of `block_inv`** (every active constraint joins two variables of
    one block and is tight in offsets), for every state and every constraint merged across. -/
theorem block_inv_merge_preserved_partial (st : St) (ci : Nat) (hinv : OffsetInv st)
    (hl : (st.cons[ci]!).l < st.vars.size) (hr : (st.cons[ci]!).r < st.vars.size)
    (hne : (st.vars[(st.cons[ci]!).l]!).block ≠ (st.vars[(st.cons[ci]!).r]!).block) :
    OffsetInv (st.mergeAcross ci).1 :=
  mergeAcross_offsetInv st ci hinv hl hr hne

-- the hypotheses are met e.g. by the initial state of `exampleSt` (no active constraint yet) and
-- its first merge; executable form of the conclusion:
#guard (let st := (exampleSt.mergeAcross 0).1
        st.cons.all fun c => !c.active ||
          ((st.vars[c.l]!).block == (st.vars[c.r]!).block &&
           decide ((st.vars[c.r]!).offset - c.gap - (st.vars[c.l]!).offset = 0)))

open AdaptaVerif.Lemmas.VpscHistory in
/-- split step of `block_inv` (offset part only): `Block::split` / `splitBetween` / `splitBlocks`
    never change an offset and only clear `active` on the split constraint, so every constraint keeps
    its offset-slack `offset_r − gap − offset_l` — tight constraints stay tight.  (Missing for the full
    invariant: that the two new blocks separate exactly along the removed tree edge, i.e. every other
    active constraint still has both ends in one block; this needs the spanning-tree part.) -/
theorem block_inv_split_offsets_partial (st : St) (old ci : Nat) :
    ((st.split old ci).1.vars.size = st.vars.size ∧
      ∀ i : Nat, ((st.split old ci).1.vars[i]!).offset = (st.vars[i]!).offset) ∧
    (st.split old ci).1.cons = st.cons.set! ci { st.cons[ci]! with active := false } :=
  split_offsets st old ci

/-! ## history lemma (partial: every operation except `split`)

Full statement (DESIGN.md "history lemma"): `addConstraint`, changing desired positions and every
solver step preserve `block_inv`, so the theorems hold after any re-solve.  Proved: the offset
invariant `OffsetInv` (active ⇒ same block ∧ tight in offsets) and the linking invariant `Linked`
hold in the state built by the constructor and are preserved by `addConstraint`, by changing a desired
position and by `merge`.  Missing: preservation by `split` (needs the spanning-tree part).
Note that `satisfy_post`, `solve_post` and `flag_complete` above need no invariant at all: they hold
for arbitrary states, hence after arbitrary histories. -/

open AdaptaVerif.Lemmas.VpscHistory AdaptaVerif.Lemmas.VpscFlag in
theorem history_inv_partial :
    (∀ vs cs, OffsetInv (St.init vs cs) ∧ Linked (St.init vs cs)) ∧
    (∀ st c, OffsetInv st ∧ Linked st → OffsetInv (st.addConstraint c) ∧ Linked (st.addConstraint c)) ∧
    (∀ st i d, OffsetInv st ∧ Linked st → OffsetInv (st.setDesired i d) ∧ Linked (st.setDesired i d)) ∧
    (∀ st ci, OffsetInv st ∧ Linked st →
        (st.cons[ci]!).l < st.vars.size → (st.cons[ci]!).r < st.vars.size →
        (st.vars[(st.cons[ci]!).l]!).block ≠ (st.vars[(st.cons[ci]!).r]!).block →
        OffsetInv (st.mergeAcross ci).1 ∧ Linked (st.mergeAcross ci).1) :=
  ⟨fun vs cs => ⟨init_offsetInv vs cs, init_linked vs cs⟩,
   fun st c h => ⟨addConstraint_offsetInv st c h.1, addConstraint_linked st c h.2⟩,
   fun st i d h => ⟨setDesired_offsetInv st i d h.1, setDesired_linked st i d h.2⟩,
   fun st ci h hl hr hne => ⟨mergeAcross_offsetInv st ci h.1 hl hr hne, mergeAcross_linked st ci h.2⟩⟩

open AdaptaVerif.Lemmas.VpscHistory AdaptaVerif.Lemmas.VpscFlag in
/-- `flag_sound_path_partial` with the invariants `OffsetInv ∧ Linked` (which `history_inv_partial`
    establishes for all split-free histories) in place of its raw hypotheses -/
theorem flag_sound_path_inv_partial (scale : Nat → Rat) (hs : ∀ i, scale i ≠ 0)
    (st : St) (bid fuel vi : Nat) (hinv : OffsetInv st ∧ Linked st) (hmem : st.cons[vi]! ∈ st.cons)
    (hpath : (isActiveDirectedPathBetween st bid fuel (st.cons[vi]!).r (st.cons[vi]!).l).1 = true)
    (hviol : st.uval (st.cons[vi]!).r - (st.cons[vi]!).gap - st.uval (st.cons[vi]!).l < 0) :
    PosCycle (st.cons.toList.map toC) ∧ ¬ Feasible scale (st.cons.toList.map toC) :=
  flag_sound_path_partial scale hs st bid fuel vi hinv.2.outsLinked (offsetInv_tight hinv.1) hmem hpath hviol

/-- positions inside a block are determined by offsets: the slack of a constraint whose ends share a
    block is `offset_r − gap − offset_l`, whatever the block position -/
theorem block_slack_offsets (st : St) (c : Con)
    (hb : (st.vars[c.l]!).block = (st.vars[c.r]!).block) :
    st.uval c.r - c.gap - st.uval c.l = (st.vars[c.r]!).offset - c.gap - (st.vars[c.l]!).offset :=
  slack_same_block st c hb

/-- `scale_i · position_i = ps.scale·posn + offset_i` (scale ≠ 0): ties `Constraint::slack()` as the
    solver evaluates it to the exit scan on reported positions -/
theorem scaled_position (st : St) (i : Nat) (hs : (st.vars[i]!).scale ≠ 0) :
    (st.vars[i]!).scale * st.pos i = st.uval i :=
  scale_mul_pos st i hs

end AdaptaVerif.Props.C01
