/-
Property C01 — VPSC: every constraint is satisfied on return or is reported unsatisfiable.

Theorems only (helper lemmas live in `Lemmas/Vpsc.lean`, `Lemmas/VpscModel.lean`).
All statements are over unbounded numbers of variables / constraints / arbitrary rational data.

Non-vacuity: hypotheses that are plain `Prop`s get an `example` with a concrete instance.
Hypotheses of the form "the executable checker / model returned X" cannot be evaluated by the kernel
(`Rat` arithmetic does not reduce under `decide`), so they are witnessed by `#guard` lines (evaluated
at every build; the build fails if the instance does not meet the hypothesis) and, at run time, by the
driver's `sys.feasible` / `sys.infeasible` / `model.*` counters in the evidence file.
-/
import AdaptaVerif.Lemmas.Vpsc
import AdaptaVerif.Lemmas.VpscModel
import AdaptaVerif.Lemmas.VpscFeasible
import AdaptaVerif.Lemmas.VpscFlag
import AdaptaVerif.Lemmas.VpscHistory
import AdaptaVerif.Lemmas.VpscFinal
namespace AdaptaVerif.Props.C01
open AdaptaVerif.Check.Vpsc AdaptaVerif.Spec.Vpsc AdaptaVerif.Model.Vpsc
open AdaptaVerif.Lemmas.Vpsc AdaptaVerif.Lemmas.VpscModel

/-! ## (1) feasibility: certificates, `Check.feasible` -/

/-- **cycle_sum**: a closed walk of positive total gap in the constraint graph (equalities count in
    both directions) makes the system infeasible — for every choice of non-zero scales. -/
theorem cycle_sum (scale : Nat → Rat) (hs : ∀ i, scale i ≠ 0) (cs : List C) (h : PosCycle cs) :
    ¬ Feasible scale cs := by
  obtain ⟨cyc, hsub, hc, hpos⟩ := h
  rw [feasible_iff_edges scale hs]
  exact pos_cycle_infeasible_edges _ cyc hsub hc hpos

example : PosCycle [⟨0, 1, 1, false⟩, ⟨1, 0, 1, false⟩] :=
  ⟨[⟨0, 1, 1⟩, ⟨1, 0, 1⟩], by simp [edgesOf], ⟨_, _, rfl, by simp [walkEnd]⟩, by simp [sumW]⟩

/-- ε-version used for the tolerance of the solver: if every constraint edge of a closed walk holds
    up to `ε` at some scaled placement `u`, its total gap is at most `ε · length`. -/
theorem cycle_sum_eps (u : Nat → Rat) (ε : Rat) (cyc : List Edge) (hc : ClosedWalk cyc)
    (hall : ∀ e ∈ cyc, u e.a + e.w - ε ≤ u e.b) : sumW cyc ≤ ε * (cyc.length : Rat) :=
  closed_walk_sum u ε cyc hc hall

/-- potentials that pass `holdsAll` are a feasible placement (after un-scaling) -/
theorem potentials_feasible (scale : Nat → Rat) (hs : ∀ i, scale i ≠ 0) (cs : List C) (u : Array Rat)
    (h : holdsAll (arrFn u) (edgesOf cs) = true) : Feasible scale cs := by
  rw [feasible_iff_edges scale hs]
  exact ⟨arrFn u, (holdsAll_iff _ _).1 h⟩

example : holdsAll (arrFn #[0, 1]) (edgesOf [⟨0, 1, 1, false⟩]) = true := by
  simp [holdsAll, arrFn, edgesOf]

/-- **`Check.feasible` is sound when it answers "feasible"** (all n, all constraint lists, with
    equalities and arbitrary non-zero scales). -/
theorem feasible_sound (scale : Nat → Rat) (hs : ∀ i, scale i ≠ 0) (n : Nat) (cs : List C)
    (u : Array Rat) (h : feasible n cs = .feasible u) : Feasible scale cs := by
  unfold feasible at h
  simp only at h
  split at h
  · rename_i hh
    simp only [Verdict.feasible.injEq] at h
    subst h
    exact potentials_feasible scale hs cs _ hh
  · split at h
    · split at h <;> simp at h
    · simp at h

#guard (match feasible 3 [⟨0, 1, 1, false⟩, ⟨1, 2, 1, true⟩, ⟨2, 0, -3, false⟩] with
        | .feasible _ => true | _ => false)

/-- **`Check.feasible` is sound when it answers "infeasible"**: the system has a positive-gap cycle
    and no placement satisfies it. -/
theorem infeasible_sound (scale : Nat → Rat) (hs : ∀ i, scale i ≠ 0) (n : Nat) (cs : List C)
    (cyc : List Edge) (h : feasible n cs = .infeasible cyc) :
    PosCycle cs ∧ ¬ Feasible scale cs := by
  unfold feasible at h
  simp only at h
  split at h
  · simp at h
  · split at h
    · split at h
      · rename_i hc
        simp only [Verdict.infeasible.injEq] at h
        subst h
        have := isPosCycle_spec _ _ hc
        have hp : PosCycle cs := ⟨_, this.1, this.2.1, this.2.2⟩
        exact ⟨hp, cycle_sum scale hs cs hp⟩
      · simp at h
    · simp at h

#guard (match feasible 3 [⟨0, 1, 1, false⟩, ⟨1, 2, 1, false⟩, ⟨2, 0, -1, false⟩] with
        | .infeasible _ => true | _ => false)

/-- **The parenthetical of the property, in full**: a system of separation constraints (equalities
    and non-zero scales included, any number of variables and constraints) is feasible iff its
    constraint graph has no closed walk of positive total gap.  (`→` is `cycle_sum`; `←` is proved by
    eliminating one variable at a time, `Lemmas/VpscFeasible.lean`.) -/
theorem feasible_iff_no_pos_cycle (scale : Nat → Rat) (hs : ∀ i, scale i ≠ 0) (cs : List C) :
    Feasible scale cs ↔ ¬ PosCycle cs := by
  constructor
  · exact fun h hp => cycle_sum scale hs cs hp h
  · intro hnp
    rw [feasible_iff_edges scale hs]
    apply AdaptaVerif.Lemmas.VpscFeasible.exists_potential
    intro cyc hmem hc
    by_contra hlt
    exact hnp ⟨cyc, hmem, hc, lt_of_not_ge hlt⟩

example : Feasible (fun _ => 1) [⟨0, 1, 1, false⟩] :=
  ⟨fun i => i, by simp [Holds]⟩

/-- **`Check.feasible` decides feasibility whenever it produces a certificate**: unless it answers
    `unknown`, it answers `infeasible` exactly when no placement exists, exactly when there is a
    positive-gap cycle.  (That it never answers `unknown` — termination of the certificate *search*
    within n+1 Bellman–Ford rounds — is not proved; the driver reports an `unknown` as a broken tie;
    none occurred in any run.) -/
theorem feasible_decides (scale : Nat → Rat) (hs : ∀ i, scale i ≠ 0) (n : Nat) (cs : List C)
    (hk : feasible n cs ≠ .unknown) :
    ((∃ cyc, feasible n cs = .infeasible cyc) ↔ ¬ Feasible scale cs) ∧
    (¬ Feasible scale cs ↔ PosCycle cs) := by
  refine ⟨⟨?_, ?_⟩, ?_⟩
  · rintro ⟨cyc, h⟩
    exact (infeasible_sound scale hs n cs cyc h).2
  · intro hnf
    cases hv : feasible n cs with
    | feasible u => exact absurd (feasible_sound scale hs n cs u hv) hnf
    | infeasible cyc => exact ⟨cyc, rfl⟩
    | unknown => exact absurd hv hk
  · rw [feasible_iff_no_pos_cycle scale hs cs, not_not]

#guard (match feasible 4 [⟨0, 1, 1, false⟩, ⟨1, 2, 1, true⟩, ⟨2, 3, 0, false⟩, ⟨3, 1, -1, false⟩] with
        | .unknown => false | _ => true)

/-! ## (V) the post-condition checker run on the implementation's output -/

/-- **`checkPost` decides exactly** "every constraint not flagged unsatisfiable holds within `tol`
    (inequalities: `slack ≥ −tol`; equalities: `|slack| ≤ tol`) at the given positions". -/
theorem checkPost_sound (tol : Rat) (scale pos : Nat → Rat) (cs : List (C × Bool)) :
    checkPost tol scale pos cs = true ↔
      ∀ p ∈ cs, p.2 = false → HoldsWithin tol scale pos p.1 :=
  checkPost_iff tol scale pos cs

/-! ## (2) the model: post-condition of `satisfy` / `solve` -/

/-- **satisfy_post**: if the model's `IncSolver::satisfy` returns normally, every constraint that is
    not flagged unsatisfiable has `scale_r·pos_r − gap − scale_l·pos_l ≥ ZERO_UPPERBOUND` at the
    reported positions (this is the exit scan of the code; all states, all histories — `st` is
    arbitrary). -/
theorem satisfy_post (st st' : St) (pos : Array Rat) (ret : Bool)
    (h : st.satisfy = (st', .ok pos ret)) :
    pos = st'.positions ∧
    ∀ c ∈ st'.cons, c.unsat = false → ZERO_UPPERBOUND ≤ slackAt st'.vars pos c := by
  have := satisfy_ok st st' pos ret h
  exact ⟨this.1, (scanOk_iff _ _ _).1 this.2⟩

/-- the same for `IncSolver::solve` (satisfy; then satisfy until the cost changes by ≤ 1e-4) -/
theorem solve_post (st st' : St) (pos : Array Rat) (ret : Bool)
    (h : st.solve = (st', .ok pos ret)) :
    pos = st'.positions ∧
    ∀ c ∈ st'.cons, c.unsat = false → ZERO_UPPERBOUND ≤ slackAt st'.vars pos c := by
  have := solve_ok st st' pos ret h
  exact ⟨this.1, (scanOk_iff _ _ _).1 this.2⟩

def exampleSt : St :=
  St.init #[(2, 1, 1), (1, 1, 1), (0, 2, 1)] #[mkCon 0 1 1 false, mkCon 1 2 1 false, mkCon 2 0 1 false]

#guard (match exampleSt.satisfy with | (_, .ok _ _) => true | _ => false)
#guard (match exampleSt.solve with | (_, .ok _ _) => true | _ => false)

/-! ## (3) flag completeness -/

/-- **flag_complete**: if the constraints known to the solver contain a closed walk whose total gap
    exceeds `length · |ZERO_UPPERBOUND|` and `satisfy` returns normally, then some constraint on that
    walk is flagged unsatisfiable (the solver cannot silently return on an infeasible cycle). -/
theorem flag_complete (st st' : St) (pos : Array Rat) (ret : Bool)
    (h : st.satisfy = (st', .ok pos ret))
    (cyc : List Con) (hmem : ∀ c ∈ cyc, c ∈ st'.cons) (hc : ClosedWalk (cyc.map conEdge))
    (hgap : (cyc.length : Rat) * (-ZERO_UPPERBOUND) < sumW (cyc.map conEdge)) :
    ∃ c ∈ cyc, c.unsat = true :=
  scan_flags_cycle st'.vars st'.cons pos (satisfy_ok st st' pos ret h).2 cyc hmem hc hgap

theorem flag_complete_solve (st st' : St) (pos : Array Rat) (ret : Bool)
    (h : st.solve = (st', .ok pos ret))
    (cyc : List Con) (hmem : ∀ c ∈ cyc, c ∈ st'.cons) (hc : ClosedWalk (cyc.map conEdge))
    (hgap : (cyc.length : Rat) * (-ZERO_UPPERBOUND) < sumW (cyc.map conEdge)) :
    ∃ c ∈ cyc, c.unsat = true :=
  scan_flags_cycle st'.vars st'.cons pos (solve_ok st st' pos ret h).2 cyc hmem hc hgap

-- the 3-cycle of `exampleSt` has total gap 3 > 3e-10 and the model does return (and flags one edge)
#guard (match exampleSt.satisfy with
        | (st', .ok _ _) => st'.cons.any (·.unsat) && st'.cons.size == 3 | _ => false)

/-! ## (4) block_inv over all histories, eq_post, flag_sound

`Hist st` : `st` is reachable through the public API — `IncSolver(vs, cs)`, `addConstraint`, changing a
desired position, `satisfy()`, `solve()`, in any order and number — from well-formed input (constraints
refer to existing variables and are not pre-flagged).

`Inv st` (`Lemmas/VpscInv.lean`, structure `InvC`) is the full block invariant:
  * `Variable::in/out` hold exactly the constraints entering/leaving the variable;
  * every active constraint joins two variables of one block and is tight (`offset_r − gap − offset_l = 0`);
  * the active constraints form a forest (each one is a bridge of the active graph) that spans every
    block (variables of one block are connected by active constraints): per block, a spanning tree;
  * every constraint is active, flagged, or on the `inactive` list;
  * inequality-only: a flagged constraint is justified by a positive-gap cycle.
The model's loops carry fuel; `fuelOut` records that some loop or traversal ran out of it (the driver
reports that as a broken tie; it never happened).  A normal return (`.ok`) implies `fuelOut = false`.
-/

open AdaptaVerif.Lemmas.VpscFinal AdaptaVerif.Lemmas.VpscInv AdaptaVerif.Lemmas.VpscSolve in
/-- **block_inv**: the block invariant holds in every reachable state (unless the model has reported
    running out of fuel) — over all histories, all n, m, data. -/
theorem block_inv (st : St) (h : Hist st) : st.fuelOut = true ∨ Inv st := hist_J h

open AdaptaVerif.Lemmas.VpscFinal AdaptaVerif.Lemmas.VpscInv AdaptaVerif.Lemmas.VpscSolve in
/-- … in particular in the state in which `satisfy` / `solve` return normally. -/
theorem block_inv_on_return (st st' : St) (pos : Array Rat) (ret : Bool) (h : Hist st)
    (hs : st.satisfy = (st', .ok pos ret) ∨ st.solve = (st', .ok pos ret)) : Inv st' := by
  rcases hs with hs | hs
  · exact (satisfy_final st st' pos ret (hist_J h) hs).inv
  · exact (solve_final st st' pos ret (hist_J h) hs).inv

open AdaptaVerif.Lemmas.VpscMerge AdaptaVerif.Lemmas.VpscSplit AdaptaVerif.Lemmas.VpscInv in
/-- the two structural steps: `merge` across a constraint joining two different blocks, and `split`
    on an active constraint (the two new blocks are exactly the two components of the active tree minus
    that edge), preserve the invariant in any state -/
theorem block_inv_merge_split (st : St) (ci : Nat) (h : Inv st) :
    (ci < st.cons.size → blk st.vars (st.cons[ci]!).l ≠ blk st.vars (st.cons[ci]!).r →
      Inv (st.mergeAcross ci).1) ∧
    ((st.cons[ci]!).active = true →
      (st.split (blk st.vars (st.cons[ci]!).l) ci).1.fuelOut = false →
      InvC (st.split (blk st.vars (st.cons[ci]!).l) ci).1.vars
        (st.split (blk st.vars (st.cons[ci]!).l) ci).1.cons
        (st.split (blk st.vars (st.cons[ci]!).l) ci).1.blocks.size (st.inactive.push ci)) :=
  ⟨fun hci hne => mergeAcross_inv st ci h hci hne,
   fun hact hfo => split_inv st ci h (AdaptaVerif.Lemmas.VpscLoop.active_lt _ _ hact) hact hfo⟩

open AdaptaVerif.Lemmas.VpscFinal AdaptaVerif.Lemmas.VpscSolve in
/-- **eq_post**: after any history, when `satisfy` or `solve` returns normally, every equality that is
    not flagged unsatisfiable is active and holds *exactly* at the reported positions
    (`scale_r·pos_r − gap − scale_l·pos_l = 0`; scales non-zero).  Together with `satisfy_post` this is
    the first sentence of the property for the model. -/
theorem eq_post (st st' : St) (pos : Array Rat) (ret : Bool) (h : Hist st)
    (hs : st.satisfy = (st', .ok pos ret) ∨ st.solve = (st', .ok pos ret))
    (hsc : ∀ i : Nat, i < st'.vars.size → (st'.vars[i]!).scale ≠ 0)
    (j : Nat) (hj : j < st'.cons.size) (heq : (st'.cons[j]!).eq = true)
    (hun : (st'.cons[j]!).unsat = false) :
    (st'.cons[j]!).active = true ∧ slackAt st'.vars pos (st'.cons[j]!) = 0 := by
  have hF : Final st' ∧ pos = st'.positions := by
    rcases hs with hs | hs
    · exact ⟨satisfy_final st st' pos ret (hist_J h) hs, (satisfy_ok st st' pos ret hs).1⟩
    · exact ⟨solve_final st st' pos ret (hist_J h) hs, (solve_ok st st' pos ret hs).1⟩
  rw [hF.2]
  exact ⟨(final_eq hF.1 j hj heq hun).1, final_eq_positions hF.1 hsc j hj heq hun⟩

open AdaptaVerif.Lemmas.VpscFinal AdaptaVerif.Lemmas.VpscSolve AdaptaVerif.Lemmas.VpscFlag in
/-- **flag_sound** (inequality-only systems): after any history, when `satisfy` or `solve` returns
    normally, a flagged constraint implies that the constraints known to the solver contain a
    positive-gap cycle, hence no placement satisfies them (for any non-zero scales). -/
theorem flag_sound (scale : Nat → Rat) (hscale : ∀ i, scale i ≠ 0)
    (st st' : St) (pos : Array Rat) (ret : Bool) (h : Hist st)
    (hs : st.satisfy = (st', .ok pos ret) ∨ st.solve = (st', .ok pos ret))
    (hineq : ∀ j : Nat, j < st'.cons.size → (st'.cons[j]!).eq = false)
    (j : Nat) (hj : j < st'.cons.size) (hun : (st'.cons[j]!).unsat = true) :
    PosCycle (st'.cons.toList.map toC) ∧ ¬ Feasible scale (st'.cons.toList.map toC) := by
  have hinv := block_inv_on_return st st' pos ret h hs
  have hp := hinv.flags hineq j hj hun
  exact ⟨hp, cycle_sum scale hscale _ hp⟩

open AdaptaVerif.Lemmas.VpscFinal AdaptaVerif.Lemmas.VpscSolve AdaptaVerif.Lemmas.VpscFlag in
/-- **"flagged iff infeasible" for the model, up to the solver's tolerance** (inequality-only, any
    history, normal return of `satisfy` or `solve`):
    (→) if some constraint is flagged, the system is infeasible;
    (←) if the system contains a cycle whose total gap exceeds `length·|ZERO_UPPERBOUND|`, some
        constraint on it is flagged. -/
theorem flagged_iff_infeasible (scale : Nat → Rat) (hscale : ∀ i, scale i ≠ 0)
    (st st' : St) (pos : Array Rat) (ret : Bool) (h : Hist st)
    (hs : st.satisfy = (st', .ok pos ret) ∨ st.solve = (st', .ok pos ret))
    (hineq : ∀ j : Nat, j < st'.cons.size → (st'.cons[j]!).eq = false) :
    ((∃ j, j < st'.cons.size ∧ (st'.cons[j]!).unsat = true) →
        ¬ Feasible scale (st'.cons.toList.map toC)) ∧
    (∀ cyc : List Con, (∀ c ∈ cyc, c ∈ st'.cons) → ClosedWalk (cyc.map conEdge) →
        (cyc.length : Rat) * (-ZERO_UPPERBOUND) < sumW (cyc.map conEdge) →
        ∃ c ∈ cyc, c.unsat = true) := by
  refine ⟨?_, ?_⟩
  · rintro ⟨j, hj, hun⟩
    exact (flag_sound scale hscale st st' pos ret h hs hineq j hj hun).2
  · intro cyc hmem hc hgap
    rcases hs with hs | hs
    · exact flag_complete st st' pos ret hs cyc hmem hc hgap
    · exact flag_complete_solve st st' pos ret hs cyc hmem hc hgap

-- non-vacuity: a reachable state, a history with an equality that returns normally
example : AdaptaVerif.Lemmas.VpscFinal.Hist exampleSt :=
  AdaptaVerif.Lemmas.VpscFinal.Hist.init _ _ (by
    intro c hc
    simp only [Array.mem_toArray, List.mem_cons, List.not_mem_nil, or_false] at hc
    rcases hc with rfl | rfl | rfl <;> simp [mkCon])

def exampleEq : St :=
  St.init #[(3, 1, 1), (0, 1, 2), (5, 1, 1)] #[mkCon 0 1 1 true, mkCon 1 2 1 false]

#guard (match exampleEq.solve with
        | (st', .ok _ _) => st'.cons.all (fun c => !c.unsat) && st'.invOk | _ => false)

open AdaptaVerif.Lemmas.VpscFinal in
/-- non-vacuity of `eq_post`: all its hypotheses hold together on a concrete history — `IncSolver(vs, cs)`
    with scales 1, 2, 1 and the equality `x0 + 1 == x1`, then `solve()`: it returns normally, every variable
    in range has a non-zero scale (the in-range form; the unbounded `∀ i, (vars[i]!).scale ≠ 0` is false on
    every state because `vars[i]!` is `default` with scale 0 beyond the end), constraint 0 is an unflagged
    equality.  (Kernel evaluation of the Rat model: `decide +kernel`.) -/
example : ∃ (st st' : St) (pos : Array Rat) (ret : Bool) (j : Nat), Hist st ∧
    (st.satisfy = (st', .ok pos ret) ∨ st.solve = (st', .ok pos ret)) ∧
    (∀ i : Nat, i < st'.vars.size → (st'.vars[i]!).scale ≠ 0) ∧
    j < st'.cons.size ∧ (st'.cons[j]!).eq = true ∧ (st'.cons[j]!).unsat = false ∧
    ¬ (∀ i : Nat, (st'.vars[i]!).scale ≠ 0) := by
  have hok : (match exampleEq.solve with | (_, .ok _ _) => true | _ => false) = true := by
    decide +kernel
  have hsc : ∀ i : Nat, i < exampleEq.solve.1.vars.size → (exampleEq.solve.1.vars[i]!).scale ≠ 0 := by
    decide +kernel
  have hj : 0 < exampleEq.solve.1.cons.size ∧ (exampleEq.solve.1.cons[0]!).eq = true ∧
      (exampleEq.solve.1.cons[0]!).unsat = false := by decide +kernel
  have hbad : ¬ (exampleEq.solve.1.vars[3]!).scale ≠ 0 := by decide +kernel
  have hH : Hist exampleEq := Hist.init _ _ (by
    intro c hc
    simp only [List.mem_toArray, List.mem_cons, List.not_mem_nil, or_false] at hc
    rcases hc with rfl | rfl <;> simp [mkCon])
  rcases h : exampleEq.solve with ⟨st', o⟩
  rw [h] at hok hsc hj hbad
  cases o with
  | ok pos ret => exact ⟨exampleEq, st', pos, ret, 0, hH, Or.inr h, hsc, hj.1, hj.2.1, hj.2.2, fun hall => hbad (hall 3)⟩
  | _ => simp at hok
#guard (match ((exampleEq.solve.1.addConstraint (mkCon 2 0 1 false)).setDesired 0 7).satisfy with
        | (st', .ok _ _) => st'.cons.any (·.unsat) && st'.invOk | _ => false)

/-- positions inside a block are determined by offsets: the slack of a constraint whose ends share a
    block is `offset_r − gap − offset_l`, whatever the block position -/
theorem block_slack_offsets (st : St) (c : Con)
    (hb : (st.vars[c.l]!).block = (st.vars[c.r]!).block) :
    st.uval c.r - c.gap - st.uval c.l = (st.vars[c.r]!).offset - c.gap - (st.vars[c.l]!).offset :=
  slack_same_block st c hb

/-- `scale_i · position_i = ps.scale·posn + offset_i` (scale ≠ 0): ties `Constraint::slack()` as the
    solver evaluates it to the exit scan on reported positions -/
theorem scaled_position (st : St) (i : Nat) (hs : (st.vars[i]!).scale ≠ 0) :
    (st.vars[i]!).scale * st.pos i = st.uval i :=
  scale_mul_pos st i hs

end AdaptaVerif.Props.C01
