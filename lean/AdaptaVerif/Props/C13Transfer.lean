/-
C13 — the half-choice of `transferStraightConstraintChoose::operator()` (bend-split bookkeeping).
`Gen/TopoTransferTie.lean` is regenerated from /repo's topology_constraints.cpp on every run
(check/props/C13.py, `_gen_transfer_tie`); the theorems below tie it to the hand model and state
what the model means geometrically and that its XDIM and YDIM cases are each other's transpose.
A change of the tie condition in the source breaks `gen_transfer_is_model`.
-/
import AdaptaVerif.Gen.TopoTransferTie
import AdaptaVerif.Model.TopoTransfer
import AdaptaVerif.Check.Topo
import Mathlib.Tactic.Linarith
namespace AdaptaVerif.Props.C13Transfer
open AdaptaVerif.Model.TopoTransfer AdaptaVerif.Check.Topo

/-- the generated choice function is the model -/
theorem gen_transfer_is_model (dim ri : Nat) (pos mid : Rat) :
    AdaptaVerif.Gen.TopoTransferTie.destIsLeft dim ri pos mid = destIsLeft dim ri pos mid := by
  unfold AdaptaVerif.Gen.TopoTransferTie.destIsLeft destIsLeft tieToLeft
  rfl

/-- XDIM and YDIM treat ties alike up to transposition of the picture -/
theorem tie_transpose_symmetry (ri : Nat) :
    tieToLeft 1 (transposeCorner ri) = tieToLeft 0 ri ∧
    tieToLeft 0 (transposeCorner ri) = tieToLeft 1 ri := by
  unfold tieToLeft transposeCorner
  by_cases h1 : ri = 1
  · subst h1; decide
  by_cases h3 : ri = 3
  · subst h3; decide
  · have e1 : (ri == 1) = false := by simpa using h1
    have e3 : (ri == 3) = false := by simpa using h3
    simp [h1, h3, e1, e3]

/-- Geometric meaning of the tie rule: a constraint whose scan position equals the new bend's goes
    to the lower half exactly when its corner is a *maximum* corner of its node in the scan
    coordinate, i.e. the node lies on the low side of that scan line (any non-degenerate node). -/
theorem tie_to_left_iff_node_on_low_side (dim ri : Nat) (n : NodeRect) (hd : dim < 2) (hr : ri < 4)
    (hx : n.minX < n.maxX) (hy : n.minY < n.maxY) :
    tieToLeft dim ri = true ↔
      conjC dim (cornerX n ri) (cornerY n ri) = conjC dim n.maxX n.maxY := by
  have hx' : n.minX ≠ n.maxX := ne_of_lt hx
  have hy' : n.minY ≠ n.maxY := ne_of_lt hy
  have hdim : dim = 0 ∨ dim = 1 := by omega
  have hri : ri = 0 ∨ ri = 1 ∨ ri = 2 ∨ ri = 3 := by omega
  rcases hdim with rfl | rfl <;> rcases hri with rfl | rfl | rfl | rfl <;>
    simp [tieToLeft, conjC, cornerX, cornerY, hx', hy']

/-- below / above the bend there is no choice to make -/
theorem destIsLeft_off_tie (dim ri : Nat) (pos mid : Rat) :
    (pos < mid → destIsLeft dim ri pos mid = true) ∧ (mid < pos → destIsLeft dim ri pos mid = false) := by
  unfold destIsLeft
  constructor
  · intro h; simp [h]
  · intro h
    have h1 : ¬ pos < mid := not_lt.mpr (le_of_lt h)
    have h2 : ¬ pos = mid := fun e => by rw [e] at h; exact lt_irrefl _ h
    simp [h1, h2]

end AdaptaVerif.Props.C13Transfer
