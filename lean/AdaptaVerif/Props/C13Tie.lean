/-
C13 — tie theorems: the TriConstraint kernels generated from /repo's libtopology/topology_constraints.cpp
by cpp2lean on every run (member functions; member reads and `u->initialPos(scanDim)` … mapped to
explicit parameters; FILE_LOG statements skipped) are the hand model Model/Tri.lean that the
safe-step theorems of Props/C13.lean are about; the generated `maxSafeAlpha_pre` (the
COLA_ASSERT(iSlack>=fSlack) in the msa<0 branch) is the model's `maxSafeAlphaAssertOk`.
-/
import AdaptaVerif.Gen.Tri
import AdaptaVerif.Model.Tri
import Mathlib.Tactic.Ring
namespace AdaptaVerif.Props.C13Tie
open AdaptaVerif.Model.Tri

theorem gen_slack_is_model (ux vx wx p g : Rat) (leftOf : Bool) (u1 u2 v1 v2 w1 w2 : Rat) :
    AdaptaVerif.Gen.Tri.slack ux vx wx p g leftOf u1 u2 v1 v2 w1 w2 = slack p g leftOf ux vx wx ∧
    AdaptaVerif.Gen.Tri.slackAtFinal p g leftOf u1 u2 v1 v2 w1 w2 = slack p g leftOf u2 v2 w2 ∧
    AdaptaVerif.Gen.Tri.slackAtInitial p g leftOf u1 u2 v1 v2 w1 w2 = slack p g leftOf u1 v1 w1 := by
  refine ⟨?_, ?_, ?_⟩ <;> simp [AdaptaVerif.Gen.Tri.slack, AdaptaVerif.Gen.Tri.slackAtFinal,
    AdaptaVerif.Gen.Tri.slackAtInitial, slack]

theorem gen_maxSafeAlpha_is_model (p g : Rat) (leftOf : Bool) (u1 u2 v1 v2 w1 w2 : Rat) :
    AdaptaVerif.Gen.Tri.maxSafeAlpha p g leftOf u1 u2 v1 v2 w1 w2 = maxSafeAlpha p g leftOf u1 u2 v1 v2 w1 w2 := by
  have hs := (gen_slack_is_model 0 0 0 p g leftOf u1 u2 v1 v2 w1 w2).2.1
  simp only [AdaptaVerif.Gen.Tri.maxSafeAlpha, maxSafeAlpha, hs, msaNum, msaDen, decide_eq_true_eq]
  by_cases h1 : slack p g leftOf u2 v2 w2 ≥ 0
  · simp only [h1, if_true]
  · simp only [h1, if_false]
    by_cases h2 : u2 - u1 + p * (u1 - u2 + v2 - v1) + w1 - w2 = 0
    · simp only [h2, if_true]
    · simp only [h2, if_false]
      by_cases h3 : (w1 - g - u1 + p * (u1 - v1)) / (u2 - u1 + p * (u1 - u2 + v2 - v1) + w1 - w2) < 0 <;> simp [h3]

theorem gen_maxSafeAlpha_assert_is_model (p g : Rat) (leftOf : Bool) (u1 u2 v1 v2 w1 w2 : Rat) :
    AdaptaVerif.Gen.Tri.maxSafeAlpha_pre p g leftOf u1 u2 v1 v2 w1 w2 =
      maxSafeAlphaAssertOk p g leftOf u1 u2 v1 v2 w1 w2 := by
  have hs := gen_slack_is_model 0 0 0 p g leftOf u1 u2 v1 v2 w1 w2
  simp only [AdaptaVerif.Gen.Tri.maxSafeAlpha_pre, AdaptaVerif.Gen.Tri.slackAtFinal_pre,
    AdaptaVerif.Gen.Tri.slackAtInitial_pre, AdaptaVerif.Gen.Tri.slack_pre, maxSafeAlphaAssertOk, hs.2.1, hs.2.2,
    msaNum, msaDen, decide_eq_true_eq, Bool.true_and, Bool.and_true]
  split_ifs <;> simp_all

end AdaptaVerif.Props.C13Tie
