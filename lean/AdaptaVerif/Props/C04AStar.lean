/-
C04 — the A* search on the polyline problem (Model/PolyAStar.lean: the problem `AStarPathPrivate::search` solves for
a polyline connector, built from libavoid's dumped visibility graph; the loop itself is Part 1 of Model/AStar.lean,
with PENDING / DONE keyed on (vertex, previous vertex) and a queued node improved IN PLACE by a smaller g).
The driver runs this model on every dumped graph and compares its DONE list with the expansion order of the real
search (DebugHandler tap).  The theorems: the modelled discipline returns a cheapest route of the search space
whenever the dumped heuristic passes the per-graph consistency check (exact comparator); the moves of the problem
are exactly the admissible moves of the search space of Check/OwnGraph.lean, charged as `cost()` charges them.
-/
import AdaptaVerif.Lemmas.PolyAStar
namespace AdaptaVerif.Props.C04AStar
open AdaptaVerif.Model.AStar AdaptaVerif.Model.PolyAStar AdaptaVerif.Check.OwnGraph
open AdaptaVerif.Lemmas.AStarSpec AdaptaVerif.Lemmas.PolyAStar

/-- **Optimality of the open-list discipline on the polyline problem**, every dumped graph, every fuel: if the
    heuristic passes `consistent` (h(v) ≤ |vw| + h(w) on the dumped numbers), the penalty is non-negative and the
    comparator is exact (eps = 0), then the node the search returns has the smallest g among ALL routes of the state
    graph from the source to the target that meet the target only at their end — any number of vertices, any bends.
    (In particular a queued (vertex, previous vertex) state that is reached again more cheaply must take its new
    place in the open list: the seeded change C04-4 breaks exactly the refinement of this model by the C++.) -/
theorem poly_search_optimal (g : PolyGraph) (heps : g.eps = 0) (hst : g.src ≠ g.tar) (hpen : 0 ≤ g.S.pen)
    (hc : consistent g = true) (fuel : Nat) (b : Node) (done : List Node)
    (h : search (problem g) fuel (init (problem g)) = .found b done) :
    ∀ u c path, Reach (problem g) g.tar (some u) c path → g.tar ∉ path.tail → b.g ≤ c := by
  have htar : (problem g).tar = g.tar := rfl
  refine AdaptaVerif.Lemmas.AStarOpt.search_optimal_textbook (problem g) (fun v _ => hOf g v) heps hst rfl ?_ ?_ ?_
    fuel b done h
  · intro pv v s hs
    obtain ⟨wd, _, he⟩ := mem_succs g pv v s hs
    obtain ⟨hw, hh, _⟩ := succOf_some g pv v wd s he
    rw [hh, hw]
  · intro pv
    simp [hOf, htar]
  · intro pv v s hs
    exact step_consistent g hpen hc pv v s hs

/-- **The moves of the problem are the admissible moves of the search space**: an examined edge that survives the
    skip rules does not go straight back, passes `validateBendPoint`, leads to a shape corner or to the target, and
    costs the dumped edge length plus penalty · the bends `cost()` charges (none on the first leg). -/
theorem poly_moves_admissible (g : PolyGraph) (pv : Option Nat) (v : Nat) (s : Succ)
    (h : some s ∈ (problem g).succs pv v) :
    ∃ d, (s.w, d) ∈ g.adj.getD v [] ∧ admissible g.S pv v s.w = true ∧ (g.corner s.w = true ∨ s.w = g.tar) ∧
      s.c = d + g.S.pen * (bendOf g.S pv v s.w : Nat) ∧ s.h = hOf g s.w := by
  obtain ⟨wd, hwd, he⟩ := mem_succs g pv v s h
  obtain ⟨hw, hh, hne, hcor, hcost⟩ := succOf_some g pv v wd s he
  refine ⟨wd.2, by rw [hw]; exact hwd, ?_, by rw [hw]; exact hcor, ?_, by rw [hw]; exact hh⟩
  · cases pv with
    | none => rfl
    | some p =>
      simp only at hcost
      simp only [admissible, Bool.and_eq_true, bne_iff_ne, ne_eq]
      rw [hw]
      exact ⟨fun hk => hne (by rw [hk]), hcost.1⟩
  · cases pv with
    | none =>
      simp only at hcost
      simp [bendOf, hcost]
    | some p =>
      simp only at hcost
      rw [hw]
      simp [bendOf, hcost.2]

-- non-vacuity: source 0, corners 1 and 2, target 3; 0-1-3 (one bend, penalty 1/2) and 0-2-3; consistent heuristic;
-- the model finds the cheaper route with g = 5/2
example :
    let g : PolyGraph :=
      { S := { n := 4, edges := [], bend := (fun _ _ _ => 1), ok := (fun _ _ _ => true), pen := 1 / 2 }
        adj := #[[(1, 1), (2, 2)], [(0, 1), (3, 1)], [(0, 2), (3, 2)], [(1, 1), (2, 2)]]
        hs := #[2, 1, 2, 0]
        corner := (fun v => v == 1 || v == 2)
        src := 0
        tar := 3
        eps := 0 }
    consistent g = true ∧ (run g).cost = some (5 / 2) := by decide +kernel

-- non-vacuity of `poly_search_optimal` (all hypotheses jointly) and of `poly_moves_admissible`, on the graph above:
-- the search is `found`, so every route of the state graph costs at least the returned 5/2; and the move
-- 1 → 3 after 0 → 1 is a successor (one bend, cost 1 + 1/2)
example :
    let g : PolyGraph :=
      { S := { n := 4, edges := [], bend := (fun _ _ _ => 1), ok := (fun _ _ _ => true), pen := 1 / 2 }
        adj := #[[(1, 1), (2, 2)], [(0, 1), (3, 1)], [(0, 2), (3, 2)], [(1, 1), (2, 2)]]
        hs := #[2, 1, 2, 0]
        corner := (fun v => v == 1 || v == 2)
        src := 0
        tar := 3
        eps := 0 }
    (∀ u c path, Reach (problem g) g.tar (some u) c path → g.tar ∉ path.tail → (5 / 2 : Rat) ≤ c) ∧
    (∃ d, ((3 : Nat), d) ∈ g.adj.getD 1 [] ∧ admissible g.S (some 0) 1 3 = true ∧ (3 / 2 : Rat) = d + g.S.pen * (bendOf g.S (some 0) 1 3 : Nat)) := by
  intro g
  have hcost : (run g).cost = some (5 / 2) := by decide +kernel
  constructor
  · cases h : run g with
    | found b done =>
      rw [h] at hcost
      have hb : b.g = 5 / 2 := Option.some.inj hcost
      rw [← hb]
      exact poly_search_optimal g rfl (by decide) (by decide +kernel) (by decide +kernel) (fuel g) b done h
    | noPath => rw [h] at hcost; cases hcost
    | outOfFuel => rw [h] at hcost; cases hcost
  · obtain ⟨d, h1, h2, _, h4, _⟩ := poly_moves_admissible g (some 0) 1 ⟨3, 3 / 2, 0⟩ (by decide +kernel)
    exact ⟨d, h1, h2, h4⟩

end AdaptaVerif.Props.C04AStar
